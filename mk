#!/bin/bash
# developer helper: refresh _CoqProject/Makefile and build targets (default: everything)
here="$(cd "$(dirname "$0")" && pwd)"
cd "$here" && /venv/bin/python tools/py2coq.py 2>/dev/null | grep -v conda; PYTHONPATH=$here/tools /venv/bin/python -c "import harness; harness.ensure_makefile()" 2>/dev/null
cd coq && timeout 900 make -j16 "$@" > /tmp/mk.log 2>&1; rc=$?
grep -v "^COQC\|^COQDEP\|^Axioms:\|^  :\|^    \|^[A-Z][A-Za-z]*\.[a-z_A-Z]*$\|Closed under\|CLEAN\|CoqMakefile\|sig_not_dec\|Classical_Prop.classic" /tmp/mk.log
echo "mk rc=$rc"
