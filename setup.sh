#!/bin/bash
# Build the whole Coq development from files on disk (offline). Full .vo build, never -vos/-vok.
set -e
here="$(cd "$(dirname "$0")" && pwd)"
export PYTHONPATH="/repo/src:$here/tools" PYTHONHASHSEED=0 PIP_NO_INDEX=1 PYTHONDONTWRITEBYTECODE=1
cd "$here"
/venv/bin/python tools/py2coq.py 2> >(grep -v conda >&2)
/venv/bin/python -c "import sys; sys.path.insert(0,'tools'); import harness; harness.ensure_makefile()" 2> >(grep -v conda >&2)
cd coq
timeout 3000 make -j16
echo SETUP-OK
