#!/usr/bin/env python3
"""Writes /verif/MANIFEST.json from the table below (kept next to the checks so it stays current)."""
import json
import os

ROOT = os.path.dirname(os.path.dirname(os.path.abspath(__file__)))
ALL = [f"C{i:02d}" for i in range(1, 21)]

CLAIMED = {
    "C14": {
        "text": "Coq theorems (props/C14.v) over the model regenerated from aggr.py by tools/py2coq.py: a+b = Aggregates of "
                "the concatenation for all sample sizes >= 2 (count, every mean, variance, covariance), commutativity and "
                "associativity for arbitrary real aggregates, ratio_var/ratio_cov = sample (co)variance of the linearised "
                "ratios incl. None = constant 1, and the three special cases; tie = regeneration + exact Fraction differential",
        "note": "trusted: Coq kernel, stdlib real-number axioms (sig_forall_dec, functional_extensionality_dep), the "
                "translator's reading of the Python subset, Fraction arithmetic; the floating-point clause is validated, not proved",
        "technique": "Coq proof (induction + field) over a translator-generated model; exact-rational differential execution",
        "design": "DESIGN.md section 5, C14",
    },
    "C07": {
        "text": "Coq theorems (props/C07.v) over the model regenerated from metrics/mean.py: field identities, p-value in "
                "[0,1], unbounded side, interval contains estimate (two-sided: all levels; one-sided: level >= 1/2), relative "
                "interval for means of equal sign, p-value/interval duality, complementarity of one-sided p-values, "
                "two-sided = 2*min, nesting in the confidence level - for every distribution family satisfying laws L1-L6 "
                "and all admissible statistics; refutation witness for one-sided level < 1/2 in props/C07_findings.v",
        "note": "trusted: Coq kernel, stdlib real axioms (+ Classical_Prop.classic via Rpower/exp lemmas), translator, "
                "distribution laws as hypotheses (satisfiable: logistic witness family), stand-in shims; floats outside the theorem",
        "technique": "Coq proof over translator-generated model with distribution-law hypotheses; exact differential with "
                     "stand-in functions; relation oracle on the real code",
        "design": "DESIGN.md section 5, C07",
    },
    "C04": {
        "text": "Coq theorems (props/C04.v): for all samples (sizes >= 2, non-zero variance), all 12 option cells and every "
                "confidence level in (0,1), every field of the regenerated Mean analysis applied to the exact aggregates equals "
                "an independently written textbook Student/Welch/Z test on the raw observations (lib/Textbook.v); relative "
                "interval = log-scale delta-method interval for means of equal sign; composed with C01 and C12: the result rows of "
                "a builder's query plan, read back by _get_aggregates, give the same analysis as the exact aggregates",
        "note": "trusted: Coq kernel, stdlib real axioms, translator, distribution laws L1-L6 as hypotheses (satisfiable), "
                "engines evaluate plans as lib/PlanSem reads them (C01); floats outside the theorem (oracle tolerance 1e-7)",
        "technique": "Coq proof: translator-generated model = independent textbook specification; exact differential; "
                     "scipy reference oracle on the public API",
        "design": "DESIGN.md section 5, C04",
    },
    "C05": {
        "text": "Coq theorems (props/C05.v): RatioOfMeans on exact aggregates = the textbook test of C04 on the linearised "
                "observations r_g + (x_i - r_g y_i)/mean_g(y); per-variant mean/variance of the linearised rows = ratio of "
                "means / ratio_var; denominator of ones or absent = Mean; Mean(value, covariate) = RatioOfMeans(value, None, "
                "covariate, None) from the generated super().__init__ wiring",
        "note": "as C04",
        "technique": "Coq proof over translator-generated model; exact differential; linearised-rows reference oracle",
        "design": "DESIGN.md section 5, C05",
    },
    "C06": {
        "text": "Coq theorems (props/C06.v): analysis with covariates = the test applied to Y - theta*(X - xbar) with the "
                "pooled coefficient theta = cov/var (linearisations for ratio metrics), Mean instance shape lemmas, weighted "
                "adjusted means = pooled mean, invariance under affine maps of the covariate and under rescaling of covariate "
                "columns, zero-variance covariate = unadjusted result",
        "note": "trusted: Coq kernel, stdlib real axioms, translator; floats outside the theorem",
        "technique": "Coq proof over translator-generated model (uses the C14 concatenation theorem); exact differential; "
                     "regression-from-rows reference oracle and metamorphic runs",
        "design": "DESIGN.md section 5, C06",
    },
    "C17": {
        "text": "Coq theorems (props/C17.v): scaling law at the statistics level (means x k, variances x k^2 => means, effect, "
                "absolute interval x k; p-value, statistic, relative effect and interval unchanged) lifted to rows for every "
                "metric kind with covariates through the CUPED regression form; common factor of numerator and denominator "
                "cancels; swapping roles with mirrored alternative negates effect and statistic, mirrors the interval, "
                "exchanges the means and keeps the p-value",
        "note": "trusted: Coq kernel, stdlib real axioms, translator, laws L2/L5/L6 for the swap; floats outside the theorem",
        "technique": "Coq proof over translator-generated model; exact differential; metamorphic oracle on the public API",
        "design": "DESIGN.md section 5, C17",
    },
    "C19": {
        "text": "Coq theorems (props/C19.v) over check_scalar/auto_check regenerated from utils.py into a universe of Python "
                "values (every int, every float incl. NaN/+-inf, bool, str, sequences, None): for every standard option and "
                "every value, accepted <-> in the documented domain (model/C19_spec.v); accepted values are returned "
                "unchanged; NaN rejected; plus the exhaustive probe grid over every entry point (constructors, set_config, "
                "config_context, multiplicity functions, data generators) against the same domain predicate",
        "note": "trusted: Coq kernel (no axioms), translator tools/utils2coq.py, lib/PyVal reading of isinstance/comparison "
                "semantics, harness encoding of probe values; constructors other than auto_check are covered by the grid only",
        "technique": "Coq proof by case analysis over a Python-value universe on a translator-generated model; exhaustive grid differential",
        "design": "DESIGN.md section 5, C19",
    },
    "C13": {
        "text": "Coq theorems (props/C13.v) over the hand model of config.py + constructor parameter resolution: config_context "
                "restores the configuration on every exit path for arbitrary nested bodies, set_config is atomic, get_config "
                "returns a copy, explicit arguments win / defaults come from the configuration in force, later history never "
                "alters constructed metrics, the configuration stays valid (link to C19)",
        "note": "trusted: Coq kernel (no axioms), hand model tied only by the history differential (exact states, exception "
                "kinds, metric attributes), contextmanager/finally semantics as modelled; mutable-value aliasing not modelled",
        "technique": "Coq proof (nested induction over operation trees) on a hand state-machine model; random-history differential",
        "design": "DESIGN.md section 5, C13",
    },
    "C10": {
        "text": "Coq theorems (props/C10.v) over the loops and corrections regenerated from multiplicity.py (stable sort = "
                "Python sorted): flag = (p <= alpha_adj) for every procedure/correction in input order; adjusted p-values are "
                "the running min/max of the corrected values in rank order (closed forms) and preserve the raw order; rejection "
                "sets are the step-up / step-down sets; rejected <-> pvalue_adj <= alpha for BH, BY, Hochberg-Bonferroni, "
                "Holm-Bonferroni and (p-values in [0,1]) Hochberg-/Holm-Sidak; BH/BY range; order independence (same multiset of "
                "p-values in another order gives every hypothesis the same adjusted p-value and decision, ties included) for "
                "all six combinations. Purity is validated by the oracle (deep copies), not proved",
        "note": "trusted: Coq kernel, stdlib real axioms, translator incl. loop pattern + lib/Loop.v, exact-number wrapper in the "
                "harness; Python sorted() stable",
        "technique": "Coq proof (list induction over the sorted family) on a translator-generated model; exact differential; textbook oracle",
        "design": "DESIGN.md section 5, C10",
    },
    "C03": {
        "text": "Coq theorems (props/C03.v) over the hand model of the orchestration (model/Experiment.v): with only aggregated "
                "metrics the fetch trace is exactly one grouped aggregate query whatever the number of metrics, pairs and rows; "
                "with row-level metrics exactly one more fetch of exactly the declared columns (+ variant); for ANY mixture of metrics "
                "the trace is the shared reads, the variants fetch only when neither exists, then only calls by metrics the shared "
                "reads do not serve; solve_power dispatches by power class: at most one ungrouped aggregate query, first, exactly one "
                "when no metric reads the data itself. Tie: fetch counters on Polars LazyFrame.collect and Ibis Table.to_pyarrow (rows, columns)",
        "note": "trusted: Coq kernel (no axioms), hand model tied by the counter differential only, counters see every "
                "materialisation path; 'one row per variant' observed, and part of the plan semantics of C01",
        "technique": "Coq proof (induction over the metric list) on a hand trace model; fetch-counter differential on lazy backends",
        "design": "DESIGN.md section 5, C03",
    },
    "C12": {
        "text": "Coq theorems (props/C12.v): the pair functions and the ValueError guard regenerated from Experiment.analyze give "
                "exactly the documented pairs (control vs every other variant / all pairs with the smaller id as control, no "
                "duplicates, guard iff not exactly one pair without all_variants); a Mean/RatioOfMeans entry depends only on the "
                "statistics the metric declared (count, means, variances, covariances of pairs of different columns); the merged request "
                "(analysis and power analysis) covers every aggregated metric's own request; the power result has one entry per metric "
                "with a power analysis, in definition order. Differential: every entry equals the metric analysed alone, on five backends, "
                "with int/str/bool ids; declared statistics/rows of user-defined metrics are exact; solve_power likewise",
        "note": "trusted: Coq kernel + real axioms (agree theorem), exp2coq pair translator, variant ids as integers in the model; "
                "dispatch and the non-Mean metrics only through the differential",
        "technique": "Coq proof over translator-generated pair functions and formulas; stand-alone-vs-experiment differential",
        "design": "DESIGN.md section 5, C12",
    },
    "C11": {
        "text": "Coq theorems (props/C11.v) over the model regenerated from metrics/proportion.py: true counts reported, method "
                "selection (binom / auto below 1000 / norm), tested share r/(1+r) with scalar = mapping form, closed form of the "
                "normal path with the continuity correction (half a unit towards zero, never across), swap invariance and range "
                "of the normal-path p-value; the exact two-sided binomial test (hand definition) is swap-symmetric and a "
                "probability, hence the exact path is swap invariant for any oracle with that symmetry. That "
                "scipy.stats.binomtest is that test is validated against an exact rational computation (C11_binom_partial)",
        "note": "trusted: Coq kernel, stdlib real axioms, translator (Proportion spec), law L2/L6 of the normal family, scipy "
                "binomtest / norm.sf",
        "technique": "Coq proof over translator-generated model; exact differential with stand-ins; exact-rational binomial oracle",
        "design": "DESIGN.md section 5, C11",
    },
    "C08": {
        "text": "Coq theorems (props/C08.v) over rom_power_from_stats regenerated from mean.py: power = rejection probability of the "
                "configured test under the alternative with groups n/(1+r), n r/(1+r) and standardised effect delta/se "
                "(noncentral t with the test's df / shifted normal); closed form for Z; range [0,1]; strictly monotone in the "
                "effect for one-sided alternatives; Z power strictly monotone in n (se = sqrt(v(1+r)^2/(n r))); a covariate never "
                "raises the variance entering the computation (Cauchy-Schwarz form). Monotonicity in n for t and two-sided "
                "monotonicity are validated by sweeps (partial)",
        "note": "trusted: Coq kernel, stdlib real axioms, translator, laws L1-L9 as hypotheses (satisfiable), scipy reference in the oracle",
        "technique": "Coq proof over translator-generated model with distribution-law hypotheses; exact differential; scipy reference oracle",
        "design": "DESIGN.md section 5, C08",
    },
    "C09": {
        "text": "Coq theorems (props/C09.v) over find_boundary / rom_solve_power_from_stats regenerated from mean.py: loop exit and "
                "exhaustion of _find_boundary; the three solver modes; the n_obs bracket leaves each group more than one observation "
                "for every ratio > 0; under the brentq contract the solved effect / n_obs reproduces the target power, lies in the "
                "bracket (sign follows the alternative); ceil(root) is the minimal n given monotone power; the rows (template "
                "translation of the loops) are the product effect sizes x n_obs in input order with abs/rel related by the mean",
        "note": "trusted: Coq kernel, stdlib real axioms, translator (incl. _find_boundary loop pattern), brentq contract, C08 "
                "monotonicity partial for minimality",
        "technique": "Coq proof over translator-generated model with solver-contract hypothesis; exact control-flow differential; "
                     "feed-back oracle on the public API",
        "design": "DESIGN.md section 5, C09",
    },
    "C01": {
        "text": "Coq theorems (props/C01.v): under a denotational semantics of the plan language (lib/PlanSem.v: with_columns, "
                "window mean over the partition, GROUP BY) the plan of each of the three builders of aggr.py yields, for every "
                "request and every table, one row per variant carrying the exact count, means, unbiased variances and "
                "covariances of that variant's rows (naming hypotheses forced by the proof: data columns are not aliases; cov "
                "aliases do not collide = the known finding); the (n-1) normalisation matters; two-pass shape (offset-free). "
                "The plans (model/ReadPlan.plan_of_spec) are tied to the REAL narwhals and ibis builders (both branches) by "
                "plan capture with equality decided in Coq. Partial: engines evaluate plans as the semantics reads them; error bound",
        "note": "trusted: Coq kernel, stdlib real axioms, plan recorders, lib/PlanSem.v as the meaning of a plan, the five "
                "executable engines (differential incl. large-table probe); ibis native var/cov; no rounding-error theorem",
        "technique": "Coq proof of the plan denotation (list induction, field) + plan reification from the real query builders "
                     "compared in Coq; exact-rational differential on five backends",
        "design": "DESIGN.md section 5, C01",
    },
    "C02": {
        "text": "Coq theorems (props/C02.v): the exact aggregates are invariant under row permutations and under any change of "
                "columns a metric does not use; results depend on the declared statistics only; any builder's plan gives the same result "
                "rows on any reordering of the table; a chunked table denotes the concatenation of its chunks, so chunk boundaries and "
                "chunk order are irrelevant. Differential across pandas / "
                "polars / polars-lazy / pyarrow / ibis-sqlite x row orders x chunkings x extra columns; variant key types",
        "note": "trusted: as C01 and C12; chunking / dtype conversion only through the differential (C02_chunking_partial)",
        "technique": "Coq proof (permutation / extensionality invariance) + cross-backend metamorphic differential",
        "design": "DESIGN.md section 5, C02",
    },
    "C15": {
        "text": "Coq theorems (props/C15.v): model of read_granular - one entry per distinct variant, each with exactly its own "
                "rows (table order) restricted to the declared columns, row counts add up (nothing lost/duplicated/leaked), a "
                "shared union fetch gives each metric the same values; the result-field and scipy.stats.bootstrap argument wiring "
                "of Bootstrap.analyze_granular regenerated from resampling.py equals the documented one. Tie: exact row "
                "differential on five backends (+ re-chunked pyarrow); oracle vs scipy.stats.bootstrap with identical arrays/seed",
        "note": "trusted: Coq kernel (no axioms), hand model tied by differential, wiring extractor, scipy.stats.bootstrap",
        "technique": "Coq proof (list induction) on a hand model + regenerated wiring tables; exact row differential; scipy oracle",
        "design": "DESIGN.md section 5, C15",
    },
    "C16": {
        "text": "Coq theorems (props/C16.v) over the hand model of rendering (exact decimal rendering of the rational a float "
                "denotes): correct half-even rounding, the relative error bound 0.5*10^(1-s) for s significant digits (division-"
                "free form), the fuelled decimal-exponent search is floor(log10) for every binary64 magnitude, the digit text denotes the "
                "rounded value in the fixed-point AND the exponent layout (normalised mantissa also after a carry), the decimals "
                "re-derived after rounding never cause a second rounding, specials / sign / percent, right-justification and "
                "column widths of to_string, HTML escaping (no raw markup, unescape o escape = id), dataframe views (model/Views.v): "
                "columns = union of keys, rows in order, cells = row lookup, nothing lost, absent = null. Tie: exact string equality of format_num, to_string and to_html with "
                "the model (vm_compute) on thousands of floats incl. rounding boundaries and on random result objects; "
                "round-trip bound also checked exactly in Q on the real output; columns and null cells of to_arrow / to_pandas / "
                "to_polars = model, every view compared with to_dicts cell by cell; caller-supplied formatter honoured",
        "note": "trusted: Coq kernel (no axioms), hand model tied by string differential; digit generation/parsing and the float "
                "operations round()/log10/val*100 are idealised (validated for sig <= 6); pandas / polars / pyarrow constructors by differential",
        "technique": "Coq proof (integer arithmetic, list induction) on a hand rendering model; exact string differential",
        "design": "DESIGN.md section 5, C16",
    },
    "C18": {
        "text": "Coq theorems (props/C18.v) over genX/Aggr.v + genX/Mean.v: the text REGENERATED from aggr.py / mean.py read in an "
                "exception semantics of Python numbers (plain int / float, utils.Int / Float, raised exception; IEEE specials; "
                "Python operator dispatch incl. float op Int staying plain): for ALL input statistics that are numbers (any sign "
                "and size - every rounding error -, inf, NaN), all configurations and every total distribution family, "
                "analyze_aggregates returns a result with no raising field; the utils.div rule x/0 = +inf (x>0) / NaN; the point "
                "fields keep their exact values; the sqrt clamp and the saturating exp are necessary (witness lemmas). Tie: "
                "regeneration + primitive-operator differential + aggregates-level raise/kind/class differential",
        "note": "trusted: Coq kernel (no axioms), translator, hand-written semantics lib/PreludeX.v (compared with the real "
                "operators each run), scipy frozen distributions total; intermediate rounding/overflow not represented; backends via oracle only",
        "technique": "Coq proof (kind/taint derivation over a translator-generated model under an exception semantics); "
                     "operator-level and aggregates-level differential; degenerate-data oracle on five backends",
        "design": "DESIGN.md section 5, C18",
    },
    "C20": {
        "text": "Coq theorems (props/C20.v): (a) over the parameter expressions of every rng.* call and the _check_params domain "
                "REGENERATED from datasets.py - on the whole accepted domain every distribution parameter is valid in both "
                "variants (incl. the covariate draws for every value of the earlier draws), treatment odds = ratio, and with the "
                "textbook means the requested uplifts / control averages are exactly the expected relative differences, for users "
                "and sessions data; covariates carry no uplift; (b) over a hand model of the table assembly as a function of the "
                "Generator's return values - all documented value invariants, one row per user 0..n-1, sessions data = "
                "per-session explosion of the users of the same draws, covariates constant within a user, rounding facts. "
                "Tie: recorded rng parameters vs genQ, recorded draws replayed through the model vs the real table",
        "note": "trusted: Coq kernel, stdlib real axioms, extractor, hand model, textbook means + independence, numpy range "
                "contracts (observed), numpy determinism / return-type equality by oracle only (C20_generator_partial)",
        "technique": "Coq proof (field/lra over regenerated expressions; list induction over a hand model) + recording/replaying "
                     "the numpy Generator; statistical calibration oracle",
        "design": "DESIGN.md section 5, C20",
    },
}
REASONS = {}


def main():
    checks = []
    for pid in ALL:
        if pid not in CLAIMED:
            continue
        c = CLAIMED[pid]
        checks.append({
            "property_id": pid,
            "quick_cmd": f"./check {pid} --tier quick",
            "thorough_cmd": f"./check {pid} --tier thorough",
            "evidence_file": f"evidence/{pid}.json",
            "replay_cmd_template": f"./check {pid} --replay {{path}}",
            "engine": "coq-proof",
            "level_claimed": {"category": "proof", "text": c["text"], "design_ref": c["design"]},
            "level_note": c["note"],
            "technique": c["technique"],
        })
    na = [{"property_id": p, "reason": REASONS.get(p, "machinery for this property is not built yet (work in progress); "
                                                  "the design in DESIGN.md section 5 applies")}
          for p in ALL if p not in CLAIMED]
    m = {
        "version": 1,
        "setup_cmd": "./setup.sh",
        "hooks": {
            "guard": "TEA_TASTING_VERIF",
            "enable": "export TEA_TASTING_VERIF=1 (set by ./check); no hook code exists in /repo: all instrumentation is "
                      "monkey-patching inside the harness process",
            "baseline_off_cmd": "cd /repo && /venv/bin/python -m pytest -ra -q -p no:cacheprovider --timeout=900",
            "source_commits": [],
            "add_only": True,
        },
        "engines": [{"name": "coq-proof", "path": "coq/", "serves_properties": sorted(CLAIMED),
                     "kind_free_text": "Coq 8.16.1 development: lib/ (hand-written libraries), genR|genQ/ (regenerated from "
                                       "/repo by tools/py2coq.py on every run), model/ (hand models), proofs/, props/ "
                                       "(statements only); tools/ holds translator, harness and per-property "
                                       "correspondence/oracle modules"}],
        "checks": checks,
        "not_applicable": na,
        "notes": "Every check: regenerate models from /repo -> full .vo build of props/<id>.vo -> audit (forbidden "
                 "vernacular, Print Assumptions allow-list; coqchk in the thorough tier) -> correspondence (model evaluated "
                 "by vm_compute vs the real code on the same inputs) -> implementation-side property oracle / failing-input "
                 "search -> known_findings.json -> evidence.",
    }
    with open(os.path.join(ROOT, "MANIFEST.json"), "w") as fh:
        json.dump(m, fh, indent=1)
        fh.write("\n")


if __name__ == "__main__":
    main()
