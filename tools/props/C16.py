"""C16 - rendered results are faithful to the numbers and consistent across views."""
from __future__ import annotations

import html
import math
import random
import re
import struct
from fractions import Fraction as F

import harness as H

GEN = []
RULE = ("format_num: floats over 1e-12..1e15 (random mantissas, +-1 ulp around powers of ten, exact and near halfway cases of "
        "the rounding, integers, zero, negative zero, NaN, +-inf, None) x sig 1..6 x pct on/off; real utils.format_num vs "
        "model/Render.format_num_model evaluated by vm_compute on the exact rational value: string equality; plus the "
        "round-trip bound |parse(text) - x| <= 0.5 * 10^(1-sig) * |x| checked exactly in Q. Tables: random result objects "
        "(metric names / text with markup and unicode, numbers of all kinds, absent keys) - to_string / to_html of the real "
        "DictsReprMixin vs to_string_model / to_html_model on the to_pretty_dicts cells; to_dicts / to_arrow / to_pandas / "
        "to_polars expose the same rows in the same order")
TRUSTED = ["hand model model/Render.v (exact decimal rounding = float round()+format() on binary64: validated, not proved)",
           "xml.etree.ElementTree escaping", "C locale (no thousands separator by default)"]
ASSUMES = ["the float multiplication val * 100 (pct) and math.log10 / round() are idealised; validated for sig <= 6",
           "dataframe conversions: hand model model/Views.v (columns = union of keys in order of first appearance, cells = "
           "row lookup) tied by comparing columns and null cells with to_arrow / to_pandas / to_polars; the constructors of "
           "pyarrow / pandas / polars themselves only through the differential"]


def ulp_step(x, k):
    b = struct.unpack("<q", struct.pack("<d", x))[0]
    return struct.unpack("<d", struct.pack("<q", b + k))[0]


def rand_float(rng):
    r = rng.random()
    if r < 0.25:
        e = rng.randint(-12, 15)
        return rng.choice([-1, 1]) * rng.uniform(1, 10) * 10.0 ** e
    if r < 0.45:
        e = rng.randint(-12, 15)
        return ulp_step(10.0 ** e, rng.choice([-2, -1, 0, 1, 2])) * rng.choice([-1, 1])
    if r < 0.65:      # near a rounding boundary of some precision
        e = rng.randint(-6, 8)
        d = rng.randint(1, 99999)
        base = (d + 0.5) * 10.0 ** (e - 4)
        return ulp_step(base, rng.choice([-1, 0, 1]))
    if r < 0.75:
        return float(rng.randint(-10**7, 10**8))
    if r < 0.85:
        return rng.choice([0.0, -0.0, 0.001, 0.0009999999999999999, 9999999.5, 10_000_000.0, 9999999.0, 999.5, 99.95, 0.5, 1.5, 2.5])
    return rng.choice([-1, 1]) * rng.uniform(0, 1) ** 8 * 1e4


def fval(v):
    if v is None:
        return "FNone"
    if math.isnan(v):
        return "FNan"
    if math.isinf(v):
        return "(FInf true)" if v > 0 else "(FInf false)"
    fr = F(v)
    if v == 0 and math.copysign(1, v) < 0:
        return "(FNum 0 1)"      # negative zero: handled by the harness (sign), see below
    return f"(FNum ({fr.numerator}) {fr.denominator})"


HEADER = ("From Coq Require Import ZArith String Ascii List Bool.\nFrom TT Require Import model.Render.\nImport ListNotations.\n"
          "Definition codes (s : string) : list Z := map (fun c => Z.of_nat (nat_of_ascii c)) (to_list s).\n")


def decode(s):
    nums = [int(x) for x in re.findall(r"-?\d+", s)]
    return bytes(nums).decode("utf-8")


def correspondence(ctx):
    import tea_tasting.utils as U
    ok, out, dt, failed = H.make(["model/Render.vo"])
    if not ctx.oblige(ok, "correspondence", "build of model/Render.vo", out):
        return
    cases, terms, expect = [], [], []
    specials = [None, float("nan"), float("inf"), float("-inf")]
    for i in range(ctx.n(800, 40000)):
        v = specials[i] if i < len(specials) else rand_float(ctx.rng)
        sig = ctx.rng.choice([1, 2, 3, 3, 4, 5, 6])
        pct = ctx.rng.random() < 0.4
        real = U.format_num(v, sig, pct=pct, thousands_sep="_", decimal_point=".")
        scaled = v * 100 if (pct and v is not None and not (math.isnan(v) or math.isinf(v))) else v
        if isinstance(scaled, float) and scaled == 0 and math.copysign(1, scaled) < 0:
            ctx.count("negative_zero_skipped")
            continue
        if isinstance(scaled, float) and not math.isinf(scaled) and not math.isnan(scaled) and scaled != 0 \
                and not (1e-13 < abs(scaled) < 1e16):
            continue
        cases.append({"value": None if v is None else (v.hex() if isinstance(v, float) else v), "sig": sig, "pct": pct})
        terms.append(f"codes (format_num_model {fval(scaled)} {sig}%nat {'true' if pct else 'false'})")
        expect.append(real)
        ctx.case_seen((cases[-1]["value"], sig, pct))
        ctx.count("format:" + ("special" if i < 4 else ("exp" if "e" in real else "fixed")) + (":pct" if pct else ""))
        # round-trip bound, exactly in Q
        if isinstance(scaled, float) and scaled != 0 and math.isfinite(scaled):
            txt = real.rstrip("%").replace("_", "")
            back = F(txt)
            if abs(back - F(scaled)) > F(1, 2) * F(10) ** (1 - sig) * abs(F(scaled)):
                ctx.violations.append({"what": "format_num round-trip error above 0.5*10^(1-sig)", "detail": f"{v!r} sig={sig} pct={pct} -> {real!r}",
                                       "input": cases[-1]})
            digs = re.sub(r"e[+-]\d+$", "", txt).lstrip("-").replace(".", "").lstrip("0")
            if "e" not in txt and "." in txt and len(digs) != sig and len(txt.lstrip("-").split(".")[0].lstrip("0")) < sig:
                ctx.violations.append({"what": "format_num does not show sig significant digits", "detail": f"{v!r} sig={sig} -> {real!r}",
                                       "input": cases[-1]})
    res, errs = H.coq_eval_shards("c16", HEADER, terms)
    for e in errs:
        ctx.oblige(False, "correspondence", "vm_compute evaluation", e)
    for case, r, exp in zip(cases, res, expect):
        if r is None:
            continue
        got = decode(r)
        ctx.oblige(got == exp, "correspondence", "model/Render.format_num_model = real format_num (string equality)",
                   f"model={got!r} real={exp!r}", case)
        ctx.sample({**case, "text": exp}, limit=5)
    _tables(ctx)
    _views(ctx)


# ------------------------------------------------------------------ tables
NAMES = ["orders_per_user", "a<b>&c", "x", "Ünï", "m \"q\"", "long_metric_name_with_many_chars", "<script>", "&amp;",
         "007", "1e3", "nan", "inf", "12345.678", "-0", "1",      # text that looks like a number is still text
         "orders per user ", " lead", "two  blanks"]               # blanks at either end belong to the text


def rand_result(rng):
    import tea_tasting as tt
    from tea_tasting.metrics.mean import MeanResult
    n = rng.randint(1, 4)
    res = {}
    for name in rng.sample(NAMES, n):
        if rng.random() < 0.6:
            vals = [rand_float(rng) for _ in range(10)]
            if rng.random() < 0.2:
                vals[rng.randrange(10)] = float("nan")
            if rng.random() < 0.2:
                vals[4] = float("inf")
            res[name] = MeanResult(*vals)
        elif rng.random() < 0.5:
            res[name] = {"control": rand_float(rng), "treatment": rng.randint(-5, 5), "note": rng.choice(NAMES), "pvalue": rng.random(),
                         "rel_effect_size": rng.random() - 0.5}
        else:
            # a user-defined result with its own fields: any subset of a pool, so that rows may have equally many keys with
            # different names, keys in another order, or a superset / subset of another row's keys
            pool = ["pvalue", "statistic", "auc", "control", "treatment", "power", "u_stat"]
            ks = rng.sample(pool, rng.choice([2, 3, 3, 4]))
            res[name] = {k: (rng.random() if k != "u_stat" else rng.randint(0, 99)) for k in ks}
    return tt.experiment.ExperimentResult(res)


def view_fails(obj, dicts):
    """to_arrow / to_pandas / to_polars expose the rows of to_dicts: same order, every key of every row present with its
    value (a key absent from a row is null / NaN there). Keys whose values are not of one kind are left out (the
    property's quantifier: value types homogeneous per key)."""
    keys = list(dict.fromkeys(k for d in dicts for k in d))
    kind = lambda v: "num" if isinstance(v, (int, float)) and not isinstance(v, bool) else type(v).__name__
    homog = [k for k in keys if len({kind(d[k]) for d in dicts if d.get(k) is not None}) <= 1]
    fails = []

    def same(a, b):
        if b is None:
            return a is None or (isinstance(a, float) and a != a)
        if isinstance(b, float) and b != b:
            return a is None or (isinstance(a, float) and a != a)
        if isinstance(b, tuple):
            return list(a) == list(b) if a is not None else False
        return a == b
    if not dicts:
        return fails
    views = []
    try:
        views.append(("to_arrow", obj.to_arrow().select([k for k in homog if k in obj.to_arrow().column_names]).to_pylist(),
                      obj.to_arrow().column_names))
    except Exception as e:  # noqa: BLE001
        if set(homog) == set(keys):
            fails.append(f"to_arrow raised: {type(e).__name__}: {e}")
    try:
        pdf = obj.to_pandas()
        views.append(("to_pandas", pdf.to_dict("records"), list(pdf.columns)))
    except Exception as e:  # noqa: BLE001
        if set(homog) == set(keys):
            fails.append(f"to_pandas raised: {type(e).__name__}: {e}")
    try:
        pl_ = obj.to_polars()
        views.append(("to_polars", pl_.to_dicts(), list(pl_.columns)))
    except Exception as e:  # noqa: BLE001
        if set(homog) == set(keys):
            fails.append(f"to_polars raised: {type(e).__name__}: {e}")
    for view, rws, cols in views:
        if len(rws) != len(dicts):
            fails.append(f"{view} has {len(rws)} rows, to_dicts has {len(dicts)}")
            continue
        missing = [k for k in homog if k not in cols]
        if missing:
            fails.append(f"{view} lacks columns {missing} that rows of to_dicts have")
        for i, (r, d) in enumerate(zip(rws, dicts)):
            for k in homog:
                if k in cols and not same(r.get(k), d.get(k)):
                    fails.append(f"{view} row {i} key {k!r}: {r.get(k)!r} but to_dicts has {d.get(k)!r}")
                    break
    return fails


VIEWS_HEADER = ("From Coq Require Import ZArith String Ascii List Bool.\nFrom TT Require Import model.Render model.Views.\n"
                "Import ListNotations.\n"
                "Definition codes (s : string) : list Z := map (fun c => Z.of_nat (nat_of_ascii c)) (to_list s).\n"
                "Definition nulls (rows : list (list (string * unit))) : string := of_list (flat_map (fun r => map (fun c => "
                "match c with Some _ => \"1\"%char | None => \"0\"%char end) r) (snd (view rows))).\n"
                "Definition cols (rows : list (list (string * unit))) : string := join (String (ascii_of_nat 10) EmptyString) (fst (view rows)).\n")


def rand_custom_result(rng):
    """results of user-defined metrics only: rows with equally many keys under different names, permuted keys, sub- and
    supersets of one another"""
    import tea_tasting as tt
    pool = ["pvalue", "statistic", "auc", "control", "treatment", "power", "u_stat"]
    size = rng.choice([2, 3, 3, 4])
    res = {}
    for name in rng.sample(NAMES, rng.randint(2, 4)):
        ks = rng.sample(pool, size if rng.random() < 0.7 else rng.choice([1, 2, 5]))
        res[name] = {k: (rng.random() if k != "u_stat" else rng.randint(0, 99)) for k in ks}
    return tt.experiment.ExperimentResult(res)


def _views(ctx):
    """columns and null pattern of to_arrow / to_pandas / to_polars = model/Views.view on the key lists of to_dicts()"""
    import tea_tasting as tt
    ok, out, dt, failed = H.make(["model/Views.vo"])
    if not ctx.oblige(ok, "correspondence", "build of model/Views.vo", out):
        return
    cases, terms, expect = [], [], []
    for i in range(ctx.n(40, 800)):
        er = rand_result(ctx.rng) if i % 2 == 0 else rand_custom_result(ctx.rng)
        obj = er if ctx.rng.random() < 0.6 else tt.experiment.ExperimentResults({(0, 1): er, ("a", "b"): rand_result(ctx.rng)})
        dicts = obj.to_dicts()
        keylists = [list(d) for d in dicts]
        for f in view_fails(obj, dicts):
            ctx.violations.append({"what": f.split(":")[0], "detail": f, "input": {"dicts": repr(dicts)[:1500]}})
        rt = "[" + "; ".join("[" + "; ".join(f"({H.slit(k)}, tt)" for k in ks) + "]" for ks in keylists) + "]"
        try:
            ar = obj.to_arrow()
            observed = {"to_arrow": list(ar.column_names), "to_pandas": list(obj.to_pandas().columns),
                        "to_polars": list(obj.to_polars().columns)}
            pattern = "".join("0" if r.get(k) is None else "1" for r in ar.to_pylist() for k in ar.column_names)
        except Exception as e:  # noqa: BLE001 - mixed value types under one key (outside the property's quantifier)
            ctx.count("views_skipped:" + type(e).__name__)
            continue
        cases.append({"keys": keylists, "what": "columns"})
        terms.append(f"codes (cols {rt})")
        expect.append(observed)
        cases.append({"keys": keylists, "what": "nulls"})
        terms.append(f"codes (nulls {rt})")
        expect.append(pattern)
    res, errs = H.coq_eval_shards("c16v", VIEWS_HEADER, terms)
    for e in errs:
        ctx.oblige(False, "correspondence", "vm_compute evaluation (views)", e)
    for case, r, exp in zip(cases, res, expect):
        if r is None:
            continue
        got = decode(r)
        if case["what"] == "columns":
            want = got.split("\n") if got else []
            bad = {v: c for v, c in exp.items() if c != want}
            ctx.oblige(not bad, "correspondence", "columns of to_arrow / to_pandas / to_polars = model/Views.union_keys (order of first appearance)",
                       f"model={want} real={bad}", case)
        else:
            ctx.oblige(got == exp, "correspondence", "null cells of to_arrow = model/Views.view (a key absent from a row is null)",
                       f"model={got} real={exp}", case)
    ctx.count("views", len(cases))


def _tables(ctx):
    import tea_tasting as tt
    cases, terms, expect = [], [], []
    for i in range(ctx.n(60, 1500)):
        er = rand_result(ctx.rng)
        obj = er if ctx.rng.random() < 0.6 else tt.experiment.ExperimentResults({(0, 1): er, ("a", "b"): rand_result(ctx.rng)})
        keys = ctx.rng.choice([None, ["metric", "control", "pvalue"], ["metric", "absent_key", "rel_effect_size_ci"],
                               ["metric", "note", "treatment"], ["control", "metric"], ["pvalue", "note"]])     # text column last too
        if keys is not None and not isinstance(obj, tt.experiment.ExperimentResult):
            keys = ["variants"] + keys
        pretty = obj.to_pretty_dicts(keys)
        ks = list(keys if keys is not None else obj.default_keys)
        rows = [[d[k] for k in ks] for d in pretty]
        sl = lambda xs: "[" + "; ".join(H.slit(x) for x in xs) + "]"
        rt = "[" + "; ".join(sl(r) for r in rows) + "]"
        cases.append({"keys": ks, "rows": rows, "view": "to_string"})
        terms.append(f"codes (to_string_model {sl(ks)} {rt})")
        expect.append(obj.to_string(keys))
        cases.append({"keys": ks, "rows": rows, "view": "to_html"})
        terms.append(f"codes (to_html_model {sl(ks)} {rt})")
        expect.append(obj.to_html(keys))
        ctx.case_seen(repr(rows))
        # same rows in the same order in every view
        dicts = obj.to_dicts()
        if len(pretty) != len(dicts):
            ctx.violations.append({"what": "to_pretty_dicts and to_dicts have different numbers of rows", "input": {"rows": rows}})
        for pr, dd in zip(pretty, dicts):
            for k in ks:
                if isinstance(dd.get(k), str) and pr[k] != dd[k]:
                    ctx.violations.append({"what": "a text cell is not shown as it is", "detail": f"{k}: {dd[k]!r} rendered as {pr[k]!r}",
                                           "input": {"rows": rows}})
        lines = expect[-2].split("\n")
        if len(set(map(len, lines))) != 1 or len(lines) != len(rows) + 1:
            ctx.violations.append({"what": "to_string is not a rectangular table with one line per row", "detail": expect[-2],
                                   "input": {"rows": rows}})
        cells = re.findall(r"<t[dh]>(.*?)</t[dh]>", expect[-1], re.S)
        if [html.unescape(c) for c in cells] != ks + [c for r in rows for c in r]:
            ctx.violations.append({"what": "to_html cells (unescaped) differ from the to_pretty_dicts cells", "detail": expect[-1][:500],
                                   "input": {"rows": rows}})
        if any(("<" in c or ">" in c) for c in cells):
            ctx.violations.append({"what": "to_html cell contains a raw angle bracket", "detail": expect[-1][:500], "input": {"rows": rows}})
        for f in view_fails(obj, dicts):
            ctx.violations.append({"what": f.split(":")[0], "detail": f, "input": {"rows": rows, "dicts": repr(dicts)[:1500]}})
        # a caller-supplied formatter is what every rendered view shows
        fmt = lambda d, k: f"<{k}|" + repr(d.get(k))[:9] + ">"
        want = [[fmt(d, k) for k in ks] for d in dicts]
        got_pretty = [[d[k] for k in ks] for d in obj.to_pretty_dicts(keys, fmt)]
        got_html = [html.unescape(c) for c in re.findall(r"<td>(.*?)</td>", obj.to_html(keys, fmt), re.S)]
        got_str = [ln.split() for ln in obj.to_string(keys, fmt).split("\n")[1:]]
        if got_pretty != want:
            ctx.violations.append({"what": "to_pretty_dicts does not use the caller's formatter", "input": {"rows": rows}})
        if got_html != [c for r in want for c in r]:
            ctx.violations.append({"what": "to_html does not show the cells of the caller's formatter", "detail": str(got_html[:6]),
                                   "input": {"rows": rows}})
        if [c for r in got_str for c in r] != [x for r in want for c in r for x in c.split()]:
            ctx.violations.append({"what": "to_string does not show the cells of the caller's formatter", "detail": str(got_str[:3]),
                                   "input": {"rows": rows}})
    res, errs = H.coq_eval_shards("c16t", HEADER, terms)
    for e in errs:
        ctx.oblige(False, "correspondence", "vm_compute evaluation (tables)", e)
    for case, r, exp in zip(cases, res, expect):
        if r is None:
            continue
        got = decode(r)
        ctx.oblige(got == exp, "correspondence", f"model/Render.{case['view']}_model = real {case['view']} (string equality)",
                   f"model={got!r}\nreal ={exp!r}", case)
    ctx.count("tables", len(cases))


def range_case(seed):
    """format_num for every fixed-point range and up to 13 significant digits: the text parses back to the value within
    0.5 * 10^(1-sig) relative (checked exactly in rationals on the REAL output)"""
    import random
    import tea_tasting.utils as U
    rng = random.Random(seed)
    fails = []
    for _ in range(200):
        v = rng.choice([-1, 1]) * rng.uniform(1, 10) * 10.0 ** rng.randint(-25, 9)
        sig = rng.choice([1, 2, 3, 6, 10, 13])
        fr = rng.choice([(None, None), (None, 1e7), (1e-30, 1e7), (0.001, 10_000_000), (1e-10, None)])
        try:
            txt = U.format_num(v, sig, fixed_point_range=fr, thousands_sep="_", decimal_point=".")
            back = F(txt.replace("_", ""))
        except Exception as e:  # noqa: BLE001
            fails.append(f"format_num({v!r}, sig={sig}, fixed_point_range={fr}) raised {type(e).__name__}: {e}")
            continue
        if abs(back - F(v)) > F(1, 2) * F(10) ** (1 - sig) * abs(F(v)) * (1 + F(1, 10**6)):
            fails.append(f"format_num({v!r}, sig={sig}, fixed_point_range={fr}) = {txt!r}: relative error above 0.5e{1 - sig}")
    return fails


def oracle(ctx, deep=False):
    for _ in range(ctx.n(3, 60)):
        seed = ctx.rng.randint(0, 10**6)
        ctx.evaluations += 200
        ctx.count("oracle:ranges-and-digits")
        for f in range_case(seed)[:2]:
            ctx.violations.append({"what": "format_num: " + f.split(" = ")[0][:70], "detail": f, "input": {"range_case": True, "seed": seed}})
    import tea_tasting.utils as U
    # default separators in the C locale: no thousands separator; documented specials
    probes = [(1234567.891, 3, False, "1234568"), (None, 3, False, "-"), (float("nan"), 3, False, "-"), (float("inf"), 3, False, "∞"),
              (float("-inf"), 3, False, "-∞"), (0.1234, 2, True, "12%"), (-0.5, 3, False, "-0.500"), (99.999, 3, False, "100"),
              (0.00012345, 3, False, "1.23e-04")]
    for v, sig, pct, want in probes:
        got = U.format_num(v, sig, pct=pct)
        ctx.evaluations += 1
        if got != want:
            ctx.violations.append({"what": "format_num documented example", "detail": f"{v!r} sig={sig} pct={pct}: {got!r} != {want!r}",
                                   "input": {"value": repr(v), "sig": sig, "pct": pct}})
    d = {"rel_effect_size": 0.123, "rel_effect_size_ci_lower": -0.01, "rel_effect_size_ci_upper": 0.25, "power": 0.8, "x": 1.23456, "s": "txt"}
    exp = {"rel_effect_size": "12%", "rel_effect_size_ci": "[-1.0%, 25%]", "power": "80%", "x": "1.23", "s": "txt", "missing": "-"}
    for k, w in exp.items():
        got = U.get_and_format_num(d, k)
        if got != w:
            ctx.violations.append({"what": "get_and_format_num", "detail": f"{k}: {got!r} != {w!r}", "input": {"key": k}})


def replay(ctx, rp):
    import tea_tasting.utils as U
    inp = rp["input"]
    if inp.get("range_case"):
        fails = range_case(inp["seed"])
        return {"fails": bool(fails), "failures": fails[:5]}
    if "sig" in inp and "value" in inp and isinstance(inp["value"], str) and inp["value"].startswith(("0x", "-0x")):
        v = float.fromhex(inp["value"])
        txt = U.format_num(v, inp["sig"], pct=inp["pct"], thousands_sep="_", decimal_point=".")
        back = F(txt.rstrip("%").replace("_", ""))
        sc = F(v * 100) if inp["pct"] else F(v)
        return {"fails": abs(back - sc) > F(1, 2) * F(10) ** (1 - inp["sig"]) * abs(sc), "text": txt}
    return {"fails": True, "note": "re-run ./check C16"}


def matches_finding(v, f):
    return False


def finding_still_fails(ctx, f):
    return False
