"""C11 - SampleRatio p-values are the exact binomial / normal tests of the expected split."""
from __future__ import annotations

import math
import types
from fractions import Fraction as F

import harness as H

GEN = ["Proportion"]
RULE = ("counts (k, n-k) with n from 1 to 5000 (concentrated around the 1000 threshold and around k = n*p), ratios > 0 "
        "(scalar int/float or per-variant dict), methods auto/binom/norm, correction on/off. correspondence: the real "
        "SampleRatio.analyze on Fractions with math.sqrt / norm.sf / binomtest replaced by affine stand-ins vs the "
        "regenerated model (vm_compute), exact. oracle: real scipy p-values vs an exact rational two-sided binomial test "
        "(near-ties of the pmf, detected exactly in Q, excluded and counted) and vs the corrected-z normal test; scalar "
        "= mapping; swap of roles with inverted ratio")
TRUSTED = ["translator tools/py2coq.py (Proportion spec)", "scipy.stats.binomtest / norm.sf as oracles",
           "stand-in shims in this harness"]
ASSUMES = ["C11_binom_partial: that scipy.stats.binomtest is the two-sided exact binomial test of proofs/C11_binom.v (sum of outcomes "
           "no more likely than the observed one; scipy adds a relative tie tolerance) is validated against exact rationals, not proved"]


from props.C10 import UQ, UQF   # exact rational wrapper: arithmetic with float literals (0.5) stays exact


def u_sqrt(x):
    return UQ(3 * UQ(x).v + 1)


def u_norm_sf(x):
    # ufam.norm_(0).sf in lib/PreludeQ.v: ufun (20+2) 3 5 7 with p1 = loc = 0, p2 = 0
    return UQ(22 + 3 * UQ(x).v)


def u_binom(n, k, p):
    return UQ(100 + 7 * UQ(n).v + 11 * UQ(k).v + 13 * UQ(p).v)


class _Shim:
    class math:
        sqrt = staticmethod(u_sqrt)

    class scipy:
        class stats:
            class norm:
                sf = staticmethod(u_norm_sf)

            @staticmethod
            def binomtest(k, n, p):
                return types.SimpleNamespace(pvalue=u_binom(n, k, p))


def real_exact(case):
    import tea_tasting.aggr as A
    import tea_tasting.metrics.proportion as P
    old = (P.math, P.scipy)
    P.math, P.scipy = _Shim.math, _Shim.scipy
    try:
        m = P.SampleRatio(method=case["method"], correction=case["correction"])
        ro = case["ratio_obj"]
        m.ratio = {k: UQ(v) for k, v in ro.items()} if isinstance(ro, dict) else UQF(ro)   # scalar branch needs a float
        data = {0: A.Aggregates(count_=UQ(case["cc"])), 1: A.Aggregates(count_=UQ(case["ct"]))}
        r = m.analyze(data, 0, 1)
        return [UQ(r.control).v, UQ(r.treatment).v, UQ(r.pvalue).v]
    finally:
        P.math, P.scipy = old


HEADER = ("From TT Require Import lib.PreludeQ lib.CaseQ genQ.Proportion.\n"
          "Definition ubinom (n k p : num) : num := qadd (qadd (qadd (nlit 100) (qmul (nlit 7) n)) (qmul (nlit 11) k)) (qmul (nlit 13) p).\n")
MCOQ = {"auto": "MAuto", "binom": "MBinom", "norm": "MNorm"}


def model_term(case):
    cfg = f"(mk_sr_cfg {MCOQ[case['method']]} {'true' if case['correction'] else 'false'})"
    return (f"let r := sr_analyze ufam ubinom {cfg} {H.qlit(case['cc'])} {H.qlit(case['ct'])} {H.qlit(case['r'])} in "
            "[qshow (sr_control r); qshow (sr_treatment r); qshow (sr_pvalue r)]")


def rand_case(rng):
    n = rng.choice([1, 2, 5, 30, 200, 998, 999, 1000, 1001, 1500, 5000])
    r = F(rng.choice([1, 1, 2, 3, 1]), rng.choice([1, 2, 3]))
    if rng.random() < 0.15:      # very lopsided designs (a 0.1% holdout): the expected minority count is small even for n >= 1000
        r = rng.choice([F(999), F(1, 999), F(1, 400), F(250)])
    p = r / (1 + r)
    center = int(n * p)
    k = max(0, min(n, center + rng.choice([-3, -1, 0, 0, 1, 2, rng.randint(-n, n)])))
    form = rng.choice(["scalar", "dict"])
    if form == "scalar":
        ratio_obj = r
    else:
        c = F(rng.choice([1, 2, 5]))
        ratio_obj = {0: c, 1: r * c}
        if rng.random() < 0.5:          # a mapping shared by a multi-arm experiment: other arms must not matter
            ratio_obj[2] = F(rng.choice([1, 4, 7]))
    return {"cc": n - k, "ct": k, "r": r, "ratio_obj": ratio_obj, "form": form,
            "method": rng.choice(["auto", "binom", "norm"]), "correction": rng.random() < 0.5}


def correspondence(ctx):
    ok, out, dt, failed = H.make(["genQ/Proportion.vo", "lib/CaseQ.vo"])
    if not ctx.oblige(ok, "correspondence", "build of genQ/Proportion.vo", out):
        return
    cases, terms, expect = [], [], []
    for i in range(ctx.n(300, 6000)):
        c = rand_case(ctx.rng)
        try:
            exp = real_exact(c)
        except ZeroDivisionError:
            ctx.count("skipped_zero_division")
            continue
        cases.append({k: (H.frac(v) if isinstance(v, F) else (str(v) if isinstance(v, dict) else v)) for k, v in c.items()})
        terms.append(model_term(c))
        expect.append(exp)
        ctx.case_seen((c["cc"], c["ct"], c["r"], c["method"], c["correction"]), nontrivial=True)
        ctx.count(f"method:{c['method']} form:{c['form']}")
    res, errs = H.coq_eval_shards("c11", HEADER, terms)
    for e in errs:
        ctx.oblige(False, "correspondence", "vm_compute evaluation", e)
    for case, r, exp in zip(cases, res, expect):
        if r is None:
            continue
        got = H.parse_pairs(r)
        ctx.oblige(H.same_numbers(got, exp), "correspondence", "model genQ/Proportion.sr_analyze = real SampleRatio.analyze (exact, stand-ins)",
                   f"model={got} real={exp}", case)
        ctx.sample(case, limit=3)


# ------------------------------------------------------------------ oracle
def exact_binom_two_sided(n, k, p):
    """Sum of the probabilities of all outcomes no more likely than k, exactly in Q; also reports near-ties."""
    p = F(p)
    pm = [F(math.comb(n, i)) * p**i * (1 - p)**(n - i) for i in range(n + 1)]
    d = pm[k]
    tie = any(x != d and abs(x - d) <= d * F(1, 10**6) for x in pm)
    return min(F(1), sum((x for x in pm if x <= d), F(0))), tie


def norm_reference(k, n, p, correction):
    import scipy.stats as st
    d = k - n * p
    if correction and d != 0:
        d = math.copysign(max(abs(d) - 0.5, 0.0), d)
    z = d / math.sqrt(n * p * (1 - p))
    return 2 * st.norm.sf(abs(z))


def check_public(case):
    import tea_tasting as tt
    import tea_tasting.aggr as A
    cc, ct, r = case["cc"], case["ct"], F(case["r"])
    n = cc + ct
    p = r / (1 + r)
    data = {0: A.Aggregates(count_=cc), 1: A.Aggregates(count_=ct)}
    fails = []
    res = tt.SampleRatio(float(r) if r.denominator != 1 else int(r), method=case["method"],
                         correction=case["correction"]).analyze(data, 0, 1)
    if (res.control, res.treatment) != (cc, ct):
        fails.append(f"counts reported {(res.control, res.treatment)} != {(cc, ct)}")
    use_binom = case["method"] == "binom" or (case["method"] == "auto" and n < 1000)
    tie = False
    if use_binom:
        if n <= 1500:
            ref, tie = exact_binom_two_sided(n, ct, p)
            ref = float(ref)
        else:
            ref = None
    else:
        ref = norm_reference(ct, n, float(p), case["correction"])
    if ref is not None and not tie and abs(res.pvalue - ref) > 1e-9 * max(ref, 1e-300) + 1e-13:
        fails.append(f"pvalue {res.pvalue} != reference {ref} ({'binomial' if use_binom else 'normal'})")
    if not (0 <= res.pvalue <= 1):
        fails.append(f"pvalue {res.pvalue} outside [0,1]")
    # mapping form
    c = 3
    for extra in ({}, {2: 7, "other": 2}):      # a mapping with further arms gives the same test for this pair
        res_d = tt.SampleRatio({0: c, 1: float(r * c), **extra}, method=case["method"],
                               correction=case["correction"]).analyze(data, 0, 1)
        if abs(res_d.pvalue - res.pvalue) > 1e-9 * max(res.pvalue, 1e-300) + 1e-13 and not tie:
            fails.append(f"mapping form pvalue {res_d.pvalue} (arms {[0, 1] + list(extra)}) != scalar form {res.pvalue}")
    # swap roles, invert ratio
    res_s = tt.SampleRatio(float(1 / r), method=case["method"], correction=case["correction"]).analyze(data, 1, 0)
    if abs(res_s.pvalue - res.pvalue) > 1e-9 * max(res.pvalue, 1e-300) + 1e-13 and not tie:
        fails.append(f"swapped roles pvalue {res_s.pvalue} != {res.pvalue}")
    return fails, tie


def multi_arm_case(seed):
    """ONE SampleRatio instance with a mapping ratio inside an experiment over three or four variants, all pairs: every
    pair's p-value equals a fresh instance analysed for that pair alone (the expected share depends on BOTH variants)"""
    import random
    import tea_tasting as tt
    import tea_tasting.aggr as A
    rng = random.Random(seed)
    ids = rng.choice([["a", "b", "c"], [0, 1, 2], ["a", "b", "c", "d"]])
    weights = {v: rng.choice([1, 2, 3, 5]) for v in ids}
    counts = {v: rng.choice([40, 90, 300, 2500]) + rng.randint(0, 30) for v in ids}
    data = {v: A.Aggregates(count_=counts[v]) for v in ids}
    method = rng.choice(["auto", "norm", "binom"])
    sr = tt.SampleRatio(dict(weights), method=method)
    res = tt.Experiment(srm=sr).analyze(data, all_variants=True)
    fails = []
    for (c, t), r in res.items():
        alone = tt.SampleRatio(weights[t] / weights[c], method=method).analyze({c: data[c], t: data[t]}, c, t)
        if abs(r["srm"].pvalue - alone.pvalue) > 1e-9 * max(alone.pvalue, 1e-300) + 1e-13:
            fails.append(f"pair ({c!r}, {t!r}) pvalue {r['srm'].pvalue} inside the experiment, {alone.pvalue} for a fresh metric with ratio "
                         f"{weights[t]}/{weights[c]}")
    return fails


def oracle(ctx, deep=False):
    for _ in range(ctx.n(10, 200)):
        seed = ctx.rng.randint(0, 10**6)
        ctx.evaluations += 1
        ctx.count("oracle:multi-arm-one-instance")
        for f in multi_arm_case(seed)[:2]:
            ctx.violations.append({"what": "multi-arm mapping on one instance", "detail": f, "input": {"multi_arm": True, "seed": seed}})
    for i in range(ctx.n(250, 5000) * (3 if deep else 1)):
        c = rand_case(ctx.rng)
        if c["cc"] + c["ct"] == 0:
            continue
        case = {"cc": c["cc"], "ct": c["ct"], "r": H.frac(c["r"]), "method": c["method"], "correction": c["correction"]}
        try:
            fails, tie = check_public(case)
        except ZeroDivisionError:
            ctx.count("oracle:zero_division")
            continue
        ctx.evaluations += 1
        ctx.count("oracle:" + case["method"] + (":near_tie_excluded" if tie else ""))
        for f in fails:
            ctx.violations.append({"what": f.split(" ")[0] + " " + f.split(" ")[1], "detail": f, "input": case})
        if len(ctx.violations) > 20:
            break


def replay(ctx, rp):
    if rp["input"].get("multi_arm"):
        fails = multi_arm_case(rp["input"]["seed"])
        return {"fails": bool(fails), "failures": fails}
    fails, tie = check_public(rp["input"])
    return {"fails": bool(fails), "failures": fails}


def matches_finding(v, f):
    return False


def finding_still_fails(ctx, f):
    return False
