"""C04 - Mean reproduces the textbook two-sample t/Z test computed from raw observations."""
from __future__ import annotations

import math
from fractions import Fraction as F

import gen as G
import harness as H
import meanx

GEN = ["Aggr", "Mean"]
RULE = ("correspondence: Mean / RatioOfMeans configurations over all 12 option cells on random small exact samples, real "
        "analyze_aggregates on Fractions (affine stand-ins) vs regenerated model, exact. oracle: the public "
        "Mean(...).analyze on a PyArrow table of floats vs an independent numpy/scipy reference test on the raw "
        "observations, every field, 12 cells x random confidence levels")
TRUSTED = ["translator tools/py2coq.py (Aggr, Mean specs)", "distribution laws L1-L6 (lib/Distr.v, satisfiable)",
           "stand-in shims of tools/meanx.py", "scipy.stats reference in the oracle"]
ASSUMES = ["theorems are over the reals; the float comparison tolerance in the oracle is 1e-7 relative",
           "aggregates fed to the model are the exact sample statistics (established for every backend by C01)"]


def correspondence(ctx):
    def only_mean(cfg, rng):
        if rng.random() < 0.7:
            cfg = dict(cfg, denom=None, numer_covariate=None, denom_covariate=None)
        return cfg
    meanx.run_correspondence(ctx, ctx.n(120, 3000), "c04", only_mean)


@H.under_contrary_config
def _run_case(case):
    import pyarrow as pa
    import tea_tasting as tt
    cfg = case["cfg"]
    data = {"variant": [0] * len(case["control"]["x"]) + [1] * len(case["treatment"]["x"])}
    for c in G.COLS:
        data[c] = case["control"][c] + case["treatment"][c]
    m = tt.Mean(cfg["numer"], alternative=cfg["alternative"], confidence_level=float(F(cfg["confidence_level"])),
                equal_var=cfg["equal_var"], use_t=cfg["use_t"])
    res = m.analyze(pa.table(data), 0, 1, "variant")
    ref = meanx.reference_test(case["control"][cfg["numer"]], case["treatment"][cfg["numer"]], cfg["alternative"],
                               cfg["equal_var"], cfg["use_t"], float(F(cfg["confidence_level"])))
    return meanx.compare_result(res, ref)


def large_sample_case(seed):
    """tens of thousands of rows per variant: with use_t the test is still Student's / Welch's t with the exact degrees of
    freedom (a normal approximation differs from the fifth significant digit of the p-value on)"""
    import numpy as np
    r = np.random.default_rng(seed)
    n0, n1 = 40_000, 30_000
    cfg = {"numer": "x", "alternative": ["two-sided", "greater", "less"][seed % 3], "confidence_level": "19/20",
           "equal_var": bool(seed % 2), "use_t": True}
    case = {"cfg": cfg, "control": {c: list(r.normal(10, 3, n0)) for c in G.COLS},
            "treatment": {c: list(r.normal(10.03, 3.5, n1)) for c in G.COLS}}
    return _run_case(case)


def oracle(ctx, deep=False):
    seed = ctx.rng.randint(0, 10**6)
    bad = large_sample_case(seed)
    ctx.evaluations += 1
    ctx.count("oracle:large-sample")
    if bad:
        ctx.violations.append({"what": "Mean.analyze differs from the textbook test on a large sample: " + bad[0][0], "detail": str(bad[:4]),
                               "input": {"large_sample": True, "seed": seed}})
    reuse_oracle(ctx)
    n = ctx.n(150, 4000) * (3 if deep else 1)
    for i in range(n):
        cfg = meanx.cfg_json(meanx.rand_cfg(ctx.rng, covariates=0, ratio_metric=False))
        kind = ctx.rng.choice(["normal", "lognormal", "ints", "offset"])  # same kind in both variants: well conditioned
        case = {"cfg": cfg, "control": meanx.float_table(ctx.rng, ctx.rng.choice([2, 3, 10, 200]), kind=kind),
                "treatment": meanx.float_table(ctx.rng, ctx.rng.choice([2, 5, 30, 150]), kind=kind)}
        bad = _run_case(case)
        ctx.evaluations += 1
        ctx.count(f"oracle:{cfg['alternative']}/{cfg['equal_var']}/{cfg['use_t']}")
        if bad:
            ctx.violations.append({"what": "Mean.analyze differs from the textbook test: " + bad[0][0],
                                   "detail": str(bad[:4]), "input": case})
            if len(ctx.violations) >= 3:
                break


def reuse_oracle(ctx):
    for parameter in ['analyze']:
        for _ in range(ctx.n(3, 40)):
            seed = ctx.rng.randint(0, 10**6)
            fails = meanx.reuse_history(seed, parameter)
            ctx.evaluations += 1
            ctx.count("oracle:reused-object-history")
            for f in fails:
                ctx.violations.append({"what": "result depends on earlier calls on the same metric object", "detail": f,
                                       "input": {"reuse_history": True, "seed": seed, "parameter": parameter}})


def replay(ctx, rp):
    if rp["input"].get("large_sample"):
        bad = large_sample_case(rp["input"]["seed"])
        return {"fails": bool(bad), "failures": bad}
    if rp["input"].get("reuse_history"):
        fails = meanx.reuse_history(rp["input"]["seed"], rp["input"]["parameter"])
        return {"fails": bool(fails), "failures": fails}
    bad = _run_case(rp["input"])
    return {"fails": bool(bad), "failures": bad}


def matches_finding(v, f):
    return False


def finding_still_fails(ctx, f):
    return False
