"""C17 - changing units or swapping variant roles changes results only as it must."""
from __future__ import annotations

import math
from fractions import Fraction as F

import gen as G
import harness as H
import meanx

GEN = ["Aggr", "Mean"]
RULE = ("correspondence: exact Fraction differential of analyze_aggregates vs the regenerated model (all metric kinds). "
        "oracle: metamorphic runs of the public API on PyArrow float tables: metric column x c (c from 1e-9..1e9), "
        "numerator and denominator x c, control/treatment swapped with mirrored alternative; Mean and RatioOfMeans with "
        "0-2 covariates, 12 option cells")
TRUSTED = ["translator tools/py2coq.py (Aggr, Mean specs)", "distribution laws L2,L5,L6 for the swap theorem",
           "stand-in shims of tools/meanx.py"]
ASSUMES = ["theorems are over the reals; oracle tolerance 1e-7 relative"]
MIRROR = {"two-sided": "two-sided", "greater": "less", "less": "greater"}


def correspondence(ctx):
    meanx.run_correspondence(ctx, ctx.n(100, 3000), "c17")


def _table(case, scale=None, swap=False):
    import pyarrow as pa
    n0, n1 = len(case["control"]["x"]), len(case["treatment"]["x"])
    v = [0] * n0 + [1] * n1
    if swap:
        v = [1 - a for a in v]
    data = {"variant": v}
    for c in case["control"]:
        k = (scale or {}).get(c, 1.0)
        data[c] = [k * a for a in case["control"][c] + case["treatment"][c]]
    return pa.table(data)


def _close(a, b, tol=1e-7, floor=0.0):
    """relative comparison; `floor` is the absolute noise level of the field (an effect that is exactly zero before a unit
    change is a rounding error of the size of an ulp of the means afterwards)"""
    if math.isinf(a) or math.isinf(b):
        return a == b
    if math.isnan(a) or math.isnan(b):
        return math.isnan(a) and math.isnan(b)
    return abs(a - b) <= tol * max(abs(a), abs(b), 1e-300) + floor


@H.under_contrary_config
def _run_case(case):
    import tea_tasting as tt
    cfg = case["cfg"]
    c = case["c"]
    kw = dict(confidence_level=float(F(cfg["confidence_level"])), equal_var=cfg["equal_var"], use_t=cfg["use_t"])
    x, y, cx, cy = cfg["numer"], cfg["denom"], cfg["numer_covariate"], cfg["denom_covariate"]
    m = tt.RatioOfMeans(x, y, cx, cy, alternative=cfg["alternative"], **kw)
    r = m.analyze(_table(case), 0, 1, "variant")
    bad = []
    r1 = m.analyze(_table(case, {x: c}), 0, 1, "variant")
    level = max(abs(r.control), abs(r.treatment), 1e-300)        # magnitude of the means: their ulp is the noise of the effect
    for f in ("pvalue", "statistic", "rel_effect_size", "rel_effect_size_ci_lower", "rel_effect_size_ci_upper"):
        if not _close(getattr(r1, f), getattr(r, f), floor=1e-9):
            bad.append((f"scale x{c}: {f} changed", getattr(r1, f), getattr(r, f)))
    for f in ("control", "treatment", "effect_size", "effect_size_ci_lower", "effect_size_ci_upper"):
        if not _close(getattr(r1, f), c * getattr(r, f), floor=1e-12 * abs(c) * level):
            bad.append((f"scale x{c}: {f} not multiplied", getattr(r1, f), c * getattr(r, f)))
    if y is not None:
        r2 = m.analyze(_table(case, {x: c, y: c}), 0, 1, "variant")
        for f in meanx.RES_FIELDS:
            if not _close(getattr(r2, f), getattr(r, f), floor=1e-9 if f in ("pvalue", "statistic") or f.startswith("rel_") else 1e-12 * level):
                bad.append((f"numerator and denominator x{c}: {f} changed", getattr(r2, f), getattr(r, f)))
    ms = tt.RatioOfMeans(x, y, cx, cy, alternative=MIRROR[cfg["alternative"]], **kw)
    r3 = ms.analyze(_table(case, swap=True), 0, 1, "variant")
    exp = {"control": r.treatment, "treatment": r.control, "effect_size": -r.effect_size, "statistic": -r.statistic,
           "pvalue": r.pvalue, "effect_size_ci_lower": -r.effect_size_ci_upper, "effect_size_ci_upper": -r.effect_size_ci_lower}
    for f, w in exp.items():
        g = getattr(r3, f)
        scale = max(abs(r.effect_size), abs(r.control), 1e-300)
        if f == "pvalue":     # tail probabilities are compared RELATIVELY: sf(s) and cdf(-s) agree to many digits also at 1e-40
            ok = _close(g, w, 1e-6, 1e-300)
        else:
            ok = _close(g, w) or (math.isfinite(g) and math.isfinite(w) and abs(g - w) <= 1e-9 * scale)
        if not ok:
            bad.append((f"swap: {f}", g, w))
    return bad


def oracle(ctx, deep=False):
    reuse_oracle(ctx)
    n = ctx.n(120, 3000) * (3 if deep else 1)
    for i in range(n):
        cfg = meanx.rand_cfg(ctx.rng)
        kind = ctx.rng.choice(["normal", "lognormal", "ints"])
        case = {"cfg": meanx.cfg_json(cfg), "c": 10.0 ** ctx.rng.randint(-9, 9) * ctx.rng.choice([1.0, 2.5, 7.0]),
                "control": meanx.float_table(ctx.rng, ctx.rng.choice([3, 10, 200]), kind=kind),
                "treatment": meanx.float_table(ctx.rng, ctx.rng.choice([4, 30, 150]), kind=kind)}
        if ctx.rng.random() < 0.25:      # a strongly significant difference (|statistic| of 10 - 40): tail p-values of 1e-20 .. 1e-300
            case["control"] = meanx.float_table(ctx.rng, 200, kind=kind)
            case["treatment"] = {c: [v * 1.6 for v in vals] for c, vals in meanx.float_table(ctx.rng, 150, kind=kind).items()}
        try:
            bad = _run_case(case)
        except (ZeroDivisionError, OverflowError, ValueError):
            ctx.count("oracle:raised_skipped(C18)")
            continue
        ctx.evaluations += 1
        ctx.count("oracle:" + ("ratio" if cfg["denom"] else "mean") + "+cov%d" % (
            (cfg["numer_covariate"] is not None) + (cfg["denom_covariate"] is not None)))
        if bad:
            ctx.violations.append({"what": bad[0][0], "detail": str(bad[:4]), "input": case})
            if len(ctx.violations) >= 3:
                break


def control_case(seed):
    """Role swap through the public entry point: Experiment.analyze(data, control=c) for EVERY variant id c - ids that are
    falsy without being the smallest (0 next to -1, False next to ... ) included - is the metric analysed with control c,
    and exchanging the roles mirrors the result (effect and statistic negated, means exchanged)."""
    import random
    import numpy as np
    import pandas as pd
    import tea_tasting as tt
    rng = random.Random(seed)
    ids = rng.choice([[-1, 0], [-2, 0, 1], [0, 1], [-1, 0, 3], [-1.5, 0.0]])
    r = np.random.default_rng(seed)
    rows = [(v, float(x)) for v in ids for x in r.normal(10 + ids.index(v), 2, rng.choice([8, 15]))]
    df = pd.DataFrame({"variant": [a for a, _ in rows], "x": [b for _, b in rows]})
    alt = rng.choice(meanx.ALTS)
    metric = tt.Mean("x", alternative=alt)
    fails = []
    for c in ids:
        res = tt.Experiment(m=metric).analyze(df, control=c, all_variants=True)
        want_pairs = [(c, t) for t in ids if t != c]
        if list(res) != want_pairs:
            fails.append(f"control={c!r}: pairs {list(res)} != {want_pairs}")
            continue
        for (cc, t) in want_pairs:
            got = res[(cc, t)]["m"]
            ref = metric.analyze(df, cc, t, "variant")
            if any(not _close(float(a), float(b), 1e-12) for a, b in zip(got, ref)):
                fails.append(f"control={c!r} treatment={t!r}: {tuple(got)[:3]} != metric analysed with that control {tuple(ref)[:3]}")
            back = tt.Mean("x", alternative=MIRROR[alt]).analyze(df, t, cc, "variant")
            if not (_close(back.effect_size, -got.effect_size, 1e-9, 1e-12) and _close(back.control, got.treatment, 1e-12)
                    and _close(back.pvalue, got.pvalue, 1e-9, 1e-12)):
                fails.append(f"control={c!r} treatment={t!r}: exchanging the roles does not mirror the result")
    return fails


def reuse_oracle(ctx):
    for parameter in ["analyze"]:
        for _ in range(ctx.n(3, 40)):
            seed = ctx.rng.randint(0, 10**6)
            fails = meanx.reuse_history(seed, parameter)
            ctx.evaluations += 1
            ctx.count("oracle:reused-object-history")
            for f in fails:
                ctx.violations.append({"what": "result depends on earlier calls on the same metric / experiment object", "detail": f,
                                       "input": {"reuse_history": True, "seed": seed, "parameter": parameter}})
    for _ in range(ctx.n(8, 100)):
        seed = ctx.rng.randint(0, 10**6)
        ctx.evaluations += 1
        ctx.count("oracle:control-ids")
        for f in control_case(seed)[:2]:
            ctx.violations.append({"what": "Experiment.analyze with an explicit control: " + f.split(":")[0], "detail": f,
                                   "input": {"control_case": True, "seed": seed}})


def replay(ctx, rp):
    if rp["input"].get("reuse_history"):
        fails = meanx.reuse_history(rp["input"]["seed"], rp["input"]["parameter"])
        return {"fails": bool(fails), "failures": fails}
    if rp["input"].get("control_case"):
        fails = control_case(rp["input"]["seed"])
        return {"fails": bool(fails), "failures": fails}
    bad = _run_case(rp["input"])
    return {"fails": bool(bad), "failures": [str(b) for b in bad]}


def matches_finding(v, f):
    return False


def finding_still_fails(ctx, f):
    return False
