"""C10 - adjust_fdr / adjust_fwer implement the named procedures exactly and purely."""
from __future__ import annotations

import copy
import itertools
import math
import re
from fractions import Fraction as F

import harness as H

GEN = ["Multiplicity"]
RULE = ("families of 1..9 p-values (random rationals, ties, 0, 1, values at k*alpha/m boundaries) x alpha x {BH, BY, "
        "Hochberg/Holm x Bonferroni/Sidak}. correspondence: the real _hochberg_stepup/_holm_stepdown with the real "
        "_Benjamini/_Bonferroni/_Sidak.adjust on exact numbers (a Fraction wrapper whose ** is the same affine stand-in as "
        "lib/PreludeQ.nrpow) vs the regenerated model (vm_compute), exact. oracle: public adjust_fdr/adjust_fwer on "
        "ExperimentResult objects (NamedTuple and dict metric results, 1..3 experiments, metric selections) vs independent "
        "textbook closed forms, rejection criteria, range/monotonicity, permutation of experiments and metrics, purity")
TRUSTED = ["translator tools/py2coq.py (Multiplicity spec) incl. the loop pattern and lib/Loop.v (stable sort = Python sorted)",
           "exact-number wrapper UQ in this harness", "hand treatment of _copy_results (oracle only)"]
ASSUMES = ["Python's sorted() is stable", "theorems are over the reals; Sidak powers are Rpower (0**y handled as Python does)"]


class UQ:
    """exact rational with ** replaced by the affine stand-in of lib/PreludeQ.v (nrpow x y = 5x + 3y + 7)"""
    __slots__ = ("v",)

    def __init__(self, v):
        self.v = v.v if hasattr(v, "v") else F(v)

    @staticmethod
    def _v(o):
        return o.v if hasattr(o, "v") else F(o)
    def __add__(self, o): return UQ(self.v + self._v(o))
    __radd__ = __add__
    def __sub__(self, o): return UQ(self.v - self._v(o))
    def __rsub__(self, o): return UQ(self._v(o) - self.v)
    def __mul__(self, o): return UQ(self.v * self._v(o))
    __rmul__ = __mul__
    def __truediv__(self, o): return UQ(self.v / self._v(o))
    def __rtruediv__(self, o): return UQ(self._v(o) / self.v)
    def __neg__(self): return UQ(-self.v)
    def __pow__(self, o): return UQ(5 * self.v + 3 * self._v(o) + 7)
    def __rpow__(self, o): return UQ(5 * self._v(o) + 3 * self.v + 7)
    def __lt__(self, o): return self.v < self._v(o)
    def __le__(self, o): return self.v <= self._v(o)
    def __gt__(self, o): return self.v > self._v(o)
    def __ge__(self, o): return self.v >= self._v(o)
    def __eq__(self, o): return self.v == self._v(o)
    def __hash__(self): return hash(self.v)
    def __abs__(self): return UQ(abs(self.v))
    def __int__(self): return int(self.v)
    def __float__(self): return float(self.v)
    def __repr__(self): return f"UQ({self.v})"


class UQE(UQ):
    """like UQ, but x ** <int literal> is the exact power (the model prints it as npow x n)"""
    __slots__ = ()

    def __pow__(self, o):
        if isinstance(o, int) and not isinstance(o, bool) and o >= 0:
            return UQE(self.v ** o)
        return UQ.__pow__(self, o)


for _n in ("__add__", "__radd__", "__sub__", "__rsub__", "__mul__", "__rmul__", "__truediv__", "__rtruediv__", "__neg__", "__abs__"):
    def _mk(name):
        base = getattr(UQ, name)

        def f(self, *a):
            return UQE(base(self, *a))
        return f
    setattr(UQE, _n, _mk(_n))


class UQF(float):
    """a float (so isinstance(x, float) holds) that carries an exact rational and computes like UQ"""
    def __new__(cls, v):
        o = float.__new__(cls, float(F(v)))
        o.v = F(v)
        return o


UQF._v = staticmethod(lambda o: o.v if hasattr(o, "v") else F(o))
for _n in ("__add__", "__radd__", "__sub__", "__rsub__", "__mul__", "__rmul__", "__truediv__", "__rtruediv__", "__neg__",
           "__pow__", "__rpow__", "__lt__", "__le__", "__gt__", "__ge__", "__eq__", "__hash__", "__abs__"):
    setattr(UQF, _n, getattr(UQ, _n))


METHODS = ["bh", "by", "hochberg-bonferroni", "hochberg-sidak", "holm-bonferroni", "holm-sidak"]


def rand_family(rng, big=False):
    m = rng.choice([12, 25, 26, 30, 40, 64]) if big else rng.choice([1, 2, 2, 3, 4, 5, 7, 9])
    alpha = F(rng.choice([1, 5, 10, 20, 50]), 100)
    ps = []
    for _ in range(m):
        r = rng.random()
        if r < 0.15 and ps:
            ps.append(rng.choice(ps))                       # tie
        elif r < 0.25:
            ps.append(F(rng.choice([0, 1])))
        elif r < 0.45:
            ps.append(alpha * rng.randint(1, m) / m)        # BH boundary k*alpha/m
        elif r < 0.55:
            ps.append(alpha / rng.randint(1, m))            # Bonferroni boundary
        else:
            ps.append(F(rng.randint(0, 1000), 1000))
    return alpha, ps


def harmonic(m):
    return sum((F(1, i) for i in range(1, m + 1)), F(0))


def real_private(method, alpha, ps):
    import tea_tasting.multiplicity as M
    m = len(ps)
    rs = [{"pvalue": UQ(p)} for p in ps]
    if method in ("bh", "by"):
        obj = M._Benjamini(alpha=UQ(alpha), m=m, arbitrary_dependence=(method == "by"))
        if method == "by":
            approx = obj.m_adj_
            exact = m * harmonic(m)
            if abs(float(approx) - float(exact)) > 1e-12 * float(exact):
                raise AssertionError(f"_Benjamini m_adj_ = {approx}, expected {float(exact)}")
            obj.m_adj_ = UQ(exact)     # int/int is a float in Python: substitute the exact value it approximates
        else:
            obj.m_adj_ = UQ(obj.m_adj_)
        M._hochberg_stepup(rs, obj.adjust)
    else:
        proc, corr = method.split("-")
        cls = M._Sidak if corr == "sidak" else M._Bonferroni
        obj = cls(alpha=UQ(alpha), m=UQ(m))   # exact m: int/int would be a float in 1 / coef
        (M._holm_stepdown if proc == "holm" else M._hochberg_stepup)(rs, obj.adjust)
    return [(UQ(r["pvalue_adj"]).v, UQ(r["alpha_adj"]).v, int(r["null_rejected"])) for r in rs]


def model_term(method, alpha, ps):
    m = len(ps)
    psl = "[" + "; ".join(H.qlit(p) for p in ps) + "]"
    if method in ("bh", "by"):
        adj = f"(benjamini_adjust (benjamini_init {H.qlit(alpha)} {m}%nat {'true' if method == 'by' else 'false'}))"
        fn = "hochberg_stepup"
    else:
        proc, corr = method.split("-")
        adj = f"({corr}_adjust ({corr}_init {H.qlit(alpha)} {m}%nat))"
        fn = "holm_stepdown" if proc == "holm" else "hochberg_stepup"
    return (f"flat_map (fun t : num * num * bool => [qshow (fst (fst t)); qshow (snd (fst t)); ((if snd t then 1 else 0)%Z, 1%Z)]) "
            f"({fn} {adj} {psl})")


HEADER = "From TT Require Import lib.PreludeQ lib.CaseQ lib.Loop genQ.Multiplicity."


def correspondence(ctx):
    ok, out, dt, failed = H.make(["genQ/Multiplicity.vo", "lib/CaseQ.vo"])
    if not ctx.oblige(ok, "correspondence", "build of genQ/Multiplicity.vo", out):
        return
    n = ctx.n(240, 6000)
    cases, terms, expect = [], [], []
    for i in range(n):
        alpha, ps = rand_family(ctx.rng)
        method = METHODS[i % len(METHODS)]
        try:
            exp = real_private(method, alpha, ps)
        except ZeroDivisionError:
            ctx.count("skipped_zero_division")
            continue
        cases.append({"method": method, "alpha": H.frac(alpha), "ps": [H.frac(p) for p in ps]})
        terms.append(model_term(method, alpha, ps))
        expect.append(exp)
        ctx.case_seen(cases[-1], nontrivial=len(ps) > 1)
        ctx.count("method:" + method)
        ctx.count("m=%d" % len(ps))
        if len(set(ps)) < len(ps):
            ctx.count("with_ties")
    res, errs = H.coq_eval_shards("c10", HEADER, terms)
    for e in errs:
        ctx.oblige(False, "correspondence", "vm_compute evaluation of generated families", e)
    for case, r, exp in zip(cases, res, expect):
        if r is None:
            continue
        flat = H.parse_pairs(r)
        got = [(flat[3 * i], flat[3 * i + 1], int(flat[3 * i + 2])) for i in range(len(flat) // 3)]
        same = H.same_numbers(got, exp)
        ctx.oblige(same, "correspondence", "model genQ/Multiplicity = real step-up/step-down with the real adjust (exact)",
                   f"model={got}\nreal ={exp}", case)
        ctx.sample({**case, "equal": same}, limit=3)


# ------------------------------------------------------------------ oracle: public API vs textbook
def reference(method, alpha, ps):
    """Textbook closed forms, written independently (floats). Returns list of (padj, rejected)."""
    m = len(ps)
    order = sorted(range(m), key=lambda i: ps[i])           # ascending; ranks 1..m
    rank = {i: r + 1 for r, i in enumerate(order)}
    sp = [ps[i] for i in order]
    padj = {}
    if method in ("bh", "by"):
        madj = m * (sum(1 / i for i in range(1, m + 1)) if method == "by" else 1)
        for i in range(m):
            padj[i] = min(min(1.0, madj * sp[j] / (j + 1)) for j in range(rank[i] - 1, m))
        kmax = max([k for k in range(1, m + 1) if sp[k - 1] <= k * alpha / madj], default=0)
        rej = {i: rank[i] <= kmax for i in range(m)}
    else:
        proc, corr = method.split("-")

        def adj(p, k):      # k = rank (1 = smallest)
            c = m - k + 1
            return min(1.0, p * c) if corr == "bonferroni" else 1 - (1 - p) ** c

        def thr(k):
            c = m - k + 1
            return alpha / c if corr == "bonferroni" else 1 - (1 - alpha) ** (1 / c)
        if proc == "holm":   # step-down: running max from the smallest
            for i in range(m):
                padj[i] = max(adj(sp[j], j + 1) for j in range(0, rank[i]))
            kfail = min([k for k in range(1, m + 1) if sp[k - 1] > thr(k)], default=m + 1)
            rej = {i: rank[i] < kfail for i in range(m)}
        else:                # Hochberg step-up: running min from the largest
            for i in range(m):
                padj[i] = min(adj(sp[j], j + 1) for j in range(rank[i] - 1, m))
            kmax = max([k for k in range(1, m + 1) if sp[k - 1] <= thr(k)], default=0)
            rej = {i: rank[i] <= kmax for i in range(m)}
    return [(padj[i], rej[i]) for i in range(m)]


def _near_boundary(method, alpha, ps, tol=1e-9):
    m = len(ps)
    sp = sorted(ps)
    for k in range(1, m + 1):
        c = m - k + 1
        for t in (k * alpha / m, alpha / c, 1 - (1 - alpha) ** (1 / c),
                  k * alpha / (m * sum(1 / i for i in range(1, m + 1)))):
            if any(abs(p - t) < tol for p in sp):
                return True
    return False


def build_results(rng, ps, n_exp, use_dict):
    """Distribute the family over experiments; add unselected metrics."""
    import tea_tasting as tt
    from tea_tasting.metrics.mean import MeanResult
    exps = [dict() for _ in range(n_exp)]
    where = []
    for j, p in enumerate(ps):
        e = rng.randrange(n_exp)
        name = f"m{j}"
        r = MeanResult(1.0, 2.0, 1.0, 0.0, 2.0, 1.0, 0.0, 2.0, float(p), 1.5)
        exps[e][name] = r._asdict() if (use_dict and j % 2 == 0) else r
        where.append((e, name))
    for e in range(n_exp):   # metrics outside the selection; some of their names are substrings of selected names
        for extra, pv in (("other", 0.5), ("m", 0.001), ("0", 0.002)):
            exps[e][extra] = MeanResult(1.0, 2.0, 1.0, 0.0, 2.0, 1.0, 0.0, 2.0, pv, 0.1)
    results = {f"e{e}": tt.experiment.ExperimentResult(exps[e]) for e in range(n_exp)}
    return results, where


def call_public(method, alpha, results, metrics, explicit_alpha=True):
    import tea_tasting as tt
    kw = {"alpha": alpha} if explicit_alpha else {}
    if method == "bh":
        return tt.adjust_fdr(results, metrics, **kw)
    if method == "by":
        return tt.adjust_fdr(results, metrics, arbitrary_dependence=True, **kw)
    proc, corr = method.split("-")
    return tt.adjust_fwer(results, metrics, arbitrary_dependence=(proc == "holm"), method=corr, **kw)


def check_public(case):
    """Returns list of failure descriptions for one public-API case."""
    import random
    rng = random.Random(case["seed"])
    method, alpha, ps = case["method"], case["alpha"], case["ps"]
    m = len(ps)
    results, where = build_results(rng, ps, case["n_exp"], case["use_dict"])
    selection = [name for _, name in where]
    before = copy.deepcopy({k: dict(v) for k, v in results.items()})
    out = call_public(method, alpha, results, selection)
    fails = []
    if {k: dict(v) for k, v in results.items()} != before:
        fails.append("inputs were modified")
    got = []
    for e, name in where:
        d = out[f"e{e}"][name]
        got.append((d["pvalue_adj"], d["alpha_adj"], d["null_rejected"]))
        if d["pvalue"] != ps[int(name[1:])]:
            fails.append("pvalue changed")
    for e in range(case["n_exp"]):
        if set(out[f"e{e}"]) - set(selection):
            fails.append(f"unselected metrics present in the output: {sorted(set(out[f'e{e}']) - set(selection))}")
    # the selection may be given as a list, a tuple, a set or (one metric) a string: always the same family
    import tea_tasting as tt
    for form in (tuple(selection), set(selection)):
        o = call_public(method, alpha, results, form)
        if any(o[f"e{e}"][name]["pvalue_adj"] != out[f"e{e}"][name]["pvalue_adj"] for e, name in where):
            fails.append(f"selection given as {type(form).__name__} changes the result")
    e0, n0 = where[0]
    o1 = call_public(method, alpha, results, n0)
    rows = [(k, nm) for k, v in o1.items() for nm in v]
    if rows != [(f"e{e0}", n0)]:
        fails.append(f"selection given as the string {n0!r} selects {rows}")
    elif abs(o1[f"e{e0}"][n0]["pvalue_adj"] - ps[int(n0[1:])]) > 1e-12:
        fails.append(f"a family of one hypothesis ({n0!r} given as a string) has pvalue_adj {o1[f'e{e0}'][n0]['pvalue_adj']} != pvalue")
    # alpha omitted = the global value in force at the CALL
    with tt.config_context(alpha=alpha):
        o2 = call_public(method, alpha, results, selection, explicit_alpha=False)
    for e, name in where:
        a, b = o2[f"e{e}"][name], out[f"e{e}"][name]
        if (a["alpha_adj"], a["null_rejected"], a["pvalue_adj"]) != (b["alpha_adj"], b["null_rejected"], b["pvalue_adj"]):
            fails.append(f"alpha omitted under config_context(alpha={alpha}) differs from alpha={alpha} given explicitly: "
                         f"{name} alpha_adj {a['alpha_adj']} vs {b['alpha_adj']}")
            break
    ref = reference(method, alpha, ps)
    near = _near_boundary(method, alpha, ps)
    for j, ((pa, aa, nr), (rpa, rrej)) in enumerate(zip(got, ref)):
        if abs(pa - rpa) > 1e-9 * max(1.0, abs(rpa)):
            fails.append(f"pvalue_adj[{j}]={pa} textbook={rpa}")
        if not near and bool(nr) != rrej:
            fails.append(f"null_rejected[{j}]={nr} textbook={rrej}")
        if bool(nr) != (ps[j] <= aa):
            fails.append(f"null_rejected[{j}] != (pvalue <= alpha_adj)")
        if not near and bool(nr) != (pa <= alpha):
            fails.append(f"null_rejected[{j}]={nr} but pvalue_adj={pa} alpha={alpha}")
        if not (ps[j] - 1e-12 <= pa <= 1 + 1e-12):
            fails.append(f"pvalue_adj[{j}]={pa} outside [pvalue, 1]")
    for a, b in itertools.combinations(range(m), 2):
        if ps[a] < ps[b] and got[a][0] > got[b][0] + 1e-12:
            fails.append("adjusted p-values do not preserve the order of the raw ones")
            break
    # order of experiments and metrics does not matter
    perm = list(results.items())
    rng.shuffle(perm)
    results2 = {}
    import tea_tasting as tt
    for k, v in perm:
        items = list(v.items())
        rng.shuffle(items)
        results2[k] = tt.experiment.ExperimentResult(dict(items))
    out2 = call_public(method, alpha, results2, list(reversed(selection)))
    for (e, name), g in zip(where, got):
        d = out2[f"e{e}"][name]
        if abs(d["pvalue_adj"] - g[0]) > 1e-12 or d["null_rejected"] != g[2]:
            fails.append(f"order dependence: {name} pvalue_adj {g[0]} -> {d['pvalue_adj']}, rejected {g[2]} -> {d['null_rejected']}")
        elif abs(d["alpha_adj"] - g[1]) > 1e-12:
            fails.append(f"alpha_adj order dependence: {name} {g[1]} -> {d['alpha_adj']}")
    return fails


def oracle(ctx, deep=False):
    n = ctx.n(400, 12000) * (3 if deep else 1)
    for i in range(n):
        alpha, ps = rand_family(ctx.rng, big=(i % 10 == 9))     # every tenth family is large (12 .. 64 hypotheses)
        case = {"method": METHODS[i % len(METHODS)], "alpha": float(alpha), "ps": [float(p) for p in ps],
                "n_exp": ctx.rng.randint(1, 3), "use_dict": ctx.rng.random() < 0.5, "seed": ctx.rng.randint(0, 10**9)}
        fails = check_public(case)
        ctx.evaluations += 1
        ctx.count("oracle:" + case["method"])
        for f in fails:
            ctx.violations.append({"what": f.split(":")[0] if f.startswith(("alpha_adj order", "order")) else f.split("[")[0],
                                   "detail": f, "input": case})
        if len(ctx.violations) > 60:
            break


def replay(ctx, rp):
    fails = check_public(rp["input"])
    want = rp.get("what")
    hit = [f for f in fails if want is None or f.startswith(want)]
    return {"fails": bool(hit), "failures": fails}


def matches_finding(v, f):
    if f.get("predicate") == "alpha_adj_ties":
        ps = v["input"]["ps"]
        return v["what"].startswith("alpha_adj order dependence") and len(set(ps)) < len(ps)
    return False


def finding_still_fails(ctx, f):
    res = replay(ctx, {"input": f["witness"], "what": "alpha_adj order dependence"})
    return res["fails"]
