"""C19 - parameters are accepted exactly when they lie in their documented domain."""
from __future__ import annotations

import math
import re
from fractions import Fraction as F

import harness as H

GEN = ["Utils"]
RULE = ("exhaustive probe grid: every standard parameter name x every probe value (None, bools, ints around the bounds, "
        "floats incl. 0/1/just inside/NaN/+-inf, listed and unlisted strings, tuples/lists with one bad element, dict, "
        "object). correspondence: real utils.auto_check (accept / exception kind) vs the regenerated model (vm_compute). "
        "oracle: every entry point accepting the parameter (auto_check, set_config, config_context, RatioOfMeans, Mean, "
        "SampleRatio, Bootstrap, Quantile, adjust_fdr, adjust_fwer, make_users_data) vs the documented-domain predicate "
        "in_domain evaluated in Coq; accepted values must be stored unchanged")
TRUSTED = ["translator tools/utils2coq.py", "lib/PyVal.v reading of Python comparison/isinstance semantics",
           "encoding of probe values into pyval by this harness"]
ASSUMES = ["bool counts as int wherever int is documented (Python's own rule)",
           "values outside lib/PyVal (numpy scalars, Decimal, user classes) are represented by VOther"]

STD = ["alpha", "alternative", "confidence_level", "correction", "equal_var", "n_obs", "n_resamples", "power", "ratio", "use_t"]


class _Obj:
    def __repr__(self):
        return "<object>"


def probes():
    nan, inf = float("nan"), float("inf")
    return [None, True, False, -1, 0, 1, 2, 3, 10**6, -0.5, 0.0, 5e-324, 1e-300, 0.05, 0.5, 0.8, 0.95,
            1 - 2**-53, 1.0, 1.0000000000000002, 1.5, 2.0, 1e300, nan, inf, -inf,
            "two-sided", "greater", "less", "Two-sided", "x", "", "12", "a",
            (), [], (2, 3), [2, 3], (2, 1), (1,), (2, True), (2, 2.5), (2, "a"), (2, None), ((2, 3),), (10**6,),
            [2.0, 3.0], (2.0, 3.0),
            {}, {"a": 1}, _Obj()]


def to_pyval(v):
    if v is None:
        return "VNone"
    if isinstance(v, bool):
        return f"(VBool {'true' if v else 'false'})"
    if isinstance(v, int):
        return f"(VInt ({v}))"
    if isinstance(v, float):
        if math.isnan(v):
            return "(VFloat FNaN)"
        if math.isinf(v):
            return "(VFloat FPInf)" if v > 0 else "(VFloat FNInf)"
        fr = F(v)
        return f"(VFloat (FFin ({fr.numerator} # {fr.denominator})))"
    if isinstance(v, str):
        return f"(VStr {H.slit(v)})"
    if isinstance(v, (tuple, list)):
        return "(VSeq [" + "; ".join(to_pyval(x) for x in v) + "])"
    return "VOther"


def show(v):
    return repr(v)


HEADER = ("From Coq Require Import ZArith QArith String List Bool.\n"
          "From TT Require Import lib.PyVal genP.Utils model.C19_spec.\nImport ListNotations.\n"
          "Definition code (r : result pyval) : Z * Z := match r with Ok _ => (1, 0)%Z | Err TypeError => (0, 1)%Z "
          "| Err ValueError => (0, 2)%Z | Err _ => (0, 3)%Z end.\n"
          "Definition bz (b : bool) : Z * Z := (if b then 1 else 0, 0)%Z.\n")


def _real_auto_check(name, v):
    import tea_tasting.utils as U
    try:
        r = U.auto_check(v, name)
        return (1, 0, r)
    except TypeError:
        return (0, 1, None)
    except ValueError:
        return (0, 2, None)
    except Exception:
        return (0, 3, None)


def _grid():
    return [(n, v) for n in STD + ["my_option"] for v in probes()]


_MODEL = {}


def _model_eval(ctx):
    """(name, probe index) -> ((ok, kind), in_domain) evaluated in Coq."""
    if _MODEL:
        return _MODEL
    ok, out, dt, failed = H.make(["genP/Utils.vo", "model/C19_spec.vo"])
    if not ctx.oblige(ok, "correspondence", "build of genP/Utils.vo + model/C19_spec.vo", out):
        return None
    grid = _grid()
    terms = []
    chunk = 40
    for i in range(0, len(grid), chunk):
        parts = []
        for n, v in grid[i:i + chunk]:
            pv = to_pyval(v)
            parts.append(f"code (auto_check {pv} {H.slit(n)}); bz (in_domain {H.slit(n)} {pv})")
        terms.append("[" + "; ".join(parts) + "]")
    res, errs = H.coq_eval_shards("c19", HEADER, terms)
    for e in errs:
        ctx.oblige(False, "correspondence", "vm_compute evaluation of the probe grid", e)
    flat = []
    for r in res:
        if r is None:
            return None
        flat += [(int(a), int(b)) for a, b in re.findall(r"\((-?\d+), (-?\d+)\)", r)]
    if len(flat) != 2 * len(grid):
        ctx.oblige(False, "correspondence", "probe grid result size", f"{len(flat)} vs {2 * len(grid)}")
        return None
    pv = probes()
    for k, (n, v) in enumerate(grid):
        _MODEL[(n, k % len(pv))] = (flat[2 * k], flat[2 * k + 1][0])
    return _MODEL


def correspondence(ctx):
    model = _model_eval(ctx)
    if model is None:
        return
    pv = probes()
    for n in STD + ["my_option"]:
        for i, v in enumerate(pv):
            (mok, mkind), _ = model[(n, i)]
            rok, rkind, r = _real_auto_check(n, v)
            same = (mok, mkind) == (rok, rkind)
            ctx.oblige(same, "correspondence", "model auto_check = real auto_check (accept / exception kind)",
                       f"name={n} value={show(v)} model={(mok, mkind)} real={(rok, rkind)}", {"name": n, "value": show(v)})
            ctx.case_seen((n, show(v)), nontrivial=v is not None)
            ctx.count("auto_check:" + ("accept" if rok else ["", "TypeError", "ValueError", "other"][rkind]))
    ctx.sample({"name": "alpha", "value": "nan", "model": list(model[("alpha", [show(x) for x in pv].index("nan"))][0])})
    ctx.extra["exhaustive"] = True


# ------------------------------------------------------------------ oracle: entry points vs in_domain
def _reset_config():
    import tea_tasting.config as C
    C._global_config.clear()
    C._global_config.update({"alpha": 0.05, "alternative": "two-sided", "confidence_level": 0.95, "equal_var": False,
                             "n_obs": None, "n_resamples": 10_000, "power": 0.8, "ratio": 1, "use_t": True})


def _try(fn):
    try:
        return True, fn()
    except Exception as e:  # any exception is a rejection
        return False, type(e).__name__


def _same(a, b):
    if isinstance(a, float) and isinstance(b, float) and math.isnan(a) and math.isnan(b):
        return True
    return a is b or a == b


def entry_points():
    """name -> list of (label, callable(value) -> stored value or raises)"""
    import numpy as np
    import tea_tasting as tt
    import tea_tasting.config as C
    import tea_tasting.utils as U
    import tea_tasting.multiplicity as M
    import tea_tasting.metrics as TM

    def setc(n):
        def f(v):
            tt.set_config(**{n: v})
            return C._global_config[n]
        return f

    def ctxc(n):
        def f(v):
            with tt.config_context(**{n: v}):
                return C._global_config[n]
        return f

    def ctor(cls, n, *a, **kw):
        return lambda v: getattr(cls(*a, **{n: v}, **kw), n)
    from tea_tasting.metrics.mean import MeanResult
    res = {"x": MeanResult(1, 2, 1, 0, 2, 1, 0, 2, 0.04, 2.0)}
    er = tt.experiment.ExperimentResult(res)
    eps = {}
    for n in STD:
        eps[n] = [("auto_check", lambda v, n=n: U.auto_check(v, n)), ("set_config", setc(n)), ("config_context", ctxc(n))]
    for n in ["alpha", "alternative", "confidence_level", "equal_var", "n_obs", "power", "ratio", "use_t"]:
        eps[n] += [("RatioOfMeans", ctor(tt.RatioOfMeans, n, "x", "y")), ("Mean", ctor(tt.Mean, n, "x"))]
    for n in ["alternative", "confidence_level", "n_resamples"]:
        eps[n] += [("Bootstrap", ctor(tt.Bootstrap, n, "x", np.mean)), ("Quantile", ctor(tt.Quantile, n, "x"))]
    eps["ratio"] += [("SampleRatio", ctor(tt.SampleRatio, "ratio")),
                     ("SampleRatio(dict)", lambda v: tt.SampleRatio({0: 1, 1: v}).ratio[1])]
    eps["correction"] += [("SampleRatio", ctor(tt.SampleRatio, "correction"))]
    eps["alpha"] += [("adjust_fdr", lambda v: (M.adjust_fdr(er, alpha=v), v)[1]),
                     ("adjust_fwer", lambda v: (M.adjust_fwer(er, alpha=v), v)[1])]
    return eps


def _finite_nonzero(v):
    return (isinstance(v, (int, float)) and not (isinstance(v, float) and (math.isnan(v) or math.isinf(v))) and v != 0)


def oracle(ctx, deep=False):
    model = _model_eval(ctx)
    if model is None:
        return
    import tea_tasting as tt
    pv = probes()
    eps = entry_points()
    n_ep = 0
    for n, lst in eps.items():
        for label, fn in lst:
            for i, v in enumerate(pv):
                if v is None and label not in ("auto_check",):
                    continue  # None means "not given" for constructors / set_config
                _reset_config()
                acc, stored = _try(lambda: fn(v))
                _reset_config()
                want = bool(model[(n, i)][1])
                if label == "SampleRatio" and n == "ratio" and isinstance(v, dict):
                    # documented: ratio may be a per-variant mapping; every value must be a valid ratio
                    want = all(bool(model[("ratio", j)][1]) for x in v.values() for j, y in enumerate(pv) if y is x)
                n_ep += 1
                ctx.evaluations += 1
                ctx.count("entry:" + label)
                if acc != want:
                    ctx.violations.append({"what": f"{label}({n}={show(v)}) " + ("accepted out-of-domain value" if acc else
                                                                                  "rejected in-domain value"),
                                           "input": {"entry": label, "name": n, "value": show(v), "index": i}})
                elif acc and not _same(stored, v):
                    ctx.violations.append({"what": f"{label}({n}={show(v)}) stored a different value {stored!r}",
                                           "input": {"entry": label, "name": n, "value": show(v), "index": i}})
    # validation does not depend on what the configuration currently holds: after storing any valid value, every probe is
    # accepted / rejected exactly as on a fresh configuration (e.g. a sequence of floats equal to the stored sequence of ints)
    for n in STD:
        valid = [v for i, v in enumerate(pv) if v is not None and bool(model[(n, i)][1])]
        for base in valid:
            for i, v in enumerate(pv):
                if v is None:
                    continue
                want = bool(model[(n, i)][1])
                for label, fn in (("set_config", lambda x: tt.set_config(**{n: x})),
                                  ("config_context", lambda x: tt.config_context(**{n: x}).__enter__())):
                    _reset_config()
                    try:
                        tt.set_config(**{n: base})
                    except Exception:
                        break
                    acc, _ = _try(lambda: fn(v))
                    _reset_config()
                    ctx.evaluations += 1
                    ctx.count("entry:after-valid-value")
                    if acc != want:
                        ctx.violations.append({"what": f"after set_config({n}={show(base)}): {label}({n}={show(v)}) "
                                                       + ("accepted out-of-domain value" if acc else "rejected in-domain value"),
                                               "input": {"entry": label, "name": n, "value": show(v), "index": i, "after": show(base)}})
    # the same list object, made invalid in place after it was stored, is validated again when it is passed again
    for label, fn in (("set_config", lambda x: tt.set_config(n_obs=x)), ("config_context", lambda x: tt.config_context(n_obs=x).__enter__())):
        for bad in (-5, 2.5, 1, True, "a"):
            _reset_config()
            lst = [100, 200]
            tt.set_config(n_obs=lst)
            lst.append(bad)
            acc, _ = _try(lambda: fn(lst))
            _reset_config()
            ctx.evaluations += 1
            if acc:
                ctx.violations.append({"what": f"{label}(n_obs=<stored list, now containing {show(bad)}>) accepted an out-of-domain value",
                                       "input": {"entry": label, "name": "n_obs", "value": f"[100, 200, {show(bad)}] (same object as stored)", "index": -2}})
    # adjust_fdr / adjust_fwer validate their parameters whatever the selection (also when no metric is selected)
    for label, fn in (("adjust_fdr", tt.adjust_fdr), ("adjust_fwer", tt.adjust_fwer)):
        for sel_label, res, sel in (("empty results", {}, None), ("empty selection", tt.experiment.ExperimentResult({}), ()),
                                    ("unknown metric", tt.experiment.ExperimentResult({}), "nope")):
            for i, v in enumerate(pv):
                if v is None:
                    continue
                want = bool(model[("alpha", i)][1])
                acc, _ = _try(lambda: fn(res, sel, alpha=v))
                ctx.evaluations += 1
                if acc != want:
                    ctx.violations.append({"what": f"{label}(alpha={show(v)}) with {sel_label} " + ("accepted out-of-domain value" if acc else "rejected in-domain value"),
                                           "input": {"entry": label, "name": "alpha", "value": show(v), "index": i, "selection": sel_label}})
    # effect sizes: finite and non-zero numbers, or sequences of them
    for par in ("effect_size", "rel_effect_size"):
        for i, v in enumerate(pv):
            if v is None:
                continue
            want = _finite_nonzero(v) or (isinstance(v, (tuple, list)) and all(_finite_nonzero(x) for x in v))
            for cls, args in ((tt.RatioOfMeans, ("x", "y")), (tt.Mean, ("x",))):
                acc, _ = _try(lambda: cls(*args, **{par: v}))
                n_ep += 1
                ctx.evaluations += 1
                if acc != want:
                    ctx.violations.append({"what": f"{cls.__name__}({par}={show(v)}) " + ("accepted" if acc else "rejected"),
                                           "input": {"entry": cls.__name__, "name": par, "value": show(v), "index": i}})
    # other enumerated parameters
    import numpy as np
    enum = [("SampleRatio.method", lambda v: tt.SampleRatio(method=v), {"auto", "binom", "norm"}),
            ("Bootstrap.method", lambda v: tt.Bootstrap("x", np.mean, method=v), {"percentile", "basic", "bca"}),
            ("adjust_fwer.method", lambda v: tt.adjust_fwer(tt.experiment.ExperimentResult({}), method=v), {"sidak", "bonferroni"})]
    for label, fn, allowed in enum:
        for v in list(allowed) + ["x", "", None, 1, True, ("auto",)]:
            acc, _ = _try(lambda: fn(v))
            want = isinstance(v, str) and v in allowed
            ctx.evaluations += 1
            if acc != want:
                ctx.violations.append({"what": f"{label}={show(v)} " + ("accepted" if acc else "rejected"),
                                       "input": {"entry": label, "name": "method", "value": show(v), "index": -1}})
    # data generators
    gen_grid = {"n_users": [(10, True), (9, False), (10.0, False), (True, False), (float("nan"), False)],
                "ratio": [(1, True), (0.5, True), (0, False), (-1, False), (float("nan"), False), ("1", False)],
                "avg_sessions": [(2, True), (1, False), (1.5, True), (float("nan"), False)],
                "avg_orders_per_session": [(0.25, True), (0.0, False), (1.0, False), (1, False), (float("nan"), False)],
                "avg_revenue_per_order": [(10, True), (0, False), (float("nan"), False)],
                "revenue_uplift": [(0.1, True), (-1, False), (-0.5, True), (float("nan"), False)],
                "orders_uplift": [(0.1, True), (-1, False), (float("nan"), False), (100.0, False)],
                "sessions_uplift": [(0.0, True), (-0.6, False), (float("nan"), False)]}
    for par, cases in gen_grid.items():
        for v, want in cases:
            acc, _ = _try(lambda: tt.make_users_data(seed=1, n_users=10, **{par: v}) if par != "n_users"
                          else tt.make_users_data(seed=1, n_users=v))
            ctx.evaluations += 1
            ctx.count("entry:make_users_data")
            if acc != want:
                ctx.violations.append({"what": f"make_users_data({par}={show(v)}) " + ("accepted" if acc else "rejected"),
                                       "input": {"entry": "make_users_data", "name": par, "value": show(v), "index": -1}})
    ctx.extra["entry_point_probes"] = n_ep
    ctx.extra["exhaustive"] = True


def replay(ctx, rp):
    inp = rp["input"]
    c2 = H.Ctx("C19", "quick", 0)
    oracle(c2)
    hit = [v for v in c2.violations if v["input"] == inp]
    return {"fails": bool(hit), "failures": [v["what"] for v in hit]}


def matches_finding(v, f):
    if f.get("predicate") == "empty_string_as_sequence":
        return v["input"]["name"] in ("n_obs", "effect_size", "rel_effect_size") and v["input"]["value"] == "''"
    return False


def finding_still_fails(ctx, f):
    import tea_tasting.utils as U
    try:
        U.auto_check("", "n_obs")
        return True
    except Exception:
        return False
