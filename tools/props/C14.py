"""C14 - Aggregates pooling and delta-method formulas are exact algebraic identities."""
from __future__ import annotations

from fractions import Fraction
import itertools

import gen as G
import harness as H

GEN = ["Aggr"]
RULE = ("random samples (sizes 2..40; styles generic/positive/correlated/offset 1e9/ints; Fractions) and random "
        "arbitrary aggregates; each case evaluates add / ratio_var / ratio_cov through the real Aggregates methods on "
        "fractions.Fraction and through the regenerated Gallina model over Qc (vm_compute); exact equality. "
        "distinct = distinct input aggregates; non-trivial = at least one non-zero covariance")
TRUSTED = ["translator tools/py2coq.py (Aggr spec)", "CPython fractions.Fraction", "correspondence harness tools/props/C14.py"]
ASSUMES = ["floating-point clause ('up to rounding') is validated numerically against exact rationals, not proved",
           "dict key sets of Aggregates are not modelled (total functions)"]

NAMES = [None, "x", "y", "z", "w"]


def _arb_agg(rng):
    import tea_tasting.aggr as A
    cols = G.COLS
    m = {c: G.rand_frac(rng) or Fraction(1) for c in cols}
    for c in cols:
        if m[c] == 0:
            m[c] = Fraction(1, 3)
    v = {c: abs(G.rand_frac(rng)) for c in cols}
    cv = {p: G.rand_frac(rng) for p in itertools.combinations(sorted(cols), 2)}
    for c in cols:
        cv[(c, c)] = v[c]
    return A.Aggregates(count_=rng.randint(2, 10**6), mean_=m, var_=v, cov_=cv)


def _sample_agg(rng):
    n = rng.choice([2, 2, 3, 5, 8, 13, 40])
    while True:
        rows = G.rand_rows(rng, n)
        a = G.real_aggregates(rows, G.COLS, self_cov=True)
        if all(a.mean_[c] != 0 for c in G.COLS):
            return rows, a


def _impl_outputs(a, b, queries):
    s = a + b
    out = [Fraction(s.count_)]
    for c in G.COLS:
        out += [s.mean_[c], s.var_[c]]
    for p in sorted(s.cov_):
        out.append(s.cov_[p])
    for q in queries:
        if len(q) == 2:
            out.append(a.ratio_var(*q))
        else:
            out.append(a.ratio_cov(*q))
    return out


def _model_term(a, b, queries):
    o = lambda x: "None" if x is None else f"(Some {H.slit(x)})"
    parts = ["match count_ s with Some c => qshow c | None => (0,0) end"]
    for c in G.COLS:
        parts += [f"qshow (mean_ s {H.slit(c)})", f"qshow (var_ s {H.slit(c)})"]
    for p in sorted(a.cov_):
        parts.append(f"qshow (cov_ s ({H.slit(p[0])}, {H.slit(p[1])}))")
    for q in queries:
        if len(q) == 2:
            parts.append(f"qshow (agg_ratio_var a {o(q[0])} {o(q[1])})")
        else:
            parts.append(f"qshow (agg_ratio_cov a {o(q[0])} {o(q[1])} {o(q[2])} {o(q[3])})")
    return (f"let a := {G.coq_agg(a)} in let b := {G.coq_agg(b)} in let s := agg_add a b in\n  ["
            + "; ".join(parts) + "]")


def correspondence(ctx):
    ncases = ctx.n(200, 6000)
    cases, terms, expect = [], [], []
    for i in range(ncases):
        if ctx.rng.random() < 0.5:
            _, a = _sample_agg(ctx.rng)
            _, b = _sample_agg(ctx.rng)
            kind = "sample"
        else:
            a, b = _arb_agg(ctx.rng), _arb_agg(ctx.rng)
            kind = "arbitrary"
        qs = [tuple(ctx.rng.choice(NAMES) for _ in range(ctx.rng.choice([2, 2, 4]))) for _ in range(4)]
        qs = [q for q in qs if q[0] is not None or True]
        try:
            exp = _impl_outputs(a, b, qs)
        except ZeroDivisionError:
            ctx.count("skipped_zero_division")
            continue
        ctx.count("kind:" + kind)
        for q in qs:
            ctx.count("query_len:%d none=%d" % (len(q), sum(x is None for x in q)))
        cases.append({"a": G.agg_json(a), "b": G.agg_json(b), "queries": [list(q) for q in qs]})
        terms.append(_model_term(a, b, qs))
        expect.append(exp)
        ctx.case_seen((cases[-1]["a"], cases[-1]["b"]), nontrivial=any(v != 0 for v in a.cov_.values()))
    header = "From TT Require Import lib.PreludeQ lib.CaseQ genQ.Aggr."
    ok, out, dt, failed = H.make(["genQ/Aggr.vo", "lib/CaseQ.vo"])
    if not ctx.oblige(ok, "correspondence", "build of the executable model genQ/Aggr.vo", out):
        return
    res, errs = H.coq_eval_shards("c14", header, terms)
    for e in errs:
        ctx.oblige(False, "correspondence", "vm_compute evaluation of generated cases", e)
    for case, r, exp in zip(cases, res, expect):
        if r is None:
            continue
        got = H.parse_pairs(r)
        same = H.same_numbers(got, exp)
        ctx.oblige(same, "correspondence", "model genQ/Aggr = real Aggregates on Fractions",
                   f"model={[H.frac(x) for x in got]} impl={[H.frac(x) for x in exp]}", case)
        ctx.sample({"a": case["a"], "queries": case["queries"], "outputs_equal": same,
                    "first_outputs": [H.frac(x) for x in exp[:4]]}, limit=3)


# --------------------------------------------------------------------- property oracle on the real code
def _lin(rows, x, y):
    col = lambda r, c: Fraction(1) if c is None else r[c]
    mx = G.mean([col(r, x) for r in rows])
    my = G.mean([col(r, y) for r in rows])
    rr = mx / my
    return [rr + (col(r, x) - rr * col(r, y)) / my for r in rows]


def _check_sample_case(rows1, rows2, conv, tol):
    """Returns list of (what, detail) failures of the property on the real code for these samples."""
    fails = []
    a = G.real_aggregates(rows1, G.COLS, conv, self_cov=True)
    b = G.real_aggregates(rows2, G.COLS, conv, self_cov=True)
    c = G.real_aggregates(rows1 + rows2, G.COLS, lambda x: x, self_cov=True)

    def close(u, v):
        if tol == 0:
            return u == v
        u, v = float(u), float(v)
        return abs(u - v) <= tol * max(1.0, abs(u), abs(v))
    s = a + b
    s2 = b + a
    if s.count_ != c.count_:
        fails.append(("add.count", f"{s.count_} != {c.count_}"))
    for k in G.COLS:
        if not close(s.mean_[k], c.mean_[k]):
            fails.append((f"add.mean[{k}]", f"{s.mean_[k]} != {c.mean_[k]}"))
        if not close(s.var_[k], c.var_[k]):
            fails.append((f"add.var[{k}]", f"{s.var_[k]} != {c.var_[k]}"))
        if not close(s.mean_[k], s2.mean_[k]) or not close(s.var_[k], s2.var_[k]):
            fails.append((f"commutativity[{k}]", ""))
    for p in c.cov_:
        if not close(s.cov_[p], c.cov_[p]):
            fails.append((f"add.cov[{p}]", f"{s.cov_[p]} != {c.cov_[p]}"))
        if not close(s.cov_[p], s2.cov_[p]):
            fails.append((f"commutativity.cov[{p}]", ""))
    if tol == 0:
        for (x, y) in [("x", "y"), ("z", None), (None, "w"), ("w", "x")]:
            lin = _lin(rows1, x, y)
            if a.ratio_var(x, y) != G.cov(lin, lin):
                fails.append((f"ratio_var({x},{y}) != var of linearised", ""))
        import itertools
        for q in itertools.product([None, "x", "y", "w"], repeat=4):   # every position of a missing name
            l1, l2 = _lin(rows1, q[0], q[1]), _lin(rows1, q[2], q[3])
            if a.ratio_cov(*q) != G.cov(l1, l2):
                fails.append((f"ratio_cov{q} != cov of linearised", ""))
        for q in itertools.product([None, "x", "z"], repeat=2):
            lin = _lin(rows1, q[0], q[1])
            if a.ratio_var(*q) != G.cov(lin, lin):
                fails.append((f"ratio_var{q} != var of linearised", ""))
        if a.ratio_var("x", None) != a.var_["x"]:
            fails.append(("ratio_var(x,None) != var(x)", ""))
        if a.ratio_cov("x", None, "y", None) != a.cov_[("x", "y")]:
            fails.append(("ratio_cov(x,None,y,None) != cov(x,y)", ""))
        if a.ratio_cov("x", "y", "x", "y") != a.ratio_var("x", "y"):
            fails.append(("ratio_cov(x,y,x,y) != ratio_var(x,y)", ""))
    return fails


UNUSUAL = {"x": "", "y": " ", "z": "0", "w": "a b"}      # legal column names: empty, blank, digit, with a space


def _names_case(rows1, rows2):
    """the same samples under unusual column names, read through the public accessors"""
    ren = lambda rows: [{UNUSUAL[k]: v for k, v in r.items()} for r in rows]
    cols = [UNUSUAL[c] for c in G.COLS]
    a = G.real_aggregates(ren(rows1), cols, self_cov=False)
    b = G.real_aggregates(ren(rows2), cols, self_cov=False)
    c = G.real_aggregates(ren(rows1 + rows2), cols, self_cov=False)
    s = a + b
    fails = []
    for k in cols:
        if s.mean(k) != c.mean_[k] or s.var(k) != c.var_[k]:
            fails.append((f"column named {k!r}: mean / var of a + b through the accessors", f"{s.mean(k)}, {s.var(k)} != {c.mean_[k]}, {c.var_[k]}"))
    for (p, q), v in c.cov_.items():
        if s.cov(p, q) != v or s.cov(q, p) != v:
            fails.append((f"columns named {p!r}, {q!r}: cov of a + b through the accessors", f"{s.cov(p, q)} != {v}"))
    for x, y in (("", " "), ("0", ""), (" ", None), (None, "")):
        lin = _lin(ren(rows1), x, y)
        if a.ratio_var(x, y) != G.cov(lin, lin):
            fails.append((f"ratio_var({x!r}, {y!r}) != var of linearised", ""))
    return fails


def _construction_case(rows1, rows2, rng):
    """hand-built Aggregates: covariance keys written in either order, dict entries inserted in any order, and the
    augmented assignment a += b - always the Aggregates of the concatenation"""
    import tea_tasting.aggr as A
    n1, m1, v1, c1 = G.exact_aggr_dicts(rows1, G.COLS)
    n2, m2, v2, c2 = G.exact_aggr_dicts(rows2, G.COLS)
    nc, mc, vc, cc = G.exact_aggr_dicts(rows1 + rows2, G.COLS)

    def shuffled(d, flip=False):
        items = list(d.items())
        rng.shuffle(items)
        return {((k[1], k[0]) if flip and isinstance(k, tuple) and rng.random() < 0.5 else k): v for k, v in items}
    a = A.Aggregates(count_=n1, mean_=shuffled(m1), var_=shuffled(v1), cov_=shuffled(c1, flip=True))
    b = A.Aggregates(count_=n2, mean_=shuffled(m2), var_=shuffled(v2), cov_=shuffled(c2, flip=True))
    fails = []
    try:
        s = a + b
        t = a
        t += b
        for label, x in (("a + b", s), ("a += b", t)):
            if x.count_ != nc:
                fails.append((f"{label}: count", f"{x.count_} != {nc}"))
            for k in G.COLS:
                if x.mean(k) != mc[k] or x.var(k) != vc[k]:
                    fails.append((f"{label}: mean / var of {k} with shuffled dict order", f"{x.mean(k)}, {x.var(k)} != {mc[k]}, {vc[k]}"))
            for (p_, q_), v in cc.items():
                if x.cov(p_, q_) != v or x.cov(q_, p_) != v:
                    fails.append((f"{label}: cov({p_},{q_}) with keys written in either order", f"{x.cov(p_, q_)} != {v}"))
        if a.count_ != n1 or any(a.mean(k) != m1[k] or a.var(k) != v1[k] for k in G.COLS):
            fails.append(("a += b modified the object a was bound to", ""))
        if a.ratio_var("x", "y") != G.cov(_lin(rows1, "x", "y"), _lin(rows1, "x", "y")):
            fails.append(("ratio_var on hand-built aggregates", ""))
    except Exception as e:  # noqa: BLE001
        fails.append((f"hand-built aggregates raised {type(e).__name__}", str(e)))
    return fails


def oracle(ctx, deep=False):
    for i in range(ctx.n(20, 300)):
        rows1, _ = _sample_agg(ctx.rng)
        rows2, _ = _sample_agg(ctx.rng)
        ctx.evaluations += 1
        ctx.count("oracle:hand-built")
        import random as _r
        seed = ctx.rng.randint(0, 10**6)
        fails = _construction_case(rows1, rows2, _r.Random(seed))
        if fails:
            ctx.violations.append({"what": fails[0][0], "detail": fails[0][1], "all": [f[0] for f in fails][:10],
                                   "input": {"rows1": G.rows_json(rows1), "rows2": G.rows_json(rows2), "mode": "construction", "seed": seed}})
            break
    for i in range(ctx.n(20, 300)):
        rows1, _ = _sample_agg(ctx.rng)
        rows2, _ = _sample_agg(ctx.rng)
        ctx.evaluations += 1
        ctx.count("oracle:unusual-names")
        fails = _names_case(rows1, rows2)
        if fails:
            ctx.violations.append({"what": fails[0][0], "detail": fails[0][1], "all": [f[0] for f in fails][:10],
                                   "input": {"rows1": G.rows_json(rows1), "rows2": G.rows_json(rows2), "mode": "names"}})
            break
    n = ctx.n(150, 3000) * (3 if deep else 1)
    for i in range(n):
        rows1, _ = _sample_agg(ctx.rng)
        rows2, _ = _sample_agg(ctx.rng)
        ctx.evaluations += 1
        fails = _check_sample_case(rows1, rows2, lambda x: x, 0)
        if fails:
            ctx.violations.append({"what": fails[0][0], "detail": fails[0][1], "all": [f[0] for f in fails][:10],
                                   "input": {"rows1": G.rows_json(rows1), "rows2": G.rows_json(rows2), "mode": "exact"}})
            if len(ctx.violations) >= 3:
                break
    # associativity on arbitrary aggregates
    for i in range(ctx.n(50, 1000)):
        a, b, c = _arb_agg(ctx.rng), _arb_agg(ctx.rng), _arb_agg(ctx.rng)
        l, r = (a + b) + c, a + (b + c)
        ctx.evaluations += 1
        bad = (l.count_ != r.count_ or any(l.mean_[k] != r.mean_[k] or l.var_[k] != r.var_[k] for k in G.COLS)
               or any(l.cov_[p] != r.cov_[p] for p in l.cov_))
        if bad:
            ctx.violations.append({"what": "associativity", "input": {"a": G.agg_json(a), "b": G.agg_json(b),
                                                                      "c": G.agg_json(c), "mode": "assoc"}})
            break
    # validation (not proof) of the floating-point clause: floats vs exact, conditioning-scaled tolerance
    nf = 0
    for i in range(ctx.n(100, 2000)):
        st = ctx.rng.choice(["generic", "positive", "ints", "offset"])
        # "offset": values 1e9 + small; pooling must stay accurate (only deviations and the difference of means are squared)
        rows1 = G.rand_rows(ctx.rng, ctx.rng.choice([2, 5, 30]), style=st)
        rows2 = G.rand_rows(ctx.rng, ctx.rng.choice([2, 7, 25]), style="offset" if st == "offset" else "positive")
        try:
            fails = _check_sample_case(rows1, rows2, float, 1e-6)
        except ZeroDivisionError:
            continue
        nf += 1
        if fails:
            ctx.violations.append({"what": "float:" + fails[0][0], "detail": fails[0][1],
                                   "input": {"rows1": G.rows_json(rows1), "rows2": G.rows_json(rows2), "mode": "float"}})
            break
    ctx.extra["float_validation_cases"] = nf


def replay(ctx, rp):
    inp = rp["input"]
    if inp.get("mode") == "assoc":
        a, b, c = (G.agg_from_json(inp[k]) for k in "abc")
        l, r = (a + b) + c, a + (b + c)
        bad = (l.count_ != r.count_ or any(l.mean_[k] != r.mean_[k] or l.var_[k] != r.var_[k] for k in G.COLS)
               or any(l.cov_[p] != r.cov_[p] for p in l.cov_))
        return {"fails": bad, "what": "associativity"}
    rows1, rows2 = G.rows_from_json(inp["rows1"]), G.rows_from_json(inp["rows2"])
    if inp["mode"] == "construction":
        import random as _r
        fails = _construction_case(rows1, rows2, _r.Random(inp["seed"]))
    elif inp["mode"] == "names":
        fails = _names_case(rows1, rows2)
    elif inp["mode"] == "float":
        fails = _check_sample_case(rows1, rows2, float, 1e-6)
    else:
        fails = _check_sample_case(rows1, rows2, lambda x: x, 0)
    return {"fails": bool(fails), "failures": fails[:10]}


def finding_still_fails(ctx, f):
    return False


def matches_finding(v, f):
    return False
