"""C20 - synthetic datasets are reproducible and internally consistent."""
from __future__ import annotations

import math
import re
from fractions import Fraction

import harness as H

GEN = ["Datasets"]
RULE = ("correspondence (1): make_users_data / make_sessions_data run with a recording proxy around the numpy Generator; the "
        "sequence of rng.* calls and every parameter array handed to them are compared with the regenerated genQ/Datasets.v "
        "expressions evaluated by vm_compute (ln / exp / sqrt through invertible affine stand-ins); "
        "correspondence (2): the recorded return values of the Generator are replayed through model/Datasets.users_data / "
        "sessions_data (vm_compute) and compared with the real table: integer columns exactly, rounded money columns to within "
        "one cent. oracle (real generators, random valid parameters / seeds / covariates / return types): documented columns "
        "and dtypes, value invariants, same data for the same seed in all three return types and on repetition, sessions data "
        "= explosion of the users data of the same seed (variant, rows per user), covariates constant within a user, large-sample "
        "calibration of share, uplifts and control averages (|z| < 5); half of the parameter sets come from a wider grid filtered by the code's own _check_params (accepted => generation succeeds)")
TRUSTED = ["tools/specs.py _datasets_emit (extraction of the rng.* parameter expressions and _check_params bounds)",
           "hand model model/Datasets.v (table assembly from Generator return values)",
           "textbook means of Poisson / Beta / Binomial / LogNormal and independence of the draws (definitions in proofs/C20_calibration.v)",
           "range contracts of numpy Generator.binomial / poisson / beta / lognormal (udraw_ok, sdraw_ok), observed on every recorded draw",
           "numpy Generator determinism for a fixed seed and pyarrow / pandas / polars table constructors (oracle only)"]
ASSUMES = ["C20_generator_partial: determinism of numpy's Generator and equality of the three return types are not theorems; "
           "they are compared on the real generators for every sampled parameter set"]

PARAMS = ["ratio", "sessions_uplift", "orders_uplift", "revenue_uplift", "avg_sessions", "avg_orders_per_session",
          "avg_revenue_per_order"]


def rand_params(rng, small=True):
    while True:
        p = {"ratio": rng.choice([1, 1, 0.5, 2, 3, 0.25, 1.5]),
             "sessions_uplift": rng.choice([0.0, 0.0, 0.125, -0.125, 0.25, 0.5]),
             "orders_uplift": rng.choice([0.0, 0.125, 0.1, -0.25, 0.5, 1.0]),
             "revenue_uplift": rng.choice([0.0, 0.125, 0.1, -0.25, 0.5, 1.5]),
             "avg_sessions": rng.choice([2, 2, 1.5, 3, 5, 1.25]),
             "avg_orders_per_session": rng.choice([0.25, 0.25, 0.5, 0.125, 0.75, 0.9]),
             "avg_revenue_per_order": rng.choice([10, 10, 1, 0.5, 250, 3.75])}
        if valid(p):
            return p


def valid(p):
    return (p["ratio"] > 0 and p["sessions_uplift"] > 1 / p["avg_sessions"] - 1 and
            -1 < p["orders_uplift"] < (1 + p["sessions_uplift"]) / p["avg_orders_per_session"] - 1 and
            p["revenue_uplift"] > -1 and p["avg_sessions"] > 1 and 0 < p["avg_orders_per_session"] < 1 and
            p["avg_revenue_per_order"] > 0)


# ------------------------------------------------------------------ recording the Generator
class Recorder:
    def __init__(self, real):
        self.real = real
        self.calls = []

    def _rec(self, name, **kw):
        out = getattr(self.real, name)(**kw)
        self.calls.append((name, kw, out))
        return out

    def binomial(self, **kw):
        return self._rec("binomial", **kw)

    def poisson(self, **kw):
        return self._rec("poisson", **kw)

    def beta(self, **kw):
        return self._rec("beta", **kw)

    def lognormal(self, **kw):
        return self._rec("lognormal", **kw)

    def __getattr__(self, name):
        raise AttributeError(f"_make_data uses rng.{name}, which the model does not know")


def record(fn, **kw):
    import numpy as np
    orig = np.random.default_rng
    box = {}

    def fake(seed=None):
        box["rec"] = Recorder(orig(seed=seed))
        return box["rec"]
    np.random.default_rng = fake
    try:
        tab = fn(**kw)
    finally:
        np.random.default_rng = orig
    return tab, box["rec"].calls


def table_dict(tab):
    if hasattr(tab, "to_pydict"):
        return tab.to_pydict()
    if hasattr(tab, "to_dict") and not hasattr(tab, "to_dicts"):
        return {k: list(v) for k, v in tab.to_dict(orient="list").items()}
    return tab.to_dict(as_series=False)


# ------------------------------------------------------------------ correspondence
HEADER = ("From Coq Require Import ZArith QArith List.\nFrom TT Require Import lib.PreludeQ lib.CaseQ genQ.Datasets model.Datasets.\n"
          "Import ListNotations.\n"
          "Definition qs (q : Q) : Z * Z := let r := Qred q in (Qnum r, Zpos (Qden r)).\n"
          "Definition showrow (r : drow) : list (Z * Z) := [(r_user r, 1%Z); (r_variant r, 1%Z); (r_sessions r, 1%Z); (r_orders r, 1%Z); "
          "qs (r_revenue r); qs (r_sessions_cov r); qs (r_orders_cov r); qs (r_revenue_cov r)].\n"
          "Definition showtab (t : list drow) : list (Z * Z) := flat_map showrow t.\n"
          "Definition U (v p o : Z) (r : Q) (cs co : Z) (cr : Q) := Build_udraw v p o r cs co cr.\n"
          "Definition S (o : Z) (r : Q) (cs co : Z) (cr : Q) := Build_sdraw o r cs co cr.\n"
          "Definition X (v p : Z) (l : list sdraw) := Build_xuser v p l.\n")


def params_term(p, explode):
    pre = "dsx" if explode else "ds"
    a = " ".join(H.qlit(p[k]) for k in PARAMS)
    items = []
    for v in (0, 1):
        vq = H.qlit(v)
        items += [f"qshow ({pre}_{f} {a} {vq})" for f in ("variant_p", "sessions_lam", "ops_a", "ops_b", "rpo_mean", "rpo_sigma")]
        items += [f"qshow ({pre}_cov_sessions_lam {a} {vq} (nlit 1))", f"qshow ({pre}_cov_ops {a} {vq} (qmk 1 1024))",
                  f"qshow ({pre}_cov_rpo_mean {a} {vq} (nlit 1))", f"qshow ({pre}_cov_ops {a} {vq} (nlit 1024))"]
    return "[" + "; ".join(items) + "]"


def close(a, b, rel=1e-10):
    return abs(a - b) <= rel * max(1.0, abs(a), abs(b))


def compare_params(case, calls, model):
    """model: 20 Fractions (10 per variant) from params_term. Stand-ins: nln x = 7x+2, nexp x = 2x-5, nsqrt x = 3x+1."""
    import numpy as np
    p, explode, cov = case["params"], case["explode"], case["covariates"]
    fails = []
    names = [c[0] for c in calls]
    want = ["binomial", "poisson", "beta", "binomial", "lognormal"] + (["poisson", "binomial", "lognormal"] if cov else [])
    if names != want:
        return [f"rng call sequence {names}, model expects {want}"]
    variant = np.asarray(calls[0][2])
    pois = np.asarray(calls[1][2])
    user = np.repeat(np.arange(len(variant)), 1 + pois) if explode else np.arange(len(variant))
    M = {v: [float(x) for x in model[10 * v: 10 * v + 10]] for v in (0, 1)}
    Mq = {v: model[10 * v: 10 * v + 10] for v in (0, 1)}
    k = calls[0][1]
    if k.get("n") != 1 or not close(float(k["p"]), M[0][0]) or k.get("size") != case["n_users"]:
        fails.append(f"variant draw {k} model p {M[0][0]}")
    lam = np.broadcast_to(np.asarray(calls[1][1]["lam"], dtype=float), variant.shape)
    a = np.broadcast_to(np.asarray(calls[2][1]["a"], dtype=float), variant.shape)
    b = np.broadcast_to(np.asarray(calls[2][1]["b"], dtype=float), variant.shape)
    for i, v in enumerate(variant):
        if not (close(lam[i], M[v][1]) and close(a[i], M[v][2]) and close(b[i], M[v][3])):
            fails.append(f"user {i} variant {v}: lam, a, b = {lam[i]}, {a[i]}, {b[i]} model {M[v][1:4]}")
            break
    # orders ~ Binomial(sessions, p[user])
    sessions = np.ones_like(user) if explode else 1 + pois
    k = calls[3][1]
    if not (np.array_equal(np.asarray(k["n"]), sessions) and np.array_equal(np.asarray(k["p"]), np.asarray(calls[2][2])[user])):
        fails.append("orders draw: n / p are not sessions / orders_per_sessions[user]")
    # revenue per order ~ LogNormal(mean, sigma): undo the stand-ins
    k = calls[4][1]
    sig = float(k["sigma"])
    mean = np.broadcast_to(np.asarray(k["mean"], dtype=float), user.shape)
    for v in (0, 1):
        sq = Mq[v][5]
        arg_model = float((Mq[v][4] + sq * sq / 2 - 2) / 7)          # arpo * mult
        rows = np.nonzero(variant[user] == v)[0]
        if len(rows) and not close(math.exp(mean[rows[0]] + sig * sig / 2), arg_model, 1e-9):
            fails.append(f"lognormal mean variant {v}: exp(mean + sigma^2/2) = {math.exp(mean[rows[0]] + sig * sig / 2)} model {arg_model}")
        if not explode:
            if not close(sig, float(sq)):
                fails.append(f"sigma {sig} model {float(sq)}")
        else:
            inner = ((sq - 1) / 3 - 2) / 7                               # 1 + avs * (E - 1), E = nexp (s^2) = 2 s^2 - 5
            s2_model = float((((inner - 1) / Fraction(p["avg_sessions"]) + 1) + 5) / 2)
            s2_real = math.log((math.exp(sig * sig) - 1) / p["avg_sessions"] + 1)
            if not close(s2_real, s2_model, 1e-9):
                fails.append(f"sessions sigma: base scale^2 {s2_real} model {s2_model}")
    if cov:
        k = calls[5][1]
        lamc = np.broadcast_to(np.asarray(k["lam"], dtype=float), user.shape)
        pc = np.asarray(calls[6][1]["p"], dtype=float)
        meanc = np.broadcast_to(np.asarray(calls[7][1]["mean"], dtype=float), user.shape)
        ops = np.asarray(calls[2][2])
        rpo = np.asarray(calls[4][2])
        if not np.array_equal(np.asarray(calls[6][1]["n"]), np.asarray(calls[5][2])):
            fails.append("orders_covariate draw: n is not sessions_covariate")
        if float(calls[7][1]["sigma"]) != sig:
            fails.append("covariate sigma differs")
        for j, u in enumerate(user):
            v = variant[u]
            sq = Mq[v][5]
            inv_mult = float((Mq[v][8] + sq * sq / 2 - 2) / 7)       # 1 / revenue_per_order_mult
            if not (close(lamc[j], sessions[j] * M[v][6]) and close(pc[j], min(ops[u] * M[v][7] * 1024, M[v][9]))
                    and close(math.exp(meanc[j] + sig * sig / 2), rpo[j] * inv_mult, 1e-9)):
                fails.append(f"covariate parameters row {j}: {lamc[j]}, {pc[j]}, {meanc[j]}")
                break
    return fails


def draws_term(case, calls):
    import numpy as np
    explode, cov = case["explode"], case["covariates"]
    variant = [int(x) for x in calls[0][2]]
    pois = [int(x) for x in calls[1][2]]
    orders = [int(x) for x in calls[3][2]]
    rpo = [float(x) for x in calls[4][2]]
    n = len(orders)
    if cov:
        cs, co, cr = [int(x) for x in calls[5][2]], [int(x) for x in calls[6][2]], [float(x) for x in calls[7][2]]
    else:
        cs, co, cr = [0] * n, [0] * n, [1.0] * n

    def q(x):
        fr = Fraction(x)
        return f"({fr.numerator} # {fr.denominator})"
    if not explode:
        items = [f"U {variant[i]} {pois[i]} {orders[i]} {q(rpo[i])} {cs[i]} {co[i]} {q(cr[i])}" for i in range(n)]
        return "showtab (users_data [" + "; ".join(items) + "])"
    items, j = [], 0
    for i in range(len(variant)):
        ss = []
        for _ in range(1 + pois[i]):
            ss.append(f"S {orders[j]} {q(rpo[j])} {cs[j]} {co[j]} {q(cr[j])}")
            j += 1
        items.append(f"X {variant[i]} {pois[i]} [" + "; ".join(ss) + "]")
    return "showtab (sessions_data [" + "; ".join(items) + "])"


def range_contract(case, calls):
    """the Generator's return values meet udraw_ok / sdraw_ok (hypotheses of the theorems)"""
    import numpy as np
    bad = []
    variant, pois, ops, orders, rpo = (np.asarray(calls[i][2]) for i in range(5))
    n_arg = np.asarray(calls[3][1]["n"])
    if not (np.isin(variant, (0, 1)).all() and (pois >= 0).all() and ((ops >= 0) & (ops <= 1)).all()
            and ((orders >= 0) & (orders <= n_arg)).all() and (rpo > 0).all()):
        bad.append("main draws outside their documented range")
    if case["covariates"]:
        cs, co, cr = (np.asarray(calls[i][2]) for i in (5, 6, 7))
        if not ((cs >= 0).all() and ((co >= 0) & (co <= cs)).all() and (cr > 0).all()):
            bad.append("covariate draws outside their documented range")
    return bad


def compare_table(case, tab, model_pairs):
    d = table_dict(tab)
    cols = ["user", "variant", "sessions", "orders", "revenue"]
    allc = cols + ["sessions_covariate", "orders_covariate", "revenue_covariate"]
    nrows = len(d["user"])
    if len(model_pairs) != 8 * nrows:
        return [f"model has {len(model_pairs) // 8} rows, table {nrows}"], 0
    fails, exact = [], 0
    for i in range(nrows):
        m = model_pairs[8 * i: 8 * i + 8]
        for j, c in enumerate(allc):
            if c not in d:
                continue
            x = d[c][i]
            if j < 4:
                ok = Fraction(x) == m[j]
            elif c in ("revenue", "revenue_covariate"):
                ok = abs(Fraction(x) - m[j]) <= Fraction(1, 100) + Fraction(1, 10**9)
                exact += abs(Fraction(x) - m[j]) < Fraction(1, 10**9)
            else:
                ok = abs(float(x) - float(m[j])) <= 1e-12 * max(1.0, abs(float(x)))
            if not ok:
                fails.append(f"row {i} column {c}: table {x!r} model {float(m[j])!r}")
        if len(fails) > 5:
            break
    return fails, exact


def rand_case(rng, big=False):
    return {"params": rand_params(rng), "n_users": rng.randint(10, 24), "seed": rng.randint(0, 10**6),
            "covariates": rng.random() < 0.5, "explode": rng.random() < 0.5,
            "return_type": rng.choice(["arrow", "pandas", "polars"])}


def run_real(case, return_type=None):
    import tea_tasting as tt
    fn = tt.make_sessions_data if case["explode"] else tt.make_users_data
    return fn, dict(covariates=case["covariates"], seed=case["seed"], n_users=case["n_users"],
                    return_type=return_type or case["return_type"], **case["params"])


def correspondence(ctx):
    ok, out, dt, failed = H.make(["genQ/Datasets.vo", "model/Datasets.vo", "lib/CaseQ.vo"])
    if not ctx.oblige(ok, "correspondence", "build of genQ/Datasets.vo and model/Datasets.vo", out):
        return
    cases, terms, recs, tabs = [], [], [], []
    for i in range(ctx.n(60, 1500)):
        case = rand_case(ctx.rng)
        fn, kw = run_real(case)
        try:
            tab, calls = record(fn, **kw)
        except Exception as e:
            ctx.oblige(False, "correspondence", "generator raised on valid parameters", repr(e), case)
            continue
        bad = range_contract(case, calls) if len(calls) >= 5 else ["fewer than five rng calls"]
        ctx.oblige(not bad, "correspondence", "Generator return values meet the range contracts (udraw_ok / sdraw_ok)", "; ".join(bad), case)
        if bad:
            continue
        cases.append(case)
        recs.append(calls)
        tabs.append(tab)
        terms.append(params_term(case["params"], case["explode"]))
        try:
            terms.append(draws_term(case, calls))
        except Exception as e:
            terms.append("@nil (Z * Z)")
        ctx.count(("sessions" if case["explode"] else "users") + (":cov" if case["covariates"] else ""))
        ctx.count("return:" + case["return_type"])
        ctx.case_seen(repr(case))
    res, errs = H.coq_eval_shards("c20", HEADER, terms, per_file=8)
    for e in errs:
        ctx.oblige(False, "correspondence", "vm_compute evaluation", e)
    exact = total = 0
    for i, case in enumerate(cases):
        rp, rt = res[2 * i], res[2 * i + 1]
        if rp is None or rt is None:
            continue
        model = H.parse_pairs(rp)
        fails = compare_params(case, recs[i], model) if len(model) == 20 else [f"model returned {len(model)} values"]
        ctx.oblige(not fails, "correspondence", "rng.* parameters = genQ/Datasets expressions", "; ".join(fails)[:2000], case)
        pairs = [Fraction(int(a), int(b)) for a, b in re.findall(r"\((-?\d+), (\d+)\)", rt)]
        fails, ex = compare_table(case, tabs[i], pairs)
        exact += ex
        total += len(pairs) // 8
        ctx.oblige(not fails, "correspondence", "real table = model/Datasets table replayed on the recorded draws", "; ".join(fails)[:2000], case)
        ctx.sample({"case": case, "rows": len(pairs) // 8}, limit=3)
    ctx.extra["money_cells_exactly_equal"] = exact
    ctx.extra["rows_replayed"] = total


# ------------------------------------------------------------------ oracle on the real generators
def check_case(case):
    """All statement-level facts on the real generators for one parameter set / seed."""
    import numpy as np
    import tea_tasting as tt
    fails = []
    kw0 = dict(covariates=case["covariates"], n_users=case["n_users"], **case["params"])
    # every documented kind of seed names the same stream as the integer: a SeedSequence (fresh per call, or ONE object
    # reused for all calls - it must not be consumed), a fresh Generator per call
    sk = case.get("seed_kind", "int")
    shared = np.random.SeedSequence(case["seed"])

    def mk_seed():
        return {"int": lambda: case["seed"], "seedseq": lambda: np.random.SeedSequence(case["seed"]),
                "seedseq-shared": lambda: shared, "generator": lambda: np.random.default_rng(case["seed"])}[sk]()
    tabs = {}
    for kind, fn in (("users", tt.make_users_data), ("sessions", tt.make_sessions_data)):
        for rt in ("arrow", "pandas", "polars"):
            tabs[kind, rt] = table_dict(fn(return_type=rt, seed=mk_seed(), **kw0))
        again = table_dict(fn(return_type="arrow", seed=mk_seed(), **kw0))
        if sk != "int":
            by_int = table_dict(fn(return_type="arrow", seed=case["seed"], **kw0))
            if any(not np.array_equal(np.asarray(by_int[c]), np.asarray(tabs[kind, "arrow"][c])) for c in by_int):
                fails.append(f"{kind} data for seed kind {sk} differs from the data of the equal integer seed")
        for rt in ("pandas", "polars"):
            if list(tabs[kind, rt]) != list(tabs[kind, "arrow"]) or any(
                    not np.array_equal(np.asarray(tabs[kind, rt][c]), np.asarray(tabs[kind, "arrow"][c])) for c in tabs[kind, "arrow"]):
                fails.append(f"{kind} data differs between arrow and {rt}")
        if any(not np.array_equal(np.asarray(again[c]), np.asarray(tabs[kind, "arrow"][c])) for c in again):
            fails.append(f"{kind} data not reproducible for the same seed")
    # a returned frame belongs to the caller: modifying it must not change what the next call with the same seed returns
    for kind, fn in (("users", tt.make_users_data), ("sessions", tt.make_sessions_data)):
        first = fn(return_type="pandas", seed=mk_seed(), **kw0)
        keep = first.copy(deep=True)
        first["revenue"] = -1.0
        first.drop(index=first.index[:3], inplace=True)
        again_pd = fn(return_type="pandas", seed=mk_seed(), **kw0)
        if again_pd is first or not again_pd.equals(keep):
            fails.append(f"{kind} data: a later call with the same seed returns a frame the caller modified (shared object)")
        pl1 = fn(return_type="polars", seed=mk_seed(), **kw0)
        keep_pl = pl1.clone()
        try:
            pl1.replace_column(pl1.get_column_index("revenue"), (pl1["revenue"] * 0 - 1).alias("revenue"))
        except Exception:  # noqa: BLE001
            pass
        pl2 = fn(return_type="polars", seed=mk_seed(), **kw0)
        if not pl2.equals(keep_pl):
            fails.append(f"{kind} data (polars): a later call with the same seed returns a frame the caller modified")
    if shared.n_children_spawned != 0:
        fails.append("the caller's SeedSequence was consumed (children spawned) by the generator")
    kw = dict(seed=case["seed"], **kw0)
    cols = ["user", "variant", "sessions", "orders", "revenue"] + (
        ["sessions_covariate", "orders_covariate", "revenue_covariate"] if case["covariates"] else [])
    u = {k: np.asarray(v) for k, v in tabs["users", "arrow"].items()}
    s = {k: np.asarray(v) for k, v in tabs["sessions", "arrow"].items()}
    for name, t in (("users", u), ("sessions", s)):
        if list(t) != cols:
            fails.append(f"{name} columns {list(t)} documented {cols}")
            return fails
        for c in ("user", "variant", "sessions", "orders"):
            if t[c].dtype.kind != "i":
                fails.append(f"{name}.{c} dtype {t[c].dtype}")
        if not np.isin(t["variant"], (0, 1)).all():
            fails.append(f"{name}: variant outside {{0,1}}")
        if not (t["sessions"] >= 1).all():
            fails.append(f"{name}: sessions < 1")
        if not ((t["orders"] >= 0) & (t["orders"] <= t["sessions"])).all():
            fails.append(f"{name}: orders outside [0, sessions]")
        if not ((t["revenue"] >= 0) & np.isfinite(t["revenue"])).all() or (t["revenue"][t["orders"] == 0] != 0).any():
            fails.append(f"{name}: revenue negative or non-zero without orders")
        if case["covariates"]:
            if not ((t["orders_covariate"] >= 0) & (t["orders_covariate"] <= t["sessions_covariate"] + 1e-12)).all():
                fails.append(f"{name}: orders_covariate outside [0, sessions_covariate]")
            if not (t["revenue_covariate"] >= 0).all() or (t["revenue_covariate"][t["orders_covariate"] == 0] != 0).any():
                fails.append(f"{name}: revenue_covariate negative or non-zero without orders")
    if not np.array_equal(u["user"], np.arange(case["n_users"])):
        fails.append("users data: user is not 0..n-1, one row each")
    # sessions data = explosion of the same users
    if not np.array_equal(s["user"], np.repeat(u["user"], u["sessions"])):
        fails.append("sessions data: rows per user differ from the users data sessions of the same seed")
    elif not np.array_equal(s["variant"], np.repeat(u["variant"], u["sessions"])):
        fails.append("sessions data: variant differs from the users data variant of the same seed")
    if (s["sessions"] != 1).any():
        fails.append("sessions data: sessions != 1 in a row")
    if case["covariates"] and not fails:
        for c in ("sessions_covariate", "orders_covariate", "revenue_covariate"):
            first = np.concatenate(([0], np.cumsum(u["sessions"])[:-1]))
            if not np.array_equal(s[c], np.repeat(s[c][first], u["sessions"])):
                fails.append(f"sessions data: {c} not constant within a user")
    return fails


def calibration(case):
    """Large-sample check of share and uplifts on the real generator: |z| < 5 for each."""
    import numpy as np
    import tea_tasting as tt
    p = case["params"]
    fn = tt.make_sessions_data if case["explode"] else tt.make_users_data
    d = table_dict(fn(seed=case["seed"], n_users=case["n_users"], **p))
    d = {k: np.asarray(v, dtype=float) for k, v in d.items()}
    if case["explode"]:      # aggregate per user
        user = d["user"].astype(int)
        n = case["n_users"]
        agg = {c: np.bincount(user, weights=d[c], minlength=n) for c in ("sessions", "orders", "revenue")}
        first = np.concatenate(([0], np.cumsum(agg["sessions"].astype(int))[:-1]))
        agg["variant"] = d["variant"][first]
        d = agg
    n = len(d["variant"])
    fails, zs = [], {}
    share = p["ratio"] / (1 + p["ratio"])
    zs["share"] = (d["variant"].mean() - share) / math.sqrt(share * (1 - share) / n)
    t, c = d["variant"] == 1, d["variant"] == 0
    for col, up in (("sessions", p["sessions_uplift"]), ("orders", p["orders_uplift"]), ("revenue", p["revenue_uplift"])):
        mt, mc = d[col][t].mean(), d[col][c].mean()
        se = math.sqrt(d[col][t].var(ddof=1) / t.sum() / mc**2 + d[col][c].var(ddof=1) / c.sum() * mt**2 / mc**4)
        zs[col] = (mt / mc - (1 + up)) / se
    ctl = {"sessions": p["avg_sessions"], "orders": p["avg_sessions"] * p["avg_orders_per_session"],
           "revenue": p["avg_sessions"] * p["avg_orders_per_session"] * p["avg_revenue_per_order"]}
    for col, want in ctl.items():
        zs["control_" + col] = (d[col][c].mean() - want) / math.sqrt(d[col][c].var(ddof=1) / c.sum())
    for k, z in zs.items():
        if case.get("share_only") and k != "share":
            continue      # with a 0.1% group the other estimates rest on a few dozen users
        if not abs(z) < 5:
            fails.append(f"{k}: z = {z:.2f} against the requested value")
    return fails, zs


def wide_params(rng):
    """Parameters from a wider grid than rand_params; which of them are valid is decided by the code's own _check_params."""
    g = lambda *xs: rng.choice(xs)
    return {"ratio": g(1, 0.5, 3, 0.1, 0, -1), "sessions_uplift": g(0.0, 0.25, -0.25, -0.6, 1.0),
            "orders_uplift": g(0.0, 0.1, -0.5, -0.9, 2.0, 2.9, 3.5, -1.0), "revenue_uplift": g(0.0, 0.1, -0.9, 4.0, -1.0),
            "avg_sessions": g(2, 1.01, 1.5, 10, 1), "avg_orders_per_session": g(0.25, 0.01, 0.6, 0.99, 1.0),
            "avg_revenue_per_order": g(10, 0.01, 1000.0, 0, 1e12, 3e17)}


def accepted(p):
    import tea_tasting.datasets as D
    try:
        D._check_params(n_users=10, **p)
        return True
    except Exception:
        return False


def oracle(ctx, deep=False):
    for i in range(ctx.n(40, 600) * (2 if deep else 1)):
        wide = i % 2 == 1
        params = None
        while params is None:
            params = wide_params(ctx.rng) if wide else rand_params(ctx.rng)
            if wide and not accepted(params):
                ctx.count("oracle:rejected-by-_check_params")
                params = None
        case = {"params": params, "n_users": ctx.rng.choice([10, 11, 25, 60, 200]),
                "seed": ctx.rng.randint(0, 10**6), "covariates": ctx.rng.random() < 0.6,
                "seed_kind": ctx.rng.choice(["int", "int", "seedseq", "seedseq-shared", "generator"])}
        ctx.count("oracle:seed-kind:" + case["seed_kind"])
        try:
            fails = check_case(case)
        except Exception as e:
            fails = [f"raised {type(e).__name__}: {e}"]
        ctx.evaluations += 1
        ctx.count("oracle:invariants" + (":accepted-wide" if wide else ""))
        for f in fails:
            ctx.violations.append({"what": f[:80], "detail": f[:500], "input": case})
        if len(ctx.violations) > 10:
            return
    for i in range(ctx.n(6, 40)):
        case = {"kind": "calibration", "params": rand_params(ctx.rng), "n_users": ctx.n(120_000, 400_000),
                "seed": ctx.rng.randint(0, 10**6), "explode": i % 3 == 2}
        try:
            fails, zs = calibration(case)
        except Exception as e:
            fails, zs = [f"raised {type(e).__name__}: {e}"], {}
        ctx.evaluations += 1
        ctx.count("oracle:calibration")
        ctx.extra.setdefault("max_abs_z", 0.0)
        if zs:
            ctx.extra["max_abs_z"] = max(ctx.extra["max_abs_z"], max(abs(z) for z in zs.values()))
        for f in fails:
            ctx.violations.append({"what": "calibration " + f.split(":")[0], "detail": f, "input": case})
    extreme_ratio_cases(ctx)


def extreme_ratio_cases(ctx):
    """valid but extreme ratios (a 0.1% - 0.4% group on either side): the treatment share is still ratio / (1 + ratio)"""
    for ratio in (0.001, 0.004, 250, 999):
        p = dict(rand_params(ctx.rng), ratio=ratio)
        case = {"kind": "calibration", "params": p, "n_users": ctx.n(200_000, 400_000), "seed": ctx.rng.randint(0, 10**6),
                "explode": False, "share_only": True}
        try:
            fails, zs = calibration(case)
        except Exception as e:  # noqa: BLE001
            fails, zs = [f"raised {type(e).__name__}: {e}"], {}
        ctx.evaluations += 1
        ctx.count("oracle:calibration:extreme-ratio")
        for f in fails:
            ctx.violations.append({"what": "calibration (extreme ratio) " + f.split(":")[0], "detail": f, "input": case})


def replay(ctx, rp):
    import tea_tasting as tt
    inp = rp["input"]
    if inp.get("kind") == "calibration":
        fails, zs = calibration(inp)
        return {"fails": bool(fails), "failures": fails, "z": zs}
    fails = check_case(inp)
    return {"fails": bool(fails), "failures": fails}


def matches_finding(v, f):
    return False


def finding_still_fails(ctx, f):
    return False
