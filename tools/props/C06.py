"""C06 - CUPED/CUPAC equals regression adjustment with the pooled coefficient."""
from __future__ import annotations

from fractions import Fraction as F

import gen as G
import harness as H
import meanx

GEN = ["Aggr", "Mean"]
RULE = ("correspondence: configurations WITH covariates emphasised (numerator covariate with/without denominator "
        "covariate), exact Fraction differential vs regenerated model. oracle on the public API (PyArrow table of floats): "
        "result vs the reference test applied to Y - theta*(X - xbar) recomputed from the rows with the pooled theta; "
        "weighted adjusted means = pooled mean (Mean); covariate a*X+b; rescaled covariate columns; constant covariate")
TRUSTED = ["translator tools/py2coq.py (Aggr, Mean specs)", "stand-in shims of tools/meanx.py", "scipy.stats reference in the oracle"]
ASSUMES = ["theorems are over the reals; float comparison tolerance 1e-6 relative"]


def correspondence(ctx):
    def with_cov(cfg, rng):
        if cfg["numer_covariate"] is None:
            free = [c for c in G.COLS if c not in (cfg["numer"], cfg["denom"])]
            cfg = dict(cfg, numer_covariate=free[0])
            if rng.random() < 0.5 and len(free) > 1:
                cfg["denom_covariate"] = free[1]
        return cfg
    meanx.run_correspondence(ctx, ctx.n(120, 3000), "c06", with_cov)


def _table(case, extra=None):
    import pyarrow as pa
    n0, n1 = len(case["control"]["x"]), len(case["treatment"]["x"])
    data = {"variant": [0] * n0 + [1] * n1}
    for c in case["control"]:
        data[c] = case["control"][c] + case["treatment"][c]
    for k, fn in (extra or {}).items():
        data[k] = [fn({c: data[c][i] for c in case["control"]}) for i in range(n0 + n1)]
    return pa.table(data)


def _lin(tab, x, y):
    n = len(next(iter(tab.values())))
    xs = tab[x]
    ys = tab[y] if y is not None else [1.0] * n
    mx, my = sum(xs) / n, sum(ys) / n
    r = mx / my
    return [r + (a - r * b) / my for a, b in zip(xs, ys)]


def _cov(a, b):
    n = len(a)
    ma, mb = sum(a) / n, sum(b) / n
    return sum((u - ma) * (v - mb) for u, v in zip(a, b)) / (n - 1)


@H.under_contrary_config
def _run_case(case):
    import tea_tasting as tt
    cfg = case["cfg"]
    kw = dict(alternative=cfg["alternative"], confidence_level=float(F(cfg["confidence_level"])),
              equal_var=cfg["equal_var"], use_t=cfg["use_t"])
    bad = []
    x, y, cx, cy = cfg["numer"], cfg["denom"], cfg["numer_covariate"], cfg["denom_covariate"]
    tab = _table(case)
    res = tt.RatioOfMeans(x, y, cx, cy, **kw).analyze(tab, 0, 1, "variant")
    pooled = {c: case["control"][c] + case["treatment"][c] for c in case["control"]}
    Yp, Xp = _lin(pooled, x, y), _lin(pooled, cx, cy)
    vx = _cov(Xp, Xp)
    theta = 0.0 if vx == 0 else _cov(Yp, Xp) / vx
    n = len(Xp)
    xbar = (sum(pooled[cx]) / n) / ((sum(pooled[cy]) / n) if cy else 1.0)
    adj = {}
    for g in ("control", "treatment"):
        Yg, Xg = _lin(case[g], x, y), _lin(case[g], cx, cy)
        adj[g] = [a - theta * (b - xbar) for a, b in zip(Yg, Xg)]
    ref = meanx.reference_test(adj["control"], adj["treatment"], cfg["alternative"], cfg["equal_var"], cfg["use_t"],
                               kw["confidence_level"])
    bad += [("regression:" + f, g, w) for f, g, w in meanx.compare_result(res, ref, rtol=1e-6)]
    if y is None and cy is None:
        n0, n1 = len(adj["control"]), len(adj["treatment"])
        avg = (n0 * res.control + n1 * res.treatment) / (n0 + n1)
        pm = sum(pooled[x]) / n
        if abs(avg - pm) > 1e-9 * max(1.0, abs(pm)):
            bad.append(("weighted adjusted means != pooled mean", avg, pm))
        a, b = case["affine"]
        t2 = _table(case, {"cx2": lambda r: a * r[cx] + b})
        r2 = tt.Mean(x, "cx2", **kw).analyze(t2, 0, 1, "variant")
        bad += [("affine:" + f, g, w) for f, g, w in meanx.compare_result(r2, res._asdict(), rtol=1e-6)]
    k = case["scale"]
    t3 = _table(case, {"cx3": lambda r: k * r[cx], **({"cy3": (lambda r: r[cy] / k)} if cy else {})})
    r3 = tt.RatioOfMeans(x, y, "cx3", "cy3" if cy else None, **kw).analyze(t3, 0, 1, "variant")
    bad += [("rescale:" + f, g, w) for f, g, w in meanx.compare_result(r3, res._asdict(), rtol=1e-6)]
    # constant covariate: unadjusted result
    t4 = _table(case, {"const": lambda r: 3.0})
    r4 = tt.RatioOfMeans(x, y, "const", None, **kw).analyze(t4, 0, 1, "variant")
    r0 = tt.RatioOfMeans(x, y, **kw).analyze(tab, 0, 1, "variant")
    bad += [("constant covariate:" + f, g, w) for f, g, w in meanx.compare_result(r4, r0._asdict(), rtol=1e-9)]
    return bad


def reuse_aggregates(seed):
    """the same Aggregates objects analysed, updated IN PLACE (running statistics: count_, mean_, var_, cov_ are public
    attributes), and analysed again: the result is the analysis of their current contents"""
    import copy
    import random
    import tea_tasting as tt
    rng = random.Random(seed)
    rows = lambda n: G.rand_rows(rng, n, style="positive")
    a, b = G.real_aggregates(rows(12), G.COLS, float), G.real_aggregates(rows(15), G.COLS, float)
    metric = tt.RatioOfMeans("x", "y", "z", "w") if rng.random() < 0.5 else tt.Mean("x", "z")
    fails = []
    for step in range(3):
        got = tuple(metric.analyze({0: a, 1: b}, 0, 1))
        import tea_tasting.aggr as A
        rebuilt = lambda g: A.Aggregates(count_=g.count_, mean_=dict(g.mean_), var_=dict(g.var_), cov_=dict(g.cov_))
        fresh_metric = tt.RatioOfMeans("x", "y", "z", "w") if type(metric) is tt.RatioOfMeans else tt.Mean("x", "z")
        fresh = tuple(fresh_metric.analyze({0: rebuilt(a), 1: rebuilt(b)}, 0, 1))     # new objects with the CURRENT contents
        if not all(x == y or (x != x and y != y) for x, y in zip(got, fresh)):
            fails.append(f"step {step}: analysis of updated Aggregates objects {got[:3]} != analysis of fresh copies {fresh[:3]}")
        # day + 1: more observations arrive, the running statistics are updated in place
        more = G.real_aggregates(rows(9), G.COLS, float)
        upd = a + more
        a.count_, a.mean_, a.var_, a.cov_ = upd.count_, dict(upd.mean_), dict(upd.var_), dict(upd.cov_)
        b.mean_["z"] = b.mean_["z"] * 1.5
    return fails


def covariate_name_case(seed):
    """the name of the covariate column is immaterial: '' / ' ' / '0' give the result of an ordinary name"""
    import random
    import numpy as np
    import polars as pl
    import tea_tasting as tt
    rng = random.Random(seed)
    r = np.random.default_rng(seed)
    n = 60
    x = r.normal(5, 2, n)
    base = {"variant": [i % 2 for i in range(n)], "y": list(x * 0.8 + r.normal(0, 1, n) + 3), "d": list(r.uniform(1, 3, n)),
            "d2": list(r.uniform(2, 4, n))}
    fails = []
    ref = tuple(tt.Mean("y", "cov").analyze(pl.DataFrame({**base, "cov": list(x)}), 0, 1, "variant"))
    refr = tuple(tt.RatioOfMeans("y", "d", "cov", "d2").analyze(pl.DataFrame({**base, "cov": list(x)}), 0, 1, "variant"))
    for name in ("", " ", "0"):
        df = pl.DataFrame({**base, name: list(x)})
        got = tuple(tt.Mean("y", name).analyze(df, 0, 1, "variant"))
        gotr = tuple(tt.RatioOfMeans("y", "d", name, "d2").analyze(df, 0, 1, "variant"))
        if not all(abs(a - b) <= 1e-12 * max(1.0, abs(b)) for a, b in zip(got, ref)):
            fails.append(f"Mean('y', {name!r}) {got[:3]} != the same covariate under an ordinary name {ref[:3]}")
        if not all(abs(a - b) <= 1e-12 * max(1.0, abs(b)) for a, b in zip(gotr, refr)):
            fails.append(f"RatioOfMeans with the covariate named {name!r} differs from the same covariate under an ordinary name")
    return fails


def oracle(ctx, deep=False):
    for _ in range(ctx.n(2, 20)):
        seed = ctx.rng.randint(0, 10**6)
        ctx.evaluations += 1
        ctx.count("oracle:covariate-names")
        for f in covariate_name_case(seed)[:1]:
            ctx.violations.append({"what": "CUPED: the covariate's column name changes the result", "detail": f,
                                   "input": {"covariate_name": True, "seed": seed}})
    for _ in range(ctx.n(4, 60)):
        seed = ctx.rng.randint(0, 10**6)
        ctx.evaluations += 1
        ctx.count("oracle:reused-aggregates")
        for f in reuse_aggregates(seed)[:1]:
            ctx.violations.append({"what": "CUPED: result depends on an earlier analysis of the same Aggregates objects", "detail": f,
                                   "input": {"reuse_aggregates": True, "seed": seed}})
    n = ctx.n(100, 3000) * (3 if deep else 1)
    for i in range(n):
        cfg = meanx.rand_cfg(ctx.rng, covariates=ctx.rng.choice([1, 2]))
        cfgj = meanx.cfg_json(cfg)
        kind = ctx.rng.choice(["normal", "lognormal", "ints", "offset"])  # same kind in both variants: well conditioned
        case = {"cfg": cfgj, "control": meanx.float_table(ctx.rng, ctx.rng.choice([3, 10, 200]), kind=kind),
                "treatment": meanx.float_table(ctx.rng, ctx.rng.choice([4, 30, 150]), kind=kind),
                "affine": [ctx.rng.choice([-3.0, 0.5, 2.0, 1e3]), ctx.rng.choice([0.0, -7.0, 11.0])],
                "scale": ctx.rng.choice([1e-9, 1e-7, 1e-3, 0.25, 8.0, 1e4, 1e7])}      # covariates in micro-units and in millions
        bad = _run_case(case)
        ctx.evaluations += 1
        ctx.count("oracle:" + ("ratio" if cfg["denom"] else "mean") + "+cov%d" % (1 + (cfg["denom_covariate"] is not None)))
        if bad:
            ctx.violations.append({"what": "CUPED: " + bad[0][0], "detail": str(bad[:4]), "input": case})
            if len(ctx.violations) >= 3:
                break


def replay(ctx, rp):
    if rp["input"].get("covariate_name"):
        fails = covariate_name_case(rp["input"]["seed"])
        return {"fails": bool(fails), "failures": fails}
    if rp["input"].get("reuse_aggregates"):
        fails = reuse_aggregates(rp["input"]["seed"])
        return {"fails": bool(fails), "failures": fails}
    bad = _run_case(rp["input"])
    return {"fails": bool(bad), "failures": [str(b) for b in bad]}


def matches_finding(v, f):
    return False


def finding_still_fails(ctx, f):
    return False
