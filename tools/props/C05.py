"""C05 - RatioOfMeans is the delta method: the t/Z test on linearised observations."""
from __future__ import annotations

from fractions import Fraction as F

import gen as G
import harness as H
import meanx

GEN = ["Aggr", "Mean"]
RULE = ("correspondence: as C04 with ratio metrics emphasised. oracle: RatioOfMeans(...).analyze on a PyArrow table "
        "vs the reference test applied to the linearised observations r_g + (x_i - r_g*y_i)/mean_g(y) computed by the "
        "harness; denominator None / column of ones vs Mean; Mean(value, covariate) vs RatioOfMeans(value, None, covariate, None)")
TRUSTED = ["translator tools/py2coq.py (Aggr, Mean specs)", "distribution laws L1-L6 (lib/Distr.v, satisfiable)",
           "stand-in shims of tools/meanx.py", "scipy.stats reference in the oracle"]
ASSUMES = ["theorems are over the reals; float comparison tolerance 1e-7 relative"]


def correspondence(ctx):
    def ratio(cfg, rng):
        if cfg["denom"] is None and rng.random() < 0.6:
            cfg = dict(cfg, denom=next(c for c in G.COLS if c not in (cfg["numer"], cfg["numer_covariate"], cfg["denom_covariate"])))
        if rng.random() < 0.6:
            cfg = dict(cfg, numer_covariate=None, denom_covariate=None)
        return cfg
    meanx.run_correspondence(ctx, ctx.n(120, 3000), "c05", ratio)


def _table(case):
    import pyarrow as pa
    data = {"variant": [0] * len(case["control"]["x"]) + [1] * len(case["treatment"]["x"])}
    for c in case["control"]:
        data[c] = case["control"][c] + case["treatment"][c]
    return pa.table(data)


def _lin(tab, x, y):
    n = len(tab[x])
    mx, my = sum(tab[x]) / n, sum(tab[y]) / n
    r = mx / my
    return [r + (a - r * b) / my for a, b in zip(tab[x], tab[y])]


def _same_fields(a, b):
    """field-by-field identity of two results, NaN equal to NaN (degenerate samples give NaN statistics)"""
    return len(a) == len(b) and all(x == y or (x != x and y != y) for x, y in zip(a, b))


@H.under_contrary_config
def _run_case(case):
    import tea_tasting as tt
    cfg = case["cfg"]
    kw = dict(alternative=cfg["alternative"], confidence_level=float(F(cfg["confidence_level"])),
              equal_var=cfg["equal_var"], use_t=cfg["use_t"])
    tab = _table(case)
    bad = []
    res = tt.RatioOfMeans(cfg["numer"], cfg["denom"], **kw).analyze(tab, 0, 1, "variant")
    ref = meanx.reference_test(_lin(case["control"], cfg["numer"], cfg["denom"]),
                               _lin(case["treatment"], cfg["numer"], cfg["denom"]),
                               cfg["alternative"], cfg["equal_var"], cfg["use_t"], kw["confidence_level"])
    bad += [("linearised:" + f, g, w) for f, g, w in meanx.compare_result(res, ref)]
    # denominator absent / column of ones = Mean
    mres = tt.Mean(cfg["numer"], **kw).analyze(tab, 0, 1, "variant")
    r_none = tt.RatioOfMeans(cfg["numer"], None, **kw).analyze(tab, 0, 1, "variant")
    if not _same_fields(mres, r_none):
        bad.append(("RatioOfMeans(x, None) != Mean(x)", tuple(r_none), tuple(mres)))
    ones = dict(case, control=dict(case["control"], one=[1.0] * len(case["control"]["x"])),
                treatment=dict(case["treatment"], one=[1.0] * len(case["treatment"]["x"])))
    r_ones = tt.RatioOfMeans(cfg["numer"], "one", **kw).analyze(_table(ones), 0, 1, "variant")
    bad += [("ones:" + f, g, w) for f, g, w in meanx.compare_result(r_ones, mres._asdict(), rtol=1e-9)]
    # Mean(value, covariate) = RatioOfMeans(value, None, covariate, None)
    cov = next(c for c in G.COLS if c != cfg["numer"])
    a = tt.Mean(cfg["numer"], cov, **kw).analyze(tab, 0, 1, "variant")
    b = tt.RatioOfMeans(cfg["numer"], None, cov, None, **kw).analyze(tab, 0, 1, "variant")
    if not _same_fields(a, b):
        bad.append(("Mean(v, c) != RatioOfMeans(v, None, c, None)", tuple(a), tuple(b)))
    return bad


def _zero_numerator_case(rng):
    """A variant whose numerator mean is exactly 0.0 (balanced +k / -k) over a real denominator: the ratio is 0, its variance
    var_x / mean_y^2, and nothing is degenerate."""
    cfg = meanx.cfg_json(meanx.rand_cfg(rng, covariates=0, ratio_metric=True))
    nc, half = rng.choice([3, 10, 40]), rng.choice([2, 5, 20])
    control = meanx.float_table(rng, nc, kind="ints")
    treatment = meanx.float_table(rng, 2 * half, kind="ints")
    ks = [float(rng.randint(1, 9)) for _ in range(half)]
    treatment[cfg["numer"]] = ks + [-k for k in ks]
    return {"cfg": cfg, "control": control, "treatment": treatment, "zero_numerator_mean": True}


@H.under_contrary_config
def _run_zero(case):
    import tea_tasting as tt
    cfg = case["cfg"]
    kw = dict(alternative=cfg["alternative"], confidence_level=float(F(cfg["confidence_level"])),
              equal_var=cfg["equal_var"], use_t=cfg["use_t"])
    res = tt.RatioOfMeans(cfg["numer"], cfg["denom"], **kw).analyze(_table(case), 0, 1, "variant")
    ref = meanx.reference_test(_lin(case["control"], cfg["numer"], cfg["denom"]), _lin(case["treatment"], cfg["numer"], cfg["denom"]),
                               cfg["alternative"], cfg["equal_var"], cfg["use_t"], kw["confidence_level"])
    return [("zero numerator mean:" + f, g, w) for f, g, w in meanx.compare_result(res, ref, skip_rel_ci=True)]


def _offset_case(seed, backend):
    """numerator and denominator far from zero relative to their spread (totals per host: ~2e10 bytes, ~3e7 packets; all
    values are integers exactly representable in doubles), on a given backend; reference = the test on the linearised rows
    computed in exact rationals"""
    import random
    import backends as B
    import tea_tasting as tt
    rng = random.Random(seed)
    n = rng.choice([40, 120])
    variant = [i % 2 for i in range(n)]
    dp = [rng.randint(-20, 20) for _ in range(n)]
    packets = [30_000_000 + d for d in dp]
    bytes_ = [20_000_000_000 + 667 * d + rng.randint(-50, 50) + 12 * v for d, v in zip(dp, variant)]
    data = {"variant": variant, "bytes": bytes_, "packets": packets}
    kw = dict(alternative=rng.choice(meanx.ALTS), equal_var=rng.random() < 0.5, use_t=rng.random() < 0.5, confidence_level=0.9)
    try:
        tab = B.make_table(backend, data)
        if backend in ("pyarrow", "polars", "polars-lazy") and rng.random() < 0.7:
            from props.C02 import _rechunk
            tab = _rechunk(backend, tab, rng)        # several chunks / record batches
        res = tt.RatioOfMeans("bytes", "packets", **kw).analyze(tab, 0, 1, "variant")
    finally:
        B.cleanup()

    def lin(v):
        xs = [F(b) for b, w in zip(bytes_, variant) if w == v]
        ys = [F(p) for p, w in zip(packets, variant) if w == v]
        mx, my = sum(xs) / len(xs), sum(ys) / len(ys)
        r = mx / my
        return [float(r + (a - r * b) / my) for a, b in zip(xs, ys)]
    ref = meanx.reference_test(lin(0), lin(1), kw["alternative"], kw["equal_var"], kw["use_t"], 0.9)
    return [(f"offset data on {backend}:" + f, g, w) for f, g, w in meanx.compare_result(res, ref, rtol=1e-5)]


def handbuilt_case(seed):
    """pre-aggregated statistics handed over as Aggregates objects whose covariance keys are written in either order:
    RatioOfMeans gives the test on the linearised observations all the same"""
    import random
    import gen as G
    import tea_tasting as tt
    import tea_tasting.aggr as A
    rng = random.Random(seed)
    cols = ["sessions", "orders"]
    rows = [[{c: float(rng.randint(1, 30)) for c in cols} for _ in range(n)] for n in (12, 15)]
    aggs = {}
    for v, rr in enumerate(rows):
        n, m, var, cv = G.exact_aggr_dicts([{c: F(x) for c, x in r.items()} for r in rr], cols)
        key = ("sessions", "orders") if rng.random() < 0.7 else ("orders", "sessions")
        aggs[v] = A.Aggregates(count_=n, mean_={k: float(x) for k, x in m.items()}, var_={k: float(x) for k, x in var.items()},
                               cov_={key: float(cv[("orders", "sessions")])})
    kw = dict(alternative=rng.choice(meanx.ALTS), equal_var=rng.random() < 0.5, use_t=rng.random() < 0.5, confidence_level=0.9)
    try:
        res = tt.RatioOfMeans("orders", "sessions", **kw).analyze(aggs, 0, 1)
    except Exception as e:  # noqa: BLE001
        return [("hand-built Aggregates: raised " + type(e).__name__, str(e), "")]

    def lin(rr):
        mx = sum(r["orders"] for r in rr) / len(rr)
        my = sum(r["sessions"] for r in rr) / len(rr)
        return [mx / my + (r["orders"] - mx / my * r["sessions"]) / my for r in rr]
    ref = meanx.reference_test(lin(rows[0]), lin(rows[1]), kw["alternative"], kw["equal_var"], kw["use_t"], 0.9)
    return [("hand-built Aggregates:" + f, g, w) for f, g, w in meanx.compare_result(res, ref, rtol=1e-7)]


def offset_oracle(ctx):
    for _ in range(ctx.n(5, 60)):
        seed = ctx.rng.randint(0, 10**6)
        bad = handbuilt_case(seed)
        ctx.evaluations += 1
        ctx.count("oracle:hand-built-aggregates")
        if bad:
            ctx.violations.append({"what": "RatioOfMeans: " + bad[0][0], "detail": str(bad[:3]), "input": {"handbuilt": True, "seed": seed}})
            break
    import backends as B
    for backend in B.KINDS:
        for _ in range(ctx.n(2, 20)):
            seed = ctx.rng.randint(0, 10**6)
            bad = _offset_case(seed, backend)
            ctx.evaluations += 1
            ctx.count("oracle:offset-ratio:" + backend)
            if bad:
                ctx.violations.append({"what": "RatioOfMeans: " + bad[0][0], "detail": str(bad[:4]),
                                       "input": {"offset_case": True, "seed": seed, "backend": backend}})


def oracle(ctx, deep=False):
    offset_oracle(ctx)
    for i in range(ctx.n(20, 400) * (3 if deep else 1)):
        case = _zero_numerator_case(ctx.rng)
        bad = _run_zero(case)
        ctx.evaluations += 1
        ctx.count("oracle:zero-numerator-mean")
        if bad:
            ctx.violations.append({"what": "RatioOfMeans: " + bad[0][0], "detail": str(bad[:4]), "input": case})
            break
    n = ctx.n(100, 3000) * (3 if deep else 1)
    for i in range(n):
        cfg = meanx.cfg_json(meanx.rand_cfg(ctx.rng, covariates=0, ratio_metric=True))
        kind = ctx.rng.choice(["normal", "lognormal", "ints", "offset"])  # same kind in both variants: well conditioned
        case = {"cfg": cfg, "control": meanx.float_table(ctx.rng, ctx.rng.choice([2, 3, 10, 200]), kind=kind),
                "treatment": meanx.float_table(ctx.rng, ctx.rng.choice([2, 5, 30, 150]), kind=kind)}
        bad = _run_case(case)
        ctx.evaluations += 1
        ctx.count(f"oracle:{cfg['alternative']}/{cfg['equal_var']}/{cfg['use_t']}")
        if bad:
            ctx.violations.append({"what": "RatioOfMeans: " + bad[0][0], "detail": str(bad[:4]), "input": case})
            if len(ctx.violations) >= 3:
                break


def replay(ctx, rp):
    if rp["input"].get("handbuilt"):
        bad = handbuilt_case(rp["input"]["seed"])
        return {"fails": bool(bad), "failures": [str(b) for b in bad]}
    if rp["input"].get("offset_case"):
        bad = _offset_case(rp["input"]["seed"], rp["input"]["backend"])
        return {"fails": bool(bad), "failures": [str(b) for b in bad]}
    bad = _run_zero(rp["input"]) if rp["input"].get("zero_numerator_mean") else _run_case(rp["input"])
    return {"fails": bool(bad), "failures": [str(b) for b in bad]}


def matches_finding(v, f):
    return False


def finding_still_fails(ctx, f):
    return False
