"""C15 - row-level metrics see exactly their variant's rows; bootstrap is reproducible."""
from __future__ import annotations

import math
import random
import re

import backends as B
import harness as H

GEN = ["Resampling"]
RULE = ("correspondence: read_granular on pandas / polars / polars-lazy / pyarrow (also re-chunked) / ibis-sqlite tables of "
        "small integers (ids int / str / bool, 1..4 variants, 1..3 declared columns incl. duplicates of values, shuffled rows, "
        "extra columns) vs model/Granular.read_granular (vm_compute): same keys, and per variant the same rows in the same "
        "order for exactly the declared columns. oracle: Bootstrap / Quantile on the public API vs scipy.stats.bootstrap "
        "called directly with the same arrays, settings and integer seed (every field), lower <= upper, one-sidedness, "
        "same result alone and inside an Experiment next to other metrics, single and multiple columns")
TRUSTED = ["hand model model/Granular.v", "tools/gran2coq.py wiring extractor", "scipy.stats.bootstrap (oracle)",
           "integer encoding of variant ids in the model (order of first appearance)"]
ASSUMES = ["C15_scipy_partial: interval ordering / one-sidedness / equality with scipy.stats.bootstrap are facts about scipy, "
           "validated by direct calls"]
COLS = ["x", "y", "z"]
NULL = -999      # encoding of a missing value in the integer rows of the model


def rand_case(rng):
    kind = rng.choice(["int", "int", "str", "bool"])
    ids = {"int": [3, 0, 7, 1], "str": ["b", "a", "ctrl", "B"], "bool": [True, False]}[kind]
    ids = ids[:rng.randint(1, len(ids))]
    rows = []
    nulls = rng.random() < 0.4       # missing values are data: the rows stay in their variant
    for v in ids:
        for _ in range(rng.randint(1, 6)):
            rows.append((v, {c: (None if nulls and rng.random() < 0.2 else rng.randint(-3, 9)) for c in COLS + ["junk"]}))
    rng.shuffle(rows)
    cols = rng.sample(COLS, rng.randint(1, 3))
    return {"ids": ids, "rows": rows, "cols": cols, "backend": rng.choice(B.KINDS + ["pyarrow-chunked"]),
            "seed": rng.randint(0, 10**6)}


def real_granular(case):
    import tea_tasting.metrics as TM
    data = {"variant": [v for v, _ in case["rows"]]}
    for c in COLS + ["junk"]:
        data[c] = [r[c] for _, r in case["rows"]]
    kind = case["backend"]
    try:
        if kind == "pyarrow-chunked":
            from props.C02 import _rechunk
            tab = _rechunk("pyarrow", B.make_table("pyarrow", data), random.Random(case["seed"]))
        else:
            tab = B.make_table(kind, data)
        res = TM.read_granular(tab, cols=tuple(case["cols"]), variant="variant")
    finally:
        B.cleanup()
    out = {}

    def norm(x):      # null / NaN (pandas' encoding of a missing number) -> None; integral floats -> int
        if x is None or (isinstance(x, float) and math.isnan(x)):
            return None
        return int(x) if isinstance(x, float) and x == int(x) else x
    for k, t in res.items():
        out[k] = {"columns": list(t.column_names),
                  "rows": [tuple(norm(t[c][i].as_py()) for c in case["cols"]) for i in range(t.num_rows)]}
    return out


HEADER = ("From Coq Require Import ZArith String List Bool.\nFrom TT Require Import model.Granular.\nImport ListNotations.\n"
          "Definition mkrow (l : list (string * Z)) : grow := fun c => (fix f l := match l with [] => 0%Z | (k, v) :: t => "
          "if String.eqb c k then v else f t end) l.\n"
          "Definition showg (cols : list string) (res : list (Z * list grow)) : list (Z * Z) :=\n"
          "  flat_map (fun kv => ((-1)%Z, fst kv) :: flat_map (fun r => ((-2)%Z, 0%Z) :: map (fun c => (0%Z, r c)) cols) (snd kv)) res.\n")


def model_term(case):
    code = {v: i for i, v in enumerate(dict.fromkeys(v for v, _ in case["rows"]))}   # order of first appearance
    rows = "; ".join(f"({code[v]}%Z, mkrow [" + "; ".join(f"({H.slit(c)}, ({NULL if r[c] is None else r[c]})%Z)" for c in COLS + ["junk"]) + "])"
                     for v, r in case["rows"])
    cols = "[" + "; ".join(H.slit(c) for c in case["cols"]) + "]"
    return f"showg {cols} (read_granular {cols} [{rows}])", {i: v for v, i in code.items()}


def parse_model(s, decode, ncols):
    pairs = [(int(a), int(b)) for a, b in re.findall(r"\((-?\d+), (-?\d+)\)", s)]
    out, cur, row = {}, None, None
    for a, b in pairs:
        if a == -1:
            cur = decode[b]
            out[cur] = []
        elif a == -2:
            out[cur].append([])
        else:
            out[cur][-1].append(None if b == NULL else b)
    return {k: [tuple(r) for r in v] for k, v in out.items()}


def correspondence(ctx):
    ok, out, dt, failed = H.make(["model/Granular.vo"])
    if not ctx.oblige(ok, "correspondence", "build of model/Granular.vo", out):
        return
    cases, terms, reals, decs = [], [], [], []
    for i in range(ctx.n(120, 3000)):
        case = rand_case(ctx.rng)
        try:
            real = real_granular(case)
        except Exception as e:
            ctx.oblige(False, "correspondence", "read_granular raised", repr(e), {k: case[k] for k in ("ids", "cols", "backend")})
            continue
        t, dec = model_term(case)
        cases.append(case)
        terms.append(t)
        reals.append(real)
        decs.append(dec)
        ctx.count("backend:" + case["backend"])
        ctx.count("ids:" + type(case["ids"][0]).__name__)
        ctx.case_seen(repr(case["rows"]) + repr(case["cols"]), nontrivial=len(case["ids"]) > 1)
    res, errs = H.coq_eval_shards("c15", HEADER, terms)
    for e in errs:
        ctx.oblige(False, "correspondence", "vm_compute evaluation", e)
    for case, r, real, dec in zip(cases, res, reals, decs):
        if r is None:
            continue
        model = parse_model(r, dec, len(case["cols"]))
        fails = []
        if set(map(repr, real)) != set(map(repr, model)) or len(real) != len(model):
            fails.append(f"keys {list(real)} != model {list(model)}")
        else:
            for k in model:
                rk = next(x for x in real if repr(x) == repr(k) and type(x) is type(k))
                if real[rk]["columns"] != case["cols"]:
                    fails.append(f"columns for {k!r}: {real[rk]['columns']} declared {case['cols']}")
                if real[rk]["rows"] != model[k]:
                    fails.append(f"rows for {k!r}: {real[rk]['rows']} model {model[k]}")
        ctx.oblige(not fails, "correspondence", "real read_granular = model/Granular.read_granular (exact rows)", "; ".join(fails)[:2000],
                   {k: case[k] for k in ("ids", "cols", "backend", "rows", "seed")})
        ctx.sample({"backend": case["backend"], "cols": case["cols"], "keys": [repr(k) for k in real]}, limit=3)
        # the property itself against the input data
        for v in case["ids"]:
            want = [tuple(r[c] for c in case["cols"]) for vv, r in case["rows"] if vv == v and type(vv) is type(v)]
            rk = [x for x in real if x == v and type(x) is type(v)]
            if len(rk) != 1 or real[rk[0]]["rows"] != want:
                ctx.violations.append({"what": "variant does not receive exactly its own rows", "detail": f"{v!r}: {real.get(v)} want {want}",
                                       "input": {k: case[k] for k in ("ids", "cols", "backend", "rows", "seed")}})


# ------------------------------------------------------------------ bootstrap oracle
class _Big(Exception):
    pass


def _low_digits(a, axis=-1):
    """a statistic that looks at the last three digits of integer data"""
    import numpy as np
    return np.mean(np.asarray(a) % 1000, axis=axis)


def check_bootstrap(case):
    import numpy as np
    import scipy.stats as st
    import tea_tasting as tt
    rng = np.random.default_rng(case["data_seed"])
    n0, n1 = case["sizes"]
    data = {"variant": [0] * n0 + [1] * n1, "x": list(rng.lognormal(size=n0 + n1)), "y": list(rng.normal(3, 1, size=n0 + n1)),
            "z": list(rng.poisson(4, size=n0 + n1).astype(float) + 1)}
    if case.get("bigint"):      # 64-bit integers above 2**53 (ids, amounts in the smallest unit): their low digits must survive
        data["z"] = [2**60 + int(k) for k in rng.integers(0, 10**6, size=n0 + n1)]
    kw = dict(alternative=case["alt"], confidence_level=case["cl"], n_resamples=case["n_resamples"], method=case["method"],
              random_state=case["seed"])
    if case.get("batch"):
        kw["batch"] = case["batch"]
    fails = []
    cols = case["cols"]
    stat = np.mean if case["stat"] == "mean" else np.median
    if case.get("bigint"):
        stat = _low_digits
    try:
        tab = B.make_table(case["backend"], data)
        if case.get("rechunk") and case["backend"] in ("pyarrow", "polars", "polars-lazy"):
            import random as _random
            from props.C02 import _rechunk
            tab = _rechunk(case["backend"], tab, _random.Random(case["data_seed"]))     # several chunks / record batches
        if case["kind"] == "quantile":
            m = tt.Quantile(cols[0], case["q"], **kw)
            f = lambda a, axis: np.nanquantile(a, case["q"], axis=axis)
            sel = cols[0]
        else:
            sel = cols if len(cols) > 1 else cols[0]
            m = tt.Bootstrap(sel, stat, **kw)
            f = lambda a, axis: stat(a, axis=axis)
        res = m.analyze(tab, 0, 1, "variant")
        if case.get("big"):
            raise _Big()
        # inside an experiment, next to other metrics
        other = tt.Quantile("y", 0.5, n_resamples=10, random_state=1)
        exp = tt.Experiment(a=tt.Mean("y"), b=other, m=(tt.Quantile(cols[0], case["q"], **kw) if case["kind"] == "quantile"
                                                         else tt.Bootstrap(sel, stat, **kw))).analyze(B.make_table(case["backend"], data))
        # as the only row-level metric (the fetch holds exactly its columns, in whatever order the union yields them), and from
        # per-variant tables whose columns come in the opposite order
        mk = lambda: (tt.Quantile(cols[0], case["q"], **kw) if case["kind"] == "quantile" else tt.Bootstrap(sel, stat, **kw))
        alone = tt.Experiment(m=mk()).analyze(B.make_table(case["backend"], data))["m"]
        import pyarrow as pa
        rev = list(reversed(cols))
        gran = {v: pa.table({c: [data[c][i] for i, x in enumerate(data["variant"]) if x == v] for c in rev}) for v in (0, 1)}
        from_dict = mk().analyze(gran, 0, 1)
    except _Big:
        exp = {"m": res}
        alone = from_dict = res
    finally:
        B.cleanup()

    def arr(v):
        idx = [i for i, x in enumerate(data["variant"]) if x == v]
        if isinstance(sel, str):
            return np.array([data[sel][i] for i in idx])
        return np.column_stack([[data[c][i] for i in idx] for c in sel])
    c, t = arr(0), arr(1)

    def stacked(a, b, axis=-1):
        sa, sb = f(a, axis), f(b, axis)
        with np.errstate(divide="ignore", invalid="ignore"):
            return np.stack((sb - sa, np.divide(sb, sa) - 1), axis=0)
    ref = st.bootstrap((c, t), stacked, n_resamples=case["n_resamples"], axis=0, confidence_level=case["cl"],
                       alternative=case["alt"], method=case["method"], random_state=case["seed"], batch=case.get("batch"))
    sc, stt = f(c, 0), f(t, 0)
    want = {"control": sc, "treatment": stt, "effect_size": stt - sc, "rel_effect_size": stt / sc - 1,
            "effect_size_ci_lower": ref.confidence_interval.low[0], "effect_size_ci_upper": ref.confidence_interval.high[0],
            "rel_effect_size_ci_lower": ref.confidence_interval.low[1], "rel_effect_size_ci_upper": ref.confidence_interval.high[1]}

    def same(a, b):
        a, b = np.asarray(a, dtype=float), np.asarray(b, dtype=float)
        return a.shape == b.shape and np.allclose(a, b, rtol=1e-12, atol=0, equal_nan=True)
    for k, w in want.items():
        if not same(getattr(res, k), w):
            fails.append(f"{k} = {getattr(res, k)} but scipy / plain statistic gives {w}")
        if not same(getattr(exp["m"], k), getattr(res, k)):
            fails.append(f"{k} differs inside an Experiment: {getattr(exp['m'], k)} vs {getattr(res, k)}")
        if not same(getattr(alone, k), getattr(res, k)):
            fails.append(f"{k} differs as the only metric of an Experiment: {getattr(alone, k)} vs {getattr(res, k)}")
        if not same(getattr(from_dict, k), getattr(res, k)):
            fails.append(f"{k} differs for per-variant tables with reordered columns: {getattr(from_dict, k)} vs {getattr(res, k)}")
    lo, hi = np.asarray(res.effect_size_ci_lower, dtype=float), np.asarray(res.effect_size_ci_upper, dtype=float)
    if np.any(lo > hi):
        fails.append("lower > upper")
    if case["alt"] == "greater" and not np.all(np.isposinf(hi)):
        fails.append("'greater' interval bounded above")
    if case["alt"] == "less" and not np.all(np.isneginf(lo)):
        fails.append("'less' interval bounded below")
    return fails


def granular_reuse(seed):
    """Row-level metrics see the CURRENT rows of their variant: the same mutable frame is analysed, modified in place
    (values corrected, rows dropped), and analysed again - stand-alone and inside one Experiment object; every call must
    hand the statistic exactly the rows a fresh copy of the frame holds now."""
    import random
    import numpy as np
    import pandas as pd
    import tea_tasting as tt
    import tea_tasting.metrics as TM
    rng = random.Random(seed)
    r = np.random.default_rng(seed)
    n = rng.choice([30, 60])
    df = pd.DataFrame({"variant": r.integers(0, 2, n), "x": r.normal(10, 2, n).round(3), "y": r.normal(5, 1, n).round(3)})
    seen = []

    class Rec(TM.MetricBaseGranular):
        @property
        def cols(self):
            return ("x",)

        def analyze_granular(self, control, treatment):
            seen.append((sorted(control["x"].to_pylist()), sorted(treatment["x"].to_pylist())))
            return {"n": control.num_rows + treatment.num_rows}
    rec = Rec()
    q = tt.Quantile("x", 0.5, n_resamples=20, random_state=1)
    exp = tt.Experiment(rec=rec, q=q)
    fails = []

    def current(frame):
        return (sorted(frame.loc[frame["variant"] == 0, "x"].tolist()), sorted(frame.loc[frame["variant"] == 1, "x"].tolist()))
    for step, op in enumerate(["call", "values", "call", "rows", "call", "column", "call"]):
        if op == "values":
            df.loc[df["variant"] == 1, "x"] *= 10.0
        elif op == "rows":
            df.drop(index=df.index[: n // 5], inplace=True)
        elif op == "column":
            df["x"] = df["x"] + 1.0
        else:
            via_exp = rng.random() < 0.5
            seen.clear()
            if via_exp:
                exp.analyze(df)
            else:
                rec.analyze(df, 0, 1, "variant")
            if not seen or seen[-1] != current(df):
                fails.append(f"step {step} ({'Experiment' if via_exp else 'metric'}.analyze after in-place changes): the row-level "
                             f"metric received {len(seen[-1][0]) if seen else 0}+{len(seen[-1][1]) if seen else 0} stale rows, the frame "
                             f"now holds {len(current(df)[0])}+{len(current(df)[1])}")
            # (no other read in between: a comparison against a fresh copy through the library would itself be a read and
            #  could evict a stale cache entry - the recorder's rows are compared with the frame directly)
    return fails


def oracle(ctx, deep=False):
    for _ in range(ctx.n(4, 60)):
        seed = ctx.rng.randint(0, 10**6)
        ctx.evaluations += 1
        ctx.count("oracle:reused-frame-history")
        for f in granular_reuse(seed)[:2]:
            ctx.violations.append({"what": "row-level metric sees stale rows of a frame modified in place", "detail": f,
                                   "input": {"granular_reuse": True, "seed": seed}})
    special = [
        # rows x resamples far above 2**25: the interval still equals scipy.stats.bootstrap on the same arrays and seed
        {"kind": "bootstrap", "backend": "pandas", "alt": "two-sided", "cl": 0.9, "n_resamples": 1000, "method": "percentile",
         "seed": ctx.rng.randint(0, 10**6), "data_seed": ctx.rng.randint(0, 10**6), "q": 0.5, "sizes": [30000, 30000],
         "stat": "mean", "cols": ["x"], "big": True},
        # integers above 2**53 reach the statistic unchanged
        {"kind": "bootstrap", "backend": ctx.rng.choice(["pandas", "polars", "pyarrow", "ibis-sqlite"]), "alt": "two-sided", "cl": 0.9,
         "n_resamples": 30, "method": "percentile", "seed": ctx.rng.randint(0, 10**6), "data_seed": ctx.rng.randint(0, 10**6),
         "q": 0.5, "sizes": [12, 15], "stat": "mean", "cols": ["z"], "bigint": True}]
    for case in special:
        try:
            fails = check_bootstrap(case)
        except Exception as e:  # noqa: BLE001
            fails = [f"raised {type(e).__name__}: {e}"]
        ctx.evaluations += 1
        ctx.count("oracle:" + ("large-bootstrap" if case.get("big") else "big-integers"))
        for f in fails:
            ctx.violations.append({"what": f.split(" = ")[0][:60], "detail": f[:500], "input": case})
    for i in range(ctx.n(40, 1000) * (2 if deep else 1)):
        kind = ctx.rng.choice(["quantile", "bootstrap", "bootstrap"])
        case = {"kind": kind, "backend": ctx.rng.choice(["pandas", "polars", "polars-lazy", "pyarrow", "ibis-sqlite"]),
                "alt": ctx.rng.choice(["two-sided", "greater", "less"]), "cl": ctx.rng.choice([0.8, 0.9, 0.95]),
                "n_resamples": ctx.rng.choice([30, 99]), "method": ctx.rng.choice(["percentile", "basic", "bca"]),
                "seed": ctx.rng.randint(0, 10**6), "data_seed": ctx.rng.randint(0, 10**6), "q": ctx.rng.choice([0.25, 0.5, 0.9]),
                "sizes": [ctx.rng.randint(8, 40), ctx.rng.randint(8, 40)], "stat": ctx.rng.choice(["mean", "median"]),
                "cols": ctx.rng.sample(["x", "y", "z"], 1 if kind == "quantile" else ctx.rng.choice([1, 1, 2])),
                "batch": ctx.rng.choice([None, None, 7, 10]), "rechunk": ctx.rng.random() < 0.5}
        try:
            fails = check_bootstrap(case)
        except Exception as e:
            fails = [f"raised {type(e).__name__}: {e}"]
        ctx.evaluations += 1
        ctx.count("oracle:" + case["kind"] + ":" + case["method"])
        for f in fails:
            ctx.violations.append({"what": f.split(" = ")[0][:60], "detail": f[:500], "input": case})
        if len(ctx.violations) > 10:
            break


def replay(ctx, rp):
    inp = rp["input"]
    if inp.get("granular_reuse"):
        fails = granular_reuse(inp["seed"])
        return {"fails": bool(fails), "failures": fails}
    if "kind" in inp:
        fails = check_bootstrap(inp)
        return {"fails": bool(fails), "failures": fails}
    real = real_granular(inp)
    bad = []
    for v in inp["ids"]:
        want = [tuple(r[c] for c in inp["cols"]) for vv, r in inp["rows"] if vv == v and type(vv) is type(v)]
        if real.get(v, {}).get("rows") != want:
            bad.append(repr(v))
    return {"fails": bool(bad), "failures": bad}


def matches_finding(v, f):
    return False


def finding_still_fails(ctx, f):
    return False
