"""C02 - results do not depend on backend, row order, chunking or unrelated columns."""
from __future__ import annotations

import math
import random

import backends as B
import expx
import harness as H
import plans
from props.C01 import rand_request, validated, COLS

GEN = ["Aggr", "Mean"]
RULE = ("the same logical data as pandas / polars / polars-lazy / pyarrow / ibis-sqlite, in random row orders, with random "
        "re-chunking (multi-chunk pyarrow tables and polars frames), with and without unrelated columns; experiments with Mean, "
        "RatioOfMeans (with covariates), SampleRatio and Quantile (fixed seed, order-preserving backends, unpermuted rows); "
        "Experiment.analyze and solve_power results compared pairwise (relative 1e-9); variant keys compared by type and "
        "value (int / str / bool). correspondence: plan capture as C01 (all three builders give the same statistics by C01)")
TRUSTED = ["model/ReadPlan.v + plan capture (shared with C01)", "translator (agree theorem)"]
ASSUMES = ["C02_chunking_partial: chunking and dtype conversion are covered by the differential only"]


def correspondence(ctx):
    # backend independence of the aggregates rests on C01's plan tie: re-run a smaller plan-capture batch here
    import props.C01 as C1
    sub = H.Ctx("C01", ctx.tier, ctx.seed + 17)
    sub.n = lambda q, t: max(10, (t if ctx.tier == "thorough" else q) // 4)
    C1.correspondence(sub)
    ctx.obligations += sub.obligations
    ctx.discharged += sub.discharged
    ctx.broken += sub.broken
    ctx.evaluations += sub.evaluations
    ctx.distinct |= sub.distinct
    ctx.samples += sub.samples[:2]
    for k, v in sub.hist.items():
        ctx.count("plan:" + k, v)


def _rechunk(kind, tab, rng):
    if kind == "pyarrow":
        import pyarrow as pa
        n = tab.num_rows
        cuts = sorted(set(rng.sample(range(1, n), min(n - 1, rng.randint(1, 3))) + rng.choice([[1], [n - 1], []]))) if n > 1 else []
        parts = [tab.slice(a, b - a) for a, b in zip([0] + cuts, cuts + [n])]
        out = pa.concat_tables(parts)
        if rng.random() < 0.5:      # columns of one table may have different chunk layouts: a contiguous first column
            out = out.add_column(0, "row_id", pa.array(list(range(n))))
        return out
    if kind in ("polars", "polars-lazy"):
        import polars as pl
        df = tab.collect() if kind == "polars-lazy" else tab
        n = df.height
        k = rng.randint(1, max(1, n - 1))
        out = pl.concat([df[:k], df[k:]], rechunk=False)
        return out.lazy() if kind == "polars-lazy" else out
    return tab


def _vals(res):
    out = []
    for name, r in res.items():
        d = r if isinstance(r, dict) else r._asdict()
        out.append((name, tuple(sorted(d.items()))))
    return out


def _close(a, b, tol=1e-9):
    if isinstance(a, float) or isinstance(b, float):
        a, b = float(a), float(b)
        if math.isnan(a) or math.isnan(b):
            return math.isnan(a) and math.isnan(b)
        if math.isinf(a) or math.isinf(b):
            return a == b
        return abs(a - b) <= tol * max(1.0, abs(a), abs(b))
    return a == b


def _same(x, y, tol=1e-9):
    if len(x) != len(y):
        return False
    for (n1, d1), (n2, d2) in zip(x, y):
        if n1 != n2 or len(d1) != len(d2):
            return False
        for (k1, v1), (k2, v2) in zip(d1, d2):
            if k1 != k2 or not _close(v1, v2, tol):
                return False
    return True


def check_case(case):
    import tea_tasting as tt
    rng = random.Random(case["seed"])
    ids = {"int": [0, 1, 2], "str": ["a", "b", "c"], "bool": [False, True]}[case["id_kind"]][:case["n_variants"]]
    data = expx.rand_data(rng, ids, [4, 6, 15])
    metrics = [("m0", "mean", {"value": "x", "covariate": "y"}), ("m1", "ratio", {"numer": "z", "denom": "w", "ncov": "x"}),
               ("m2", "srm", {}), ("m3", "mean", {"value": "w", "covariate": None})]
    fails = []
    base = None
    try:
        for kind in B.KINDS:
            for variant in ("plain", "permuted", "rechunked", "no-junk"):
                d = dict(data)
                if variant == "permuted":
                    idx = list(range(len(d["variant"])))
                    rng.shuffle(idx)
                    d = {k: [v[i] for i in idx] for k, v in d.items()}
                if variant == "no-junk":
                    d = {k: v for k, v in d.items() if k != "junk"}
                else:
                    d["extra_text"] = ["t%d" % (i % 3) for i in range(len(d["variant"]))]
                    # an unrelated column with missing values: its gaps must not remove rows from any metric
                    d["extra_nullable"] = [(None if i % 4 == 1 else float(i)) for i in range(len(d["variant"]))]
                tab = B.make_table(kind, d)
                if variant == "rechunked":
                    tab = _rechunk(kind, tab, rng)
                objs, _ = expx.build(metrics)
                res = tt.Experiment(objs).analyze(tab, control=ids[0], all_variants=True)
                keys = list(res)
                for (c, t) in keys:
                    if type(c) is not type(ids[0]) or type(t) is not type(ids[0]):
                        fails.append(f"{kind}/{variant}: variant key types {type(c).__name__}, {type(t).__name__}")
                cur = [(k, _vals(r)) for k, r in res.items()]
                for m in objs.values():
                    if hasattr(m, "rel_effect_size"):
                        m.rel_effect_size = 0.1
                pw = tt.Experiment({k: v for k, v in objs.items() if k != "m2"}).solve_power(tab, "power")
                curp = [(k, tuple(tuple(round(float(x), 10) for x in r) for r in v)) for k, v in pw.items()]
                if base is None:
                    base = (cur, curp, kind, variant)
                else:
                    if [k for k, _ in cur] != [k for k, _ in base[0]]:
                        fails.append(f"{kind}/{variant}: pairs {[k for k, _ in cur]} != {[k for k, _ in base[0]]}")
                    else:
                        for (k, a), (_, b) in zip(cur, base[0]):
                            if not _same(a, b):
                                fails.append(f"{kind}/{variant}: analyze differs from {base[2]}/{base[3]} for pair {k}")
                    if curp != base[1]:
                        ok = all(k1 == k2 and all(_close(a, b, 1e-8) for r1, r2 in zip(v1, v2) for a, b in zip(r1, r2))
                                 for (k1, v1), (k2, v2) in zip(curp, base[1]))
                        if not ok:
                            fails.append(f"{kind}/{variant}: solve_power differs from {base[2]}/{base[3]}")
        # row-level metric with a fixed seed on order-preserving backends (same row order)
        qres = []
        for kind in ("pandas", "polars", "polars-lazy", "pyarrow"):
            q = tt.Quantile("x", 0.5, n_resamples=50, random_state=123)
            qres.append((kind, tuple(q.analyze(B.make_table(kind, data), ids[0], ids[1], "variant"))))
        for kind, r in qres[1:]:
            if not all(_close(a, b, 1e-12) for a, b in zip(r, qres[0][1])):
                fails.append(f"Quantile with fixed seed differs between {qres[0][0]} and {kind}")
        # the variant column as a categorical / dictionary type whose category order is NOT the order of first appearance
        # (plus an unused category): the same rows, so the same results as with plain strings
        if case["id_kind"] == "str":
            import pandas as pd
            import polars as pl
            import pyarrow as pa
            cats = list(reversed(ids)) + ["unused"]

            def categorical(kind):
                if kind == "pandas-categorical":
                    df = pd.DataFrame(data)
                    df["variant"] = pd.Categorical(df["variant"], categories=cats)
                    return df
                if kind == "polars-enum":
                    return pl.DataFrame(data).with_columns(pl.col("variant").cast(pl.Enum(cats)))
                if kind == "polars-categorical":
                    return pl.DataFrame(data).with_columns(pl.col("variant").cast(pl.Categorical))
                t = pa.table(data)
                idx = pa.array([cats.index(v) for v in data["variant"]], type=pa.int32())
                return t.set_column(t.schema.get_field_index("variant"), "variant",
                                    pa.DictionaryArray.from_arrays(idx, pa.array(cats)))
            mref = tuple(tt.Mean("x", "y").analyze(B.make_table("pandas", data), ids[0], ids[1], "variant"))
            for kind in ("pandas-categorical", "polars-enum", "polars-categorical", "pyarrow-dictionary"):
                q = tt.Quantile("x", 0.5, n_resamples=50, random_state=123)
                r = tuple(q.analyze(categorical(kind), ids[0], ids[1], "variant"))
                if not all(_close(a, b, 1e-12) for a, b in zip(r, qres[0][1])):
                    fails.append(f"{kind}: Quantile differs from the same rows with a plain string variant column")
                m = tuple(tt.Mean("x", "y").analyze(categorical(kind), ids[0], ids[1], "variant"))
                if not all(_close(a, b, 1e-9) for a, b in zip(m, mref)):
                    fails.append(f"{kind}: Mean differs from the same rows with a plain string variant column")
                e = tt.Experiment(m=tt.Mean("x"), q=tt.Quantile("x", 0.5, n_resamples=50, random_state=123)).analyze(
                    categorical(kind), control=ids[0], all_variants=True)
                if [tuple(map(str, k)) for k in e] != [(ids[0], t) for t in ids[1:]]:
                    fails.append(f"{kind}: pairs {list(e)}")
    finally:
        B.cleanup()
    return fails


def oracle(ctx, deep=False):
    for i in range(ctx.n(12, 300) * (2 if deep else 1)):
        id_kind = ctx.rng.choice(["int", "str", "bool"])
        case = {"id_kind": id_kind, "n_variants": 2 if id_kind == "bool" else ctx.rng.choice([2, 3]),
                "seed": ctx.rng.randint(0, 10**9)}
        fails = check_case(case)
        ctx.evaluations += 20
        ctx.count("oracle:ids=" + id_kind)
        for f in fails:
            ctx.violations.append({"what": f.split(":")[1].strip()[:50], "detail": f, "input": case})
        if len(ctx.violations) > 10:
            break


def replay(ctx, rp):
    fails = check_case(rp["input"])
    return {"fails": bool(fails), "failures": fails}


def matches_finding(v, f):
    return False


def finding_still_fails(ctx, f):
    return False
