"""C13 - global configuration is scoped, all-or-nothing, and captured at construction."""
from __future__ import annotations

import re

import harness as H
from props.C19 import to_pyval, show

GEN = ["Utils"]
RULE = ("random well-nested histories (depth <= 4, length <= 14) of set_config / config_context enter-exit-raise-in-body-"
        "failed-enter / get_config mutation / RatioOfMeans construction over standard and user-defined options with valid "
        "and invalid values from a pool; executed on the real module and on model/Config.v (vm_compute); final "
        "configuration, exception kind and the attributes of every constructed metric (read AFTER the whole history) "
        "must agree. oracle: the property itself checked on the real module along the same histories")
TRUSTED = ["hand model model/Config.v (mirrors config.py after fix commits 1efd211, b910358)", "translator tools/utils2coq.py",
           "contextlib.contextmanager / finally semantics as encoded in exec_op", "value identity used to map stored objects "
           "back to pool indices"]
ASSUMES = ["values are immutable in the model: aliasing of a mutable n_obs list between configuration and metrics is not modelled",
           "adjust_fdr/adjust_fwer read alpha at call time: covered by the C19 entry-point grid, not by this state machine"]

STD = ["alpha", "alternative", "confidence_level", "equal_var", "n_obs", "n_resamples", "power", "ratio", "use_t"]
USER = ["foo", "bar", "correction"]     # `correction` is not a standard option, but auto_check knows the name (bool)
NAMES = STD + USER
CTOR = ["alternative", "confidence_level", "equal_var", "use_t", "alpha", "ratio", "power", "n_obs"]
DEFAULTS = {"alpha": 0.05, "alternative": "two-sided", "confidence_level": 0.95, "equal_var": False, "n_obs": None,
            "n_resamples": 10_000, "power": 0.8, "ratio": 1, "use_t": True}


def make_pool():
    vals = [DEFAULTS[n] for n in STD]
    vals += [0.01, 0.1, 0.5, 0.9, 5.0, float("nan"), 1.0, 0.0, "greater", "less", "sideways", True, False, 2, 100,
             (100, 200), (100, 1), 0, -1, 7, "x", None, 2.5]
    # distinct objects so identity identifies the pool slot
    return [v if v is None or isinstance(v, (bool, str)) else v for v in vals]


class Box:
    """wraps a pool value so that identity is unique even for small ints / interned strings"""


def valid_idx(pool, name, rng):
    good = {"alpha": [0.01, 0.1, 0.5], "power": [0.5, 0.9], "confidence_level": [0.9, 0.5], "alternative": ["greater", "less"],
            "equal_var": [True, False], "use_t": [True, False], "correction": [True, False], "n_obs": [100, (100, 200)], "n_resamples": [100, 7],
            "ratio": [2, 2.5, 0.5]}
    if name in good:
        v = rng.choice(good[name])
        return next(i for i, p in enumerate(pool) if type(p) is type(v) and p == v and i >= len(STD))
    return rng.randrange(len(pool))


def rand_kwargs(pool, rng, names, invalid_rate):
    kw = []
    for n in names:
        if rng.random() < 0.3:
            if rng.random() < invalid_rate:
                kw.append((n, rng.randrange(len(STD), len(pool))))
            else:
                kw.append((n, valid_idx(pool, n, rng)))
    return kw


def rand_ops(pool, rng, depth, budget):
    ops = []
    n = rng.randint(1, 4)
    for _ in range(n):
        if budget[0] <= 0:
            break
        budget[0] -= 1
        r = rng.random()
        if r < 0.3:
            ops.append(("set", rand_kwargs(pool, rng, NAMES, 0.2)))
        elif r < 0.4:
            ops.append(("getmut", rng.choice(NAMES), rng.randrange(len(pool))))
        elif r < 0.65:
            ops.append(("construct", rand_kwargs(pool, rng, CTOR, 0.1)))
        elif depth < 4:
            ops.append(("with", rand_kwargs(pool, rng, NAMES, 0.2), rand_ops(pool, rng, depth + 1, budget), rng.random() < 0.25))
        else:
            ops.append(("set", rand_kwargs(pool, rng, NAMES, 0.2)))
    return ops


def ordered(kw):
    """Python processes the standard options in signature order first, then **kwargs in call order."""
    d = dict(kw)
    return [(n, d[n]) for n in STD if n in d] + [(n, v) for n, v in kw if n not in STD]


# ------------------------------------------------------------------ real execution
def _fingerprint(m):
    """Results of an existing metric on fixed aggregates: analysis and the three power solutions (or the exception type)."""
    import tea_tasting.aggr as A
    mk = lambda n, mu, v: A.Aggregates(count_=n, mean_={"x": mu, "y": 2.0}, var_={"x": v, "y": 1.5}, cov_={("x", "y"): 0.3})
    out = []

    def rnd(z, k):      # NaN (e.g. scipy's nct far tail) must compare equal to itself in a fingerprint
        z = float(z)
        return "nan" if z != z else round(z, k)
    try:
        out.append(tuple(rnd(z, 12) for z in m.analyze_aggregates(mk(400, 10.0, 4.0), mk(500, 10.4, 5.0))))
    except Exception as e:
        out.append(type(e).__name__)
    for par in ("rel_effect_size", "power"):
        old = m.rel_effect_size
        try:
            if par == "power":
                m.rel_effect_size = 0.05
            res = m.solve_power(mk(900, 10.0, 4.5), par)
            out.append(tuple(tuple(rnd(z, 10) for z in r) for r in res))
        except Exception as e:
            out.append(type(e).__name__)
        finally:
            m.rel_effect_size = old
    return tuple(out)


BODY_EXC = [RuntimeError, KeyboardInterrupt, SystemExit, GeneratorExit, RuntimeError]


def run_real(pool, ops):
    import tea_tasting as tt
    import tea_tasting.config as C
    C._global_config.clear()
    C._global_config.update({n: pool[i] for i, n in enumerate(STD)})
    metrics = []
    trace = []   # property checks along the way

    def idx(v):
        for i, p in enumerate(pool):
            if p is v:
                return i
        for i, p in enumerate(pool):
            if type(p) is type(v) and (p == v or (p != p and v != v)):
                return i
        return -2

    def run(ops):
        for op in ops:
            if op[0] == "set":
                before = dict(C._global_config)
                try:
                    tt.set_config(**{n: pool[i] for n, i in op[1]})
                except Exception:
                    if not same_dict(before, C._global_config):
                        trace.append(("set_config raised but changed the configuration", op))
                    raise
            elif op[0] == "getmut":
                c = tt.get_config()
                c[op[1]] = pool[op[2]]
            elif op[0] == "construct":
                kw = {n: pool[i] for n, i in op[1] if pool[i] is not None}
                m = tt.RatioOfMeans("x", **kw)
                snap = {n: C._global_config[n] for n in CTOR}
                for n in CTOR:
                    want = kw[n] if n in kw else snap[n]
                    if getattr(m, n) is not want and getattr(m, n) != want:
                        trace.append((f"metric.{n} is neither the explicit argument nor the configuration in force", op))
                metrics.append((m, {n: getattr(m, n) for n in CTOR}, _fingerprint(m)))
            else:
                before = dict(C._global_config)
                try:
                    with tt.config_context(**{n: pool[i] for n, i in op[1]}):
                        run(op[2])
                        if op[3]:
                            # any way of leaving the body by an exception: ordinary errors and the BaseExceptions
                            # (sys.exit() caught by the caller, Ctrl-C, a generator closed early)
                            raise BODY_EXC[(len(op[1]) + len(op[2])) % len(BODY_EXC)]("body")
                finally:
                    if not same_dict(before, C._global_config):
                        trace.append(("configuration after config_context differs from before", op))
    out = 0
    try:
        run(ops)
    except TypeError:
        out = 1
    except ValueError:
        out = 2
    except (RuntimeError, KeyboardInterrupt, SystemExit, GeneratorExit):
        out = 4
    except Exception:
        out = 3
    for m, at_construction, fp in metrics:
        for n in CTOR:
            if getattr(m, n) is not at_construction[n]:
                trace.append((f"metric.{n} changed after construction", None))
        # later configuration changes never alter an existing metric's RESULTS: at the end of the history, and inside
        # a context that sets every standard option differently
        if _fingerprint(m) != fp:
            trace.append(("results of an existing metric changed after later configuration changes", None))
        try:
            with tt.config_context(alpha=0.2, alternative="less", confidence_level=0.5, equal_var=True, n_obs=777,
                                   n_resamples=11, power=0.55, ratio=3, use_t=False):
                if _fingerprint(m) != fp:
                    trace.append(("results of an existing metric depend on the configuration in force at call time", None))
        except Exception as e:
            trace.append((f"config_context failed: {e!r}", None))
    cfg = {n: idx(v) for n, v in C._global_config.items()}
    recs = [[(n, idx(getattr(m, n))) for n in CTOR_ORDER(m)] for m, _, _ in metrics]
    return cfg, recs, out, trace


def CTOR_ORDER(m):
    return CTOR


def same_dict(a, b):
    return set(a) == set(b) and all(a[k] is b[k] or a[k] == b[k] or (a[k] != a[k] and b[k] != b[k]) for k in a)


# ------------------------------------------------------------------ model execution
def coq_kwargs(kw, full=None):
    d = dict(kw)
    items = [(n, d.get(n)) for n in full] if full else kw
    return "[" + "; ".join(f"({H.slit(n)}, {'None' if i is None else 'Some ' + str(i) + '%nat'})" for n, i in items) + "]"


def coq_ops(pool, ops):
    out = []
    for op in ops:
        notnone = lambda kw: [(n, i) for n, i in kw if pool[i] is not None]   # None means "not given"
        if op[0] == "set":
            out.append(f"SetConfig {coq_kwargs(ordered(notnone(op[1])))}")
        elif op[0] == "getmut":
            out.append(f"GetConfigMutate {H.slit(op[1])} {op[2]}%nat")
        elif op[0] == "construct":
            d = {n: i for n, i in op[1] if pool[i] is not None}
            out.append(f"Construct {coq_kwargs(list(d.items()), CTOR)}")
        else:
            out.append(f"With {coq_kwargs(ordered(notnone(op[1])))} {coq_ops(pool, op[2])} {'true' if op[3] else 'false'}")
    return "[" + "; ".join(out) + "]"


HEADER = ("From Coq Require Import ZArith QArith String List Bool.\n"
          "From TT Require Import lib.PyVal genP.Utils model.Config.\nImport ListNotations.\n"
          "Definition names : list string := [" + "; ".join(H.slit(n) for n in NAMES) + "].\n"
          "Fixpoint nidx (l : list string) (k : string) (i : Z) : Z := match l with [] => (-9)%Z | x :: t => "
          "if String.eqb x k then i else nidx t k (i + 1)%Z end.\n"
          "Definition oz (o : option nat) : Z := match o with Some n => Z.of_nat n | None => (-1)%Z end.\n"
          "Definition showcfg (c : config) : list (Z * Z) := map (fun kv => (nidx names (fst kv) 0%Z, Z.of_nat (snd kv))) c.\n"
          "Definition showrec (r : metric_record) : list (Z * Z) := ((-3)%Z, 0%Z) :: map (fun kv => (nidx names (fst kv) 0%Z, oz (snd kv))) r.\n"
          "Definition excode (e : pyexc) : Z := match e with TypeError => 1 | ValueError => 2 | KeyError => 3 | RuntimeError => 4 end%Z.\n"
          "Definition showout (o : outcome) : Z := match o with Normal => 0%Z | Raised e => excode e end.\n"
          "Definition runit (pool : list pyval) (ops : list op) : list (Z * Z) :=\n"
          "  let w0 := mk_world (combine [" + "; ".join(H.slit(n) for n in STD) + "] (seq 0 " + str(len(STD)) + ")) [] in\n"
          "  let '(w, out) := exec pool ops w0 in\n"
          "  showcfg (w_cfg w) ++ [((-2)%Z, showout out)] ++ concat (map showrec (w_metrics w)).\n")


def canon(pool, i):
    """first pool slot holding the same value (bool/str/int singletons make identity ambiguous)"""
    if i < 0:
        return i
    v = pool[i]
    for j, p in enumerate(pool):
        if type(p) is type(v) and (p == v or (p != p and v != v)):
            return j
    return i


def parse_model(s):
    pairs = [(int(a), int(b)) for a, b in re.findall(r"\((-?\d+), (-?\d+)\)", s)]
    cfg, recs, out, mode = {}, [], None, "cfg"
    for a, b in pairs:
        if a == -2:
            out, mode = b, "recs"
        elif a == -3:
            recs.append([])
        elif mode == "cfg":
            cfg[NAMES[a]] = b
        else:
            recs[-1].append((NAMES[a], b))
    return cfg, recs, out


def correspondence(ctx):
    ok, out, dt, failed = H.make(["model/Config.vo"])
    if not ctx.oblige(ok, "correspondence", "build of model/Config.vo", out):
        return
    pool = make_pool()
    pool_term = "[" + "; ".join(to_pyval(v) for v in pool) + "]"
    n = ctx.n(150, 6000)
    hist, terms, real = [], [], []
    corpus = [[("set", [("alpha", 9), ("power", 13)])],
              [("with", [("alpha", 9), ("power", 13)], [], False)],
              [("with", [("foo", 9)], [], False)],
              [("with", [("alpha", 9)], [("construct", [("power", 12)]), ("set", [("bar", 30)])], True), ("construct", [])]]
    for i in range(n):
        ops = corpus[i] if i < len(corpus) else rand_ops(pool, ctx.rng, 0, [14])
        hist.append(ops)
        terms.append(f"runit {pool_term} {coq_ops(pool, ops)}")
        real.append(run_real(pool, ops))
    res, errs = H.coq_eval_shards("c13", HEADER, terms)
    for e in errs:
        ctx.oblige(False, "correspondence", "vm_compute evaluation of generated histories", e)
    for ops, r, (cfg, recs, out, trace) in zip(hist, res, real):
        if r is None:
            continue
        mcfg, mrecs, mout = parse_model(r)
        mcfg = {k: canon(pool, v) for k, v in mcfg.items()}
        mrecs = [[(k, canon(pool, v)) for k, v in rec] for rec in mrecs]
        cfg = {k: canon(pool, v) for k, v in cfg.items()}
        recs = [[(k, canon(pool, v)) for k, v in rec] for rec in recs]
        same = (mcfg == cfg and mrecs == recs and mout == out)
        ctx.oblige(same, "correspondence", "model/Config.exec = real tea_tasting.config + RatioOfMeans construction",
                   f"model cfg={mcfg} recs={mrecs} out={mout}\nreal  cfg={cfg} recs={recs} out={out}", {"ops": repr(ops)})
        ctx.case_seen(repr(ops), nontrivial=len(ops) > 1 or ops[0][0] == "with")
        ctx.count("outcome:" + ["normal", "TypeError", "ValueError", "other", "RuntimeError(body)"][out])
        ctx.count("ops:%d" % _count(ops))
        ctx.sample({"history": repr(ops)[:400], "outcome": out, "final_config": cfg}, limit=3)
        for what, op in trace:
            ctx.violations.append({"what": what, "input": {"ops": repr(ops), "op": repr(op)}})
    import tea_tasting.config as C
    C._global_config.clear()
    C._global_config.update(DEFAULTS)


def _count(ops):
    return sum(1 + (_count(o[2]) if o[0] == "with" else 0) for o in ops)


def oracle(ctx, deep=False):
    # the property itself is checked on the real module along the histories of the correspondence run (trace);
    # here: more histories without the model
    pool = make_pool()
    for i in range(ctx.n(300, 10000) * (3 if deep else 1)):
        ops = rand_ops(pool, ctx.rng, 0, [20])
        cfg, recs, out, trace = run_real(pool, ops)
        ctx.evaluations += 1
        for what, op in trace:
            ctx.violations.append({"what": what, "input": {"ops": repr(ops), "op": repr(op)}})
        if len(ctx.violations) > 20:
            break
    import tea_tasting.config as C
    C._global_config.clear()
    C._global_config.update(DEFAULTS)
    grid_oracle(ctx)


GRID_VALUES = {"alpha": [0.01, 0.1, 0.5], "power": [0.5, 0.9, 0.99], "confidence_level": [0.5, 0.9, 0.99],
               "alternative": ["two-sided", "greater", "less"], "equal_var": [True, False], "use_t": [True, False],
               "n_obs": [100, (100, 200), 7], "n_resamples": [7, 100, 10_000], "ratio": [0.5, 1, 2.5]}


def grid_case(cls_name, opt, g, e):
    """explicit argument wins over the global value g, for EVERY constructor x option x pair of valid values (falsy ones
    included); without the argument the value in force at construction is captured and kept"""
    import tea_tasting as tt
    cls = getattr(tt, cls_name)
    args = {"Mean": ("x",), "RatioOfMeans": ("x", "y"), "Bootstrap": ("x", _stat), "Quantile": ("x",), "SampleRatio": ()}[cls_name]
    fails = []
    with tt.config_context(**{opt: g}):
        m_explicit = cls(*args, **{opt: e})
        m_default = cls(*args)
    same = lambda a, b: a == b and type(a) is type(b) or (isinstance(a, (int, float)) and isinstance(b, (int, float)) and a == b)
    if not same(getattr(m_explicit, opt), e):
        fails.append(f"{cls_name}({opt}={e!r}) under global {opt}={g!r} has {opt}={getattr(m_explicit, opt)!r}")
    if not same(getattr(m_default, opt), g):
        fails.append(f"{cls_name}() constructed under global {opt}={g!r} has {opt}={getattr(m_default, opt)!r} after the context")
    return fails


def _stat(x, axis=-1):
    import numpy as np
    return np.mean(x, axis=axis)


def grid_oracle(ctx):
    import inspect
    import tea_tasting as tt
    for cls_name in ("Mean", "RatioOfMeans", "Bootstrap", "Quantile", "SampleRatio"):
        params = inspect.signature(getattr(tt, cls_name).__init__).parameters
        for opt, vals in GRID_VALUES.items():
            if opt not in params or params[opt].default is not None:
                continue    # only options documented as "None = take the global default" come from the configuration
            for g in vals:
                for e in vals:
                    if g == e:
                        continue
                    fails = grid_case(cls_name, opt, g, e)
                    ctx.evaluations += 1
                    ctx.count("oracle:explicit-wins-grid")
                    for f in fails:
                        ctx.violations.append({"what": "explicit constructor argument / captured default: " + f.split(" has ")[0][:70],
                                               "detail": f, "input": {"grid": [cls_name, opt, g, e]}})


def replay(ctx, rp):
    if "grid" in rp["input"]:
        cls_name, opt, g, e = rp["input"]["grid"]
        fails = grid_case(cls_name, opt, tuple(g) if isinstance(g, list) else g, tuple(e) if isinstance(e, list) else e)
        return {"fails": bool(fails), "failures": fails}
    pool = make_pool()
    ops = eval(rp["input"]["ops"], {"nan": float("nan")})
    cfg, recs, out, trace = run_real(pool, ops)
    return {"fails": bool(trace), "failures": [t[0] for t in trace]}


def matches_finding(v, f):
    return False


def finding_still_fails(ctx, f):
    return False
