"""C01 - per-variant aggregates equal the exact sample statistics on every backend."""
from __future__ import annotations

import itertools
import math
import random
from fractions import Fraction as F

import backends as B
import harness as H
import plans

GEN = ["Aggr"]
RULE = ("P (plan capture): for random requests (subsets of count / mean / var / cov over up to 4 columns, duplicates and "
        "unsorted pairs, grouped and ungrouped) the plan reified from the REAL narwhals builder and from both branches of "
        "the REAL ibis builder must equal model/ReadPlan.plan_of_spec up to the order of the operands of + and * (plan_eqc by vm_compute; sound by C01_plan_comparison_is_sound). X (backends): "
        "read_aggregates on pandas / polars / polars-lazy / pyarrow / ibis-sqlite tables (int and float columns, offsets "
        "1e6..1e12, ties, 1..4 variants with int / str / bool ids) vs exact Fraction statistics with a conditioning-scaled "
        "tolerance; one result per variant; de-duplication and pair ordering of the request")
TRUSTED = ["hand model model/ReadPlan.v tied by plan capture (tools/plans.py recorders)", "denotation of plans (lib/PlanSem.v) = "
           "what the engines compute: validated on the five executable backends only", "ibis native var/cov(how='sample') "
           "mean what ibis documents (no installed backend implements both)",
           "recorder normalisation: data.join(data.group_by(g).agg(mean ...), on=g, how='left') is read as the window step "
           "mean(col) over the partition of g (relational identity; null keys aside)"]
ASSUMES = ["C01_engine_partial: that each of the five engines evaluates a captured plan as lib/PlanSem.v reads it (window mean over the "
           "partition, GROUP BY, one output row per group) is validated by the exact differential, not proved",
           "C01_error_bound_partial: the rounding-error bound is validated against exact rationals (offset stress), not proved",
           "naming hypotheses of the denotation theorem: data columns are not named like generated aliases; covariance aliases "
           "(_cov__a__b) of distinct requests do not collide (see known finding)"]

COLS = ["x", "y", "z", "w"]
# legal but unusual column names (every backend accepts them on the unchanged tree): empty, blank, keyword-like, quoted
EXOTIC = ["", " ", "a b", "\u00fc", "x'y", "select", "0", "A", "x.y", "%s", "None", "count", "variant ", "mean_", "_"]
# long names that differ only after a long common prefix (a metric and its pre-experiment covariate, ...)
LONG = ["revenue_per_user_in_the_thirty_days_" + "x" * 30 + suffix for suffix in
        ("_before_the_experiment", "_during_the_experiment", "_after_the_experiment", "_before_the_experiment_capped")]


def rand_request(rng, cols=COLS):
    mean = [rng.choice(cols) for _ in range(rng.randint(0, 3))]
    var = [rng.choice(cols) for _ in range(rng.randint(0, 3))]
    cov = [tuple(rng.sample(cols, 2)) for _ in range(rng.randint(0, 3))]
    if rng.random() < 0.15:      # a column paired with itself is a legitimate request: its covariance is its variance
        c = rng.choice(cols)
        cov.append((c, c))
    has_count = rng.random() < 0.6
    if not (mean or var or cov or has_count):
        has_count = True
    return {"has_count": has_count, "mean_cols": mean, "var_cols": var, "cov_cols": cov}


def validated(req):
    """what read_aggregates passes to the builders after _validate_aggr_cols (sets, sorted pairs)"""
    import tea_tasting.aggr as A
    m, v, c = A._validate_aggr_cols(req["mean_cols"], req["var_cols"], req["cov_cols"])
    return {"has_count": req["has_count"], "mean_cols": m, "var_cols": v, "cov_cols": c}


HEADER = "From Coq Require Import ZArith String List Bool.\nFrom TT Require Import lib.Plan model.ReadPlan.\nImport ListNotations.\n"


def correspondence(ctx):
    ok, out, dt, failed = H.make(["model/ReadPlan.vo"])
    if not ctx.oblige(ok, "correspondence", "build of model/ReadPlan.vo", out):
        return
    cases, terms = [], []
    for i in range(ctx.n(60, 1500)):
        req = rand_request(ctx.rng)
        val = validated(req)
        group = ctx.rng.choice(["variant", "variant", None])
        reqt = plans.coq_request(**val)
        g = "None" if group is None else f'(Some {H.slit(group)})'
        intc = tuple(COLS)
        for b, cap in (("Narwhals", lambda: plans.capture_narwhals(group, **val)),
                       ("IbisNative", lambda: plans.capture_ibis(True, group, **val, int_cols=intc)),
                       ("IbisFallback", lambda: plans.capture_ibis(False, group, **val, int_cols=intc))):
            try:
                captured = plans.coq_plan(cap())
            except Exception as e:
                ctx.oblige(False, "correspondence", f"plan capture failed for {b}", repr(e), {"request": req, "group": group})
                continue
            terms.append(f"plan_eqc {captured} (plan_of_spec {b} {reqt} {g})")
            cases.append({"builder": b, "request": req, "group": group, "captured": captured})
            ctx.count("builder:" + b)
        ctx.case_seen((repr(req), group), nontrivial=bool(val["var_cols"] or val["cov_cols"]))
    res, errs = H.coq_eval_shards("c01", HEADER, terms)
    for e in errs:
        ctx.oblige(False, "correspondence", "vm_compute evaluation of captured plans", e)
    for case, r in zip(cases, res):
        if r is None:
            continue
        ctx.oblige(r.strip() == "true", "correspondence", "plan reified from the real builder = model/ReadPlan.plan_of_spec",
                   case["captured"][:3000], {k: case[k] for k in ("builder", "request", "group")})
        ctx.sample({k: case[k] for k in ("builder", "request", "group")}, limit=3)


# ------------------------------------------------------------------ X: real backends vs exact statistics
def rand_table(rng, n_variants, id_kind):
    ids = {"int": [0, 1, 2, 3], "str": ["a", "b", "c", "d"], "bool": [False, True]}[id_kind][:n_variants]
    style = rng.choice(["ints", "floats", "offset", "ties", "mixed", "tiny", "narrow"])
    off = rng.choice([10**6, 10**9, 10**12]) if style == "offset" else 0
    data = {"variant": [], **{c: [] for c in COLS}, "junk": []}
    for v in ids:
        for _ in range(rng.choice([2, 3, 7, 20])):
            data["variant"].append(v)
            for i, c in enumerate(COLS):
                if style == "ints" or (style == "mixed" and i % 2 == 0):
                    x = rng.randint(-5, 30)
                elif style == "ties":
                    x = rng.choice([1, 1, 2, 5])
                elif style == "narrow":    # integers whose squares / products do not fit the narrow dtype they are stored in
                    x = [rng.randint(50_000, 100_000), rng.randint(200, 320), rng.randint(12, 100), rng.randint(46_000, 47_000)][i]
                elif style == "tiny":      # a genuine spread far below 1e-8 (exactly representable values)
                    x = rng.randint(-50, 50) * 2.0 ** -40
                else:
                    x = rng.randint(-1000, 1000) / 8.0 + off
                data[c].append(x)
            data["junk"].append(rng.random())
    idx = list(range(len(data["variant"])))
    rng.shuffle(idx)
    data = {k: [v[i] for i in idx] for k, v in data.items()}
    for i, c in enumerate(COLS):   # keep column dtypes homogeneous
        if any(isinstance(x, float) for x in data[c]):
            data[c] = [float(x) for x in data[c]]
    return data, ids, style


def accessor_fails(a, req, v):
    """the public accessors (what every metric reads) must return the stored statistics; None names mean the constant 1"""
    same = lambda x, y: x == y or (x != x and y != y)
    out = []
    try:
        if req["has_count"] and a.count() != a.count_:
            out.append(f"count()[{v!r}] = {a.count()} but count_ = {a.count_}")
        for c in a.mean_:
            if not same(a.mean(c), a.mean_[c]):
                out.append(f"mean({c!r})[{v!r}] = {a.mean(c)} but the statistic read is {a.mean_[c]}")
        for c in a.var_:
            if not same(a.var(c), a.var_[c]):
                out.append(f"var({c!r})[{v!r}] = {a.var(c)} but the statistic read is {a.var_[c]}")
        for (p, q) in a.cov_:
            for l, r in ((p, q), (q, p)):
                if not same(a.cov(l, r), a.cov_[(p, q)]):
                    out.append(f"cov({l!r},{r!r})[{v!r}] = {a.cov(l, r)} but the statistic read is {a.cov_[(p, q)]}")
        if (a.mean(None), a.var(None)) != (1, 0) or any(a.cov(None, c) != 0 or a.cov(c, None) != 0 for c in a.mean_):
            out.append("accessors with a None name are not the constant-1 column")
    except Exception as e:  # noqa: BLE001
        out.append(f"accessor raised {type(e).__name__}: {e}")
    return out


def _narrow(kind, tab, dtypes):
    """store the columns in narrow integer dtypes (what a parquet file or a database export often holds)"""
    if kind == "pandas":
        return tab.astype(dtypes)
    if kind in ("polars", "polars-lazy"):
        import polars as pl
        m = {"int32": pl.Int32, "int16": pl.Int16, "int8": pl.Int8}
        return tab.with_columns([pl.col(c).cast(m[t]) for c, t in dtypes.items()])
    import pyarrow as pa
    m = {"int32": pa.int32(), "int16": pa.int16(), "int8": pa.int8()}
    for c, t in dtypes.items():
        tab = tab.set_column(tab.schema.get_field_index(c), c, tab[c].cast(m[t]))
    return tab


def exact_stats(data, rows, COLS=COLS):
    def col(c):
        return [F(data[c][i]) for i in rows]
    n = len(rows)
    mean = lambda xs: sum(xs, F(0)) / n
    cov = lambda xs, ys: sum(((a - mean(xs)) * (b - mean(ys)) for a, b in zip(xs, ys)), F(0)) / (n - 1)
    return n, {c: mean(col(c)) for c in COLS}, {(a, b): cov(col(a), col(b)) for a in COLS for b in COLS}, \
        {c: max(abs(x) for x in col(c)) for c in COLS}


def check_backend(case):
    import tea_tasting.aggr as A
    rng = random.Random(case["seed"])
    data, ids, style = rand_table(rng, case["n_variants"], case["id_kind"])
    req = case["request"]
    ren = case.get("names") or {}
    if ren:   # the same table and request under unusual column names
        data = {ren.get(k, k): v for k, v in data.items()}
        req = {"has_count": req["has_count"], "mean_cols": [ren.get(c, c) for c in req["mean_cols"]],
               "var_cols": [ren.get(c, c) for c in req["var_cols"]],
               "cov_cols": [[ren.get(c, c) for c in p] for p in req["cov_cols"]]}
    cols = [ren.get(c, c) for c in COLS]
    fails = []
    try:
        # money columns declared DECIMAL(10, 2) in SQL (the values have at most two decimals in the styles below)
        decl = ({c: "DECIMAL(10, 2)" for c in cols} if case["backend"] == "ibis-sqlite" and case.get("decimal")
                and style in ("ints", "ties", "mixed") else None)
        tab = B.make_table(case["backend"], data, decl) if decl else B.make_table(case["backend"], data)
        if style == "narrow" and case["backend"] != "ibis-sqlite":
            tab = _narrow(case["backend"], tab, dict(zip(cols, ["int32", "int16", "int8", "int32"])))
        if case.get("rechunk") and case["backend"] in ("pyarrow", "polars", "polars-lazy"):
            from props.C02 import _rechunk
            tab = _rechunk(case["backend"], tab, rng)     # several chunks, e.g. a first chunk of one row
        group = "variant" if case["grouped"] else None
        res = A.read_aggregates(tab, group, has_count=req["has_count"], mean_cols=req["mean_cols"],
                                var_cols=req["var_cols"], cov_cols=[tuple(p) for p in req["cov_cols"]])
    finally:
        B.cleanup()
    groups = {v: [i for i, x in enumerate(data["variant"]) if x == v and type(x) is type(v)] for v in ids} if case["grouped"] \
        else {None: list(range(len(data["variant"])))}
    if case["grouped"]:
        if sorted(map(repr, res)) != sorted(map(repr, ids)) or len(res) != len(ids):
            return [f"variant keys {sorted(map(repr, res))} != {sorted(map(repr, ids))}"]
        for k in res:
            if type(k) is not type(ids[0]):
                fails.append(f"variant key {k!r} has type {type(k).__name__}, expected {type(ids[0]).__name__}")
    else:
        res = {None: res}
    eps = 2.0 ** -52
    for v, rows in groups.items():
        a = res[v]
        n, m, cv, mx = exact_stats(data, rows, cols)
        fails += accessor_fails(a, req, v)
        if req["has_count"] and a.count_ != n:
            fails.append(f"count[{v!r}] = {a.count_} != {n}")
        if not req["has_count"] and a.count_ is not None:
            fails.append("count present although not requested")
        if set(a.mean_) != set(req["mean_cols"]) or set(a.var_) != set(req["var_cols"]):
            fails.append(f"keys: mean {sorted(a.mean_)} var {sorted(a.var_)}")
        want_cov = {tuple(sorted(p)) for p in map(tuple, req["cov_cols"])}
        if set(a.cov_) != want_cov:
            fails.append(f"cov keys {sorted(a.cov_)} != {sorted(want_cov)}")
        for c in a.mean_:
            tol = 16 * n * eps * max(float(mx[c]), 1e-300)
            if abs(F(a.mean_[c]) - m[c]) > tol:
                fails.append(f"mean[{c}][{v!r}] = {a.mean_[c]} exact {float(m[c])} (style {style})")
        for c in a.var_:
            # two-pass algorithm (Chan, Golub & LeVeque): |err| <~ n eps var + n^2 eps^2 mean^2
            tol = 64 * n * eps * max(float(cv[(c, c)]), 1e-300) + 8 * n * n * (eps * float(mx[c])) ** 2 + 1e-300
            if abs(F(a.var_[c]) - cv[(c, c)]) > tol:
                fails.append(f"var[{c}][{v!r}] = {a.var_[c]} exact {float(cv[(c, c)])} (style {style})")
        for (p, q) in a.cov_:
            scale = math.sqrt(float(cv[(p, p)]) * float(cv[(q, q)]))
            tol = 64 * n * eps * max(scale, 1e-300) + 8 * n * n * eps * eps * float(mx[p]) * float(mx[q]) + 1e-300
            if abs(F(a.cov_[(p, q)]) - cv[(p, q)]) > tol:
                fails.append(f"cov[{p},{q}][{v!r}] = {a.cov_[(p, q)]} exact {float(cv[(p, q)])} (style {style})")
    return fails


def reread_case(seed):
    """the same frame object read twice with the same request, its contents changed in place in between: the second
    read gives the statistics of the CURRENT rows"""
    import numpy as np
    import pandas as pd
    import tea_tasting.aggr as A
    r = np.random.default_rng(seed)
    n = 40
    df = pd.DataFrame({"variant": r.integers(0, 2, n), "x": r.normal(5, 2, n).round(3), "y": r.normal(1, 1, n).round(3)})
    req = dict(has_count=True, mean_cols=["x", "y"], var_cols=["x"], cov_cols=[("x", "y")])
    fails = []
    group = "variant" if seed % 2 == 0 else None      # the SAME request every time, nothing else read in between
    for step in range(3):
        got = A.read_aggregates(df, group, **req)
        g = got if group is None else got[0]
        rows = df if group is None else df[df["variant"] == 0]
        want_mean = {"x": float(rows["x"].mean()), "y": float(rows["y"].mean())}
        want_var = float(rows["x"].var(ddof=1))
        if (g.count_ != len(rows) or any(abs(g.mean_[c] - want_mean[c]) > 1e-9 * max(1.0, abs(want_mean[c])) for c in want_mean)
                or abs(g.var_["x"] - want_var) > 1e-9 * max(1.0, want_var)):
            fails.append(f"step {step} (group={group}): re-reading the modified frame gives mean {g.mean_}, var {g.var_}, count {g.count_}; "
                         f"its current rows have mean {want_mean}, var {want_var}, count {len(rows)}")
        df.loc[df.index[: n // 2], "x"] = df.loc[df.index[: n // 2], "x"] * 3.0 + 1.0
        df["y"] = df["y"] - 2.0
    return fails


def oracle(ctx, deep=False):
    for _ in range(ctx.n(3, 30)):
        seed = ctx.rng.randint(0, 10**6)
        ctx.evaluations += 1
        ctx.count("oracle:re-read-after-in-place-change")
        for f in reread_case(seed)[:1]:
            ctx.violations.append({"what": "read_aggregates returns stale statistics", "detail": f, "input": {"reread": True, "seed": seed}})
    for i in range(ctx.n(150, 4000) * (2 if deep else 1)):
        id_kind = ctx.rng.choice(["int", "int", "str", "bool"])
        case = {"backend": ctx.rng.choice(B.KINDS), "id_kind": id_kind,
                "n_variants": ctx.rng.choice([1, 2, 2, 3, 4]) if id_kind != "bool" else 2,
                "grouped": ctx.rng.random() < 0.75, "request": rand_request(ctx.rng), "seed": ctx.rng.randint(0, 10**9),
                "rechunk": ctx.rng.random() < 0.5, "decimal": ctx.rng.random() < 0.5}
        if ctx.rng.random() < 0.3:
            case["names"] = dict(zip(COLS, ctx.rng.sample(EXOTIC, len(COLS))))
        elif ctx.rng.random() < 0.15:
            case["names"] = dict(zip(COLS, ctx.rng.sample(LONG, len(COLS))))
        case["request"]["cov_cols"] = [list(p) for p in case["request"]["cov_cols"]]
        fails = check_backend(case)
        ctx.evaluations += 1
        ctx.count("oracle:" + case["backend"])
        for f in fails:
            ctx.violations.append({"what": f.split("[")[0].split(" = ")[0][:60], "detail": f, "input": case})
        if len(ctx.violations) > 20:
            break
    # large tables (the sizes above are small so that exact rationals stay cheap): every in-memory backend at 3e5 rows
    for kind in ("pandas", "polars", "polars-lazy", "pyarrow"):
        n = ctx.n(300_000, 1_000_000)
        seed = ctx.rng.randint(0, 10**6)
        for f in large_table_probe(kind, n, seed):
            ctx.violations.append({"what": "large table: variance / covariance wrong", "detail": f,
                                   "input": {"large_table": True, "backend": kind, "rows": n, "seed": seed}})
        ctx.evaluations += 1
        ctx.count("oracle:large-table:" + kind)
    # alias collision: cov pairs ("a", "b__c") and ("a__b", "c") share the alias _cov__a__b__c
    import tea_tasting.aggr as A
    import pyarrow as pa
    rng = random.Random(5)
    data = {"a": [rng.random() for _ in range(8)], "b__c": [rng.random() for _ in range(8)],
            "a__b": [rng.random() for _ in range(8)], "c": [rng.random() for _ in range(8)]}
    r = A.read_aggregates(pa.table(data), None, has_count=False, mean_cols=(), var_cols=(),
                          cov_cols=(("a", "b__c"), ("a__b", "c")))
    col = lambda c: [F(x) for x in data[c]]
    ex = lambda p, q: float(sum((x - sum(col(p)) / 8) * (y - sum(col(q)) / 8) for x, y in zip(col(p), col(q))) / 7)
    for (p, q), val in r.cov_.items():
        if abs(val - ex(p, q)) > 1e-9:
            ctx.violations.append({"what": "alias collision", "detail": f"cov[{p},{q}] = {val}, exact {ex(p, q)}",
                                   "input": {"alias_collision": True}})


def large_table_probe(kind, n, seed, tries=3):
    """Variance of a large table per variant against numpy's two-pass variance (float64; tolerance far above rounding)."""
    import numpy as np
    import tea_tasting.aggr as A
    rng = np.random.default_rng(seed)
    v = rng.integers(0, 2, n)
    x = rng.normal(0, 1, n) + v
    y = rng.normal(3, 2, n) + x
    fails = []
    for _ in range(tries):        # the failure of the pyarrow path depends on thread scheduling
        try:
            tab = B.make_table(kind, {"variant": v.tolist(), "x": x.tolist(), "y": y.tolist()})
            ag = A.read_aggregates(tab, "variant", has_count=True, mean_cols=("x", "y"), var_cols=("x", "y"), cov_cols=(("x", "y"),))
        finally:
            B.cleanup()
        for g in (0, 1):
            want_v = float(np.var(x[v == g], ddof=1))
            want_c = float(np.cov(x[v == g], y[v == g])[0, 1])
            if abs(ag[g].var("x") - want_v) > 1e-6 * want_v or abs(ag[g].cov("x", "y") - want_c) > 1e-6 * abs(want_c):
                fails.append(f"{kind}, {n} rows, variant {g}: var(x) = {ag[g].var('x')} (numpy {want_v}), cov(x,y) = {ag[g].cov('x', 'y')} (numpy {want_c})")
        if fails:
            break
    return fails


def replay(ctx, rp):
    if isinstance(rp.get("input"), dict) and rp["input"].get("reread"):
        fails = reread_case(rp["input"]["seed"])
        return {"fails": bool(fails), "failures": fails}
    if rp["input"].get("large_table"):
        fails = large_table_probe(rp["input"]["backend"], rp["input"]["rows"], rp["input"]["seed"])
        return {"fails": bool(fails), "failures": fails}
    if rp["input"].get("alias_collision"):
        return {"fails": True, "note": "re-run ./check C01"}
    fails = check_backend(rp["input"])
    return {"fails": bool(fails), "failures": fails}


def matches_finding(v, f):
    if f.get("predicate") == "pyarrow_large_table":
        i = v.get("input", {})
        return bool(i.get("large_table")) and i.get("backend") == "pyarrow" and i.get("rows", 0) >= 100_000
    return f.get("predicate") == "alias_collision" and v["what"] == "alias collision"


def finding_still_fails(ctx, f):
    if f.get("predicate") == "pyarrow_large_table":
        return bool(large_table_probe("pyarrow", 400_000, 7, tries=4))
    c = H.Ctx("C01", "quick", 0)
    import tea_tasting.aggr as A
    import pyarrow as pa
    data = {"a": [1.0, 2.0, 4.0, 3.0], "b__c": [2.0, 1.0, 0.5, 7.0], "a__b": [1.0, 5.0, 2.0, 2.0], "c": [3.0, 3.5, 1.0, 0.0]}
    r = A.read_aggregates(pa.table(data), None, has_count=False, mean_cols=(), var_cols=(), cov_cols=(("a", "b__c"), ("a__b", "c")))
    return abs(r.cov_[("a", "b__c")] - r.cov_[("a__b", "c")]) < 1e-12
