"""C09 - solving for effect size or sample size inverts the power function."""
from __future__ import annotations

import math
from fractions import Fraction as F

import harness as H
import meanx

GEN = ["Aggr", "Mean"]
RULE = ("correspondence: (a) the real _find_boundary vs the regenerated find_boundary_opt on affine functions incl. the "
        "RuntimeError after MAX_ITER steps; (b) the real _solve_power_from_stats in its three modes on Fractions, with affine "
        "stand-ins for sqrt / distributions and for scipy.optimize.brentq (3 f(lo) + 5 f(hi) + 7 lo + 11 hi) vs the model "
        "(vm_compute), exact. oracle on the public API (floats, real scipy): solved effect sizes fed back reproduce the target "
        "power and have the sign of the alternative; solved n_obs is the smallest integer reaching the target; no exception "
        "for valid requests over ratios 0.1..10; rows = effect sizes x n_obs in input order; abs/rel related by the mean")
TRUSTED = ["translator tools/py2coq.py (Mean spec incl. _find_boundary pattern)", "scipy.optimize.brentq contract (solver_ok)",
           "stand-in shims", "monotonicity of power in n for the t test (C08 partial) for minimality"]
ASSUMES = ["brentq's tolerance: n_obs may be off by one when the root is within 1e-9 of an integer; the oracle tolerates exactly that",
           "row assembly: template translation (the source text of solve_power_from_aggregates / _validate_power_parameters must be "
           "unchanged) + exact differential of the rows"]


def usolver(fn, lo, hi, maxiter=None):
    return 3 * meanx._F(fn(lo)) + 5 * meanx._F(fn(hi)) + 7 * meanx._F(lo) + 11 * meanx._F(hi)


HEADER = (meanx.HEADER + "\nDefinition usolver (fn : num -> num) (lo hi : num) : num := "
          "qadd (qadd (qadd (qmul (nlit 3) (fn lo)) (qmul (nlit 5) (fn hi))) (qmul (nlit 7) lo)) (qmul (nlit 11) hi).\n"
          "Definition oshow (o : option num) : Z * Z := match o with Some x => qshow x | None => ((-999999999)%Z, 1%Z) end.\n")


def correspondence(ctx):
    import tea_tasting.metrics.mean as M
    ok, out, dt, failed = H.make(["genQ/Mean.vo", "lib/CaseQ.vo"])
    if not ctx.oblige(ok, "correspondence", "build of genQ/Mean.vo", out):
        return
    cases, terms, expect = [], [], []
    # (a) _find_boundary on affine functions a - b*x
    for i in range(ctx.n(60, 1500)):
        a = F(ctx.rng.randint(-50, 2000), ctx.rng.choice([1, 3]))
        b = F(ctx.rng.choice([0, 1, 1, 2, 7, -1]), ctx.rng.choice([1, 10, 10**6, 10**40, 10**99]))
        init = F(ctx.rng.choice([1, 3, 10, -2]), ctx.rng.choice([1, 4]))
        mult = F(ctx.rng.choice([10, 10, 2, 3]))
        try:
            exp = ("some", F(M._find_boundary(lambda x: a - b * x, init, mult)))
        except RuntimeError:
            exp = ("none", None)
        cases.append({"kind": "find_boundary", "a": H.frac(a), "b": H.frac(b), "init": H.frac(init), "mult": H.frac(mult)})
        terms.append(f"[oshow (find_boundary_opt (fun x => qsub {H.qlit(a)} (qmul {H.qlit(b)} x)) {H.qlit(init)} {H.qlit(mult)})]")
        expect.append([F(-999999999)] if exp[0] == "none" else [exp[1]])
        ctx.count("find_boundary:" + exp[0])
        ctx.case_seen(cases[-1])
    # (b) the three modes
    for i in range(ctx.n(150, 4000)):
        cfg = meanx.rand_cfg(ctx.rng, covariates=0, ratio_metric=False)
        v = F(ctx.rng.randint(1, 400), ctx.rng.choice([1, 3]))
        mode = ctx.rng.choice(["power", "effect", "n_obs"])
        n = F(ctx.rng.randint(5, 3000)) if mode != "n_obs" else None
        e = F(ctx.rng.randint(-50, 50), ctx.rng.choice([1, 10])) if mode != "effect" else None
        p = cfg["power"] if mode != "power" else None
        with meanx.rational_shims():
            old = M.scipy.optimize
            M.scipy.optimize = type("O", (), {"brentq": staticmethod(usolver)})
            try:
                m = meanx.make_metric(cfg)
                from props.C10 import UQE
                m.ratio = UQE(m.ratio)     # keeps `1.5 * max(...)` (a float literal times the ratio) exact
                try:
                    got = meanx._F(m._solve_power_from_stats(sample_var=v, sample_count=n, effect_size=e, power=p))
                except RuntimeError:
                    ctx.count("mode:%s:max_iter_skipped" % mode)
                    continue
                except ZeroDivisionError:
                    ctx.count("mode:%s:zero_division_skipped" % mode)
                    continue
            finally:
                M.scipy.optimize = old
        o = lambda x: "None" if x is None else f"(Some {H.qlit(x)})"
        cases.append({"kind": mode, "cfg": meanx.cfg_json(cfg), "var": H.frac(v), "n": None if n is None else H.frac(n),
                      "effect": None if e is None else H.frac(e)})
        terms.append(f"[qshow (rom_solve_power_from_stats ufam usolver {meanx.coq_cfg(cfg)} {H.qlit(v)} {o(n)} {o(e)} {o(p)})]")
        expect.append([got])
        ctx.count("mode:" + mode)
        ctx.case_seen(cases[-1])
    # (c) the row assembly of solve_power_from_aggregates: sequences of effect sizes / n_obs, all four parameters
    import gen as G
    for i in range(ctx.n(60, 1500)):
        cfg = meanx.rand_cfg(ctx.rng)
        rows_ = G.rand_rows(ctx.rng, ctx.rng.choice([3, 4, 6]), style=ctx.rng.choice(["ints", "smallpos"]))
        agg = G.real_aggregates(rows_, G.COLS)
        par = ctx.rng.choice(["power", "effect_size", "rel_effect_size", "n_obs"])
        seq = lambda k, lo, hi, den: [F(ctx.rng.randint(lo, hi), ctx.rng.choice(den)) for _ in range(k)]
        which = ctx.rng.choice(["abs", "rel", "none"]) if par in ("power", "n_obs") else "none"
        es = seq(ctx.rng.choice([1, 2, 3]), 1, 40, [1, 10]) if which == "abs" else None
        rs = seq(ctx.rng.choice([1, 2, 3]), 1, 30, [10, 100]) if which == "rel" else None
        ns = seq(ctx.rng.choice([1, 2, 3]), 10, 3000, [1]) if ctx.rng.random() < 0.6 else None
        scalar = ctx.rng.random() < 0.3     # a scalar attribute instead of a one-element sequence (_to_seq)
        unseq = lambda l: l if l is None else (l[0] if scalar and len(l) == 1 else tuple(l))
        with meanx.rational_shims():
            old = M.scipy.optimize
            M.scipy.optimize = type("O", (), {"brentq": staticmethod(usolver)})
            try:
                m = meanx.make_metric(cfg)
                from props.C10 import UQE
                m.ratio = UQE(m.ratio)
                m.effect_size, m.rel_effect_size, m.n_obs = unseq(es), unseq(rs), unseq(ns)
                try:
                    out = m.solve_power_from_aggregates(agg, par)
                    got = []
                    for r_ in out:
                        got += [meanx._F(r_.power), meanx._F(r_.effect_size), meanx._F(r_.rel_effect_size), meanx._F(r_.n_obs)]
                    got = [F(1)] + got
                except ValueError as ex:
                    if "should be defined" not in str(ex):
                        raise
                    got = [F(0)]
                except (RuntimeError, ZeroDivisionError):
                    ctx.count("rows:skipped")
                    continue
            finally:
                M.scipy.optimize = old
        ol = lambda l: "None" if l is None else "(Some [" + "; ".join(H.qlit(x) for x in l) + "])"
        pc = {"power": "PPower", "effect_size": "PEffect", "rel_effect_size": "PRelEffect", "n_obs": "PNObs"}[par]
        cases.append({"kind": "rows", "cfg": meanx.cfg_json(cfg), "parameter": par, "agg": G.agg_json(agg),
                      "effect_size": None if es is None else [H.frac(x) for x in es],
                      "rel_effect_size": None if rs is None else [H.frac(x) for x in rs],
                      "n_obs": None if ns is None else [H.frac(x) for x in ns], "scalar": scalar})
        terms.append(f"match rom_solve_power_from_aggregates ufam usolver {meanx.coq_cfg(cfg)} {ol(es)} {ol(rs)} {ol(ns)} "
                     f"{G.coq_agg(agg)} {pc} with None => [(0%Z, 1%Z)] | Some rows => (1%Z, 1%Z) :: flat_map (fun w => "
                     "[oshow (pw_power w); oshow (pw_effect_size w); oshow (pw_rel_effect_size w); oshow (pw_n_obs w)]) rows end")
        expect.append(got)
        ctx.count("rows:" + par + ":" + which)
        ctx.case_seen(cases[-1])
    res, errs = H.coq_eval_shards("c09", HEADER, terms)
    for e_ in errs:
        ctx.oblige(False, "correspondence", "vm_compute evaluation", e_)
    for case, r, exp in zip(cases, res, expect):
        if r is None:
            continue
        got = H.parse_pairs(r)
        ctx.oblige(H.same_numbers(got, exp), "correspondence", "model = real _find_boundary / _solve_power_from_stats / solve_power_from_aggregates rows (exact, stand-ins)",
                   f"model={got} real={exp}", case)
        ctx.sample(case, limit=4)


# ------------------------------------------------------------------ oracle
def _aggr(mean, var, n):
    import tea_tasting.aggr as A
    return A.Aggregates(count_=n, mean_={"x": mean}, var_={"x": var}, cov_={})


@H.under_contrary_config
def check_case(case):
    import tea_tasting as tt
    fails = []
    kw = dict(alternative=case["alt"], equal_var=case["equal_var"], use_t=case["use_t"], alpha=case["alpha"],
              ratio=case["ratio"], power=case["power"])
    data = _aggr(case["mean"], case["var"], 1000)
    sign = -1 if case["alt"] == "less" else 1
    # --- solve for the effect size, for a sequence of n_obs (designs that leave a group fewer than two observations are
    #     not designs: with extreme ratios only the larger totals qualify)
    rr = case["ratio"]
    ns = [n for n in case["n_obs"] if min(n / (1 + rr), n * rr / (1 + rr)) >= 2]
    if not ns:
        ns = [int(4 * max(rr, 1 / rr)) * 10]
    try:
        res = tt.Mean("x", n_obs=tuple(ns), **kw).solve_power(data, "effect_size")
    except Exception as e:
        if "is NaN" in str(e) and case["use_t"] and case["alt"] == "two-sided":
            return [f"solver hit scipy nct NaN (two-sided t): solving for effect_size raised {type(e).__name__}"]
        return [f"solving for effect_size raised {type(e).__name__}: {e}"]
    if [r.n_obs for r in res] != list(ns):
        fails.append(f"rows not in n_obs input order: {[r.n_obs for r in res]}")
    for r in res:
        if not (r.effect_size * sign > 0):
            fails.append(f"solved effect {r.effect_size} does not follow the alternative {case['alt']}")
        if abs(r.rel_effect_size - r.effect_size / case["mean"]) > 1e-9 * abs(r.rel_effect_size):
            fails.append("abs/rel effect size not related by the mean")
        if r.power != case["power"]:
            fails.append("power column is not the target")
        back = tt.Mean("x", effect_size=r.effect_size, n_obs=r.n_obs, **kw).solve_power(data, "power")[0].power
        if abs(back - case["power"]) > 1e-6:
            fails.append(f"substituting the solved effect {r.effect_size} (n={r.n_obs}) gives power {back}, target {case['power']}")
    # relative parameter gives the same rows
    res_rel = tt.Mean("x", n_obs=tuple(ns), **kw).solve_power(data, "rel_effect_size")
    if [tuple(round(float(x), 12) for x in r) for r in res_rel] != [tuple(round(float(x), 12) for x in r) for r in res]:
        fails.append("solving for rel_effect_size differs from solving for effect_size")
    # --- solve for n_obs, for a sequence of effects (only designs whose answer needs more than ~4*max(r, 1/r) observations)
    lim0 = int(4 * max(case["ratio"], 1 / case["ratio"])) + 2
    effs = []
    for e in case["effects"]:
        p0 = tt.Mean("x", effect_size=sign * e, n_obs=lim0, **kw).solve_power(data, "power")[0].power
        if p0 < case["power"] - 1e-6 or math.isnan(p0):
            effs.append(sign * e)
    if not effs:
        return fails
    try:
        resn = tt.Mean("x", effect_size=tuple(effs), **kw).solve_power(data, "n_obs")
    except Exception as e:
        if "is NaN" in str(e) and case["use_t"] and case["alt"] == "two-sided":
            return fails + [f"solver hit scipy nct NaN (two-sided t): solving for n_obs raised {type(e).__name__}"]
        return fails + [f"solving for n_obs raised {type(e).__name__}: {e} (ratio {case['ratio']})"]
    if [r.effect_size for r in resn] != effs:
        fails.append("rows not in effect_size input order")
    lim = 4 * max(case["ratio"], 1 / case["ratio"])
    for r in resn:
        n = r.n_obs
        if n != int(n) or n <= lim:
            continue    # designs needing only a handful of observations are outside the property
        pw = lambda k: tt.Mean("x", effect_size=r.effect_size, n_obs=int(k), **kw).solve_power(data, "power")[0].power
        p_n, p_prev = pw(n), pw(n - 1)
        # one more observation changes the power by p_n - p_prev; the returned n is minimal when the target lies between the
        # two (slack: 1% of that step for the Z test whose cdf is accurate to an ulp; the t / nct functions are noisier)
        slack = (0.01 * abs(p_n - p_prev) + 1e-13) if not case["use_t"] else 1e-7
        if not (p_n >= case["power"] - slack and p_prev <= case["power"] + slack):
            fails.append(f"n_obs={n} is not the smallest sample size reaching power {case['power']}: power(n)={p_n}, power(n-1)={p_prev}")
    return fails


def rand_case(rng):
    return {"alt": rng.choice(meanx.ALTS), "equal_var": rng.random() < 0.5, "use_t": rng.random() < 0.5,
            "alpha": rng.choice([0.01, 0.05, 0.1]), "power": rng.choice([0.5, 0.8, 0.9, 0.95]),
            "ratio": rng.choice([1, 1, 2, 0.5, 3, 0.25, 1.5, 5, 10, 0.1, 99, 150, 0.01, 0.005]), "mean": rng.choice([1.0, 10.0, -5.0]),
            "var": rng.choice([0.5, 4.0, 100.0]),
            # tiny effects need sample sizes of 1e7 .. 1e9, extreme ratios leave one group a handful of observations
            "effects": rng.sample([0.000002, 0.0005, 0.002, 0.02, 0.05, 0.1, 0.3, 1.0], 2), "n_obs": rng.sample([60, 200, 1000, 20000], 2)}


def sequence_kinds():
    """every collections.abc.Sequence the constructor accepts gives one row per element: tuple, list, range, deque"""
    import collections
    import tea_tasting as tt
    data = _aggr(10.0, 4.0, 1000)
    fails = []
    ref = [tuple(r) for r in tt.Mean("x", rel_effect_size=0.1, n_obs=(100, 200, 300)).solve_power(data, "power")]
    for label, ns in (("list", [100, 200, 300]), ("range", range(100, 301, 100))):
        try:
            got = [tuple(r) for r in tt.Mean("x", rel_effect_size=0.1, n_obs=ns).solve_power(data, "power")]
        except Exception as e:  # noqa: BLE001
            fails.append(f"n_obs given as a {label} raised {type(e).__name__}: {e}")
            continue
        if got != ref:
            fails.append(f"n_obs given as a {label}: rows {got} != rows for the tuple {ref}")
    ref = [tuple(r) for r in tt.Mean("x", effect_size=(0.2, 0.5), n_obs=500).solve_power(data, "power")]
    for label, es in (("list", [0.2, 0.5]), ("deque", collections.deque([0.2, 0.5]))):
        try:
            got = [tuple(r) for r in tt.Mean("x", effect_size=es, n_obs=500).solve_power(data, "power")]
        except Exception as e:  # noqa: BLE001
            fails.append(f"effect_size given as a {label} raised {type(e).__name__}: {e}")
            continue
        if got != ref:
            fails.append(f"effect_size given as a {label}: rows differ from the tuple")
    return fails


def oracle(ctx, deep=False):
    ctx.evaluations += 1
    for f in sequence_kinds():
        ctx.violations.append({"what": "sequence-valued attributes: " + f.split(":")[0][:60], "detail": f, "input": {"sequence_kinds": True}})
    reuse_oracle(ctx)
    for i in range(ctx.n(60, 1500) * (3 if deep else 1)):
        case = rand_case(ctx.rng)
        fails = check_case(case)
        ctx.evaluations += 1
        ctx.count(f"oracle:ratio={case['ratio']}")
        for f in fails:
            ctx.violations.append({"what": " ".join(f.split(" ")[:4]), "detail": f, "input": case})
        if len(ctx.violations) > 20:
            break


def reuse_oracle(ctx):
    for parameter in ['effect_size', 'rel_effect_size', 'n_obs']:
        for _ in range(ctx.n(3, 40)):
            seed = ctx.rng.randint(0, 10**6)
            fails = meanx.reuse_history(seed, parameter)
            ctx.evaluations += 1
            ctx.count("oracle:reused-object-history")
            for f in fails:
                ctx.violations.append({"what": "result depends on earlier calls on the same metric object", "detail": f,
                                       "input": {"reuse_history": True, "seed": seed, "parameter": parameter}})


def replay(ctx, rp):
    if rp["input"].get("sequence_kinds"):
        fails = sequence_kinds()
        return {"fails": bool(fails), "failures": fails}
    if rp["input"].get("reuse_history"):
        fails = meanx.reuse_history(rp["input"]["seed"], rp["input"]["parameter"])
        return {"fails": bool(fails), "failures": fails}
    fails = check_case(rp["input"])
    return {"fails": bool(fails), "failures": fails}


def matches_finding(v, f):
    if f.get("predicate") == "nct_nan_in_bracket":
        return v["detail"].startswith("solver hit scipy nct NaN (two-sided t)") and v["input"]["use_t"] and v["input"]["alt"] == "two-sided"
    return False


def finding_still_fails(ctx, f):
    return any(x.startswith("solver hit scipy nct NaN") for x in check_case(f["witness"]))
