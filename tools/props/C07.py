"""C07 - every Mean / RatioOfMeans result is internally coherent."""
from __future__ import annotations

import math
from fractions import Fraction as F

import gen as G
import harness as H
import meanx

GEN = ["Aggr", "Mean"]
RULE = ("correspondence: random metric configurations (Mean/RatioOfMeans, 0-2 covariates, 12 option cells) on random "
        "small exact samples; real analyze_aggregates on Fractions with affine stand-ins for sqrt/exp/distributions vs "
        "the regenerated model (vm_compute), exact. oracle: every coherence relation evaluated on the real code "
        "(floats, real scipy) over random aggregates x option pairs x pairs of confidence levels")
TRUSTED = ["translator tools/py2coq.py (Aggr, Mean specs)", "distribution oracles t/norm with laws L1-L6 of lib/Distr.v "
           "(satisfiable: lib/DistrWitness.v)", "stand-in shims of tools/meanx.py", "CPython fractions.Fraction"]
ASSUMES = ["scipy.stats.t / norm satisfy laws L1-L6 (validated numerically by the oracle relations, not proved)",
           "statements are over the reals; floating-point rounding is outside the theorem"]


def correspondence(ctx):
    meanx.run_correspondence(ctx, ctx.n(120, 3000), "c07")


# ------------------------------------------------------------------ oracle on the real code
def _metric(cfg, alt=None, cl=None):
    import hashlib
    import tea_tasting as tt
    import tea_tasting.metrics.mean as M
    kw = dict(alternative=alt or cfg["alternative"], confidence_level=float(cl or cfg["confidence_level"]),
              equal_var=cfg["equal_var"], use_t=cfg["use_t"])
    cols = (cfg["numer"], cfg["denom"], cfg["numer_covariate"], cfg["denom_covariate"])
    key = int(hashlib.sha1(repr((sorted(kw.items()), cols)).encode()).hexdigest(), 16)
    if key % 3 == 0:
        # every option SUPPLIED BY THE GLOBAL CONFIGURATION in force at construction instead of explicitly: the same metric
        with tt.config_context(**kw):
            return M.RatioOfMeans(*cols)
    return M.RatioOfMeans(*cols, **kw)


@H.under_contrary_config
def check_relations(cfg, a, b, cl2=None):
    """All coherence relations on the real code; returns list of (relation, detail)."""
    fails = []
    tol = 1e-9
    cl = float(cfg["confidence_level"])
    r = _metric(cfg).analyze_aggregates(a, b)
    alt = cfg["alternative"]
    if any(isinstance(x, float) and math.isnan(x) for x in (r.effect_size, r.pvalue, r.statistic)):
        return None  # degenerate statistics (scale 0 / nan) belong to C18
    if r.effect_size != r.treatment - r.control:
        fails.append(("effect_size = treatment - control", f"{r.effect_size} vs {r.treatment - r.control}"))
    if r.control != 0 and abs(r.rel_effect_size - (r.treatment / r.control - 1)) > tol * max(1, abs(r.rel_effect_size)):
        fails.append(("rel_effect_size = treatment/control - 1", ""))
    if not (0 <= r.pvalue <= 1):
        fails.append(("pvalue in [0,1]", str(r.pvalue)))
    if alt == "greater" and not (r.effect_size_ci_upper == math.inf and r.rel_effect_size_ci_upper == math.inf):
        fails.append(("greater: unbounded above", ""))
    if alt == "less" and not (r.effect_size_ci_lower == -math.inf and r.rel_effect_size_ci_lower == -math.inf):
        fails.append(("less: unbounded below", ""))
    scale = abs(r.effect_size / r.statistic) if r.statistic not in (0, 0.0) and math.isfinite(r.statistic) else 1.0
    eps = tol * max(1.0, abs(r.effect_size), scale)
    if not (r.effect_size_ci_lower <= r.effect_size + eps and r.effect_size - eps <= r.effect_size_ci_upper):
        fails.append(("contains", f"[{r.effect_size_ci_lower}, {r.effect_size_ci_upper}] vs {r.effect_size}"))
    if r.control * r.treatment > 0 and math.isfinite(r.rel_effect_size):
        e2 = tol * max(1.0, abs(r.rel_effect_size))
        lo, hi = r.rel_effect_size_ci_lower, r.rel_effect_size_ci_upper
        if not (math.isnan(lo) or math.isnan(hi)) and not (lo <= r.rel_effect_size + e2 and r.rel_effect_size - e2 <= hi):
            fails.append(("contains(rel)", f"[{lo}, {hi}] vs {r.rel_effect_size}"))
    # duality
    excl = r.effect_size_ci_lower > 0 or r.effect_size_ci_upper < 0
    near = abs(r.pvalue - (1 - cl)) < 1e-6 * max(r.pvalue, 1 - cl) or min(abs(r.effect_size_ci_lower), abs(r.effect_size_ci_upper)) < 1e-9 * max(1.0, scale)
    if not near and ((r.pvalue < 1 - cl) != excl):
        fails.append(("duality", f"p={r.pvalue} 1-cl={1 - cl} ci=[{r.effect_size_ci_lower},{r.effect_size_ci_upper}]"))
    # complementarity
    pg = _metric(cfg, "greater").analyze_aggregates(a, b).pvalue
    pl = _metric(cfg, "less").analyze_aggregates(a, b).pvalue
    pt = _metric(cfg, "two-sided").analyze_aggregates(a, b).pvalue
    if abs(pg + pl - 1) > 1e-9:
        fails.append(("p_greater + p_less = 1", f"{pg}+{pl}"))
    if abs(pt - 2 * min(pg, pl)) > 1e-9 * max(1e-300, pt) + 1e-12:
        fails.append(("p_two_sided = 2 min", f"{pt} vs {2 * min(pg, pl)}"))
    # nesting
    if cl2 is not None:
        c1, c2 = sorted((cl, float(cl2)))
        r1 = _metric(cfg, cl=c1).analyze_aggregates(a, b)
        r2 = _metric(cfg, cl=c2).analyze_aggregates(a, b)
        if not (r2.effect_size_ci_lower <= r1.effect_size_ci_lower + eps and r1.effect_size_ci_upper <= r2.effect_size_ci_upper + eps):
            fails.append(("nesting", f"{c1}:{r1.effect_size_ci_lower, r1.effect_size_ci_upper} {c2}:{r2.effect_size_ci_lower, r2.effect_size_ci_upper}"))
    return fails


def reassign_case(seed):
    """one metric object whose public attributes (confidence_level, alternative, equal_var, use_t) are reassigned between
    analyses: every analysis equals that of a fresh metric constructed with the attributes' current values"""
    import random
    import tea_tasting.metrics.mean as M
    rng = random.Random(seed)
    a, b = _float_aggs(rng)
    m = M.RatioOfMeans("x", "y") if rng.random() < 0.5 else M.Mean("x")
    fails = []
    for step in range(4):
        cur = dict(alternative=rng.choice(meanx.ALTS), confidence_level=rng.choice([0.8, 0.9, 0.95, 0.99]),
                   equal_var=rng.random() < 0.5, use_t=rng.random() < 0.5)
        for k, v in cur.items():
            setattr(m, k, v)
        try:
            got = tuple(m.analyze_aggregates(a, b))
            fresh = tuple((M.RatioOfMeans("x", "y", **cur) if type(m) is M.RatioOfMeans else M.Mean("x", **cur)).analyze_aggregates(a, b))
        except (ZeroDivisionError, ValueError, OverflowError):
            continue
        if not all(x == y or (x != x and y != y) for x, y in zip(got, fresh)):
            fails.append(f"step {step}: after setting {cur} the reused metric gives {got[3:5]} / p={got[8]}, a fresh metric {fresh[3:5]} / p={fresh[8]}")
    return fails


def _float_aggs(rng):
    rows1 = G.rand_rows(rng, rng.choice([2, 3, 10, 50]), style=rng.choice(["generic", "positive", "ints", "correlated"]))
    rows2 = G.rand_rows(rng, rng.choice([2, 5, 12, 40]), style=rng.choice(["generic", "positive", "ints", "correlated"]))
    return G.real_aggregates(rows1, G.COLS, float), G.real_aggregates(rows2, G.COLS, float)


def oracle(ctx, deep=False):
    for _ in range(ctx.n(10, 200)):
        seed = ctx.rng.randint(0, 10**6)
        ctx.evaluations += 1
        ctx.count("oracle:reassigned-attributes")
        for f in reassign_case(seed)[:1]:
            ctx.violations.append({"what": "reused metric object: result does not follow its current attributes", "detail": f,
                                   "input": {"reassign": True, "seed": seed}})
    n = ctx.n(300, 6000) * (3 if deep else 1)
    done = 0
    for i in range(n):
        cfg = meanx.rand_cfg(ctx.rng)
        a, b = _float_aggs(ctx.rng)
        cl2 = F(ctx.rng.randint(1, 99), 100)
        try:
            fails = check_relations(cfg, a, b, cl2)
        except (ZeroDivisionError, OverflowError, ValueError) as e:
            ctx.count("oracle:raised_" + type(e).__name__ + "_skipped(C18)")
            continue
        if fails is None:
            ctx.count("oracle:degenerate_skipped")
            continue
        done += 1
        ctx.evaluations += 1
        ctx.count("oracle:" + cfg["alternative"] + (":cl<.5" if cfg["confidence_level"] < F(1, 2) else ":cl>=.5"))
        for what, detail in fails:
            ctx.violations.append({"what": what, "detail": detail,
                                   "input": {"cfg": meanx.cfg_json(cfg), "control": G.agg_json(a), "treatment": G.agg_json(b),
                                             "cl2": H.frac(cl2)}})
        if len(ctx.violations) > 200:
            break
    ctx.extra["oracle_cases"] = done
    # boundary sweep: small unequal groups with very different means/variances (absolute and log-scale reference
    # distributions differ), the statistic swept across the critical values of every option cell
    import tea_tasting.aggr as A
    sweep = 0
    for ev in (False, True):
        for ut in (False, True):
            for alt in meanx.ALTS:
                for (n1, m1, v1, n2, v2) in [(3, 13.0, 100.0, 30, 10.0), (25, 2.0, 0.5, 4, 40.0)]:
                    for cl in (F(9, 10), F(95, 100)):
                        for k in range(-24, 25, 2 if not deep else 1):
                            se = (v1 / n1 + v2 / n2) ** 0.5
                            m2 = m1 + k / 6 * se
                            if m2 * m1 <= 0:
                                continue
                            cfg = {"numer": "x", "denom": None, "numer_covariate": None, "denom_covariate": None,
                                   "alternative": alt, "confidence_level": cl, "equal_var": ev, "use_t": ut,
                                   "alpha": F(1, 20), "ratio": F(1), "power": F(4, 5)}
                            a = A.Aggregates(count_=n1, mean_={c: m1 for c in G.COLS}, var_={c: v1 for c in G.COLS},
                                             cov_={(p, q): 0.0 for p in G.COLS for q in G.COLS if p < q})
                            b = A.Aggregates(count_=n2, mean_={c: m2 for c in G.COLS}, var_={c: v2 for c in G.COLS},
                                             cov_={(p, q): 0.0 for p in G.COLS for q in G.COLS if p < q})
                            try:
                                fails = check_relations(cfg, a, b, F(99, 100)) or []
                            except (ZeroDivisionError, OverflowError, ValueError):
                                continue
                            sweep += 1
                            for what, detail in fails:
                                ctx.violations.append({"what": what, "detail": detail, "input": {
                                    "cfg": meanx.cfg_json(cfg), "control": G.agg_json(a), "treatment": G.agg_json(b),
                                    "cl2": "99/100"}})
    # large samples: the statistic just inside / outside the critical value of the t distribution with thousands of degrees
    # of freedom (where a normal quantile would differ in the 4th digit)
    import scipy.stats as st
    for ev in (False, True):
        for alt in meanx.ALTS:
            for n in (1000, 20000, 150000):
                for cl in (F(95, 100), F(975, 1000)):
                    for side in (1 - 2e-4, 1 + 2e-4, "between"):
                        df = 2 * n - 2
                        q = (1 + float(cl)) / 2 if alt == "two-sided" else float(cl)
                        if side == "between":      # exactly between the normal and the t critical value
                            side = (st.norm.ppf(q) + st.t.ppf(q, df)) / 2 / st.t.ppf(q, df)
                        crit = st.t.ppf(q, df) * side * (-1 if alt == "less" else 1)
                        m1, v = 10.0, 1.0
                        m2 = m1 + crit * (2 * v / n) ** 0.5
                        cfg = {"numer": "x", "denom": None, "numer_covariate": None, "denom_covariate": None,
                               "alternative": alt, "confidence_level": cl, "equal_var": ev, "use_t": True,
                               "alpha": F(1, 20), "ratio": F(1), "power": F(4, 5)}
                        a = A.Aggregates(count_=n, mean_={c: m1 for c in G.COLS}, var_={c: v for c in G.COLS},
                                         cov_={(p, q_): 0.0 for p in G.COLS for q_ in G.COLS if p < q_})
                        b = A.Aggregates(count_=n, mean_={c: m2 for c in G.COLS}, var_={c: v for c in G.COLS},
                                         cov_={(p, q_): 0.0 for p in G.COLS for q_ in G.COLS if p < q_})
                        fails = check_relations(cfg, a, b, F(99, 100)) or []
                        sweep += 1
                        for what, detail in fails:
                            ctx.violations.append({"what": what, "detail": detail, "input": {
                                "cfg": meanx.cfg_json(cfg), "control": G.agg_json(a), "treatment": G.agg_json(b), "cl2": "99/100"}})
    # extreme but valid levels (within 1e-9 .. 1e-15 of 1, and tiny two-sided levels) with statistics far on either side
    for ut in (False, True):
        for alt in meanx.ALTS:
            for cl in (1 - 1e-9, 1 - 1e-12, 1 - 1e-13, 1 - 1e-14, 1 - 1e-15) + ((1e-9, 1e-13) if alt == "two-sided" else ()):
                for z in (-40.0, -12.0, -3.0, 3.0, 12.0, 40.0):
                    n1, n2, v = 40, 50, 4.0
                    m1 = 100.0
                    m2 = m1 + z * (v / n1 + v / n2) ** 0.5
                    cfg = {"numer": "x", "denom": None, "numer_covariate": None, "denom_covariate": None,
                           "alternative": alt, "confidence_level": F(cl), "equal_var": False, "use_t": ut,
                           "alpha": F(1, 20), "ratio": F(1), "power": F(4, 5)}
                    a = A.Aggregates(count_=n1, mean_={c: m1 for c in G.COLS}, var_={c: v for c in G.COLS},
                                     cov_={(p, q_): 0.0 for p in G.COLS for q_ in G.COLS if p < q_})
                    b = A.Aggregates(count_=n2, mean_={c: m2 for c in G.COLS}, var_={c: v for c in G.COLS},
                                     cov_={(p, q_): 0.0 for p in G.COLS for q_ in G.COLS if p < q_})
                    fails = check_relations(cfg, a, b, None) or []
                    r = _metric(cfg).analyze_aggregates(a, b)
                    if _metric(cfg).confidence_level != cl:
                        fails.append(("level kept", f"metric.confidence_level = {_metric(cfg).confidence_level!r} for {cl!r}"))
                    if not all(math.isfinite(x) for x, side in ((r.effect_size_ci_lower, "greater"), (r.effect_size_ci_upper, "less"))
                               if alt in ("two-sided", side)):
                        fails.append(("finite bound at a level below 1", f"[{r.effect_size_ci_lower}, {r.effect_size_ci_upper}] at {cl!r}"))
                    sweep += 1
                    ctx.count("oracle:extreme-level")
                    for what, detail in fails:
                        ctx.violations.append({"what": what, "detail": detail, "input": {
                            "cfg": meanx.cfg_json(cfg), "control": G.agg_json(a), "treatment": G.agg_json(b), "cl2": None}})
    ctx.evaluations += sweep
    ctx.extra["boundary_sweep_cases"] = sweep


def replay(ctx, rp):
    inp = rp["input"]
    if inp.get("reassign"):
        fails = reassign_case(inp["seed"])
        return {"fails": bool(fails), "failures": fails}
    cfg = meanx.cfg_from_json(inp["cfg"])
    a, b = G.agg_from_json(inp["control"], float), G.agg_from_json(inp["treatment"], float)
    fails = check_relations(cfg, a, b, F(inp["cl2"]) if inp.get("cl2") else None) or []
    want = rp.get("what")
    hit = [f for f in fails if want is None or f[0] == want]
    return {"fails": bool(hit), "failures": fails}


def matches_finding(v, f):
    if f.get("predicate") == "one_sided_low_level":
        cfg = v["input"]["cfg"]
        return (v["what"] in ("contains", "contains(rel)") and cfg["alternative"] in ("greater", "less")
                and F(cfg["confidence_level"]) < F(1, 2))
    return False


def finding_still_fails(ctx, f):
    res = replay(ctx, {"input": f["witness"], "what": "contains"})
    return res["fails"]
