"""C18 - degenerate but valid data gives NaN / inf results, never an exception."""
from __future__ import annotations

import math
import re
import traceback
from fractions import Fraction

import backends as B
import harness as H

GEN = ["Aggr", "Mean"]
RULE = ("correspondence (1): every primitive of lib/PreludeX.v (+ - * / unary -, abs, **2, max(x, 0), min, math.sqrt, math.exp, "
        "mean._exp, ==, <) on plain / utils.Float / utils.Int operands over {-inf, negative, 0, positive, +inf, NaN, 800} vs the "
        "real Python operators: same kind (plain / wrapped / which exception) and same value class; correspondence (2): "
        "RatioOfMeans.analyze_aggregates on Aggregates with degenerate statistics (zero / negative-rounding variances, zero means, "
        "inf / NaN entries) vs genX rom_analyze_aggregates (vm_compute, constant stand-in family): raised or not, and kind / class "
        "of control, treatment, effect_size, rel_effect_size. oracle: Mean / RatioOfMeans (with and without covariates) through "
        "Experiment.analyze on pandas / polars / polars-lazy / pyarrow / ibis-sqlite tables from the degenerate families of the "
        "property (constant columns, zero means, zero denominators, numerator proportional to denominator, covariate equal to / "
        "affine in the metric, control mean within rounding of zero, groups of size 2) x alternative x equal_var x use_t: no "
        "exception; control / treatment / effect_size / rel_effect_size equal the exact Fraction values where defined; exact-zero "
        "control mean gives +inf / NaN by the documented rule")
TRUSTED = ["lib/PreludeX.v: hand-written exception semantics of Python float / utils.Float arithmetic, math.sqrt, math.exp (compared "
           "with the real operators on special values on every run)",
           "scipy.stats frozen distributions never raise and return plain floats (fam_total; observed by the oracle)",
           "intermediate rounding and overflow to +-inf are not represented in the model's exact finite arithmetic (the proof is a kind "
           "derivation valid for every operand value; the analysis path contains no ** operator, which is the one that raises on overflow)",
           "tools/py2coq.py translator; tools/specs.py check that with_zero_div wraps every statistic and that _exp is the saturating exponential"]
ASSUMES = []
SPECIALS = ["-inf", "-2.5", "-1", "0", "0.0", "1", "3", "inf", "nan", "800", "-5", "1e200"]


# ------------------------------------------------------------------ primitive operations
def py_val(kind, s):
    import tea_tasting.utils as U
    v = int(s) if re.fullmatch(r"-?\d+", s) else float(s)
    if kind == "w":
        return U.numeric(v)
    return v


def coq_val(kind, s):
    if s == "inf":
        f = "FPInf"
    elif s == "-inf":
        f = "FNInf"
    elif s == "nan":
        f = "FNaN"
    else:
        fr = Fraction(s)
        f = f"(FFin ({fr.numerator} # {fr.denominator}))"
    isint = "true" if re.fullmatch(r"-?\d+", s) else "false"
    return f"({'Wrapped' if kind == 'w' else 'Plain'} {isint} {f})"


def classify(x):
    import tea_tasting.utils as U
    kind = (1 if isinstance(x, U._NumericBase) else 0) + (10 if isinstance(x, int) else 0)
    v = float(x)
    if math.isnan(v):
        c = 3
    elif v == math.inf:
        c = 2
    elif v == -math.inf:
        c = -2
    else:
        c = (v > 0) - (v < 0)
    return (kind, c)


EXC = {"ZeroDivisionError": (2, 0), "ValueError": (3, 0), "OverflowError": (4, 0)}


def run_py(fn):
    try:
        return classify(fn())
    except (ZeroDivisionError, ValueError, OverflowError) as e:
        return EXC[type(e).__name__]


def primitive_cases():
    import tea_tasting.metrics.mean as M
    cases = []
    ops2 = [("xadd", lambda a, b: a + b), ("xsub", lambda a, b: a - b), ("xmul", lambda a, b: a * b),
            ("xdiv", lambda a, b: a / b), ("nmax", lambda a, b: max(a, b)), ("nmin", lambda a, b: min(a, b))]
    ops1 = [("xneg", lambda a: -a), ("nabs", lambda a: abs(a)), ("nsqrt", lambda a: math.sqrt(a)), ("nexp", lambda a: math.exp(a)),
            ("nexp_sat", lambda a: M._exp(a)), ("(fun x => npow x 2)", lambda a: a ** 2),
            ("(fun x => nsqrt (nmax x (nlit 0)))", lambda a: math.sqrt(max(a, 0)))]
    vals = [(k, s) for k in "pw" for s in SPECIALS]
    for name, f in ops2:
        for ka, sa in vals:
            for kb, sb in vals:
                if name in ("xmul", "xadd", "xsub") and ("800" in (sa, sb) or "1e200" in (sa, sb)):
                    continue     # (1e200 * 1e200 overflows to inf in floats; the model's finite arithmetic is exact)
                cases.append((f"xshow ({name} {coq_val(ka, sa)} {coq_val(kb, sb)})", (lambda f=f, a=(ka, sa), b=(kb, sb): f(py_val(*a), py_val(*b))),
                              f"{name} {ka}:{sa} {kb}:{sb}"))
    for name, f in ops1:
        for ka, sa in vals:
            if sa == "800" and "npow" in name:
                continue
            if sa == "1e200" and name in ("nexp", "nexp_sat"):
                continue
            cases.append((f"xshow ({name} {coq_val(ka, sa)})", (lambda f=f, a=(ka, sa): f(py_val(*a))), f"{name} {ka}:{sa}"))
    cmps = [("neqb", lambda a, b: a == b), ("nltb", lambda a, b: a < b)]
    for name, f in cmps:
        for ka, sa in vals:
            for sb in ("0", "1", "nan", "inf"):
                cases.append((f"(if {name} {coq_val(ka, sa)} {coq_val('p', sb)} then (9, 1) else (9, 0))%Z",
                              (lambda f=f, a=(ka, sa), sb=sb: (9, int(bool(f(py_val(*a), py_val("p", sb)))))), f"{name} {ka}:{sa} {sb}"))
    return cases


HEADER = ("From Coq Require Import QArith String List ZArith.\nFrom TT Require Import lib.PreludeX genX.Aggr genX.Mean.\n"
          "Import ListNotations.\nOpen Scope Z_scope.\n"
          "Definition pl_const (v : fl) : xv -> xv := fun x => match x with Raise e => Raise e | _ => Plain false v end.\n"
          "Definition const_dist (v : fl) : dist xv := mk_dist (pl_const v) (pl_const v) (pl_const v) (pl_const v).\n"
          "Definition const_family : dist_family xv := mk_family (fun _ => const_dist (FFin 1)) (fun _ => const_dist (FFin 1)) "
          "(fun _ _ => const_dist (FFin 1)).\n"
          "Definition alook (k : string) (l : list (string * xv)) : xv := (fix f l := match l with [] => nraise | (k', v) :: t => "
          "if String.eqb k k' then v else f t end) l.\n"
          "Definition alook2 (k : string * string) (l : list (string * string * xv)) : xv := (fix f l := match l with [] => nraise | "
          "(a, b, v) :: t => if andb (String.eqb (fst k) a) (String.eqb (snd k) b) then v else f t end) l.\n"
          "Definition mkagg (n : xv) (ms vs : list (string * xv)) (cs : list (string * string * xv)) : aggregates xv :=\n"
          "  mk_aggregates (Some n) (fun k => alook k ms) (fun k => alook k vs) (fun k => alook2 k cs).\n"
          "Definition eshowx (e : ext xv) : Z * Z := match e with Fin x => xshow x | PInf => (0, 2) | NInf => (0, -2) end.\n"
          "Definition rshow (r : mean_result) : list (Z * Z) := [xshow (mr_control r); xshow (mr_treatment r); xshow (mr_effect_size r); "
          "xshow (mr_rel_effect_size r); eshowx (mr_effect_size_ci_lower r); eshowx (mr_effect_size_ci_upper r); "
          "eshowx (mr_rel_effect_size_ci_lower r); eshowx (mr_rel_effect_size_ci_upper r); xshow (mr_pvalue r); xshow (mr_statistic r)].\n")


def parse_zpairs(s):
    return [(int(a), int(b)) for a, b in re.findall(r"\((-?\d+), (-?\d+)\)", s)]


# ------------------------------------------------------------------ aggregates-level cases
COLS = ["y", "d", "x", "e"]
STATV = ["0", "0", "1", "-1", "2", "0.5", "-3", "inf", "nan"]
VARV = ["0", "0", "1", "4", "0.25", "-1e-17", "1e-17", "inf", "nan", "1e170"]


def rand_agg_case(rng):
    def agg():
        n = rng.choice(["2", "2", "3", "5", "10"])
        means = {c: rng.choice(STATV[:7] if rng.random() < 0.9 else STATV) for c in COLS}
        vs = {c: rng.choice(VARV[:7] if rng.random() < 0.9 else VARV) for c in COLS}
        covs = {}
        for i, a in enumerate(COLS):
            for b in COLS[i + 1:]:
                covs[f"{a},{b}"] = rng.choice(["0", "0", "1", "-1", "0.5", "2", "1e-17"])
        return {"n": n, "mean": means, "var": vs, "cov": covs}
    which = rng.choice(["mean", "meancov", "ratio", "ratiocov", "ratiocov1"])
    cols = {"mean": ("y", None, None, None), "meancov": ("y", None, "x", None), "ratio": ("y", "d", None, None),
            "ratiocov": ("y", "d", "x", "e"), "ratiocov1": ("y", "d", "x", None)}[which]
    return {"cols": cols, "alternative": rng.choice(["two-sided", "greater", "less"]), "equal_var": rng.random() < 0.5,
            "use_t": rng.random() < 0.5, "control": agg(), "treatment": agg()}


def real_agg(case):
    import tea_tasting as tt
    import tea_tasting.aggr as A

    def mk(a):
        return A.Aggregates(count_=int(a["n"]), mean_={k: float(v) for k, v in a["mean"].items()},
                            var_={k: float(v) for k, v in a["var"].items()},
                            cov_={tuple(k.split(",")): float(v) for k, v in a["cov"].items()})
    n, d, nc, dc = case["cols"]
    m = tt.RatioOfMeans(n, d, nc, dc, alternative=case["alternative"], equal_var=case["equal_var"], use_t=case["use_t"])
    try:
        r = m.analyze_aggregates(mk(case["control"]), mk(case["treatment"]))
    except Exception as e:
        tb = traceback.extract_tb(e.__traceback__)[-1]
        return {"raised": type(e).__name__, "where": f"{tb.name}:{tb.lineno}", "msg": str(e)[:100]}
    return {"raised": None, "fields": [classify(getattr(r, f)) for f in ("control", "treatment", "effect_size", "rel_effect_size")],
            "all": [float(x) for x in r[:10]]}


def agg_term(case):
    def xv(s):
        return coq_val("p", s)

    def mk(a):
        ms = "; ".join(f"({H.slit(k)}, {xv(v)})" for k, v in a["mean"].items())
        vs = "; ".join(f"({H.slit(k)}, {xv(v)})" for k, v in a["var"].items())
        cs = "; ".join(f"({H.slit(min(k.split(',')))}, {H.slit(max(k.split(',')))}, {xv(v)})" for k, v in a["cov"].items())
        return f"(mkagg {xv(a['n'])} [{ms}] [{vs}] [{cs}])"
    n, d, nc, dc = case["cols"]
    o = lambda c: f"(Some {H.slit(c)})" if c else "None"
    alt = {"two-sided": "TwoSided", "greater": "Greater", "less": "Less"}[case["alternative"]]
    b = lambda x: "true" if x else "false"
    cfg = (f"(mk_rom {H.slit(n)} {o(d)} {o(nc)} {o(dc)} {alt} {coq_val('p', '0.95')} {b(case['equal_var'])} {b(case['use_t'])} "
           f"{coq_val('p', '0.05')} (nlit 1) {coq_val('p', '0.8')})")
    return f"rshow (rom_analyze_aggregates const_family {cfg} {mk(case['control'])} {mk(case['treatment'])})"


def correspondence(ctx):
    ok, out, dt, failed = H.make(["genX/Mean.vo"])
    if not ctx.oblige(ok, "correspondence", "build of genX/Mean.vo", out):
        return
    prim = primitive_cases()
    cases = [rand_agg_case(ctx.rng) for _ in range(ctx.n(150, 3000))]
    terms = [t for t, _, _ in prim] + [agg_term(c) for c in cases]
    res, errs = H.coq_eval_shards("c18", HEADER, terms)
    for e in errs:
        ctx.oblige(False, "correspondence", "vm_compute evaluation", e)
    bad = []
    for (t, f, label), r in zip(prim, res):
        if r is None:
            continue
        got = parse_zpairs(r)
        try:
            want = f() if label.startswith(("neqb", "nltb")) else run_py(f)
        except Exception as e:
            want = ("other", repr(e))
        ctx.evaluations += 1
        if not got or got[0] != want:
            bad.append(f"{label}: python {want} model {got[:1]}")
    ctx.count("primitive-operation cases", len(prim))
    ctx.oblige(not bad, "correspondence", "lib/PreludeX.v primitives = real Python / utils.Float operators (kind and value class)",
               "; ".join(bad[:20]), {"primitive": bad[:5]})
    for case, r in zip(cases, res[len(prim):]):
        if r is None:
            continue
        model = parse_zpairs(r)
        real = real_agg(case)
        ctx.case_seen(repr(case))
        ctx.count("aggregates:" + ("raised" if real["raised"] else "returned"))
        model_raised = [p for p in model if p[0] >= 2]
        if real["raised"]:
            # the real code raised: a violation of the property itself (the statistics are numbers)
            ctx.violations.append({"what": f"analyze_aggregates raised {real['raised']} at {real['where']}", "detail": real["msg"],
                                   "input": {"kind": "aggregates", **case}})
            ctx.oblige(bool(model_raised), "correspondence", "model raises where the code raises", f"{real} model {model}", case)
            continue
        fails = []
        if model_raised:
            fails.append(f"model raises {model_raised} but the code returned {real['all']}")
        elif case["cols"][2] is None and case["cols"][3] is None and model[:4] != real["fields"]:
            # point fields: compared when no covariate adjustment (no cancellation that rounding could turn into a different class)
            fails.append(f"point fields: model {model[:4]} code {real['fields']}")
        elif [p[0] for p in model[:4]] != [p[0] for p in real["fields"]]:
            fails.append(f"wrapper kinds: model {model[:4]} code {real['fields']}")
        ctx.oblige(not fails, "correspondence", "analyze_aggregates = genX model (raise / kind / class of point fields)",
                   "; ".join(fails), {"kind": "aggregates", **case})
        ctx.sample({"case": case["cols"], "control": case["control"]["mean"], "result": real["all"][:4]}, limit=3)


# ------------------------------------------------------------------ oracle on the public API
def col(rng, kind, n, base=None):
    if kind == "const":
        c = rng.choice([0, 1, -2.5, 1e-9, 1e50, 3])
        return [c] * n
    if kind == "zero":
        return [0.0] * n
    if kind == "zeromean":
        v = [float(rng.randint(-4, 4)) for _ in range(n - 1)]
        return v + [-sum(v)]
    if kind == "ints":
        return [float(rng.randint(-3, 5)) for _ in range(n)]
    if kind == "rand":
        return [rng.uniform(-5, 5) for _ in range(n)]
    if kind == "pos":
        return [rng.uniform(0.5, 5) for _ in range(n)]
    if kind == "tinymean":
        v = [rng.uniform(-3, 3) for _ in range(n - 1)]
        return v + [-sum(v) + rng.choice([1e-17, 1e-15, -1e-16, 1e-300, 0.0])]
    if kind == "affine":
        a, b = rng.choice([(1, 0), (2, 1), (-3, 0.5), (1e-3, 7), (1, 1e6)])
        return [a * x + b for x in base]
    if kind == "prop":
        a = rng.choice([1, 2, -0.5, 1e-3])
        return [a * x for x in base]
    raise ValueError(kind)


KINDS = ["const", "zero", "zeromean", "ints", "rand", "pos", "tinymean"]


def rand_data_case(rng):
    n0, n1 = rng.choice([(2, 2), (2, 3), (3, 5), (10, 10), (2, 40)])
    n = n0 + n1
    y = col(rng, rng.choice(KINDS), n)
    d = col(rng, rng.choice(KINDS + ["prop", "prop"]), n, y)
    x = col(rng, rng.choice(KINDS + ["affine", "affine", "affine"]), n, y)
    e = col(rng, rng.choice(KINDS + ["prop"]), n, x)
    if rng.random() < 0.25:      # constant within each variant
        y = [rng.choice([1.0, 0.0, 2.5])] * n0 + [rng.choice([1.0, 2.0, 0.0])] * n1
    if rng.random() < 0.15:      # tiny control mean, ordinary treatment
        y = col(rng, "tinymean", n0) + col(rng, "rand", n1)
    if rng.random() < 0.3:       # covariate an exact multiple / affine image of the metric in every variant, default options
        y = col(rng, rng.choice(["rand", "pos", "ints"]), n)
        a, b = rng.choice([(3, 0), (2, 1), (1, 0), (-2, 0), (0.5, 3)])
        x = [a * v + b for v in y]
    which = rng.choice(["mean", "meancov", "ratio", "ratiocov", "ratiocov1"])
    if rng.random() < 0.08:      # huge magnitudes (squares still representable) over a denominator mean near zero
        y = [rng.choice([1e50, -3e60, 1e90, 2.5e75])] * n if rng.random() < 0.5 else [rng.uniform(1, 9) * 1e60 for _ in range(n)]
        d = col(rng, rng.choice(["tinymean", "zeromean", "rand"]), n0) + col(rng, rng.choice(["tinymean", "rand"]), n - n0)
        which = rng.choice(["ratio", "ratiocov", "ratiocov1"])
    return {"kind": "data", "n0": n0, "y": y, "d": d, "x": x, "e": e,
            "which": which,
            "alternative": rng.choice(["two-sided", "greater", "less"]), "equal_var": rng.random() < 0.35, "use_t": rng.random() < 0.65,
            "backend": rng.choice(B.KINDS)}


def check_data_case(case):
    import tea_tasting as tt
    n0 = case["n0"]
    n = len(case["y"])
    data = {"variant": [0] * n0 + [1] * (n - n0), "y": case["y"], "d": case["d"], "x": case["x"], "e": case["e"]}
    opts = dict(alternative=case["alternative"], equal_var=case["equal_var"], use_t=case["use_t"])
    w = case["which"]
    m = {"mean": lambda: tt.Mean("y", **opts), "meancov": lambda: tt.Mean("y", "x", **opts),
         "ratio": lambda: tt.RatioOfMeans("y", "d", **opts), "ratiocov": lambda: tt.RatioOfMeans("y", "d", "x", "e", **opts),
         "ratiocov1": lambda: tt.RatioOfMeans("y", "d", "x", **opts)}[w]()
    fails = []
    try:
        tab = B.make_table(case["backend"], data)
        r = tt.Experiment(m=m).analyze(tab)["m"]
    except Exception as ex:
        tb = traceback.extract_tb(ex.__traceback__)[-1]
        return [f"raised {type(ex).__name__} in {tb.name}:{tb.lineno}: {str(ex)[:80]}"]
    finally:
        B.cleanup()
    if w in ("mean", "ratio"):
        # exact point fields
        def mean(c, lo, hi):
            return sum(Fraction(v) for v in data[c][lo:hi]) / (hi - lo)
        def stat(lo, hi):
            num = mean("y", lo, hi)
            if w == "mean":
                return num, Fraction(1)
            return num, mean("d", lo, hi)
        (cn, cd), (tn_, td) = stat(0, n0), stat(n0, n)
        scale = max(abs(float(v)) for v in data["y"] + data["d"]) or 1.0

        def near(a, b, tol):
            return (math.isnan(a) and math.isnan(b)) or a == b or abs(a - b) <= tol
        for name, (nu, de), got in (("control", (cn, cd), r.control), ("treatment", (tn_, td), r.treatment)):
            if abs(de) > 1e-9 * scale:
                want = float(nu / de)
                if not near(float(got), want, 1e-9 * max(abs(want), scale / float(abs(de)))):
                    fails.append(f"{name} = {got} but the data give {want}")
            elif de == 0 and (nu == 0 or abs(nu) > 1e-9 * scale):
                # (a numerator mean within rounding of zero has no definite sign in floats: inf and NaN are both right)
                want = math.inf if nu > 0 else math.nan
                # an exactly zero denominator mean in Fractions need not be exactly zero in floats; compare only when it is
                if sum(data["d"][:n0] if name == "control" else data["d"][n0:]) == 0 and w == "ratio":
                    ok = near(float(got), want, 0) or abs(float(got)) > 1e9
                    if not ok:
                        fails.append(f"{name} = {got} for a zero denominator mean, documented {want}")
        c, t = float(r.control), float(r.treatment)
        if math.isfinite(c) and math.isfinite(t):
            if not near(float(r.effect_size), t - c, 1e-12 * max(1.0, abs(t), abs(c))):
                fails.append(f"effect_size {r.effect_size} != treatment - control {t - c}")
            if c != 0:
                want = t / c - 1
                if not near(float(r.rel_effect_size), want, 1e-9 * max(1.0, abs(want))):
                    fails.append(f"rel_effect_size {r.rel_effect_size} != treatment / control - 1 = {want}")
            else:
                want = math.inf if t > 0 else math.nan
                if not near(float(r.rel_effect_size), want, 0):
                    fails.append(f"rel_effect_size {r.rel_effect_size} for a zero control mean, documented {want}")
    for f in r[:10]:
        if not isinstance(float(f), float):
            fails.append("non-numeric field")
    return fails


def exponent_sweep():
    """a control mean that is small relative to its spread makes the exponent of the relative interval large; the sweep
    walks it through the overflow point of exp (709.78...): below it the bound is finite, from there on +inf, never an
    exception.  Statistics are given as Aggregates (|values| far below 1e100)."""
    import scipy.stats as st
    import tea_tasting as tt
    import tea_tasting.aggr as A
    fails = []
    nc = nt = 50
    vc, vt = 4.0, 1e-12
    for alt, q in (("two-sided", 0.975), ("less", 0.95)):
        z = st.norm.ppf(q)
        for target in (600.0, 700.0, 709.0, 709.7, 709.78, 709.79, 709.9, 709.99, 710.0, 710.01, 711.0, 750.0, 5000.0):
            mc = (vc / nc) ** 0.5 / (target / z)        # log-scale standard error * z  ~  target
            c = A.Aggregates(count_=nc, mean_={"x": mc}, var_={"x": vc}, cov_={})
            t = A.Aggregates(count_=nt, mean_={"x": 3.0}, var_={"x": vt}, cov_={})
            try:
                r = tt.Mean("x", alternative=alt, use_t=False, confidence_level=0.95).analyze_aggregates(c, t)
            except Exception as e:  # noqa: BLE001
                fails.append(f"relative-interval exponent ~{target}: analysis raised {type(e).__name__}: {e} "
                             f"(control mean {mc!r}, variance {vc}, n {nc}, alternative {alt})")
                continue
            if r.rel_effect_size_ci_upper != r.rel_effect_size_ci_upper:
                fails.append(f"relative-interval exponent ~{target}: upper bound is NaN")
    return fails


def oracle(ctx, deep=False):
    ctx.evaluations += 1
    ctx.count("oracle:exponent-sweep")
    for f in exponent_sweep()[:3]:
        ctx.violations.append({"what": "large exponent of the relative interval", "detail": f, "input": {"exponent_sweep": True}})
    for i in range(ctx.n(400, 8000) * (3 if deep else 1)):
        case = rand_data_case(ctx.rng)
        fails = check_data_case(case)
        ctx.evaluations += 1
        ctx.count("oracle:" + case["which"] + ":" + case["backend"])
        for f in fails:
            ctx.violations.append({"what": f.split(":")[0][:90], "detail": f[:500], "input": case})
        if len(ctx.violations) > 10:
            return


def replay(ctx, rp):
    inp = rp["input"]
    if inp.get("exponent_sweep"):
        fails = exponent_sweep()
        return {"fails": bool(fails), "failures": fails}
    if inp.get("kind") == "aggregates":
        real = real_agg(inp)
        return {"fails": bool(real["raised"]), "failures": [real]}
    fails = check_data_case(inp)
    return {"fails": bool(fails), "failures": fails}


def matches_finding(v, f):
    return False


def finding_still_fails(ctx, f):
    return False
