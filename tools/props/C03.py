"""C03 - aggregate metrics are computed in the backend: one query, no row-level transfer."""
from __future__ import annotations

import backends as B
import expx
import harness as H

GEN = ["ExperimentPairs"]
RULE = ("random experiment definitions (1..5 metrics: Mean, RatioOfMeans, SampleRatio, user-defined aggregated / "
        "row-level / plain metrics, Quantile; overlapping columns), 2..4 variants, control/all_variants choices, on "
        "Polars LazyFrame and Ibis(SQLite) tables with LazyFrame.collect / Table.to_pyarrow wrapped by counters that "
        "record rows and columns of every materialisation; the observed fetch sequence must equal the trace of "
        "model/Experiment.v (vm_compute). oracle: the property itself on the observed fetches")
TRUSTED = ["hand model model/Experiment.v", "fetch counters patch polars.LazyFrame.collect and ibis Table.to_pyarrow "
           "(any other materialisation path would be invisible)", "pair construction regenerated from experiment.py"]
ASSUMES = ["narwhals/ibis materialise only through collect()/to_pyarrow()"]


def _case(rng):
    variants = sorted(rng.sample([0, 1, 2, 3, 5], rng.choice([2, 2, 3, 4])))
    return {"metrics": expx.make_metrics(rng), "variants": variants,
            "control": rng.choice([None, None, variants[0], variants[-1]]),
            "all_variants": rng.random() < 0.5, "backend": rng.choice(B.LAZY_KINDS),
            "data_seed": rng.randint(0, 10**9)}


def _run(case):
    import random
    import tea_tasting as tt
    objs, Plain = expx.build(case["metrics"])
    Plain.calls = []
    data = expx.rand_data(random.Random(case["data_seed"]), case["variants"], [2, 3, 6])
    tab = B.make_table(case["backend"], data)
    exp = tt.Experiment(objs)
    with B.fetch_counters() as log:
        try:
            exp.analyze(tab, control=case["control"], all_variants=case["all_variants"])
            raised = False
        except ValueError as e:
            raised = "all_variants is False" in str(e)
            if not raised:
                raise
    plain_calls = list(Plain.calls)
    with B.fetch_counters() as plog:
        power_ok = True
        try:
            exp.solve_power(tab, "power") if False else None
        except Exception:
            power_ok = False
    return (objs, expx.classify(log, len(data["variant"]), list(data), len(set(data["variant"]))), raised, plain_calls,
            len(data["variant"]))


def _expected_from_model(model_trace, plain_calls):
    """model trace with FPlain entries removed (a plain metric fetches by itself; the harness metric does not)"""
    return [f for f in model_trace if f["kind"] != "plain"], [f for f in model_trace if f["kind"] == "plain"]


def _compare(case, objs, observed, raised, plain_calls, n_rows, model):
    mtrace, mpairs, mpower = model
    if mtrace is None:
        return [] if raised else ["model raises ValueError but the code did not"]
    if raised:
        return ["code raised ValueError (all_variants) but the model did not"]
    fails = []
    exp, exp_plain = _expected_from_model(mtrace, plain_calls)
    if [f["kind"] for f in observed] != [f["kind"] for f in exp]:
        fails.append(f"fetch kinds {[f['kind'] for f in observed]} != model {[f['kind'] for f in exp]}")
        return fails
    for o, m in zip(observed, exp):
        if o["kind"] == "aggr":
            for k in ("n_mean", "n_var", "n_cov", "grouped"):
                if o[k] != m[k]:
                    fails.append(f"aggregate query {k}: observed {o[k]} model {m[k]}")
            # the narwhals builder also selects _count when variances/covariances are requested (needed for the n/(n-1) factor)
            if m["has_count"] and not o["has_count"]:
                fails.append("aggregate query lacks the requested count")
            if o["rows"] != len(case["variants"]):
                fails.append(f"aggregate result has {o['rows']} rows for {len(case['variants'])} variants")
        elif o["kind"] == "gran":
            if o["n_cols"] != m["n_cols"]:
                fails.append(f"row-level fetch has {o['n_cols']} data columns, declared {m['n_cols']}: {o['columns']}")
            if o["rows"] != n_rows:
                fails.append(f"row-level fetch has {o['rows']} rows of {n_rows}")
    if len(plain_calls) != len(exp_plain):
        fails.append(f"plain metric called {len(plain_calls)} times, model {len(exp_plain)}")
    return fails


def correspondence(ctx):
    ok, out, dt, failed = H.make(["model/Experiment.vo"])
    if not ctx.oblige(ok, "correspondence", "build of model/Experiment.vo", out):
        return
    n = ctx.n(60, 1500)
    cases, terms, runs = [], [], []
    for i in range(n):
        case = _case(ctx.rng)
        try:
            objs, observed, raised, plain_calls, n_rows = _run(case)
        finally:
            B.cleanup()
        cases.append(case)
        runs.append((objs, observed, raised, plain_calls, n_rows))
        terms.append(expx.model_term(objs, case["control"], case["all_variants"], case["variants"]))
        ctx.count("backend:" + case["backend"])
        ctx.count("fetches:%d" % len(observed))
        ctx.case_seen(repr(case), nontrivial=len(case["metrics"]) > 1)
    res, errs = H.coq_eval_shards("c03", expx.HEADER, terms)
    for e in errs:
        ctx.oblige(False, "correspondence", "vm_compute evaluation of generated experiments", e)
    for case, r, run in zip(cases, res, runs):
        if r is None:
            continue
        fails = _compare(case, *run, expx.parse_model(r))
        ctx.oblige(not fails, "correspondence", "observed backend fetches = trace of model/Experiment.v", "; ".join(fails), case)
        ctx.sample({"metrics": [(n, k) for n, k, _ in case["metrics"]], "backend": case["backend"],
                    "observed": run[1]}, limit=3)
        # the property itself, on the observed fetches
        kinds = [k for _, k, _ in case["metrics"]]
        only_aggr = all(k in ("mean", "ratio", "srm", "custom_aggr") for k in kinds)
        no_plain = "plain" not in kinds
        obs = run[1]
        if not run[2]:
            if only_aggr and not (len(obs) == 1 and obs[0]["kind"] == "aggr" and obs[0]["rows"] == len(case["variants"])):
                ctx.violations.append({"what": "aggregated-only experiment did not materialise exactly one result set with one row per variant",
                                       "detail": str(obs), "input": case})
            if no_plain and not only_aggr:
                gr = [f for f in obs if f["kind"] == "gran"]
                if len(gr) != 1 or len(obs) > 2:
                    ctx.violations.append({"what": "row-level metrics did not cause exactly one additional fetch",
                                           "detail": str(obs), "input": case})
                else:
                    declared = sorted({c for _, k, p in case["metrics"] if k in ("quantile", "custom_gran")
                                       for c in ([p["column"]] if k == "quantile" else p["cols"])} | {"variant"})
                    if gr[0]["columns"] != declared:
                        ctx.violations.append({"what": "row-level fetch contains other columns than declared + variant",
                                               "detail": f"{gr[0]['columns']} vs {declared}", "input": case})
    expx.power_correspondence(ctx, "c03p", ctx.n(30, 600))


def oracle(ctx, deep=False):
    wide_oracle(ctx)
    # power analysis: one ungrouped aggregate query with one row
    import random
    import tea_tasting as tt
    for i in range(ctx.n(20, 400)):
        rng = ctx.rng
        variants = [0, 1]
        backend = rng.choice(B.LAZY_KINDS)
        metrics = expx.make_metrics(rng, kinds=("mean", "ratio"))
        objs, _ = expx.build(metrics)
        for m in objs.values():
            m.rel_effect_size = 0.1
        data = expx.rand_data(random.Random(rng.randint(0, 10**9)), variants, [5, 9])
        try:
            tab = B.make_table(backend, data)
            with B.fetch_counters() as log:
                tt.Experiment(objs).solve_power(tab, "power")
        finally:
            B.cleanup()
        obs = expx.classify(log, len(data["variant"]), list(data), len(set(data["variant"])))
        ctx.evaluations += 1
        if not (len(obs) == 1 and obs[0]["kind"] == "aggr" and obs[0]["rows"] == 1 and obs[0]["grouped"] == 0):
            ctx.violations.append({"what": "solve_power did not materialise exactly one one-row aggregate", "detail": str(obs),
                                   "input": {"metrics": metrics, "backend": backend, "power": True}})


def _wide(backend, k, seed, power):
    """experiment whose merged request has many (> 128) aggregate expressions: still one fetch"""
    import random
    import tea_tasting as tt
    rng = random.Random(seed)
    cols = [f"c{i}" for i in range(k)]
    n = 12
    data = {"variant": [i % 2 for i in range(n)], **{c: [float(rng.randint(0, 9)) for _ in range(n)] for c in cols}}
    metrics = {f"m{i}": tt.Mean(cols[i], covariate=cols[(i + 1) % k], rel_effect_size=0.1) for i in range(k)}
    try:
        tab = B.make_table(backend, data)
        with B.fetch_counters() as log:
            if power:
                tt.Experiment(metrics).solve_power(tab, "power")
            else:
                tt.Experiment(metrics).analyze(tab)
    finally:
        B.cleanup()
    obs = [{"backend": f["backend"], "rows": f["rows"], "n_columns": len(f["columns"])} for f in log]
    want_rows = 1 if power else 2
    return obs, (len(obs) == 1 and obs[0]["rows"] == want_rows)


def _large_rows(backend, n_rows, seed):
    """a table of 1e5+ rows with aggregated and row-level metrics: still one aggregate query (one row per variant) and one
    row-level fetch (all rows, declared columns + variant)"""
    import random
    import tea_tasting as tt
    rng = random.Random(seed)
    data = {"variant": [i % 2 for i in range(n_rows)], "x": [float(rng.randint(0, 99)) for _ in range(n_rows)],
            "y": [float(rng.randint(1, 9)) for _ in range(n_rows)], "junk": [0] * n_rows}
    exp = tt.Experiment(m=tt.Mean("x"), r=tt.RatioOfMeans("x", "y"), q=tt.Quantile("y", 0.5, n_resamples=5, random_state=1))
    try:
        tab = B.make_table(backend, data)
        with B.fetch_counters() as log:
            exp.analyze(tab)
    finally:
        B.cleanup()
    obs = [{"rows": f["rows"], "columns": sorted(f["columns"])[:6]} for f in log]
    ok = (len(log) == 2 and log[0]["rows"] == 2 and log[1]["rows"] == n_rows and sorted(log[1]["columns"]) == ["variant", "y"])
    return obs, ok


def _empty_table(backend):
    """a table that currently has no rows: the aggregated-only experiment still costs exactly one (empty) aggregate fetch"""
    import os
    import sqlite3
    import tempfile
    import tea_tasting as tt
    if backend == "polars-lazy":
        import polars as pl
        tab = pl.DataFrame(schema={"variant": pl.Int64, "x": pl.Float64, "y": pl.Float64}).lazy()
        tmp = None
    else:
        import ibis
        tmp = tempfile.mkdtemp(prefix="ttverif_", dir="/dev/shm" if os.path.isdir("/dev/shm") else None)
        path = os.path.join(tmp, "t.db")
        con = sqlite3.connect(path)
        con.execute("CREATE TABLE t (variant INTEGER, x REAL, y REAL)")
        con.commit()
        con.close()
        tab = ibis.sqlite.connect(path).table("t")
    try:
        with B.fetch_counters() as log:
            res = tt.Experiment(m=tt.Mean("x"), r=tt.RatioOfMeans("x", "y")).analyze(tab, all_variants=True)
    finally:
        if tmp:
            import shutil
            shutil.rmtree(tmp, ignore_errors=True)
    obs = [{"rows": f["rows"], "n_columns": len(f["columns"])} for f in log]
    return obs, (len(log) == 1 and log[0]["rows"] == 0 and len(dict(res)) == 0)


def _edited_metrics(backend, seed):
    """an Experiment whose (public) metrics dict is edited between two analyses - a row-level metric removed - fetches, the
    second time, what a fresh Experiment with the remaining metrics fetches"""
    import random
    import tea_tasting as tt
    rng = random.Random(seed)
    data = expx.rand_data(rng, [0, 1], [6, 9])
    mk = lambda: {"m": tt.Mean("x"), "q": tt.Quantile("y", 0.5, n_resamples=5, random_state=1), "r": tt.RatioOfMeans("z", "w")}
    shape = lambda log: [(f["rows"], sorted(f["columns"])) for f in log]
    try:
        tab = B.make_table(backend, data)
        exp = tt.Experiment(mk())
        with B.fetch_counters() as log0:
            exp.analyze(tab)
        del exp.metrics["q"]
        with B.fetch_counters() as log1:
            exp.analyze(tab)
        rest = mk()
        del rest["q"]
        with B.fetch_counters() as log2:
            tt.Experiment(rest).analyze(tab)
    finally:
        B.cleanup()
    return shape(log1), shape(log2), shape(log1) == shape(log2)


def wide_oracle(ctx):
    for backend in B.LAZY_KINDS:
        seed = ctx.rng.randint(0, 10**6)
        got, want, ok = _edited_metrics(backend, seed)
        ctx.evaluations += 1
        ctx.count("oracle:edited-metrics")
        if not ok:
            ctx.violations.append({"what": "after removing a row-level metric the experiment still fetches as before", "detail": f"{got} != {want}",
                                   "input": {"edited_metrics": True, "backend": backend, "seed": seed}})
    for backend in B.LAZY_KINDS:
        obs, ok = _empty_table(backend)
        ctx.evaluations += 1
        ctx.count("oracle:empty-table")
        if not ok:
            ctx.violations.append({"what": "empty table: not exactly one aggregate fetch", "detail": str(obs),
                                   "input": {"empty_table": True, "backend": backend}})
    for backend in B.LAZY_KINDS:
        n_rows = 120_000 if backend == "ibis-sqlite" else 100_000
        seed = ctx.rng.randint(0, 10**6)
        obs, ok = _large_rows(backend, n_rows, seed)
        ctx.evaluations += 1
        ctx.count("oracle:large-table")
        if not ok:
            ctx.violations.append({"what": "large table: not exactly one aggregate query and one row-level fetch", "detail": str(obs),
                                   "input": {"large_rows": True, "backend": backend, "rows": n_rows, "seed": seed}})
    for backend in B.LAZY_KINDS:
        for power in (False, True):
            k = 180 if backend == "ibis-sqlite" else ctx.rng.choice([45, 90])          # 135 .. 540 aggregate expressions
            seed = ctx.rng.randint(0, 10**6)
            obs, ok = _wide(backend, k, seed, power)
            ctx.evaluations += 1
            ctx.count("oracle:wide-experiment")
            if not ok:
                ctx.violations.append({"what": "experiment with many aggregate expressions did not materialise exactly one result set",
                                       "detail": f"{3 * k} expressions: fetches {obs}",
                                       "input": {"wide": True, "backend": backend, "k": k, "seed": seed, "power": power}})


def replay(ctx, rp):
    case = rp["input"]
    if case.get("edited_metrics"):
        got, want, ok = _edited_metrics(case["backend"], case["seed"])
        return {"fails": not ok, "observed": got, "expected": want}
    if case.get("empty_table"):
        obs, ok = _empty_table(case["backend"])
        return {"fails": not ok, "observed": obs}
    if case.get("large_rows"):
        obs, ok = _large_rows(case["backend"], case["rows"], case["seed"])
        return {"fails": not ok, "observed": obs}
    if case.get("wide"):
        obs, ok = _wide(case["backend"], case["k"], case["seed"], case["power"])
        return {"fails": not ok, "observed": obs}
    if case.get("power"):
        return {"fails": True, "note": "re-run ./check C03"}
    try:
        objs, observed, raised, plain_calls, n_rows = _run(case)
    finally:
        B.cleanup()
    kinds = [k for _, k, _ in case["metrics"]]
    only_aggr = all(k in ("mean", "ratio", "srm", "custom_aggr") for k in kinds)
    bad = only_aggr and not (len(observed) == 1 and observed[0]["kind"] == "aggr")
    return {"fails": bool(bad), "observed": observed}


def matches_finding(v, f):
    return False


def finding_still_fails(ctx, f):
    return False
