"""C08 - reported power is the textbook power of the configured test and is monotone."""
from __future__ import annotations

import math
from fractions import Fraction as F

import gen as G
import harness as H
import meanx

GEN = ["Aggr", "Mean"]
RULE = ("correspondence: the real _power_from_stats on Fractions (affine stand-ins for sqrt and the t / norm / nct families) "
        "vs the regenerated model rom_power_from_stats (vm_compute), exact, over all 12 option cells x ratios x alphas. "
        "oracle on the public solve_power(..., 'power') with aggregated samples: power vs an independent scipy reference "
        "(closed form for Z, noncentral t with the test's df for t; group sizes n/(1+r), n r/(1+r)); range [0,1]; "
        "monotone in effect magnitude (direction of the alternative) and in n; adding a covariate never lowers power; "
        "absolute/relative effects and sequences")
TRUSTED = ["translator tools/py2coq.py (Mean spec)", "laws L1-L9 of lib/Distr.v (satisfiable: logistic witness)",
           "scipy.stats.norm / nct reference in the oracle", "stand-in shims tools/meanx.py"]
ASSUMES = ["C08_power_mono_n_t_partial (monotonicity in n for the t test) and two-sided monotonicity in |effect| / n: validated by sweeps, "
           "not proved (they need laws about the distribution families that are not assumed); the Z one-sided cases are proved"]


def correspondence(ctx):
    ok, out, dt, failed = H.make(["genQ/Mean.vo", "lib/CaseQ.vo"])
    if not ctx.oblige(ok, "correspondence", "build of genQ/Mean.vo", out):
        return
    cases, terms, expect = [], [], []
    for i in range(ctx.n(200, 5000)):
        cfg = meanx.rand_cfg(ctx.rng, covariates=0, ratio_metric=False)
        v = F(ctx.rng.randint(1, 400), ctx.rng.choice([1, 3, 7]))
        n = F(ctx.rng.randint(5, 5000))
        d = F(ctx.rng.randint(-50, 50), ctx.rng.choice([1, 10, 100]))
        with meanx.rational_shims():
            m = meanx.make_metric(cfg)
            try:
                exp = F(m._power_from_stats(sample_var=v, sample_count=n, effect_size=d))
            except ZeroDivisionError:
                ctx.count("skipped_zero_division")
                continue
        cases.append({"cfg": meanx.cfg_json(cfg), "var": H.frac(v), "n": H.frac(n), "effect": H.frac(d)})
        terms.append(f"[qshow (rom_power_from_stats ufam {meanx.coq_cfg(cfg)} {H.qlit(v)} {H.qlit(n)} {H.qlit(d)})]")
        expect.append(exp)
        ctx.case_seen(cases[-1])
        ctx.count(f"alt={cfg['alternative']} equal_var={cfg['equal_var']} use_t={cfg['use_t']}")
    res, errs = H.coq_eval_shards("c08", meanx.HEADER, terms)
    for e in errs:
        ctx.oblige(False, "correspondence", "vm_compute evaluation", e)
    for case, r, exp in zip(cases, res, expect):
        if r is None:
            continue
        got = H.parse_pairs(r)
        ctx.oblige(got == [exp], "correspondence", "model rom_power_from_stats = real _power_from_stats (exact, stand-ins)",
                   f"model={got} real={exp}", case)
        ctx.sample(case, limit=3)


# ------------------------------------------------------------------ oracle
def reference_power(var, n, delta, ratio, alpha, alt, equal_var, use_t):
    import scipy.stats as st
    nc, nt = n / (1 + ratio), n * ratio / (1 + ratio)
    if equal_var:
        sp2 = ((nc - 1) * var + (nt - 1) * var) / (nc + nt - 2)
        se, df = math.sqrt(sp2 * (1 / nc + 1 / nt)), nc + nt - 2
    else:
        a, b = var / nc, var / nt
        se, df = math.sqrt(a + b), (a + b) ** 2 / (a * a / (nc - 1) + b * b / (nt - 1))
    if use_t:
        null, altd = st.t(df), st.nct(df, delta / se)
    else:
        null, altd = st.norm(), st.norm(delta / se)
    if alt == "greater":
        return altd.sf(null.ppf(1 - alpha))
    if alt == "less":
        return altd.cdf(null.ppf(alpha))
    c = null.ppf(1 - alpha / 2)
    return altd.cdf(-c) + altd.sf(c)


def _aggr(mean, var, n, cov_var=None, cov=None):
    import tea_tasting.aggr as A
    return A.Aggregates(count_=n, mean_={"x": mean, "c": 3.0}, var_={"x": var, "c": cov_var or 1.0},
                        cov_={("c", "x"): cov or 0.0})


@H.under_contrary_config
def check_case(case):
    import tea_tasting as tt
    fails = []
    kw = dict(alternative=case["alt"], equal_var=case["equal_var"], use_t=case["use_t"], alpha=case["alpha"],
              ratio=case["ratio"])
    mean, var = case["mean"], case["var"]
    data = _aggr(mean, var, case["sample_n"], cov_var=case["cov_var"], cov=case["cov"])
    sign = -1 if case["alt"] == "less" else 1
    eff = [sign * e for e in case["effects"]]
    # absolute effects, sequences of n_obs
    m = tt.Mean("x", effect_size=tuple(eff), n_obs=tuple(case["n_obs"]), **kw)
    res = m.solve_power(data, "power")
    rows = [(r.power, r.effect_size, r.rel_effect_size, r.n_obs) for r in res]
    exp_rows = [(e, n) for e in eff for n in case["n_obs"]]
    if [(r[1], r[3]) for r in rows] != exp_rows:
        fails.append(f"rows are not effect_size x n_obs in input order: {[(r[1], r[3]) for r in rows]}")
        return fails
    for (p, e, re_, n) in rows:
        ref = reference_power(var, n, e, case["ratio"], case["alpha"], case["alt"], case["equal_var"], case["use_t"])
        nc_, nt_ = n / (1 + case["ratio"]), n * case["ratio"] / (1 + case["ratio"])
        noncentrality = abs(e) / math.sqrt(var / nc_ + var / nt_)
        if math.isnan(p) and case["use_t"] and case["alt"] == "two-sided" and noncentrality >= 5:
            # scipy.stats.nct.cdf returns NaN in the far lower tail for moderately large noncentrality
            fails.append(f"power is NaN (scipy nct lower tail) for effect {e}, n {n}")
            continue
        if not (0 <= p <= 1):
            fails.append(f"power {p} outside [0,1]")
        if abs(p - ref) > 1e-8 + 1e-7 * ref:
            fails.append(f"power {p} != textbook {ref} for effect {e}, n {n}")
        if abs(re_ - e / mean) > 1e-12 * max(1, abs(e / mean)):
            fails.append(f"rel_effect_size {re_} != effect/mean {e / mean}")
    # alpha left to the global configuration (while other options, confidence_level among them, are given explicitly):
    # the power is that of the test at the CONFIGURED significance level
    kw_no_alpha = {k: v for k, v in kw.items() if k != "alpha"}
    with tt.config_context(alpha=case["alpha"]):
        m0 = tt.Mean("x", effect_size=tuple(eff), n_obs=tuple(case["n_obs"]),
                     confidence_level=0.8 if abs(case["alpha"] - 0.2) > 0.05 else 0.9, **kw_no_alpha)
    rows0 = [r.power for r in m0.solve_power(data, "power")]
    if any(not (a == b or (a != a and b != b)) for a, b in zip(rows0, [r[0] for r in rows])):
        fails.append(f"power with alpha taken from the configuration ({case['alpha']}) and an explicit confidence_level differs from "
                     f"alpha={case['alpha']} given explicitly: {rows0[:3]} vs {[r[0] for r in rows][:3]}")
    # monotone in n and in the effect magnitude
    by = {(e, n): p for (p, e, _, n) in rows}
    es, ns = sorted(set(eff), key=abs), sorted(case["n_obs"])
    for n in ns:
        for a, b in zip(es, es[1:]):
            if math.isnan(by[(a, n)]) or math.isnan(by[(b, n)]):
                continue
            if by[(a, n)] > by[(b, n)] + 1e-12:
                fails.append(f"power decreases when |effect| grows: {a}->{b} at n={n}: {by[(a, n)]} > {by[(b, n)]}")
    for e in es:
        for a, b in zip(ns, ns[1:]):
            if math.isnan(by[(e, a)]) or math.isnan(by[(e, b)]):
                continue
            if by[(e, a)] > by[(e, b)] + 1e-10:
                fails.append(f"power decreases when n grows: {a}->{b} at effect={e}: {by[(e, a)]} > {by[(e, b)]}")
    # relative effects give the same power as the equivalent absolute ones
    m2 = tt.Mean("x", rel_effect_size=tuple(e / mean for e in eff), n_obs=tuple(case["n_obs"]), **kw)
    for r1, r2 in zip(res, m2.solve_power(data, "power")):
        if abs(r1.power - r2.power) > 1e-9 and not (math.isnan(r1.power) and math.isnan(r2.power)):
            fails.append(f"relative effect size gives power {r2.power}, absolute {r1.power}")
    # n_obs inferred from the sample
    m3 = tt.Mean("x", effect_size=eff[0], **kw)
    r3 = m3.solve_power(data, "power")[0]
    ref3 = reference_power(var, case["sample_n"], eff[0], case["ratio"], case["alpha"], case["alt"], case["equal_var"], case["use_t"])
    if r3.n_obs != case["sample_n"] or abs(r3.power - ref3) > 1e-8 + 1e-7 * ref3:
        fails.append(f"n_obs inferred from the sample: {r3}")
    # a covariate never lowers power
    mc = tt.Mean("x", "c", effect_size=tuple(eff), n_obs=tuple(case["n_obs"]), **kw)
    for r1, r2 in zip(res, mc.solve_power(data, "power")):
        if r2.power < r1.power - 1e-10:
            fails.append(f"covariate lowers power: {r1.power} -> {r2.power}")
    return fails


def rand_case(rng):
    ratio = rng.choice([1, 1, 2, 0.5, 3, 0.25, 1.5])
    var = rng.choice([0.5, 4.0, 100.0])
    cov_var = rng.choice([0.5, 2.0])
    rho = rng.choice([0.0, 0.3, -0.8, 0.95])
    lo = int(4 * max(ratio, 1 / ratio)) + 4
    return {"alt": rng.choice(meanx.ALTS), "equal_var": rng.random() < 0.5, "use_t": rng.random() < 0.5,
            "alpha": rng.choice([0.01, 0.05, 0.1, 0.3]), "ratio": ratio, "mean": rng.choice([1.0, 10.0, -5.0]),
            "var": var, "cov_var": cov_var, "cov": rho * math.sqrt(var * cov_var),
            "effects": sorted(rng.sample([0.01, 0.05, 0.1, 0.3, 1.0, 3.0], 3)),
            "n_obs": sorted(rng.sample([lo, lo + 7, 50, 200, 1000, 20000, 200000], 3)), "sample_n": rng.choice([40, 1000])}


def oracle(ctx, deep=False):
    reuse_oracle(ctx)
    for i in range(ctx.n(150, 4000) * (3 if deep else 1)):
        case = rand_case(ctx.rng)
        fails = check_case(case)
        ctx.evaluations += 1
        ctx.count(f"oracle:{case['alt']}/{case['equal_var']}/{case['use_t']}/r={case['ratio']}")
        for f in fails:
            ctx.violations.append({"what": " ".join(f.split(" ")[:4]), "detail": f, "input": case})
        if len(ctx.violations) > 20:
            break


def reuse_oracle(ctx):
    for parameter in ['power']:
        for _ in range(ctx.n(3, 40)):
            seed = ctx.rng.randint(0, 10**6)
            fails = meanx.reuse_history(seed, parameter)
            ctx.evaluations += 1
            ctx.count("oracle:reused-object-history")
            for f in fails:
                ctx.violations.append({"what": "result depends on earlier calls on the same metric object", "detail": f,
                                       "input": {"reuse_history": True, "seed": seed, "parameter": parameter}})


def replay(ctx, rp):
    if rp["input"].get("reuse_history"):
        fails = meanx.reuse_history(rp["input"]["seed"], rp["input"]["parameter"])
        return {"fails": bool(fails), "failures": fails}
    fails = check_case(rp["input"])
    return {"fails": bool(fails), "failures": fails}


def matches_finding(v, f):
    if f.get("predicate") == "nct_lower_tail_nan":
        return v["detail"].startswith("power is NaN (scipy nct lower tail)") and v["input"]["use_t"] and v["input"]["alt"] == "two-sided"
    return False


def finding_still_fails(ctx, f):
    fails = check_case(f["witness"])
    return any(x.startswith("power is NaN (scipy nct lower tail)") for x in fails)
