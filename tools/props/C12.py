"""C12 - an experiment is the sum of its metrics over the documented variant pairs."""
from __future__ import annotations

import itertools
import math
import random

import backends as B
import expx
import harness as H

GEN = ["ExperimentPairs", "Aggr", "Mean"]
RULE = ("random experiments (1..5 metrics of all built-in and user-defined kinds with overlapping columns), 2..4 variants "
        "with int / str / bool ids, control and all_variants choices, on pandas / polars / polars-lazy / pyarrow / "
        "ibis-sqlite. correspondence: compared pairs and the ValueError guard of the real Experiment.analyze vs the "
        "regenerated pair functions (vm_compute). oracle: keys and order of the result; every entry equals the metric "
        "analysed ALONE on the same data and pair; user-defined metrics get the declared statistics with the exact values; "
        "solve_power entries equal metric.solve_power")
TRUSTED = ["tools/exp2coq.py (pair comprehension translator)", "translator tools/py2coq.py (agree theorem)",
           "variant ids are integers in the model; str/bool ids only through the differential"]
ASSUMES = ["'entry equals stand-alone metric' is proved for Mean/RatioOfMeans (reads only declared statistics) and tested for the others"]


def _ids(rng, k):
    kind = rng.choice(["int", "int", "str", "bool"])
    if kind == "int":
        return sorted(rng.sample([-3, -1, 0, 1, 2, 3, 5, 10], k))      # 0 is falsy and need not be the smallest id
    if kind == "str":
        return sorted(rng.sample(["a", "b", "c", "ctrl", "B"], k))
    return [False, True]


def _case(rng):
    k = rng.choice([2, 2, 3, 4])
    variants = _ids(rng, k)
    if isinstance(variants[0], bool):
        k = 2
    return {"metrics": expx.make_metrics(rng, kinds=("mean", "ratio", "srm", "custom_aggr", "quantile", "custom_gran")),
            "variants": variants, "control": rng.choice([None, None] + list(variants)),
            "all_variants": rng.random() < 0.6, "backend": rng.choice(B.KINDS), "data_seed": rng.randint(0, 10**9)}


def _same(a, b, tol=1e-9):
    if isinstance(a, dict) or isinstance(b, dict):
        a = a if isinstance(a, dict) else a._asdict()
        b = b if isinstance(b, dict) else b._asdict()
        return set(a) == set(b) and all(_same(a[k], b[k], tol) for k in a)
    if hasattr(a, "_asdict"):
        return _same(a._asdict(), b._asdict(), tol)
    if isinstance(a, float) or isinstance(b, float):
        a, b = float(a), float(b)
        if math.isnan(a) or math.isnan(b):
            return math.isnan(a) and math.isnan(b)
        if math.isinf(a) or math.isinf(b):
            return a == b
        return abs(a - b) <= tol * max(1.0, abs(a), abs(b))
    return a == b


def check_case(case):
    import tea_tasting as tt
    fails = []
    data = expx.rand_data(random.Random(case["data_seed"]), case["variants"], [3, 4, 7])
    objs, _ = expx.build(case["metrics"])
    vs = sorted(case["variants"])
    c = case["control"]
    want_pairs = [(c, t) for t in vs if t != c] if c is not None else [(a, b) for a in vs for b in vs if a < b]
    try:
        tab = B.make_table(case["backend"], data)
        try:
            res = tt.Experiment(objs).analyze(tab, control=c, all_variants=case["all_variants"])
            raised = False
        except ValueError as e:
            raised = "all_variants is False" in str(e)
            if not raised:
                return [f"analyze raised {e!r}"], None, None
        except Exception as e:
            return [f"analyze raised {type(e).__name__}: {e}"], None, None
        must_raise = (not case["all_variants"]) and len(want_pairs) != 1
        if raised != must_raise:
            fails.append(f"ValueError guard: raised={raised}, expected {must_raise}")
        got_pairs = None
        if not raised:
            results = dict(res) if case["all_variants"] else {want_pairs[0]: res}
            got_pairs = list(results)
            if case["all_variants"] and got_pairs != want_pairs:
                fails.append(f"compared pairs {got_pairs} != documented {want_pairs}")
            for pair, r in results.items():
                if list(r) != [n for n, _, _ in case["metrics"]]:
                    fails.append(f"metric order {list(r)}")
                for name, kind, p in case["metrics"]:
                    # the metric analysed alone on the same data and pair
                    alone_objs, _ = expx.build([(name, kind, p)])
                    alone = alone_objs[name].analyze(B.make_table(case["backend"], data), pair[0], pair[1], "variant")
                    if not _same(r[name], alone):
                        fails.append(f"{name} ({kind}) for pair {pair}: entry differs from the metric analysed alone")
                    if kind == "custom_aggr":
                        fails += _check_declared_stats(name, p, r[name], data, pair)
                    if kind == "custom_gran":
                        fails += _check_declared_rows(name, p, r[name], data, pair)
                        for seen in objs[name].seen_columns:
                            if not set(p["cols"]) <= set(seen):   # "at least the columns they declared"
                                fails.append(f"{name}: received columns {seen}, declared {sorted(p['cols'])}")
        try:
            fails += _null_neighbour(case, data, want_pairs[0])
        except Exception as e:
            fails.append(f"row-level metrics next to each other: analysis of pair {want_pairs[0]} failed with {type(e).__name__}: {e}")
        return fails, raised, got_pairs
    finally:
        B.cleanup()


def _null_neighbour(case, data, pair):
    """A row-level metric's entry must not depend on missing values in a column that only ANOTHER row-level metric reads."""
    import tea_tasting as tt
    import tea_tasting.metrics as TM

    class Rows(TM.MetricBaseGranular):
        def __init__(self, col):
            self.col = col

        @property
        def cols(self):
            return (self.col,)

        def analyze_granular(self, control, treatment):
            f = lambda t: (t.num_rows, sum(x for x in t[self.col].to_pylist() if x is not None and x == x))
            return {"c": f(control), "t": f(treatment)}
    rng = random.Random(case["data_seed"] + 1)
    d = dict(data)
    d["nz"] = [(None if rng.random() < 0.25 else float(rng.randint(0, 9))) for _ in d["variant"]]
    d["nz"][0] = 1.0
    inside = tt.Experiment(g1=Rows("x"), g2=Rows("nz")).analyze(B.make_table(case["backend"], d), control=pair[0], all_variants=True)
    alone = Rows("x").analyze(B.make_table(case["backend"], d), pair[0], pair[1], "variant")
    got = inside[pair]["g1"]
    if got != alone:
        return [f"row-level metric on 'x' next to a metric on a column with missing values: entry {got} differs from the metric alone {alone}"]
    return []


def _rows(data, v):
    return [i for i, x in enumerate(data["variant"]) if x == v and type(x) is type(v)]


def _check_declared_stats(name, p, entry, data, pair):
    fails = []
    for tag, v in (("c", pair[0]), ("t", pair[1])):
        idx = _rows(data, v)
        n = len(idx)
        col = lambda c: [data[c][i] for i in idx]
        mean = lambda xs: sum(xs) / len(xs)
        cov = lambda xs, ys: sum((a - mean(xs)) * (b - mean(ys)) for a, b in zip(xs, ys)) / (n - 1)
        exp = {}
        if p["has_count"]:
            exp[f"{tag}_count"] = n
        for c in p["mean"]:
            exp[f"{tag}_mean_{c}"] = mean(col(c))
        for c in p["var"]:
            exp[f"{tag}_var_{c}"] = cov(col(c), col(c))
        for l, r in p["cov"]:
            exp[f"{tag}_cov_{l}_{r}"] = cov(col(l), col(r))
        for k, w in exp.items():
            if k not in entry or not _same(float(entry[k]), float(w), 1e-9):
                fails.append(f"{name}: declared statistic {k} = {entry.get(k)} but the exact value is {w}")
    return fails


def _check_declared_rows(name, p, entry, data, pair):
    fails = []
    for tag, v in (("c", pair[0]), ("t", pair[1])):
        idx = _rows(data, v)
        if entry[f"{tag}_rows"] != len(idx):
            fails.append(f"{name}: got {entry[f'{tag}_rows']} rows for variant {v!r}, expected {len(idx)}")
        for c in p["cols"]:
            if abs(entry[f"{tag}_sum_{c}"] - sum(data[c][i] for i in idx)) > 1e-9:
                fails.append(f"{name}: wrong rows for column {c}")
    return fails


def correspondence(ctx):
    ok, out, dt, failed = H.make(["genP/ExperimentPairs.vo", "model/Experiment.vo"])
    if not ctx.oblige(ok, "correspondence", "build of genP/ExperimentPairs.vo", out):
        return
    n = ctx.n(60, 1500)
    cases, terms, runs = [], [], []
    for i in range(n):
        case = _case(ctx.rng)
        case["metrics"] = case["metrics"][:2]          # the pair/guard comparison does not need many metrics
        fails, raised, got_pairs = check_case(case)
        ctx.count("backend:" + case["backend"])
        ctx.count("ids:" + type(case["variants"][0]).__name__)
        if raised is None:
            continue
        # model: integers standing for the sorted ids
        rank = {v: i for i, v in enumerate(sorted(case["variants"]))}
        ctrl = None if case["control"] is None else rank[case["control"]]
        objs, _ = expx.build(case["metrics"])
        terms.append(expx.model_term(objs, ctrl, case["all_variants"], list(rank.values())))
        cases.append(case)
        runs.append((raised, None if got_pairs is None else [(rank[a], rank[b]) for a, b in got_pairs]))
        ctx.case_seen(repr(case), nontrivial=len(case["variants"]) > 2)
    res, errs = H.coq_eval_shards("c12", expx.HEADER, terms)
    for e in errs:
        ctx.oblige(False, "correspondence", "vm_compute evaluation", e)
    for case, r, (raised, got_pairs) in zip(cases, res, runs):
        if r is None:
            continue
        mtrace, mpairs, _ = expx.parse_model(r)
        same = (mtrace is None) == raised
        if not raised and case["all_variants"]:
            same = same and (mpairs == got_pairs)
        ctx.oblige(same, "correspondence", "pairs / guard of Experiment.analyze = regenerated pair functions",
                   f"model pairs={mpairs} raises={mtrace is None}; real pairs={got_pairs} raised={raised}", case)
        ctx.sample({"variants": case["variants"], "control": case["control"], "all_variants": case["all_variants"],
                    "pairs": got_pairs, "raised": raised}, limit=4)
    expx.power_correspondence(ctx, "c12p", ctx.n(30, 600))


def oracle(ctx, deep=False):
    import tea_tasting as tt
    # the property itself on the real code: pairs, guard, order, entry = stand-alone metric, declared statistics
    for i in range(ctx.n(60, 1500) * (2 if deep else 1)):
        case = _case(ctx.rng)
        fails, raised, got_pairs = check_case(case)
        ctx.evaluations += 1
        ctx.count("oracle:backend:" + case["backend"])
        for f in fails:
            ctx.violations.append({"what": f.split(":")[0][:80], "detail": f, "input": case})
        if len(ctx.violations) > 30:
            break
    import meanx
    for parameter in ("analyze", "power"):
        for _ in range(ctx.n(3, 30)):
            seed = ctx.rng.randint(0, 10**6)
            ctx.evaluations += 1
            ctx.count("oracle:reused-object-history")
            for f in meanx.reuse_history(seed, parameter)[:1]:
                ctx.violations.append({"what": "entry depends on earlier calls on the same Experiment object", "detail": f,
                                       "input": {"reuse_history": True, "seed": seed, "parameter": parameter}})
    for i in range(ctx.n(20, 400)):
        seed = ctx.rng.randint(0, 10**9)
        ctx.evaluations += 1
        ctx.count("oracle:definition-independence")
        for f in definition_independence(seed):
            ctx.violations.append({"what": "experiments defined from a shared dict of metrics are not independent", "detail": f,
                                   "input": {"definition_seed": seed}})
            break
    # Experiment.solve_power versus each metric's own solve_power
    for i in range(ctx.n(15, 300)):
        rng = ctx.rng
        metrics = expx.make_metrics(rng, kinds=("mean", "ratio"))
        data = expx.rand_data(random.Random(rng.randint(0, 10**9)), [0, 1], [6, 9])
        backend = rng.choice(B.KINDS)
        par = rng.choice(["power", "effect_size", "rel_effect_size"])
        try:
            objs, _ = expx.build(metrics)
            for m in objs.values():
                if par == "power":
                    m.rel_effect_size = 0.2
            res = tt.Experiment(objs).solve_power(B.make_table(backend, data), par)
            for name, m in objs.items():
                alone = m.solve_power(B.make_table(backend, data), par)
                if [tuple(round(float(x), 9) for x in r) for r in res[name]] != [tuple(round(float(x), 9) for x in r) for r in alone]:
                    ctx.violations.append({"what": "solve_power entry differs from the metric's own solve_power",
                                           "input": {"metrics": metrics, "backend": backend, "parameter": par}})
            if list(res) != list(objs):
                ctx.violations.append({"what": "solve_power metric order", "input": {"metrics": metrics}})
        except Exception as e:
            if "brentq" in repr(e) or "Cannot find" in repr(e) or "NaN" in repr(e) or "sign" in repr(e):
                ctx.count("solve_power:solver_exception(C09)")
            else:
                raise
        finally:
            B.cleanup()
        ctx.evaluations += 1


def definition_independence(seed):
    """Experiments built from one shared dict of metrics plus keyword metrics: the caller's dict is not modified, each
    experiment has exactly its own metrics in definition order, and later changes of the dict do not reach them."""
    import tea_tasting as tt
    rng = random.Random(seed)
    names = ["a", "b", "c", "d", "e"]
    rng.shuffle(names)
    shared = {n: tt.Mean(n + "_col") for n in names[:rng.randint(1, 3)]}
    snapshot = dict(shared)
    fails = []
    exps = []
    for k in range(rng.randint(2, 3)):
        style = rng.choice(["new", "override", "none"])
        kw = {}
        if style == "new":
            kw = {f"k{k}": tt.Mean(f"kw{k}")}
        elif style == "override":
            kw = {next(iter(shared)): tt.Mean(f"override{k}")}
        exp = tt.Experiment(shared, **kw)
        want = {**snapshot, **kw}
        exps.append((exp, want, style))
        if list(shared) != list(snapshot) or any(shared[n] is not snapshot[n] for n in snapshot):
            fails.append(f"Experiment(metrics, **{list(kw)}) modified the caller's dict: {list(shared)} (was {list(snapshot)})")
            shared.clear()
            shared.update(snapshot)
    shared["late"] = tt.Mean("late_col")          # a later change of the caller's dict
    for exp, want, style in exps:
        got = exp.metrics
        if list(got) != list(want) or any(got[n] is not want[n] for n in want if n in got):
            fails.append(f"experiment ({style}) has metrics {[(n, m.value) for n, m in got.items()]}, defined with "
                         f"{[(n, m.value) for n, m in want.items()]}")
    return fails


def replay(ctx, rp):
    case = rp["input"]
    if case.get("reuse_history"):
        import meanx
        fails = meanx.reuse_history(case["seed"], case["parameter"])
        return {"fails": bool(fails), "failures": fails}
    if "definition_seed" in case:
        fails = definition_independence(case["definition_seed"])
        return {"fails": bool(fails), "failures": fails}
    if case.get("power") and "data_seed" in case:
        try:
            objs, observed, plain_calls, keys, fails = expx.run_power(case)
        except Exception as e:  # noqa: BLE001
            return {"fails": True, "failures": [f"{type(e).__name__}: {e}"]}
        return {"fails": bool(fails), "failures": fails, "observed": observed, "entries": keys,
                "note": "the comparison with the model's trace is part of ./check C12"}
    if "variants" not in case:
        return {"fails": True, "note": "re-run ./check C12"}
    fails, _, _ = check_case(case)
    return {"fails": bool(fails), "failures": fails}


def matches_finding(v, f):
    return False


def finding_still_fails(ctx, f):
    return False
