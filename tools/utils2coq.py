"""Fail-closed translation of utils.check_scalar / utils.auto_check (and datasets._check_params) to Gallina over lib/PyVal."""
from __future__ import annotations

import ast
from fractions import Fraction

from py2coq import Unsupported, fail


def cstr(s):
    return '"' + s.replace('"', '""') + '"%string'


def const(node):
    """Python constant expression -> pyval term"""
    if isinstance(node, ast.Constant):
        v = node.value
        if v is None:
            return "VNone"
        if isinstance(v, bool):
            return f"(VBool {'true' if v else 'false'})"
        if isinstance(v, int):
            return f"(VInt ({v}))"
        if isinstance(v, float):
            fr = Fraction(str(v))
            return f"(VFloat (FFin ({fr.numerator} # {fr.denominator})))"
        if isinstance(v, str):
            return f"(VStr {cstr(v)})"
    if isinstance(node, ast.UnaryOp) and isinstance(node.op, ast.USub) and isinstance(node.operand, ast.Constant):
        v = node.operand.value
        if isinstance(v, int) and not isinstance(v, bool):
            return f"(VInt ({-v}))"
        if isinstance(v, float):
            fr = -Fraction(str(v))
            return f"(VFloat (FFin ({fr.numerator} # {fr.denominator})))"
    if isinstance(node, ast.Call) and ast.unparse(node.func) == "float" and len(node.args) == 1 \
            and isinstance(node.args[0], ast.Constant):
        s = node.args[0].value
        if s in ("inf", "+inf"):
            return "(VFloat FPInf)"
        if s == "-inf":
            return "(VFloat FNInf)"
    fail(node, "constant")


TYTAGS = {"float": "TFloat", "int": "TInt", "bool": "TBool", "str": "TStr", "Sequence": "TSeq", "dict": "TDict",
          "Callable": "TCallable"}


def typ_expr(node):
    if isinstance(node, ast.BinOp) and isinstance(node.op, ast.BitOr):
        return typ_expr(node.left) + typ_expr(node.right)
    if isinstance(node, ast.Constant) and node.value is None:
        return ["TNone"]
    if isinstance(node, ast.Name) and node.id in TYTAGS:
        return [TYTAGS[node.id]]
    return ["TOtherType"]


def find_func(tree, name):
    out = None
    for n in tree.body:
        if isinstance(n, ast.FunctionDef) and n.name == name and not any(
                ast.unparse(d).endswith("overload") for d in n.decorator_list):
            out = n
    if out is None:
        raise Unsupported(f"{name} not found")
    return out


BOUNDS = ("ge", "gt", "le", "lt", "ne")


def tr_check_scalar(tree):
    f = find_func(tree, "check_scalar")
    names = [a.arg for a in f.args.args] + [a.arg for a in f.args.kwonlyargs]
    if names != ["value", "name", "typ", "ge", "gt", "le", "lt", "ne", "in_"]:
        raise Unsupported(f"check_scalar signature changed: {names}")
    body = [s for s in f.body if not (isinstance(s, ast.Expr) and isinstance(s.value, ast.Constant))]
    if not (isinstance(body[-1], ast.Return) and isinstance(body[-1].value, ast.Name) and body[-1].value.id == "value"):
        fail(body[-1], "check_scalar must end with `return value`")
    lets = ["let k%d := Ok v_value in" % (len(body) - 1)]
    idx = len(body) - 1
    for s in reversed(body[:-1]):
        k = "k%d" % idx
        idx -= 1
        if not (isinstance(s, ast.If) and not s.orelse and len(s.body) == 1 and isinstance(s.body[0], ast.Raise)
                and isinstance(s.test, ast.BoolOp) and isinstance(s.test.op, ast.And) and len(s.test.values) == 2):
            fail(s, "check_scalar statement shape")
        g, c = s.test.values
        if not (isinstance(g, ast.Compare) and isinstance(g.ops[0], ast.IsNot) and isinstance(g.left, ast.Name)
                and isinstance(g.comparators[0], ast.Constant) and g.comparators[0].value is None):
            fail(s, "guard must be `<param> is not None`")
        p = g.left.id
        exc = ast.unparse(s.body[0].exc.func) if isinstance(s.body[0].exc, ast.Call) else ast.unparse(s.body[0].exc)
        if exc not in ("TypeError", "ValueError"):
            fail(s, "exception kind")
        cond = tr_cond(c, p)
        lets.append(f"let k{idx} := match v_{p} with None => {k} | Some v_{p} => guard {cond} {exc} {k} end in")
    k = "\n  ".join(lets) + "\n  k0"
    return ("(* utils.check_scalar (line %d) *)\n"
            "Definition check_scalar (v_value : pyval) (v_typ : option (list tytag)) (v_ge v_gt v_le v_lt v_ne : option pyval)\n"
            "    (v_in_ : option (list pyval)) : result pyval :=\n  %s.\n" % (f.lineno, k))


def tr_cond(c, p):
    neg = False
    if isinstance(c, ast.UnaryOp) and isinstance(c.op, ast.Not):
        neg, c = True, c.operand
    if isinstance(c, ast.Call) and ast.unparse(c.func) == "isinstance" and p == "typ":
        if ast.unparse(c.args[0]) != "value" or ast.unparse(c.args[1]) != "typ":
            fail(c, "isinstance arguments")
        t = "(Some (isinstance v_value v_typ))"
    elif isinstance(c, ast.Compare) and len(c.ops) == 1 and ast.unparse(c.left) == "value" \
            and ast.unparse(c.comparators[0]) == p:
        op = type(c.ops[0])
        t = {ast.Lt: f"(py_lt v_value v_{p})", ast.LtE: f"(py_le v_value v_{p})", ast.Gt: f"(py_gt v_value v_{p})",
             ast.GtE: f"(py_ge v_value v_{p})", ast.Eq: f"(Some (py_eq v_value v_{p}))",
             ast.NotEq: f"(Some (negb (py_eq v_value v_{p})))", ast.In: f"(Some (py_in v_value v_{p}))",
             ast.NotIn: f"(Some (negb (py_in v_value v_{p})))"}.get(op)
        if t is None:
            fail(c, "comparison operator")
    else:
        fail(c, "condition shape")
    return f"(onot {t})" if neg else t


def tr_cs_call(call, valname):
    """check_scalar(<valname>, name, typ=..., gt=..., ...) -> term"""
    if ast.unparse(call.func) not in ("check_scalar", "tea_tasting.utils.check_scalar"):
        fail(call, "expected a check_scalar call")
    if not call.args or ast.unparse(call.args[0]) != valname:
        fail(call, f"first argument must be {valname}")
    kws = {k.arg: k.value for k in call.keywords}
    kws.pop("name", None)
    args = []
    if "typ" in kws:
        args.append("(Some [" + "; ".join(typ_expr(kws.pop("typ"))) + "])")
    else:
        args.append("None")
    for b in BOUNDS:
        args.append(f"(Some {bound_expr(kws.pop(b))})" if b in kws else "None")
    if "in_" in kws:
        n = kws.pop("in_")
        if not isinstance(n, ast.Set):
            fail(n, "in_ must be a set literal")
        args.append("(Some [" + "; ".join(const(e) for e in n.elts) + "])")
    else:
        args.append("None")
    if kws:
        fail(call, f"unknown keywords {list(kws)}")
    return f"(check_scalar v_{valname} " + " ".join(args) + ")"


def bound_expr(node):
    return const(node)


def tr_stmts(stmts, k):
    if not stmts:
        return k
    s, rest = stmts[0], stmts[1:]
    tail = tr_stmts(rest, k)
    if isinstance(s, ast.Expr) and isinstance(s.value, ast.Call):
        return f"bind {tr_cs_call(s.value, 'value')} (fun _ => {tail})"
    if isinstance(s, ast.If) and not s.orelse and isinstance(s.test, ast.Call) and ast.unparse(s.test.func) == "isinstance" \
            and ast.unparse(s.test.args[0]) == "value":
        tags = "[" + "; ".join(typ_expr(s.test.args[1])) + "]"
        return f"(if isinstance v_value {tags} then {tr_stmts(s.body, tail)} else {tail})"
    if isinstance(s, ast.For) and isinstance(s.target, ast.Name) and ast.unparse(s.iter) == "value" and len(s.body) == 1 \
            and isinstance(s.body[0], ast.Expr) and not s.orelse:
        v = s.target.id
        return (f"bind (check_all (fun v_{v} => {tr_cs_call(s.body[0].value, v)}) (seq_items v_value)) "
                f"(fun _ => {tail})")
    fail(s, "auto_check branch statement")


def tr_auto_check(tree):
    f = find_func(tree, "auto_check")
    body = [s for s in f.body if not (isinstance(s, ast.Expr) and isinstance(s.value, ast.Constant))]
    if not (isinstance(body[-1], ast.Return) and ast.unparse(body[-1].value) == "value"):
        fail(body[-1], "auto_check must end with `return value`")
    names = []

    def chain(s, k):
        # if name == "lit": ... elif ...: ...
        if not (isinstance(s, ast.If) and isinstance(s.test, ast.Compare) and ast.unparse(s.test.left) == "name"
                and isinstance(s.test.ops[0], ast.Eq) and isinstance(s.test.comparators[0], ast.Constant)):
            fail(s, "auto_check: expected `if name == <literal>`")
        lit = s.test.comparators[0].value
        names.append(lit)
        if len(s.orelse) == 1 and isinstance(s.orelse[0], ast.If):
            els = chain(s.orelse[0], k)
        elif not s.orelse:
            els = k
        else:
            fail(s, "auto_check: else branch")
        return f"(if String.eqb v_name {cstr(lit)} then {tr_stmts(s.body, k)} else {els})"
    k = "(Ok v_value)"
    for s in reversed(body[:-1]):
        # sequential top-level ifs: each must fall through to the next
        k = chain(s, k)
    return ("(* utils.auto_check (line %d) *)\n"
            "Definition auto_check (v_value : pyval) (v_name : string) : result pyval :=\n  %s.\n"
            "Definition auto_check_names : list string := [%s].\n" % (f.lineno, k, "; ".join(cstr(n) for n in names)))


def translate(src_path):
    src = open(src_path).read()
    tree = ast.parse(src)
    return ("(* GENERATED by tools/utils2coq.py from src/tea_tasting/utils.py - do not edit. *)\n"
            "From Coq Require Import ZArith QArith String List Bool.\nFrom TT Require Import lib.PyVal.\n"
            "Import ListNotations.\nLocal Open Scope bool_scope.\nLocal Open Scope Q_scope.\n\n"
            + tr_check_scalar(tree) + "\n" + tr_auto_check(tree))
