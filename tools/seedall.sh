#!/bin/bash
# re-run every kept seeded change against the checks named in its meta.json ("checks": [...]) and report detection
cd /verif
for d in seeded/*/; do
  n=$(basename $d)
  python3 -c "import json,sys; sys.exit(0 if 'superseded' in json.load(open('$d/meta.json')) else 1)" && { echo "SKIP $n (superseded)"; continue; }
  checks=$(python3 -c "import json; print(' '.join(json.load(open('$d/meta.json')).get('checks', [])))")
  [ -z "$checks" ] && checks=${n%%-*}
  tools/seedtest.sh /verif/$d $n $checks 2>&1 | grep "^RESULT"
done
