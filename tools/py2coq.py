#!/usr/bin/env python3
"""py2coq: fail-closed translator from a small Python subset to Gallina.

The translator reads /repo/src/tea_tasting/*.py with `ast` and prints, for every target function
listed in specs.py, one Gallina Definition.  The same text is emitted twice, once under
`genR/` (prelude: Coq reals - theorems) and once under `genQ/` (prelude: canonical rationals -
vm_compute for the correspondence check).  Any construct outside the supported subset raises
Unsupported and the whole run fails (outcome: broken obligation).

Semantic reading (trusted, cross-checked by the differential runs):
  * int and float are one number line `num`; `x / y` is field division (Python raising on a zero
    divisor is excluded by the theorems' hypotheses);
  * `raise` in a num-valued function is the junk constant `nraise`; the hypotheses exclude it;
  * dict-valued fields are total functions from keys; key sets are not modelled;
  * evaluation order is irrelevant (all expressions are pure).
"""
from __future__ import annotations

import ast
import hashlib
import os
import sys
from fractions import Fraction


def alpha_canon(src_or_nodes, keep=()):
    """Source text of statements with every LOCALLY BOUND name (assignment / loop / comprehension / lambda targets) replaced
    by _v0, _v1, ... in order of first binding: two texts that differ only in the names of local variables get the same
    canonical form.  Names in `keep` (parameters, globals the template refers to) are left alone."""
    if isinstance(src_or_nodes, str):
        nodes = ast.parse(src_or_nodes).body
    elif isinstance(src_or_nodes, (list, tuple)):
        nodes = [ast.parse(ast.unparse(n)).body[0] if not isinstance(n, str) else ast.parse(n).body[0] for n in src_or_nodes]
        nodes = ast.parse("\n".join(ast.unparse(n) for n in nodes)).body
    else:
        nodes = ast.parse(ast.unparse(src_or_nodes)).body
    mod = ast.Module(body=nodes, type_ignores=[])
    comp_types = (ast.ListComp, ast.SetComp, ast.DictComp, ast.GeneratorExp)

    def targets(t):
        return [n.id for n in ast.walk(t) if isinstance(n, ast.Name)]
    # function-level bindings (comprehensions and lambdas are scopes of their own)
    bound = []

    def collect(n, in_scope):
        if isinstance(n, comp_types) or isinstance(n, ast.Lambda):
            return
        if isinstance(n, ast.Name) and isinstance(n.ctx, ast.Store):
            bound.append((n.lineno, n.col_offset, n.id))
        for c in ast.iter_child_nodes(n):
            collect(c, in_scope)
    collect(mod, True)
    order = {}
    for _, _, name in sorted(bound):
        if name not in keep and name not in order:
            order[name] = f"_v{len(order)}"

    class R(ast.NodeTransformer):
        def __init__(self):
            self.env = [dict(order)]
            self.depth = 0

        def lookup(self, name):
            for e in reversed(self.env):
                if name in e:
                    return e[name]
            return name

        def visit_Name(self, n):
            return ast.copy_location(ast.Name(id=self.lookup(n.id), ctx=n.ctx), n)

        def scoped(self, n, names):
            self.depth += 1
            self.env.append({nm: f"_c{self.depth}_{i}" for i, nm in enumerate(dict.fromkeys(names))})
            out = self.generic_visit(n)
            self.env.pop()
            self.depth -= 1
            return out

        def visit_Lambda(self, n):
            names = [a.arg for a in n.args.args]
            self.depth += 1
            self.env.append({nm: f"_c{self.depth}_{i}" for i, nm in enumerate(names)})
            for a in n.args.args:
                a.arg = self.lookup(a.arg)
            n.body = self.visit(n.body)
            self.env.pop()
            self.depth -= 1
            return n

        def visit_ListComp(self, n):
            return self.scoped(n, [x for g in n.generators for x in targets(g.target)])
        visit_SetComp = visit_DictComp = visit_GeneratorExp = visit_ListComp
    return ast.unparse(R().visit(mod))


class Unsupported(Exception):
    pass


def fail(node, msg):
    line = getattr(node, "lineno", "?")
    raise Unsupported(f"line {line}: {msg}: {ast.dump(node)[:200] if isinstance(node, ast.AST) else node}")


# ----------------------------------------------------------------------------- types
NUM, BOOL, STR, ALT, AGG, DIST, EXT, NAT = "num", "bool", "str", "alt", "agg", "dist", "ext", "nat"


def opt(t):
    return ("opt", t)


def tup(*ts):
    return ("tup", tuple(ts))


def lst(t):
    return ("list", t)


def fun(a, r):
    return ("fun", a, r)


NONE_T = ("opt", None)


def coq_ty(t):
    if t == NUM:
        return "num"
    if t == BOOL:
        return "bool"
    if t == STR:
        return "string"
    if t == ALT:
        return "alternative"
    if t == AGG:
        return "(aggregates num)"
    if t == DIST:
        return "(dist num)"
    if t == EXT:
        return "(ext num)"
    if t == NAT:
        return "nat"
    if t == "srm":
        return "srm"
    if isinstance(t, tuple) and t[0] == "funN":
        return "(" + " -> ".join(coq_ty(x) for x in t[1]) + " -> " + coq_ty(t[2]) + ")"
    if isinstance(t, tuple):
        if t[0] == "opt":
            return f"(option {coq_ty(t[1])})"
        if t[0] == "tup":
            return "(" + " * ".join(coq_ty(x) for x in t[1]) + ")"
        if t[0] == "list":
            return f"(list {coq_ty(t[1])})"
        if t[0] == "rec":
            return t[1]
        if t[0] == "fun":
            return f"({coq_ty(t[1])} -> {coq_ty(t[2])})"
        if t[0] == "dict":
            return f"({coq_ty(t[1])} -> {coq_ty(t[2])})"
    raise Unsupported(f"no Coq type for {t}")


def join(a, b):
    if a == b:
        return a
    if a == NONE_T and isinstance(b, tuple) and b[0] == "opt":
        return b
    if b == NONE_T and isinstance(a, tuple) and a[0] == "opt":
        return a
    if a == NONE_T:
        return opt(b)
    if b == NONE_T:
        return opt(a)
    if {a, b} == {NUM, EXT}:
        return EXT
    if isinstance(a, tuple) and a[0] == "opt" and a[1] == b:
        return a
    if isinstance(b, tuple) and b[0] == "opt" and b[1] == a:
        return b
    if isinstance(a, tuple) and isinstance(b, tuple) and a[0] == b[0] == "tup" and len(a[1]) == len(b[1]):
        return tup(*[join(x, y) for x, y in zip(a[1], b[1])])
    raise Unsupported(f"cannot join types {a} and {b}")


def coerce(text, frm, to):
    if frm == to:
        return text
    if frm == NONE_T and isinstance(to, tuple) and to[0] == "opt":
        return text
    if isinstance(to, tuple) and to[0] == "opt" and to[1] == frm:
        return f"(Some {text})"
    if frm == NUM and to == EXT:
        return f"(Fin {text})"
    if frm == NUM and isinstance(to, tuple) and to[0] == "opt" and to[1] == EXT:
        return f"(Some (Fin {text}))"
    if isinstance(frm, tuple) and isinstance(to, tuple) and frm[0] == to[0] == "tup":
        # only literal tuples are coerced componentwise by the caller
        pass
    raise Unsupported(f"cannot coerce {text} : {frm} to {to}")


ALT_CONST = {"two-sided": "TwoSided", "greater": "Greater", "less": "Less"}


class Func:
    def __init__(self, coq, params, ret, node=None, self_ty=None, uses_fam=False):
        self.coq = coq
        self.params = params  # list of (pyname, type, default_text_or_None)
        self.ret = ret
        self.node = node
        self.self_ty = self_ty


class Record:
    def __init__(self, coq, ctor, fields, prefix=""):
        self.coq = coq
        self.ctor = ctor
        self.fields = fields  # ordered dict pyname -> type
        self.prefix = prefix

    def proj(self, f):
        return self.prefix + f


class Translator:
    def __init__(self, tree, spec):
        self.tree = tree
        self.spec = spec
        self.funcs = {}  # python qualified name -> Func
        self.records = dict(spec.get("records", {}))  # type-name -> Record
        self.ctor_calls = dict(spec.get("ctors", {}))  # python callable name -> Record
        self.self_types = spec.get("self_types", {})  # class name -> type
        self.methods_of = {}  # type -> {method name -> qualified python name}
        self.out = []
        self.fresh = 0
        self.ext_funcs = dict(spec.get("extern", {}))  # python name -> Func (defined in another generated file)
        for t, m in spec.get("extern_methods", {}).items():
            self.methods_of.setdefault(t, {}).update(m)

    # ------------------------------------------------------------------ annotations
    def ann(self, node, override=None):
        if override is not None:
            return override
        if node is None:
            raise Unsupported("missing annotation")
        s = ast.unparse(node).replace("tea_tasting.aggr.", "")
        table = self.spec.get("ann", {})
        if s in table:
            return table[s]
        base = {
            "str": STR, "str | None": opt(STR), "float | int": NUM, "float": NUM, "int": NUM, "int | float": NUM,
            "bool": BOOL, "Aggregates": AGG, "tuple[str, str]": tup(STR, STR), "float | None": opt(NUM),
            "int | None": opt(NUM), "float | int | None": opt(NUM), "int | float | None": opt(NUM),
        }
        if s in base:
            return base[s]
        raise Unsupported(f"annotation {s!r}")

    # ------------------------------------------------------------------ lookup of python defs
    def find_def(self, qual):
        parts = qual.split(".")
        body = self.tree.body
        node = None
        for p in parts:
            node = None
            for n in body:
                if isinstance(n, (ast.FunctionDef, ast.ClassDef)) and n.name == p:
                    # skip @overload stubs: take the last definition
                    if isinstance(n, ast.FunctionDef) and any(
                            ast.unparse(d).endswith("overload") for d in n.decorator_list):
                        continue
                    node = n
            if node is None:
                raise Unsupported(f"target {qual} not found in source")
            body = node.body
        return node

    def declare(self, tgt, register=True):
        node = self.find_def(tgt["py"])
        if not isinstance(node, ast.FunctionDef):
            raise Unsupported(f"{tgt['py']} is not a function")
        a = node.args
        if a.vararg or a.kwarg or a.posonlyargs:
            raise Unsupported(f"{tgt['py']}: unsupported parameter kinds")
        allargs = list(a.args) + list(a.kwonlyargs)
        defaults = [None] * (len(a.args) - len(a.defaults)) + list(a.defaults) + list(a.kw_defaults)
        params = []
        self_ty = None
        ov = tgt.get("param_types", {})
        for arg, d in zip(allargs, defaults):
            if arg.arg == "self":
                self_ty = self.self_types[tgt["py"].split(".")[0]]
                params.append(("self", self_ty, None))
                continue
            if arg.arg in tgt.get("drop_params", ()):
                continue
            ty = self.ann(arg.annotation, ov.get(arg.arg))
            dflt = None
            if d is not None:
                if isinstance(d, ast.Constant) and d.value is None:
                    dflt = ("None", NONE_T)
                elif isinstance(d, ast.Constant) and isinstance(d.value, (int, float)) and not isinstance(d.value, bool):
                    dflt = (self.numlit(d.value), NUM)
                else:
                    dflt = None
            params.append((arg.arg, ty, dflt))
        ret = tgt["ret"] if "ret" in tgt else self.ann(node.returns)
        f = Func(tgt["coq"], params, ret, node, self_ty)
        f.tgt = tgt
        if not register:
            return f
        self.funcs[tgt["py"]] = f
        if "." in tgt["py"]:
            cls, m = tgt["py"].split(".")
            self.methods_of.setdefault(self.self_types[cls], {})[m] = tgt["py"]
        return f

    # ------------------------------------------------------------------ helpers
    def numlit(self, v):
        if isinstance(v, bool):
            raise Unsupported("bool literal as number")
        if isinstance(v, int):
            return f"(nlit ({v}))" if v < 0 else f"(nlit {v})"
        fr = Fraction(str(v))
        if fr.denominator == 1:
            # an integral float literal (0.0, 2.0): written as k / 1 so that it is a *float* in the exception semantics
            # (lib/PreludeX.v distinguishes int from float operands) and the same number on the other number lines
            k = self.numlit(fr.numerator)
            return f"({k} / nlit 1)%num"
        return f"(nlit {fr.numerator} / nlit {fr.denominator})%num"

    def var(self, name):
        return "v_" + name.replace(".", "_")

    def lookup_func(self, qual):
        if qual in self.funcs:
            return self.funcs[qual]
        if qual in self.ext_funcs:
            return self.ext_funcs[qual]
        return None

    def bind_args(self, f, node, env, skip_self=False, self_text=None):
        """Return list of Coq argument texts for a call to f."""
        params = [p for p in f.params]
        texts = {}
        pos = []
        if self_text is not None:
            pos.append((self_text, f.self_ty))
        for a in node.args:
            if isinstance(a, ast.Starred):
                t, ty = self.ex(a.value, env)
                if not (isinstance(ty, tuple) and ty[0] == "tup" and len(ty[1]) == 2):
                    fail(a, "star-arg must be a pair")
                pos.append((f"(fst {t})", ty[1][0]))
                pos.append((f"(snd {t})", ty[1][1]))
            else:
                pos.append(self.ex(a, env))
        if len(pos) > len(params):
            fail(node, "too many arguments")
        for (pn, pt, _), (t, ty) in zip(params, pos):
            texts[pn] = coerce(t, ty, pt)
        for kw in node.keywords:
            if kw.arg is None:
                fail(node, "**kwargs")
            if kw.arg in f.tgt.get("drop_params", ()) if hasattr(f, "tgt") else False:
                continue
            match = [p for p in params if p[0] == kw.arg]
            if not match:
                fail(node, f"unknown keyword {kw.arg}")
            if kw.arg in texts:
                fail(node, f"duplicate argument {kw.arg}")
            t, ty = self.ex(kw.value, env)
            texts[kw.arg] = coerce(t, ty, match[0][1])
        out = []
        for pn, pt, d in params:
            if pn in texts:
                out.append(texts[pn])
            elif d is not None:
                out.append(coerce(d[0], d[1], pt))
            else:
                fail(node, f"missing argument {pn}")
        return out

    # ------------------------------------------------------------------ helpers that are not in the manifest
    def inline_call(self, qual, n, env, self_text=None):
        """A call to a function / method of the same file that the manifest does not list (e.g. a helper extracted by a
        refactoring): translated IN PLACE, `let '(params) := (arguments) in <body>`, provided the helper is fully
        annotated and its body is in the supported subset (otherwise the translation fails closed as before).
        The arguments are bound simultaneously, so a parameter name cannot capture a variable of a later argument."""
        self.inline_depth = getattr(self, "inline_depth", 0) + 1
        try:
            if self.inline_depth > 4:
                fail(n, f"helper {qual}: inlining too deep (recursive?)")
            f = self.declare({"py": qual, "coq": "inlined_" + qual.replace(".", "_")}, register=False)
            args = self.bind_args(f, n, env, self_text=self_text)
            inner = {pn: pt for pn, pt, _ in f.params}
            body = self.block(f.node.body, inner, f.ret, lambda e: fail(f.node, "helper falls off its end"))
            names = [self.var(pn) for pn, _, _ in f.params]
            if not names:
                return f"({body})", f.ret
            if len(names) == 1:
                return f"(let {names[0]} := {args[0]} in {body})", f.ret
            pat = ", ".join(names)
            return f"(let '({pat}) := ({', '.join(args)}) in {body})", f.ret
        finally:
            self.inline_depth -= 1

    # ------------------------------------------------------------------ expressions
    def ex(self, n, env):
        m = getattr(self, "ex_" + type(n).__name__, None)
        if m is None:
            fail(n, "unsupported expression")
        return m(n, env)

    def ex_Constant(self, n, env):
        v = n.value
        if v is None:
            return "None", NONE_T
        if isinstance(v, bool):
            return ("true" if v else "false"), BOOL
        if isinstance(v, (int, float)):
            return self.numlit(v), NUM
        if isinstance(v, str):
            if v in ALT_CONST:
                return ALT_CONST[v], ALT
            consts = self.spec.get("str_consts", {})
            if v in consts:
                return consts[v]
            return '"' + v.replace('"', '""') + '"%string', STR
        fail(n, "constant")

    def ex_Name(self, n, env):
        if n.id in env:
            return self.var(n.id), env[n.id]
        g = self.spec.get("globals", {})
        if n.id in g:
            return g[n.id]
        fail(n, f"unknown name {n.id}")

    def ex_Attribute(self, n, env):
        key = ast.unparse(n)
        if key in env:  # an option-typed field already unwrapped by an enclosing `is None` match
            return self.var(key), env[key]
        # record field read
        t, ty = self.ex(n.value, env)
        rec = self.records.get(ty if isinstance(ty, str) else ty[1] if ty[0] == "rec" else None)
        if rec is None or n.attr not in rec.fields:
            fail(n, f"attribute {n.attr} on {ty}")
        return f"({rec.proj(n.attr)} {t})", rec.fields[n.attr]

    def ex_Subscript(self, n, env):
        t, ty = self.ex(n.value, env)
        if isinstance(ty, tuple) and ty[0] == "dict":
            k, kt = self.ex(n.slice, env)
            return f"({t} {coerce(k, kt, ty[1])})", ty[2]
        if isinstance(ty, tuple) and ty[0] == "tup" and len(ty[1]) == 2 and isinstance(n.slice, ast.Constant):
            i = n.slice.value
            if i == 0:
                return f"(fst {t})", ty[1][0]
            if i == 1:
                return f"(snd {t})", ty[1][1]
        fail(n, f"subscript on {ty}")

    def ex_Tuple(self, n, env):
        parts = [self.ex(e, env) for e in n.elts]
        return "(" + ", ".join(p[0] for p in parts) + ")", tup(*[p[1] for p in parts])

    def ex_UnaryOp(self, n, env):
        t, ty = self.ex(n.operand, env)
        if isinstance(n.op, ast.USub) and ty == NUM:
            return f"(- {t})%num", NUM
        if isinstance(n.op, ast.Not) and ty == BOOL:
            return f"(negb {t})", BOOL
        fail(n, "unary op")

    def ex_BinOp(self, n, env):
        l, lt = self.ex(n.left, env)
        if isinstance(n.op, ast.Pow):
            if isinstance(n.right, ast.Constant) and isinstance(n.right.value, int) and n.right.value >= 0 and lt == NUM:
                return f"(npow {l} {n.right.value})", NUM
            r, rt = self.ex(n.right, env)
            if lt == NUM and rt == NUM:
                return f"(nrpow {l} {r})", NUM
            fail(n, "power")
        r, rt = self.ex(n.right, env)
        ops = {ast.Add: "+", ast.Sub: "-", ast.Mult: "*", ast.Div: "/"}
        if type(n.op) not in ops:
            fail(n, "binary operator")
        o = ops[type(n.op)]
        if lt == AGG and rt == AGG and o == "+":
            f = self.lookup_func("Aggregates.__add__")
            if f is None:
                fail(n, "Aggregates.__add__ not translated")
            return f"({f.coq} {l} {r})", AGG
        if lt == NUM and rt == NUM:
            return f"({l} {o} {r})%num", NUM
        if lt == EXT and rt == NUM and o in "+-":
            return f"({'eadd' if o == '+' else 'esub'} {l} {r})", EXT
        fail(n, f"arithmetic on {lt} and {rt}")

    def ex_BoolOp(self, n, env):
        parts = [self.ex(v, env) for v in n.values]
        if any(p[1] != BOOL for p in parts):
            fail(n, "boolean operator on non-bool")
        o = " && " if isinstance(n.op, ast.And) else " || "
        return "(" + o.join(p[0] for p in parts) + ")", BOOL

    def ex_Compare(self, n, env):
        if len(n.ops) != 1:
            fail(n, "chained comparison")
        op = n.ops[0]
        rn = n.comparators[0]
        l, lt = self.ex(n.left, env)
        if isinstance(op, (ast.Is, ast.IsNot)):
            if not (isinstance(rn, ast.Constant) and rn.value is None):
                fail(n, "is")
            if not (isinstance(lt, tuple) and lt[0] == "opt"):
                fail(n, f"`is None` on non-option type {lt}")
            return (f"(negb (is_some {l}))" if isinstance(op, ast.Is) else f"(is_some {l})"), BOOL
        if isinstance(op, (ast.In, ast.NotIn)):
            if not isinstance(rn, ast.Set):
                fail(n, "in")
            alts = [self.ex(e, env) for e in rn.elts]
            eqs = [self.eq(l, lt, a, at, n) for a, at in alts]
            t = "(" + " || ".join(eqs) + ")"
            return (t if isinstance(op, ast.In) else f"(negb {t})"), BOOL
        r, rt = self.ex(rn, env)
        if isinstance(op, ast.Eq):
            return self.eq(l, lt, r, rt, n), BOOL
        if isinstance(op, ast.NotEq):
            return f"(negb {self.eq(l, lt, r, rt, n)})", BOOL
        if lt == NUM and rt == NUM:
            t = {ast.Lt: f"(nltb {l} {r})", ast.LtE: f"(nleb {l} {r})",
                 ast.Gt: f"(nltb {r} {l})", ast.GtE: f"(nleb {r} {l})"}.get(type(op))
            if t:
                return t, BOOL
        if lt == STR and rt == STR:
            t = {ast.Lt: f"(String.ltb {l} {r})", ast.Gt: f"(String.ltb {r} {l})",
                 ast.LtE: f"(String.leb {l} {r})", ast.GtE: f"(String.leb {r} {l})"}.get(type(op))
            if t:
                return t, BOOL
        fail(n, f"comparison on {lt}, {rt}")

    def eq(self, l, lt, r, rt, n):
        if lt == NUM and rt == NUM:
            return f"(neqb {l} {r})"
        if lt == STR and rt == STR:
            return f"(String.eqb {l} {r})"
        if lt == ALT and rt == ALT:
            return f"(alternative_eqb {l} {r})"
        eqs = self.spec.get("eqb", {})
        if lt == rt and lt in eqs:
            return f"({eqs[lt]} {l} {r})"
        fail(n, f"equality on {lt}, {rt}")

    def none_test(self, test, env):
        """Recognise `x is None`, `x is None or y is None`, `x is not None` on local Names.
        Returns (kind, [names]) or None."""
        def single(t):
            if (isinstance(t, ast.Compare) and len(t.ops) == 1
                    and isinstance(t.left, (ast.Name, ast.Attribute))
                    and isinstance(t.comparators[0], ast.Constant) and t.comparators[0].value is None):
                key = ast.unparse(t.left)
                if key not in env:
                    if isinstance(t.left, ast.Name):
                        return None
                    try:
                        _, ty0 = self.ex(t.left, env)
                    except Unsupported:
                        return None
                else:
                    ty0 = env[key]
                if not (isinstance(ty0, tuple) and ty0[0] == "opt" and ty0[1] is not None):
                    return None
                if isinstance(t.ops[0], ast.Is):
                    return ("none", key)
                if isinstance(t.ops[0], ast.IsNot):
                    return ("some", key)
            return None
        s = single(test)
        if s:
            return s[0], [s[1]]
        if isinstance(test, ast.BoolOp) and isinstance(test.op, ast.Or):
            ss = [single(v) for v in test.values]
            if all(x and x[0] == "none" for x in ss):
                return "none", [x[1] for x in ss]
        if isinstance(test, ast.BoolOp) and isinstance(test.op, ast.And):
            ss = [single(v) for v in test.values]
            if all(x and x[0] == "some" for x in ss):
                return "some", [x[1] for x in ss]
            if all(ss):
                return "mixed", ss          # conjunction of `is None` and `is not None` tests
        return None

    def match_mixed(self, tests, env, then_fn, else_text):
        """if x is None and y is not None ...: THEN else ELSE  (ELSE text is duplicated in every failing arm)"""
        env2 = dict(env)
        scrut = {}
        for kind, nm in tests:
            scrut[nm], ty0 = self.ex(ast.parse(nm, mode="eval").body, env)
            if kind == "some":
                env2[nm] = ty0[1]
        body = then_fn(env2)
        # unwrapped values get fresh binder names so that the (duplicated) else-text still sees the option-typed names
        for kind, nm in tests:
            if kind == "some":
                body = f"let {self.var(nm)} := {self.var(nm)}_u in {body}"
        for kind, nm in reversed(tests):
            v = self.var(nm)
            if kind == "some":
                body = f"match {scrut[nm]} with Some {v}_u => {body} | None => {else_text} end"
            else:
                body = f"match {scrut[nm]} with None => {body} | Some _ => {else_text} end"
        return "(" + body + ")"

    def match_none(self, names, env, none_branch, some_branch_fn):
        """match on option-typed locals: if ANY is None -> none_branch text, else some_branch_fn(env')"""
        env2 = dict(env)
        scrut = {}
        for nm in names:
            scrut[nm], ty0 = self.ex(ast.parse(nm, mode="eval").body, env)
            env2[nm] = ty0[1]
        body = some_branch_fn(env2)
        for nm in reversed(names):
            v = self.var(nm)
            body = f"match {scrut[nm]} with None => {none_branch} | Some {v} => {body} end"
        return "(" + body + ")"

    def ex_IfExp(self, n, env):
        nt = self.none_test(n.test, env)
        if nt:
            kind, names = nt
            none_node, some_node = (n.body, n.orelse) if kind == "none" else (n.orelse, n.body)
            a, at = self.ex(none_node, env)
            env2 = dict(env)
            for nm in names:
                env2[nm] = self.ex(ast.parse(nm, mode="eval").body, env)[1][1]
            b, bt = self.ex(some_node, env2)
            ty = join(at, bt)
            a = coerce(a, at, ty)
            b = coerce(b, bt, ty)
            return self.match_none(names, env, a, lambda e: b), ty
        c, ct = self.ex(n.test, env)
        if ct != BOOL:
            fail(n, "non-bool condition")
        a, at = self.ex(n.body, env)
        b, bt = self.ex(n.orelse, env)
        ty = join(at, bt)
        return f"(if {c} then {coerce(a, at, ty)} else {coerce(b, bt, ty)})", ty

    def ex_DictComp(self, n, env):
        if len(n.generators) != 1:
            fail(n, "dict comprehension shape")
        g = n.generators[0]
        # `if <key> in self.<dict>` conditions only restrict the KEY SET of the result; dict-valued fields are total
        # functions in this model (key sets are not modelled), so such conditions do not change the function
        for cond in g.ifs:
            tests = cond.values if isinstance(cond, ast.BoolOp) and isinstance(cond.op, ast.And) else [cond]
            for t in tests:
                ok = (isinstance(t, ast.Compare) and len(t.ops) == 1 and isinstance(t.ops[0], ast.In)
                      and isinstance(g.target, ast.Name)
                      and (ast.unparse(t.left) == g.target.id
                           or (isinstance(t.left, ast.Subscript) and ast.unparse(t.left.value) == g.target.id
                               and isinstance(t.left.slice, ast.Constant))))
                if ok:
                    _, cty = self.ex(t.comparators[0], env)
                    ok = isinstance(cty, tuple) and cty[0] == "dict"
                if not ok:
                    fail(cond, "dict comprehension condition must be key membership in a dict field")
        it, ity = self.ex(g.iter, env)
        if not (isinstance(ity, tuple) and ity[0] == "dict" and isinstance(g.target, ast.Name)
                and isinstance(n.key, ast.Name) and n.key.id == g.target.id):
            fail(n, "dict comprehension must be {k: f(k) for k in <dict field>}")
        env2 = dict(env)
        env2[g.target.id] = ity[1]
        v, vt = self.ex(n.value, env2)
        return f"(fun {self.var(g.target.id)} : {coq_ty(ity[1])} => {coerce(v, vt, ity[2])})", ity

    def ex_Call(self, n, env):
        fn = n.func
        name = ast.unparse(fn)
        # ---- builtins / library oracles
        if name == "float" and len(n.args) == 1 and isinstance(n.args[0], ast.Constant):
            s = n.args[0].value
            if s in ("inf", "+inf"):
                return "PInf", EXT
            if s == "-inf":
                return "NInf", EXT
            fail(n, "float()")
        simple = {"math.sqrt": ("nsqrt", 1), "math.exp": ("nexp", 1), "abs": ("nabs", 1), "np.log": ("nln", 1),
                  "np.exp": ("nexp", 1), "np.sqrt": ("nsqrt", 1), "np.minimum": ("nmin", 2), "np.maximum": ("nmax", 2),
                  "min": ("nmin", 2), "max": ("nmax", 2)}
        if name in simple and not n.keywords and len(n.args) == simple[name][1]:
            args = [self.ex(a, env) for a in n.args]
            if any(t != NUM for _, t in args):
                fail(n, f"{name} on non-number")
            return "(" + simple[name][0] + " " + " ".join(a for a, _ in args) + ")", NUM
        if name == "_exp" and len(n.args) == 1 and not n.keywords:
            # module-level helper: math.exp that saturates at +inf instead of raising OverflowError
            d = self.find_def("_exp")
            want = ("def _exp(x: float) -> float:\n    try:\n        return math.exp(x)\n    except OverflowError:\n"
                    "        return float('inf')")
            if ast.unparse(d) != want:
                fail(d, "_exp is not the saturating exponential")
            a, at = self.ex(n.args[0], env)
            if at != NUM:
                fail(n, "_exp on non-number")
            return f"(nexp_sat {a})", NUM
        if name == "sorted" and len(n.args) == 1 and not n.keywords and isinstance(n.args[0], ast.Tuple) \
                and len(n.args[0].elts) == 2:
            (a, at), (b, bt) = [self.ex(e, env) for e in n.args[0].elts]
            if at != NUM or bt != NUM:
                fail(n, "sorted of non-numbers")
            return f"((nmin {a} {b}), (nmax {a} {b}))", tup(NUM, NUM)
        if name == "scipy.optimize.brentq":
            if len(n.args) != 3 or [k.arg for k in n.keywords] != ["maxiter"] or ast.unparse(n.keywords[0].value) != "MAX_ITER":
                fail(n, "brentq call shape")
            args = [self.ex(a, env) for a in n.args]
            if [t for _, t in args] != [fun(NUM, NUM), NUM, NUM]:
                fail(n, "brentq argument types")
            return f"(solver {args[0][0]} {args[1][0]} {args[2][0]})", NUM
        if name == "int" and len(n.args) == 1 and not n.keywords:
            a, at = self.ex(n.args[0], env)
            if at == BOOL:
                return f"(if {a} then nlit 1 else nlit 0)", NUM
            fail(n, "int()")
        if name == "scipy.stats.norm.sf" and len(n.args) == 1 and not n.keywords:
            a, at = self.ex(n.args[0], env)
            if at != NUM:
                fail(n, "norm.sf argument")
            return f"(sf (norm_ fam (nlit 0)) {a})", NUM
        if name in ("scipy.stats.t", "scipy.stats.norm", "scipy.stats.nct"):
            if n.args:
                fail(n, "positional distribution parameters")
            kws = {k.arg: self.ex(k.value, env) for k in n.keywords}
            for k, (t, ty) in kws.items():
                if ty != NUM:
                    fail(n, "distribution parameter type")
            kind = name.split(".")[-1]
            if kind == "t" and set(kws) == {"df"}:
                return f"(t_ fam {kws['df'][0]})", DIST
            if kind == "norm" and set(kws) <= {"loc"}:
                loc = kws["loc"][0] if kws else "(nlit 0)"
                return f"(norm_ fam {loc})", DIST
            if kind == "nct" and set(kws) == {"df", "nc"}:
                return f"(nct_ fam {kws['df'][0]} {kws['nc'][0]})", DIST
            fail(n, "distribution parameters")
        # ---- constructor of a known record
        if name in self.ctor_calls:
            rec = self.ctor_calls[name]
            if n.args:
                fail(n, "positional constructor arguments")
            kws = {k.arg: k.value for k in n.keywords}
            if set(kws) != set(rec.fields):
                fail(n, f"constructor fields {sorted(kws)} != {sorted(rec.fields)}")
            parts = []
            for f_, ft in rec.fields.items():
                t, ty = self.ex(kws[f_], env)
                parts.append(coerce(t, ty, ft))
            return f"({rec.ctor} " + " ".join(parts) + ")", ("rec", rec.coq) if rec.coq not in (AGG,) else AGG
        # ---- methods
        if isinstance(fn, ast.Attribute):
            obj, oty = self.ex(fn.value, env) if not (isinstance(fn.value, ast.Name) and fn.value.id not in env) else (None, None)
            if oty is not None:
                if oty == DIST or oty == opt(DIST):
                    if fn.attr in ("cdf", "sf", "ppf", "isf") and len(n.args) == 1 and not n.keywords:
                        a, at = self.ex(n.args[0], env)
                        if at != NUM:
                            fail(n, "distribution argument")
                        d = obj if oty == DIST else f"(oget_dist {obj})"
                        return f"({fn.attr} {d} {a})", NUM
                    fail(n, "distribution method")
                meths = self.methods_of.get(oty, {})
                if fn.attr in meths:
                    f = self.lookup_func(meths[fn.attr])
                    if f is None:
                        fail(n, f"method {fn.attr} not declared yet")
                    args = self.bind_args(f, n, env, self_text=obj)
                    return f"({f.coq} " + " ".join(args) + ")", f.ret
                for cls, ty in self.self_types.items():      # a method of the same class that is not in the manifest
                    if ty == oty:
                        try:
                            self.find_def(f"{cls}.{fn.attr}")
                        except Unsupported:
                            continue
                        return self.inline_call(f"{cls}.{fn.attr}", n, env, self_text=obj)
                fail(n, f"method {fn.attr} on {oty}")
        # ---- a function-valued parameter
        if isinstance(fn, ast.Name) and fn.id in env and isinstance(env[fn.id], tuple) and env[fn.id][0] == "funN":
            _, argts, rett = env[fn.id]
            if n.keywords or len(n.args) != len(argts):
                fail(n, "call of a function parameter")
            args = [coerce(*self.ex(a, env), t) for a, t in zip(n.args, argts)]
            return f"({self.var(fn.id)} " + " ".join(args) + ")", rett
        # ---- plain functions
        f = self.lookup_func(name)
        if f is not None:
            args = self.bind_args(f, n, env)
            return f"({f.coq} " + " ".join(args) + ")", f.ret
        special = self.spec.get("special_calls", {})
        if name in special:
            return special[name](self, n, env)
        if isinstance(fn, ast.Name):                          # a module-level helper that is not in the manifest
            try:
                self.find_def(name)
                found = True
            except Unsupported:
                found = False
            if found:
                return self.inline_call(name, n, env)
        fail(n, f"call to unknown function {name}")

    def ex_GeneratorExp(self, n, env):
        fail(n, "generator expression outside a supported pattern")

    # ------------------------------------------------------------------ statements
    def assigned(self, stmts):
        out = []

        def tgt(t):
            if isinstance(t, ast.Name):
                if t.id not in out:
                    out.append(t.id)
            elif isinstance(t, ast.Tuple):
                for e in t.elts:
                    tgt(e)
            else:
                fail(t, "assignment target")
        for s in stmts:
            if isinstance(s, ast.Assign):
                for t in s.targets:
                    tgt(t)
            elif isinstance(s, ast.AnnAssign):
                tgt(s.target)
            elif isinstance(s, ast.AugAssign):
                tgt(s.target)
            elif isinstance(s, ast.If):
                for x in self.assigned(s.body) + self.assigned(s.orelse):
                    if x not in out:
                        out.append(x)
            elif isinstance(s, ast.FunctionDef):
                if s.name not in out:
                    out.append(s.name)
            elif isinstance(s, (ast.Return, ast.Raise, ast.Expr, ast.Pass)):
                pass
            else:
                fail(s, "statement")
        return out

    def definitely(self, stmts):
        """Names assigned on every path through the statement list."""
        out = []
        for s in stmts:
            if isinstance(s, ast.If):
                a, b = self.definitely(s.body), self.definitely(s.orelse)
                new = [x for x in a if x in b]
            else:
                new = self.assigned([s])
            for x in new:
                if x not in out:
                    out.append(x)
        return out

    def always_returns(self, stmts):
        if not stmts:
            return False
        s = stmts[-1]
        if isinstance(s, (ast.Return, ast.Raise)):
            return True
        if isinstance(s, ast.If):
            return self.always_returns(s.body) and self.always_returns(s.orelse)
        return False

    def raise_text(self, ty):
        if ty == NUM:
            return "nraise"
        table = self.spec.get("raise_values", {})
        key = ty if isinstance(ty, str) else repr(ty)
        if key in table:
            return table[key]
        if isinstance(ty, tuple) and ty[0] == "opt":
            return "None"
        raise Unsupported(f"`raise` in a function returning {ty}")

    def block(self, stmts, env, ret_ty, k):
        """Translate a statement list; k(env) gives the text used when the block falls off its end."""
        if not stmts:
            return k(env)
        s, rest = stmts[0], stmts[1:]
        if isinstance(s, ast.Expr) and isinstance(s.value, ast.Constant) and isinstance(s.value.value, str):
            return self.block(rest, env, ret_ty, k)  # docstring
        if isinstance(s, ast.Expr) and isinstance(s.value, ast.Call):
            nm = ast.unparse(s.value.func)
            if nm in self.spec.get("skip_calls", ()):
                return self.block(rest, env, ret_ty, k)
            fail(s, "expression statement")
        if isinstance(s, ast.Pass):
            return self.block(rest, env, ret_ty, k)
        if isinstance(s, ast.Return):
            if s.value is None:
                fail(s, "bare return")
            t, ty = self.ex(s.value, env)
            return self.coerce_deep(s.value, t, ty, ret_ty, env)
        if isinstance(s, ast.Raise):
            return self.raise_text(ret_ty)
        if isinstance(s, (ast.Assign, ast.AnnAssign)):
            value = s.value
            targets = s.targets if isinstance(s, ast.Assign) else [s.target]
            t, ty = self.ex(value, env)
            if isinstance(s, ast.AnnAssign):
                aty = self.ann(s.annotation)
                t, ty = coerce(t, ty, aty), aty
            env2 = dict(env)
            first = targets[0]
            if isinstance(first, ast.Name):
                env2[first.id] = ty
                head = f"let {self.var(first.id)} := {t} in\n  "
                for other in targets[1:]:
                    if not isinstance(other, ast.Name):
                        fail(s, "chained assignment target")
                    env2[other.id] = ty
                    head += f"let {self.var(other.id)} := {self.var(first.id)} in\n  "
            elif isinstance(first, ast.Tuple) and len(targets) == 1:
                if not (isinstance(ty, tuple) and ty[0] == "tup" and len(ty[1]) == len(first.elts)):
                    fail(s, f"tuple unpacking of {ty}")
                pats = []
                for e, et in zip(first.elts, ty[1]):
                    if not isinstance(e, ast.Name):
                        fail(s, "nested unpacking")
                    if e.id == "_":
                        pats.append("_")
                    else:
                        pats.append(self.var(e.id))
                        env2[e.id] = et
                head = f"let '({', '.join(pats)}) := {t} in\n  "
            else:
                fail(s, "assignment target")
            return head + self.block(rest, env2, ret_ty, k)
        if isinstance(s, ast.FunctionDef):
            # closure: def fn(x): return <expr>
            if len(s.args.args) != 1 or s.args.kwonlyargs or s.args.defaults:
                fail(s, "closure shape")
            p = s.args.args[0].arg
            env_in = dict(env)
            env_in[p] = NUM
            body = self.block(s.body, env_in, NUM, lambda e: fail(s, "closure falls off"))
            env2 = dict(env)
            env2[s.name] = fun(NUM, NUM)
            return (f"let {self.var(s.name)} := (fun {self.var(p)} : num => {body}) in\n  "
                    + self.block(rest, env2, ret_ty, k))
        if isinstance(s, ast.If):
            nt = self.none_test(s.test, env)
            if self.always_returns(s.body):
                # if c: ...return ; rest
                if nt and nt[0] == "mixed":
                    els = self.block(list(s.orelse) + rest, env, ret_ty, k)
                    return self.match_mixed(nt[1], env, lambda e: self.block(s.body, e, ret_ty, k), els)
                if nt and nt[0] == "none":
                    a = self.block(s.body, env, ret_ty, k)
                    return self.match_none(nt[1], env, a,
                                           lambda e: self.block(list(s.orelse) + rest, e, ret_ty, k))
                if nt and nt[0] == "some":
                    b = self.block(list(s.orelse) + rest, env, ret_ty, k)
                    return self.match_none(nt[1], env, b, lambda e: self.block(s.body, e, ret_ty, k))
                c, ct = self.ex(s.test, env)
                if ct != BOOL:
                    fail(s, "non-bool condition")
                a = self.block(s.body, env, ret_ty, k)
                b = self.block(list(s.orelse) + rest, env, ret_ty, k)
                return f"(if {c} then {a} else {b})"
            if self.always_returns(s.orelse) and s.orelse:
                fail(s, "else-branch returns but then-branch does not")
            # assignment-only conditional: join the assigned variables
            names_a = self.assigned(s.body)
            names_b = self.assigned(s.orelse)
            def_a, def_b = self.definitely(s.body), self.definitely(s.orelse)
            used_later = self.names_used(rest)
            # a name bound on one path only is Python's UnboundLocalError on the other: the junk value (`raise`)
            half = [x for x in names_a + names_b if x not in env and not (x in def_a and x in def_b)
                    and (x in def_a or x in def_b) and x in used_later and self.spec.get("allow_half_defined")]
            names = [x for x in names_a + names_b if (x in def_a and x in def_b) or x in env or x in half]
            names = list(dict.fromkeys(names))
            if not names:
                fail(s, "conditional without effect")
            # two passes: first to learn the branch types
            res = {}

            def run(branch, benv):
                types = {}

                def kk(e):
                    for x in names:
                        if x in e:
                            types[x] = e[x]
                    return "tt"
                txt = self.block(branch, benv, ret_ty, kk)
                return txt, types

            def with_cond(fn_a, fn_b):
                if nt and nt[0] == "mixed":
                    return self.match_mixed(nt[1], env, fn_a, fn_b(env))
                if nt:
                    kind, nms = nt
                    if kind == "none":
                        return self.match_none(nms, env, fn_a(env), fn_b)
                    return self.match_none(nms, env, fn_b(env), fn_a)
                c, ct = self.ex(s.test, env)
                if ct != BOOL:
                    fail(s, "non-bool condition")
                return f"(if {c} then {fn_a(env)} else {fn_b(env)})"
            # learn types
            env_some = dict(env)
            if nt and nt[0] == "mixed":
                for kind_, nm in nt[1]:
                    if kind_ == "some":
                        env_some[nm] = self.ex(ast.parse(nm, mode="eval").body, env)[1][1]
            elif nt:
                for nm in nt[1]:
                    env_some[nm] = self.ex(ast.parse(nm, mode="eval").body, env)[1][1]
            env_a = env_some if (nt and nt[0] in ("some", "mixed")) else env
            env_b = env_some if (nt and nt[0] == "none") else env
            _, ta = run(s.body, env_a)
            _, tb = run(s.orelse, env_b)
            jt = {x: (join(ta[x], tb[x]) if x in ta and x in tb else ta.get(x, tb.get(x))) for x in names}

            def junk(ty):
                if isinstance(ty, tuple) and ty[0] == "fun":
                    return f"(fun _ : {coq_ty(ty[1])} => {self.raise_text(ty[2])})"
                return self.raise_text(ty)

            def final(branch):
                def f(benv):
                    def kk(e):
                        parts = [coerce(self.var(x), e[x], jt[x]) if x in e else junk(jt[x]) for x in names]
                        return "(" + ", ".join(parts) + ")" if len(parts) > 1 else parts[0]
                    return self.block(branch, benv, ret_ty, kk)
                return f
            cond = with_cond(final(s.body), final(s.orelse))
            env2 = dict(env)
            for x in names:
                env2[x] = jt[x]
            pat = "'(" + ", ".join(self.var(x) for x in names) + ")" if len(names) > 1 else self.var(names[0])
            return f"let {pat} := {cond} in\n  " + self.block(rest, env2, ret_ty, k)
        fail(s, "unsupported statement")

    def coerce_deep(self, node, t, ty, to, env):
        if ty == to:
            return t
        if (isinstance(node, ast.Tuple) and isinstance(to, tuple) and to[0] == "tup"
                and len(to[1]) == len(node.elts)):
            parts = []
            for e, et in zip(node.elts, to[1]):
                x, xt = self.ex(e, env)
                parts.append(coerce(x, xt, et))
            return "(" + ", ".join(parts) + ")"
        return coerce(t, ty, to)

    def names_used(self, stmts):
        out = set()
        for s in stmts:
            for n in ast.walk(s):
                if isinstance(n, ast.Name):
                    out.add(n.id)
        return out

    # ------------------------------------------------------------------ emit
    def emit_func(self, tgt):
        f = self.declare(tgt)
        env = {}
        binders = []
        for pn, pt, _ in f.params:
            env[pn] = pt
            binders.append(f"({self.var(pn)} : {coq_ty(pt)})")
        custom = tgt.get("custom")
        if custom:
            body = custom(self, f, env)
        else:
            body = self.block(f.node.body, env, f.ret, lambda e: fail(f.node, "function falls off its end"))
        self.out.append(f"(* {tgt['py']}  (line {f.node.lineno}) *)\n"
                        f"Definition {f.coq} {' '.join(binders)} : {coq_ty(f.ret)} :=\n  {body}.\n")


REGISTRY = {}  # spec name -> Translator (for `uses`)


def translate(src_path, spec, instance, name=None):
    src = open(src_path).read()
    tree = ast.parse(src)
    tr = Translator(tree, spec)
    for u in spec.get("uses", ()):
        prev = REGISTRY[(u, instance)]
        tr.ext_funcs.update(prev.funcs)
        tr.ext_funcs.update(prev.ext_funcs)
        for t, m in prev.methods_of.items():
            tr.methods_of.setdefault(t, {}).update(m)
        for k, r in prev.records.items():
            tr.records.setdefault(k, r)
    REGISTRY[(name, instance)] = tr
    pre = spec.get("preamble", lambda tr: "")(tr)
    for tgt in spec["targets"]:
        if "raw" in tgt:
            tr.out.append(tgt["raw"](tr))
            if "func" in tgt:
                qual, f = tgt["func"]
                tr.find_def(qual)  # the python definition must still exist
                tr.funcs[qual] = f
                if "." in qual:
                    cls, m = qual.split(".")
                    tr.methods_of.setdefault(tr.self_types[cls], {})[m] = qual
        else:
            tr.emit_func(tgt)
    sha = hashlib.sha256(src.encode()).hexdigest()[:16]
    head = (f"(* GENERATED by tools/py2coq.py from {os.path.relpath(src_path, '/repo')} - do not edit.\n"
            f"   instance: {instance} *)\n"
            f"From TT Require Import lib.Prelude{instance}.\n")
    for imp in spec.get("uses", ()):
        head += f"From TT Require Import gen{instance}.{imp}.\n"
    for imp in spec.get("extra_imports", ()):
        head += f"From TT Require Import {imp}.\n"
    head += "Local Open Scope num_scope.\nLocal Open Scope bool_scope.\n\n"
    if spec.get("section"):
        head += "Section Gen.\n" + spec["section"] + "\n\n"
    tail = "\nEnd Gen.\n" if spec.get("section") else ""
    return head + pre + "\n".join(tr.out) + tail, sha


def write_if_changed(path, text):
    try:
        if open(path).read() == text:
            return False
    except FileNotFoundError:
        pass
    os.makedirs(os.path.dirname(path), exist_ok=True)
    with open(path, "w") as fh:
        fh.write(text)
    return True


def main(argv):
    import specs
    repo = os.environ.get("TT_REPO", "/repo")
    coqdir = os.path.join(os.path.dirname(os.path.dirname(os.path.abspath(__file__))), "coq")
    only = set(argv[1:])
    changed = []
    for name, modname, relsrc in getattr(specs, "PLAIN", ()):
        if only and name not in only:
            continue
        import importlib
        mod = importlib.import_module(modname)
        text = mod.translate(os.path.join(repo, "src", "tea_tasting", relsrc))
        p = os.path.join(coqdir, "genP", f"{name}.v")
        if write_if_changed(p, text):
            changed.append(p)
    for name, spec in specs.SPECS.items():
        if only and name not in only and not any(name in specs.SPECS[o].get("uses", ()) for o in only if o in specs.SPECS):
            continue
        src = os.path.join(repo, "src", "tea_tasting", spec["source"])
        for inst in ("R", "Q") + (("X",) if name in getattr(specs, "X_INSTANCE", ()) else ()):
            text, sha = translate(src, spec, inst, name)
            p = os.path.join(coqdir, f"gen{inst}", f"{name}.v")
            if write_if_changed(p, text):
                changed.append(p)
    for c in changed:
        print("regenerated", c)
    return 0


if __name__ == "__main__":
    sys.path.insert(0, os.path.dirname(os.path.abspath(__file__)))
    try:
        sys.exit(main(sys.argv))
    except Unsupported as e:
        print("PY2COQ-UNSUPPORTED:", e)
        sys.exit(3)
