#!/usr/bin/env python3
"""Entry point:  ./check Cxx [--tier quick|thorough] [--replay FILE]"""
from __future__ import annotations

import argparse
import hashlib
import importlib
import json
import os
import sys
import time
import traceback

sys.path.insert(0, os.path.dirname(os.path.abspath(__file__)))
import harness as H  # noqa: E402


def main():
    ap = argparse.ArgumentParser()
    ap.add_argument("pid")
    ap.add_argument("--tier", default=os.environ.get("VERIF_TIER", "quick"), choices=["quick", "thorough"])
    ap.add_argument("--replay")
    a = ap.parse_args()
    seed = int(os.environ.get("VERIF_SEED", "0") or 0)
    pid = a.pid
    mod = importlib.import_module(f"props.{pid}")
    ctx = H.Ctx(pid, a.tier, seed)

    if a.replay:
        rp = json.load(open(a.replay))
        res = mod.replay(ctx, rp)
        print(json.dumps(res, indent=1, default=str))
        if res.get("fails"):
            print(f"VIOLATION property={pid} replay={a.replay}")
            return 1
        print("replay: the recorded input no longer violates the property")
        return 0

    proof_info = {}
    # 1. regenerate the translated models from /repo's current sources
    gen = getattr(mod, "GEN", [])
    regen_ok = True
    if gen:
        ok, msg, _ = H.regen(gen)
        regen_ok = ctx.oblige(ok, "translator", f"py2coq {' '.join(gen)}", msg)
    # 2. build the closure of props/<pid>.vo and collect Print Assumptions
    build_ok = False
    if regen_ok:
        ok, out, info, failed = H.compile_props(pid)
        if ok:
            proof_info = info
            thms = [t for t in info["theorems"]]
            for t in thms:
                ctx.oblige(True, "proof", t)
            build_ok = True
        else:
            ctx.oblige(False, "proof", f"build of props/{pid}.vo failed at {failed}", out)
        # 3. audit
        probs = H.audit_sources()
        ctx.oblige(not probs, "audit", "source audit (no Admitted/Axiom/Parameter/...)", "\n".join(probs))
        if build_ok:
            bad = H.audit_assumptions(proof_info)
            ctx.oblige(not bad, "audit", "Print Assumptions within the allow-list", "\n".join(bad))
            if a.tier == "thorough" and getattr(mod, "COQCHK", True):
                rc, out, dt = H.sh(["coqchk", "-Q", ".", "TT", "-o", "-silent", f"TT.props.{pid}"], 1500, cwd=H.COQ)
                axs = set()
                import re
                for m in re.finditer(r"^\s+([A-Za-z_][\w.']*)\s*$", out.split("* Axioms:")[-1] if "* Axioms:" in out else "", re.M):
                    axs.add(m.group(1))
                ctx.extra["coqchk_axioms"] = sorted(axs)
                ctx.extra["coqchk_s"] = round(dt, 1)
                ctx.oblige(rc == 0, "audit", "coqchk re-check", out[-3000:])
        fpath = os.path.join(H.COQ, "props", f"{pid}_findings.v")
        if build_ok and os.path.exists(fpath):
            okf, outf, _, _ = H.make([f"props/{pid}_findings.vo"], 600)
            ctx.extra["findings_file_compiles"] = okf  # informational: a repaired defect makes a _refuted lemma fail
    # 4. correspondence between model and implementation
    if regen_ok:
        try:
            mod.correspondence(ctx)
        except Exception:
            ctx.oblige(False, "correspondence", "correspondence harness crashed", traceback.format_exc())
    # 5. implementation-side property oracle (always run: it also is the failing-input search)
    try:
        mod.oracle(ctx, deep=bool(ctx.broken))
    except Exception:
        ctx.oblige(False, "oracle", "property oracle crashed", traceback.format_exc())

    # 6. known findings
    kf = H.load_known_findings()
    mine = [f for f in kf.get("findings", []) if f["property"] == pid]
    lines = []
    for f in mine:
        try:
            still = mod.finding_still_fails(ctx, f)
        except Exception:
            still = None
            ctx.notes.append("finding replay crashed: " + traceback.format_exc()[-500:])
        if still:
            lines.append(f"KNOWN-FINDING: property={pid} {f['what']}")
        else:
            ctx.notes.append(f"listed finding no longer reproduces: {f['id']}")
    unlisted = []
    for v in ctx.violations:
        hit = None
        for f in mine:
            try:
                matched = mod.matches_finding(v, f)
            except Exception:  # noqa: BLE001 - a violation of another shape than the finding's predicate expects: not that finding
                matched = False
            if matched:
                hit = f
                break
        if hit is None:
            unlisted.append(v)
        else:
            ctx.known_hits.append({"finding": hit["id"], "input": v.get("input")})
    # broken obligations that are explained by a listed finding (model side) do not count twice
    broken = [b for b in ctx.broken if not b.get("explained_by_finding")]

    rc = 0
    out_lines = list(lines)
    os.makedirs(os.path.join(H.ROOT, "replays"), exist_ok=True)
    if unlisted:
        v = unlisted[0]
        h = hashlib.sha1(json.dumps(v, sort_keys=True, default=str).encode()).hexdigest()[:10]
        rpath = os.path.join("replays", f"{pid}-{h}.json")
        H.write_json(os.path.join(H.ROOT, rpath), {
            "property": pid, "tier": a.tier, "seed": seed, "kind": "failing-input", **v,
            "broken": [{k: b[k] for k in ("kind", "what")} for b in broken],
            "replay_cmd": f"./check {pid} --replay {rpath}"})
        out_lines.append(f"VIOLATION property={pid} replay={rpath}")
        rc = 1
    elif broken:
        b = broken[0]
        h = hashlib.sha1(json.dumps([b["kind"], b["what"]], default=str).encode()).hexdigest()[:10]
        rpath = os.path.join("replays", f"{pid}-{h}.json")
        H.write_json(os.path.join(H.ROOT, rpath), {
            "property": pid, "tier": a.tier, "seed": seed, "kind": "broken-" + b["kind"],
            "no_longer_checks": b["what"], "detail": b["detail"], "case": b.get("case"),
            "all_broken": [{k: x[k] for k in ("kind", "what")} for x in broken],
            "replay_cmd": f"./check {pid}"})
        out_lines.append(f"VIOLATION property={pid} replay={rpath} no-failing-input-found")
        rc = 1

    # 7. evidence
    axioms = sorted({x for v in proof_info.get("assumptions", {}).values() for x in v})
    tb = ["Coq 8.16.1 kernel + vm_compute (no native_compute)"] + ["axiom: " + x for x in axioms] + list(
        getattr(mod, "TRUSTED", []))
    ev = {
        "property_id": pid, "tier": a.tier, "seed": seed, "level": "proof",
        "coverage": {
            "obligations": ctx.obligations, "discharged": ctx.discharged,
            "checker_cmd": f"cd coq && make props/{pid}.vo && coqc -Q . TT props/{pid}.v  (Print Assumptions parsed)"
                           + ("; coqchk -o TT.props." + pid if a.tier == "thorough" else ""),
            "trusted_base": tb,
            "theorems": proof_info.get("theorems", []),
            "evaluations": ctx.evaluations, "distinct_nontrivial": len(ctx.distinct),
            "rule": getattr(mod, "RULE", ""),
            "samples": ctx.samples[:8] or ["(no cases ran)"],
            "histogram": ctx.hist,
            "broken": [{k: b[k] for k in ("kind", "what")} for b in ctx.broken],
            "known_finding_hits": ctx.known_hits[:20],
            "notes": ctx.notes, **ctx.extra,
        },
        "assumptions": list(getattr(mod, "ASSUMES", [])),
        "wall_s": round(time.time() - ctx.t0, 2),
        "violations": len(unlisted) + (1 if (broken and not unlisted) else 0),
    }
    H.write_json(os.path.join(H.ROOT, "evidence", f"{pid}.json"), ev)
    for ln in out_lines:
        print(ln)
    print(f"{pid}: obligations={ctx.obligations} discharged={ctx.discharged} cases={ctx.evaluations} "
          f"violations={ev['violations']} wall={ev['wall_s']}s")
    return rc


if __name__ == "__main__":
    sys.exit(main())
