"""Input generators and exact (Fraction) reference statistics shared by the property harnesses."""
from __future__ import annotations

from fractions import Fraction
import itertools

COLS = ["x", "y", "z", "w"]


def rand_frac(rng, kind=None):
    kind = kind or rng.choice(["small", "small", "int", "tiny", "huge", "neg"])
    if kind == "small":
        return Fraction(rng.randint(-40, 40), rng.randint(1, 9))
    if kind == "int":
        return Fraction(rng.randint(-1000, 1000))
    if kind == "tiny":
        return Fraction(rng.randint(-9, 9), rng.randint(10**6, 10**9))
    if kind == "huge":
        return Fraction(rng.randint(-10**12, 10**12), rng.randint(1, 7))
    return Fraction(-rng.randint(1, 99), rng.randint(1, 5))


def rand_rows(rng, n, cols=COLS, style=None):
    """n rows of Fractions; styles: generic, positive (all values > 0), correlated, offset."""
    style = style or rng.choice(["generic", "positive", "correlated", "offset", "ints"])
    rows = []
    base = {c: rand_frac(rng, "small") for c in cols}
    for _ in range(n):
        if style == "generic":
            r = {c: rand_frac(rng) for c in cols}
        elif style == "ints":
            r = {c: Fraction(rng.randint(0, 12)) for c in cols}
        elif style == "smallpos":
            r = {c: Fraction(rng.randint(1, 12), rng.choice([1, 1, 2, 4])) for c in cols}
        elif style == "smallgen":
            r = {c: Fraction(rng.randint(-9, 12), rng.choice([1, 2, 3])) for c in cols}
        elif style == "positive":
            r = {c: Fraction(rng.randint(1, 60), rng.randint(1, 7)) for c in cols}
        elif style == "offset":
            off = Fraction(10**9)
            r = {c: off + Fraction(rng.randint(-50, 50), rng.randint(1, 4)) for c in cols}
        else:  # correlated
            t = Fraction(rng.randint(-30, 30), rng.randint(1, 5))
            r = {c: base[c] * t + Fraction(rng.randint(-3, 3), rng.randint(1, 3)) for c in cols}
        rows.append(r)
    return rows


def mean(vals):
    return sum(vals, Fraction(0)) / len(vals)


def cov(xs, ys):
    mx, my = mean(xs), mean(ys)
    return sum(((a - mx) * (b - my) for a, b in zip(xs, ys)), Fraction(0)) / (len(xs) - 1)


def exact_aggr_dicts(rows, cols):
    """count, mean dict, var dict, cov dict (sorted pairs a<b) computed exactly from rows."""
    n = len(rows)
    colv = {c: [r[c] for r in rows] for c in cols}
    m = {c: mean(colv[c]) for c in cols}
    v = {c: cov(colv[c], colv[c]) for c in cols}
    cv = {}
    for a, b in itertools.combinations(sorted(cols), 2):
        cv[(a, b)] = cov(colv[a], colv[b])
    return n, m, v, cv


def real_aggregates(rows, cols, conv=lambda x: x, self_cov=False):
    import tea_tasting.aggr as A
    n, m, v, cv = exact_aggr_dicts(rows, cols)
    if self_cov:
        for c in cols:
            cv[(c, c)] = v[c]
    return A.Aggregates(count_=n, mean_={k: conv(x) for k, x in m.items()},
                        var_={k: conv(x) for k, x in v.items()},
                        cov_={k: conv(x) for k, x in cv.items()})


def coq_agg(agg):
    """Gallina term (over Qc) for a real Aggregates object holding Fractions."""
    from harness import qlit, slit
    n = "None" if agg.count_ is None else f"(Some {qlit(agg.count_)})"
    ms = "[" + "; ".join(f"({slit(k)}, {qlit(v)})" for k, v in agg.mean_.items()) + "]"
    vs = "[" + "; ".join(f"({slit(k)}, {qlit(v)})" for k, v in agg.var_.items()) + "]"
    cs = "[" + "; ".join(f"({slit(a)}, {slit(b)}, {qlit(v)})" for (a, b), v in agg.cov_.items()) + "]"
    return f"(mk_agg {n} {ms} {vs} {cs})"


def agg_json(agg):
    from harness import frac
    return {"count_": agg.count_, "mean_": {k: frac(v) for k, v in agg.mean_.items()},
            "var_": {k: frac(v) for k, v in agg.var_.items()},
            "cov_": {f"{a}|{b}": frac(v) for (a, b), v in agg.cov_.items()}}


def agg_from_json(d, conv=None):
    import tea_tasting.aggr as A
    from fractions import Fraction as F
    conv = conv or (lambda x: x)
    return A.Aggregates(count_=d["count_"], mean_={k: conv(F(v)) for k, v in d["mean_"].items()},
                        var_={k: conv(F(v)) for k, v in d["var_"].items()},
                        cov_={tuple(k.split("|")): conv(F(v)) for k, v in d["cov_"].items()})


def rows_json(rows):
    from harness import frac
    return [{k: frac(v) for k, v in r.items()} for r in rows]


def rows_from_json(js):
    return [{k: Fraction(v) for k, v in r.items()} for r in js]
