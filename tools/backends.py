"""Real backends for the differential runs: pandas, polars (eager / lazy), pyarrow, ibis on SQLite; fetch counters."""
from __future__ import annotations

import contextlib
import os
import sqlite3
import sys
import tempfile
import types

KINDS = ["pandas", "polars", "polars-lazy", "pyarrow", "ibis-sqlite"]
LAZY_KINDS = ["polars-lazy", "ibis-sqlite"]

if "pyarrow_hotfix" not in sys.modules:   # the hotfix is a no-op for pyarrow >= 14.0.1; the package is not installed
    sys.modules["pyarrow_hotfix"] = types.ModuleType("pyarrow_hotfix")

_TMP = []


def make_table(kind, data, sql_types=None):
    """data: dict column -> list (all same length; values int/float/str/bool). sql_types: declared SQL column types that
    differ from the default (ibis-sqlite only, e.g. {"x": "DECIMAL(10, 2)"})."""
    if kind == "pandas":
        import pandas as pd
        return pd.DataFrame(data)
    if kind == "polars":
        import polars as pl
        return pl.DataFrame(data)
    if kind == "polars-lazy":
        import polars as pl
        return pl.DataFrame(data).lazy()
    if kind == "pyarrow":
        import pyarrow as pa
        return pa.table(data)
    if kind == "ibis-sqlite":
        import ibis
        d = tempfile.mkdtemp(prefix="ttverif_", dir=os.environ.get("TT_SCRATCH", "/dev/shm" if os.path.isdir("/dev/shm") else None))
        path = os.path.join(d, "t.db")
        _TMP.append(d)
        con = sqlite3.connect(path)
        cols = list(data)

        def sqltype(vals):
            v = next((x for x in vals if x is not None), 0)
            if isinstance(v, bool):
                return "BOOLEAN"
            if isinstance(v, int):
                return "INTEGER"
            if isinstance(v, float):
                return "REAL"
            return "TEXT"
        con.execute("CREATE TABLE t (" + ", ".join(f'"{c}" {(sql_types or {}).get(c) or sqltype(data[c])}' for c in cols) + ")")
        rows = list(zip(*[data[c] for c in cols]))
        con.executemany("INSERT INTO t VALUES (" + ",".join("?" * len(cols)) + ")", rows)
        con.commit()
        con.close()
        return ibis.sqlite.connect(path).table("t")
    raise ValueError(kind)


def cleanup():
    import shutil
    while _TMP:
        shutil.rmtree(_TMP.pop(), ignore_errors=True)


@contextlib.contextmanager
def fetch_counters():
    """Counts every materialisation from a lazy backend: polars LazyFrame.collect and ibis Table.to_pyarrow.
    Yields a list that receives one record {backend, rows, columns} per fetch."""
    import ibis.expr.types as ir
    import polars as pl
    log = []
    old_collect = pl.LazyFrame.collect
    old_to_pyarrow = ir.Table.to_pyarrow

    def collect(self, *a, **kw):
        out = old_collect(self, *a, **kw)
        log.append({"backend": "polars-lazy", "rows": out.height, "columns": list(out.columns)})
        return out

    def to_pyarrow(self, *a, **kw):
        out = old_to_pyarrow(self, *a, **kw)
        log.append({"backend": "ibis", "rows": out.num_rows, "columns": list(out.column_names)})
        return out
    pl.LazyFrame.collect = collect
    ir.Table.to_pyarrow = to_pyarrow
    try:
        yield log
    finally:
        pl.LazyFrame.collect = old_collect
        ir.Table.to_pyarrow = old_to_pyarrow
