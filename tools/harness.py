"""Shared machinery of the checks: regenerate, build, audit, evaluate models in Coq, write evidence."""
from __future__ import annotations

import fcntl
import hashlib
import json
import os
import random
import re
import subprocess
import sys
import time
from fractions import Fraction

ROOT = os.path.dirname(os.path.dirname(os.path.abspath(__file__)))
COQ = os.path.join(ROOT, "coq")
REPO = os.environ.get("TT_REPO", "/repo")
CASES = os.path.join(COQ, "cases")
NPROC = int(os.environ.get("VERIF_JOBS", "16"))

ALLOWED_AXIOMS = {
    "ClassicalDedekindReals.sig_forall_dec",
    "ClassicalDedekindReals.sig_not_dec",
    "FunctionalExtensionality.functional_extensionality_dep",
    "Classical_Prop.classic",
}
FORBIDDEN = re.compile(
    r"\b(Admitted|admit|Axiom|Axioms|Parameter|Parameters|Conjecture|Conjectures)\b|Admit Obligations|"
    r"Unset Guard|bypass_check|type-in-type|impredicative-set|Unset Positivity|Unset Universe")
SECTION_ONLY = re.compile(r"^\s*(Variable|Variables|Hypothesis|Hypotheses|Context)\b")


def sh(cmd, timeout, cwd=None, env=None):
    t0 = time.time()
    try:
        p = subprocess.run(cmd, shell=isinstance(cmd, str), cwd=cwd, env=env, timeout=timeout,
                           stdout=subprocess.PIPE, stderr=subprocess.STDOUT, text=True)
        return p.returncode, p.stdout, time.time() - t0
    except subprocess.TimeoutExpired as e:
        out = e.stdout if isinstance(e.stdout, str) else (e.stdout or b"").decode(errors="replace")
        return 124, (out or "") + f"\nTIMEOUT after {timeout}s", time.time() - t0


class Lock:
    def __init__(self, name="build"):
        self.path = os.path.join(COQ, f".{name}.lock")

    def __enter__(self):
        self.fh = open(self.path, "w")
        fcntl.flock(self.fh, fcntl.LOCK_EX)
        return self

    def __exit__(self, *a):
        fcntl.flock(self.fh, fcntl.LOCK_UN)
        self.fh.close()


# --------------------------------------------------------------------------- regenerate
def regen(names=None):
    """Run the translator in a subprocess (so a crash cannot take the check down)."""
    cmd = [sys.executable, os.path.join(ROOT, "tools", "py2coq.py")] + list(names or [])
    env = dict(os.environ, TT_REPO=REPO)
    rc, out, dt = sh(cmd, 120, env=env)
    return rc == 0, out.strip(), dt


# --------------------------------------------------------------------------- build
def ensure_makefile():
    files = []
    for d in ("lib", "genP", "genR", "genQ", "genX", "model", "proofs", "props"):
        p = os.path.join(COQ, d)
        if os.path.isdir(p):
            files += sorted(os.path.join(d, f) for f in os.listdir(p) if f.endswith(".v"))
    proj = ("-Q . TT\n-arg -w -arg -notation-overridden,-ambiguous-paths,-deprecated-hint-without-locality,"
            "-deprecated-instance-without-locality,-deprecated-hint-rewrite-without-locality\n" + "\n".join(files) + "\n")
    pp = os.path.join(COQ, "_CoqProject")
    old = open(pp).read() if os.path.exists(pp) else ""
    if old != proj or not os.path.exists(os.path.join(COQ, "Makefile")):
        with open(pp, "w") as fh:
            fh.write(proj)
        rc, out, _ = sh("coq_makefile -f _CoqProject -o Makefile", 60, cwd=COQ)
        if rc != 0:
            raise RuntimeError("coq_makefile failed: " + out)


def make(targets, timeout=900):
    """Full .vo build (never -vos/-vok) of the closure of the given targets."""
    with Lock():
        ensure_makefile()
        cmd = f"make -j{NPROC} " + " ".join(targets)
        rc, out, dt = sh(cmd, timeout, cwd=COQ)
    failed = None
    if rc != 0:
        m = re.findall(r'File "\./([^"]+)", line (\d+)', out)
        failed = m[-1] if m else ("?", "?")
    return rc == 0, out, dt, failed


def coqc(path, timeout=300):
    return sh(["coqc", "-Q", ".", "TT", "-w", "-notation-overridden,-ambiguous-paths", path], timeout, cwd=COQ)


def compile_props(pid, timeout=600):
    """(Re)compile props/<pid>.v itself, capturing the Print Assumptions output of every theorem."""
    ok, out, dt, failed = make([f"props/{pid}.vo"], timeout)
    if not ok:
        return False, out, {}, failed
    with Lock():
        rc, out2, _ = coqc(f"props/{pid}.v", timeout)
    if rc != 0:
        return False, out2, {}, (f"props/{pid}.v", "?")
    src = open(os.path.join(COQ, "props", f"{pid}.v")).read()
    names = re.findall(r"^Print Assumptions (\w+)\.", src, re.M)
    theorems = re.findall(r"^(?:Theorem|Example)\s+(\w+)", src, re.M)
    blocks = re.split(r"^(?=Axioms:|Closed under the global context)", out2, flags=re.M)
    blocks = [b for b in blocks if b.startswith("Axioms:") or b.startswith("Closed under")]
    assum = {}
    for nm, b in zip(names, blocks):
        assum[nm] = sorted({m for m in re.findall(r"^([A-Za-z_][\w.']*)(?=\s*:|\s*$)", b, re.M) if m != "Axioms"})
    if len(blocks) != len(names):
        return False, f"Print Assumptions blocks ({len(blocks)}) != statements ({len(names)})\n" + out2, assum, (f"props/{pid}.v", "?")
    return True, out2, {"assumptions": assum, "theorems": theorems, "printed": names}, None


# --------------------------------------------------------------------------- audit
def audit_sources():
    """No Admitted/admit/Axiom/Parameter/...; Variable/Hypothesis/Context only inside sections."""
    problems = []
    for d in ("lib", "genP", "genR", "genQ", "genX", "model", "proofs", "props"):
        p = os.path.join(COQ, d)
        if not os.path.isdir(p):
            continue
        for f in sorted(os.listdir(p)):
            if not f.endswith(".v"):
                continue
            depth = 0
            text = open(os.path.join(p, f)).read()
            text = re.sub(r"\(\*.*?\*\)", lambda m: "\n" * m.group(0).count("\n"), text, flags=re.S)
            for i, line in enumerate(text.split("\n"), 1):
                if FORBIDDEN.search(line):
                    problems.append(f"{d}/{f}:{i}: forbidden: {line.strip()[:80]}")
                if re.match(r"^\s*Section\b", line):
                    depth += 1
                elif re.match(r"^\s*End\b", line) and depth > 0:
                    depth -= 1
                elif SECTION_ONLY.match(line) and depth == 0:
                    problems.append(f"{d}/{f}:{i}: outside a section: {line.strip()[:80]}")
    return problems


def audit_assumptions(info):
    bad = []
    for thm, axs in info.get("assumptions", {}).items():
        for a in axs:
            if a not in ALLOWED_AXIOMS:
                bad.append(f"{thm}: {a}")
    missing = [t for t in info.get("theorems", []) if t.startswith("C") and t not in info.get("printed", [])
               and not t.endswith("_nonvacuous")]
    for t in missing:
        bad.append(f"{t}: no Print Assumptions")
    return bad


# --------------------------------------------------------------------------- Coq evaluation
def qlit(x):
    fr = Fraction(x)
    return f"(qmk ({fr.numerator}) {fr.denominator})"


def slit(s):
    return '"' + s.replace('"', '""') + '"%string'


def coq_eval_shards(tag, header, terms, per_file=None, timeout=900):
    """Evaluate a list of Gallina terms (each of type list (Z*Z) or similar) with vm_compute.
    Returns the list of raw result strings, one per term."""
    os.makedirs(CASES, exist_ok=True)
    if per_file is None:
        per_file = max(4, min(200, -(-len(terms) // (2 * NPROC))))
    tag = f"{tag}_{os.getpid()}"
    files = []
    for si in range(0, len(terms), per_file):
        chunk = terms[si:si + per_file]
        name = f"{tag}_{si // per_file}"
        body = header + "\nOpen Scope Z_scope.\nSet Printing Width 100000000.\nSet Printing Depth 100000000.\n"
        for t in chunk:
            body += f"Eval vm_compute in ({t}).\n"
        path = os.path.join(CASES, name + ".v")
        with open(path, "w") as fh:
            fh.write(body)
        files.append((name, len(chunk)))
    results = []
    procs = []
    errors = []

    def run(name):
        fh = open(os.path.join(CASES, name + ".out"), "w")
        return subprocess.Popen(["coqc", "-Q", ".", "TT", "-w", "-notation-overridden,-ambiguous-paths",
                                 f"cases/{name}.v"], cwd=COQ, stdout=fh, stderr=subprocess.STDOUT)
    pending = list(files)
    running = []
    outputs = {}
    t0 = time.time()
    while pending or running:
        while pending and len(running) < NPROC:
            nm, cnt = pending.pop(0)
            running.append((nm, cnt, run(nm)))
        still = []
        for nm, cnt, p in running:
            if p.poll() is None:
                if time.time() - t0 > timeout:
                    p.kill()
                    errors.append(f"{nm}: timeout")
                else:
                    still.append((nm, cnt, p))
            else:
                outputs[nm] = (p.returncode, open(os.path.join(CASES, nm + ".out")).read())
        running = still
        if running:
            time.sleep(0.05)
    for nm, cnt in files:
        rc, out = outputs.get(nm, (1, "missing"))
        if rc != 0:
            errors.append(f"{nm}: coqc failed: {out[-2000:]}")
            results += [None] * cnt
            continue
        vals = re.findall(r"^\s*= (.*?)\n\s*: ", out, re.M | re.S)
        if len(vals) != cnt:
            errors.append(f"{nm}: expected {cnt} results, parsed {len(vals)}")
            results += [None] * cnt
        else:
            results += vals
        for ext in (".v", ".vo", ".glob", ".vok", ".vos", ".out"):
            try:
                os.remove(os.path.join(CASES, nm + ext))
            except FileNotFoundError:
                pass
        try:
            os.remove(os.path.join(CASES, "." + nm + ".aux"))
        except FileNotFoundError:
            pass
    return results, errors


def parse_pairs(s):
    """'[(1, 2); (-3, 4)]' -> [Fraction(1,2), Fraction(-3,4)]"""
    return [Fraction(int(a), int(b)) for a, b in re.findall(r"\((-?\d+), (\d+)\)", s)]


# --------------------------------------------------------------------------- evidence / replay
def write_json(path, obj):
    os.makedirs(os.path.dirname(path), exist_ok=True)
    tmp = path + ".tmp"
    with open(tmp, "w") as fh:
        json.dump(obj, fh, indent=1, default=str)
    os.replace(tmp, path)


def frac(x):
    fr = Fraction(x)
    return f"{fr.numerator}/{fr.denominator}"


def unfrac(s):
    return Fraction(s)


def load_known_findings():
    p = os.path.join(ROOT, "known_findings.json")
    if not os.path.exists(p):
        return {"findings": [], "fixed": []}
    return json.load(open(p))


class Ctx:
    """State of one check run."""

    def __init__(self, pid, tier, seed):
        self.pid, self.tier, self.seed = pid, tier, seed
        self.rng = random.Random(f"{pid}:{seed}")
        self.t0 = time.time()
        self.obligations = 0
        self.discharged = 0
        self.evaluations = 0
        self.distinct = set()
        self.samples = []
        self.hist = {}
        self.broken = []       # list of dicts: kind, what, detail, case
        self.violations = []   # list of dicts with concrete failing inputs
        self.known_hits = []
        self.trusted = []
        self.notes = []
        self.extra = {}

    def n(self, quick, thorough):
        return thorough if self.tier == "thorough" else quick

    def count(self, key, k=1):
        self.hist[key] = self.hist.get(key, 0) + k

    def sample(self, s, limit=6):
        if len(self.samples) < limit:
            self.samples.append(s)

    def oblige(self, ok, kind, what, detail="", case=None):
        self.obligations += 1
        if ok:
            self.discharged += 1
        else:
            self.broken.append({"kind": kind, "what": what, "detail": detail[-4000:] if isinstance(detail, str) else detail,
                                "case": case})
        return ok

    def case_seen(self, key, nontrivial=True):
        self.evaluations += 1
        if nontrivial:
            self.distinct.add(hashlib.sha1(repr(key).encode()).hexdigest())


# ----------------------------------------------------------------------------- explicit arguments must win
def contrary_options(case):
    """Global defaults that contradict every option the oracle passes explicitly for this case."""
    cfg = case.get("cfg") if isinstance(case.get("cfg"), dict) else case
    out = {}
    alt = cfg.get("alternative", cfg.get("alt"))
    if alt is not None:
        out["alternative"] = {"two-sided": "less", "less": "greater", "greater": "two-sided"}[alt]
    for k in ("equal_var", "use_t"):
        if isinstance(cfg.get(k), bool):
            out[k] = not cfg[k]
    if cfg.get("confidence_level") is not None:
        out["confidence_level"] = 0.5 if abs(float(Fraction(cfg["confidence_level"])) - 0.5) > 0.2 else 0.9
    if cfg is case:   # power-analysis cases pass alpha / ratio / power explicitly as well
        if isinstance(case.get("alpha"), (int, float)):
            out["alpha"] = 0.2 if case["alpha"] < 0.1 else 0.01
        if isinstance(case.get("ratio"), (int, float)):
            out["ratio"] = 3 if case["ratio"] != 3 else 0.5
        if isinstance(case.get("power"), (int, float)):
            out["power"] = 0.6 if case["power"] > 0.7 else 0.95
    return out


def under_contrary_config(fn):
    """Runs an oracle case, for half of the cases (chosen by a hash of the case, so replays agree), while the GLOBAL
    configuration holds the opposite of every option the case passes explicitly (alternative, equal_var, use_t,
    confidence_level). Explicit arguments win over global defaults, so the result must not change."""
    import functools

    @functools.wraps(fn)
    def wrapper(case, *a, **kw):
        key = hashlib.sha1(json.dumps(case, sort_keys=True, default=str).encode()).hexdigest()
        opts = contrary_options(case) if int(key, 16) % 2 == 0 else {}
        if not opts:
            return fn(case, *a, **kw)
        import tea_tasting as tt
        with tt.config_context(**opts):
            return fn(case, *a, **kw)
    return wrapper


def same_numbers(got, exp, rtol=1e-9):
    """Exact equality of the model's and the implementation's canonical outputs; when they are not identical, the same
    structure with every numeric leaf within rtol (relative). The fallback exists for one reason: a float literal in the
    source (0.5 * x instead of x / 2) turns the implementation's exact Fractions into floats, so that identical
    computations differ in the last bits; no realistic defect changes a result by less than 1e-9 relative."""
    if got == exp:
        return True

    def walk(a, b):
        if isinstance(a, (list, tuple)) and isinstance(b, (list, tuple)):
            return len(a) == len(b) and all(walk(x, y) for x, y in zip(a, b))
        if isinstance(a, str) or isinstance(b, str) or isinstance(a, bool) or isinstance(b, bool):
            return a == b
        try:
            fa, fb = float(a), float(b)
        except (TypeError, ValueError):
            return a == b
        if fa != fa or fb != fb:
            return fa != fa and fb != fb
        if fa in (float("inf"), float("-inf")) or fb in (float("inf"), float("-inf")):
            return fa == fb
        return abs(fa - fb) <= rtol * max(1.0, abs(fa), abs(fb))
    return walk(got, exp)
