"""Random experiment definitions, real runs with fetch counters, and the model term for model/Experiment.v."""
from __future__ import annotations

import math
import re

import backends as B
import harness as H

COLS = ["x", "y", "z", "w"]


def make_metrics(rng, kinds=("mean", "ratio", "srm", "custom_aggr", "quantile", "custom_gran", "plain")):
    """Returns list of (name, kind, params). Parameters are plain data so that cases can be replayed."""
    n = rng.randint(1, 5)
    out = []
    for i in range(n):
        k = rng.choice(kinds)
        c = rng.sample(COLS, 4)
        if k == "mean":
            p = {"value": c[0], "covariate": c[1] if rng.random() < 0.4 else None}
        elif k == "ratio":
            p = {"numer": c[0], "denom": c[1], "ncov": c[2] if rng.random() < 0.3 else None}
        elif k == "srm":
            p = {}
        elif k in ("custom_aggr", "power_aggr"):
            p = {"has_count": rng.random() < 0.7, "mean": rng.sample(COLS, rng.randint(0, 2)),
                 "var": rng.sample(COLS, rng.randint(0, 2)),
                 "cov": [tuple(rng.sample(COLS, 2)) for _ in range(rng.randint(0, 2))]}
            if not (p["has_count"] or p["mean"] or p["var"] or p["cov"]):
                p["has_count"] = True
        elif k == "quantile":
            p = {"column": c[0], "q": rng.choice([0.25, 0.5, 0.9])}
        elif k == "custom_gran":
            p = {"cols": rng.sample(COLS, rng.randint(1, 3))}
        else:
            p = {}
        out.append((f"m{i}", k, p))
    return out


def build(metrics, seed=7):
    import tea_tasting as tt
    import tea_tasting.metrics as TM

    class CustomAggr(TM.MetricBaseAggregated):
        def __init__(self, p):
            self.p = p

        @property
        def aggr_cols(self):
            return TM.AggrCols(has_count=self.p["has_count"], mean_cols=tuple(self.p["mean"]),
                               var_cols=tuple(self.p["var"]), cov_cols=tuple(tuple(x) for x in self.p["cov"]))

        def analyze_aggregates(self, control, treatment):
            out = {}
            for tag, a in (("c", control), ("t", treatment)):
                if self.p["has_count"]:
                    out[tag + "_count"] = a.count()
                for c in self.p["mean"]:
                    out[f"{tag}_mean_{c}"] = a.mean(c)
                for c in self.p["var"]:
                    out[f"{tag}_var_{c}"] = a.var(c)
                for l, r in self.p["cov"]:
                    out[f"{tag}_cov_{l}_{r}"] = a.cov(l, r)
            return out

    class CustomGran(TM.MetricBaseGranular):
        def __init__(self, p):
            self.p = p

        @property
        def cols(self):
            return tuple(self.p["cols"])

        def analyze_granular(self, control, treatment):
            out = {"c_rows": control.num_rows, "t_rows": treatment.num_rows}
            # side channel (not part of the result): which columns were handed over
            self.seen_columns = (sorted(control.column_names), sorted(treatment.column_names))
            for c in self.p["cols"]:
                out["c_sum_" + c] = sum(control[c].to_pylist())
                out["t_sum_" + c] = sum(treatment[c].to_pylist())
            return out

    class Plain(TM.MetricBase):
        calls = []

        def analyze(self, data, control, treatment, variant):
            Plain.calls.append((control, treatment, variant, type(data).__name__))
            return {"plain": 1}
    class PowerAggr(TM.MetricBase, TM.PowerBaseAggregated):
        """power analysis from aggregates (PowerBaseAggregated) although the ANALYSIS is not aggregated"""
        def __init__(self, p):
            self.p = p
            self.received = None

        @property
        def aggr_cols(self):
            return TM.AggrCols(has_count=self.p["has_count"], mean_cols=tuple(self.p["mean"]),
                               var_cols=tuple(self.p["var"]), cov_cols=tuple(tuple(x) for x in self.p["cov"]))

        def analyze(self, data, control, treatment, variant):
            Plain.calls.append((control, treatment, variant, type(data).__name__))
            return {"plain": 1}

        def solve_power_from_aggregates(self, data, parameter="rel_effect_size"):
            out, missing = {}, []
            for what, keys, get in (("count", ["_"] if self.p["has_count"] else [], lambda k: data.count()),
                                    ("mean", self.p["mean"], data.mean), ("var", self.p["var"], data.var),
                                    ("cov", [tuple(x) for x in self.p["cov"]], lambda k: data.cov(*k))):
                for k in keys:
                    try:
                        out[f"{what}:{k}"] = float(get(k))
                    except Exception as e:  # noqa: BLE001
                        missing.append(f"{what}:{k} ({type(e).__name__})")
            self.received = (type(data).__name__, missing)
            return out

    class PowerPlain(TM.MetricBase, TM.PowerBase):
        """a power analysis that reads the data itself"""
        calls = []

        def __init__(self, name):
            self.name = name

        def analyze(self, data, control, treatment, variant):
            Plain.calls.append((control, treatment, variant, type(data).__name__))
            return {"plain": 1}

        def solve_power(self, data, parameter="rel_effect_size"):
            PowerPlain.calls.append((self.name, type(data).__name__, parameter))
            return {"power_plain": 1}
    PowerPlain.calls = []
    Plain.PowerPlain = PowerPlain
    objs = {}
    for name, k, p in metrics:
        if k == "power_aggr":
            objs[name] = PowerAggr(p)
        elif k == "power_plain":
            objs[name] = PowerPlain(name)
        elif k == "mean":
            objs[name] = tt.Mean(p["value"], p["covariate"])
        elif k == "ratio":
            objs[name] = tt.RatioOfMeans(p["numer"], p["denom"], p["ncov"])
        elif k == "srm":
            objs[name] = tt.SampleRatio()
        elif k == "custom_aggr":
            objs[name] = CustomAggr(p)
        elif k == "quantile":
            objs[name] = tt.Quantile(p["column"], p["q"], n_resamples=20, random_state=seed)
        elif k == "custom_gran":
            objs[name] = CustomGran(p)
        else:
            objs[name] = Plain()
    return objs, Plain


def rand_data(rng, variants, rows_per):
    data = {"variant": [], **{c: [] for c in COLS}, "junk": []}
    for v in variants:
        for _ in range(rng.choice(rows_per)):
            data["variant"].append(v)
            for i, c in enumerate(COLS):
                data[c].append(float(rng.randint(1, 40)) / rng.choice([1, 2, 4]) + i)
            data["junk"].append(rng.randint(0, 9))
    idx = list(range(len(data["variant"])))
    rng.shuffle(idx)
    return {k: [v[i] for i in idx] for k, v in data.items()}


# ------------------------------------------------------------------ model side
def coq_spec(ac):
    s = lambda x: H.slit(x)
    return ("(mk_spec " + ("true" if ac.has_count else "false") + " [" + "; ".join(s(c) for c in ac.mean_cols) + "] ["
            + "; ".join(s(c) for c in ac.var_cols) + "] [" + "; ".join(f"({s(a)}, {s(b)})" for a, b in ac.cov_cols) + "])")


def coq_metrics(objs):
    import tea_tasting.metrics as TM
    out = []
    for name, m in objs.items():
        if isinstance(m, TM.MetricBaseAggregated):
            out.append("MAggr " + coq_spec(m.aggr_cols))
        elif isinstance(m, TM.MetricBaseGranular):
            out.append("MGran [" + "; ".join(H.slit(c) for c in m.cols) + "]")
        else:
            out.append("MPlain")
    return "[" + "; ".join(out) + "]"


HEADER = ("From Coq Require Import ZArith String List Bool.\nFrom TT Require Import genP.ExperimentPairs model.Experiment.\n"
          "Import ListNotations.\n"
          "Definition showf (f : fetch) : list (Z * Z) := match f with\n"
          "  | FAggr s g => [(1, Z.of_nat (spec_len s)); (11, if has_count s then 1 else 0); (12, Z.of_nat (length (mean_cols s)));\n"
          "                  (13, Z.of_nat (length (var_cols s))); (14, Z.of_nat (length (cov_cols s))); (15, match g with Some _ => 1 | None => 0 end)]\n"
          "  | FGran c _ => [(2, Z.of_nat (length c))]\n  | FVariants _ => [(3, 0)]\n  | FPlain i p => [(4, Z.of_nat i); (41, fst p); (42, snd p)] end%Z.\n"
          "Definition showt (o : option (list fetch)) : list (Z * Z) := match o with None => [((-1)%Z, 0%Z)] | Some l => flat_map showf l end.\n"
          "Definition showp (l : list (Z * Z)) : list (Z * Z) := ((-5)%Z, 0%Z) :: l.\n")


def coq_power(objs):
    """power classes of the metrics, as Experiment.solve_power tests them (isinstance)"""
    import tea_tasting.metrics as TM
    out = []
    for name, m in objs.items():
        if isinstance(m, TM.PowerBaseAggregated):
            out.append("PwAggr " + coq_spec(m.aggr_cols))
        elif isinstance(m, TM.PowerBase):
            out.append("PwPlain")
        else:
            out.append("PwNone")
    return "[" + "; ".join(out) + "]"


def power_term(objs):
    ps = coq_power(objs)
    return (f"showt (Some (solve_power_trace {ps})) ++ [((-7)%Z, 0%Z)] ++ "
            f"map (fun i => (7%Z, Z.of_nat i)) (power_entries 0 {ps})")


def parse_power(s):
    pairs = [(int(a), int(b)) for a, b in re.findall(r"\((-?\d+), (-?\d+)\)", s)]
    i7 = pairs.index((-7, 0))
    return decode(pairs[:i7]), [b for a, b in pairs[i7 + 1:]]


def model_term(objs, control, all_variants, variants):
    ms = coq_metrics(objs)
    c = "None" if control is None else f"(Some ({control})%Z)"
    vs = "[" + "; ".join(f"({v})%Z" for v in sorted(variants)) + "]"
    av = "true" if all_variants else "false"
    return (f"showt (analyze_trace {ms} \"variant\" {c} {av} {vs}) ++ showp (variant_pairs {c} {vs}) "
            f"++ [((-6)%Z, 0%Z)] ++ showt (Some (solve_power_trace {coq_power(objs)}))")


def parse_model(s):
    pairs = [(int(a), int(b)) for a, b in re.findall(r"\((-?\d+), (-?\d+)\)", s)]
    i5 = pairs.index((-5, 0))
    i6 = pairs.index((-6, 0))
    return decode(pairs[:i5]), pairs[i5 + 1:i6], decode(pairs[i6 + 1:])


def decode(pairs):
    if pairs and pairs[0][0] == -1:
        return None
    out = []
    for a, b in pairs:
        if a == 1:
            out.append({"kind": "aggr", "len": b})
        elif a in (11, 12, 13, 14, 15):
            out[-1][{11: "has_count", 12: "n_mean", 13: "n_var", 14: "n_cov", 15: "grouped"}[a]] = b
        elif a == 2:
            out.append({"kind": "gran", "n_cols": b})
        elif a == 3:
            out.append({"kind": "variants"})
        elif a == 4:
            out.append({"kind": "plain", "metric": b})
        elif a in (41, 42):
            out[-1]["c" if a == 41 else "t"] = b
    return out


# ------------------------------------------------------------------ observed side
def classify(log, n_rows_total, all_columns=None, n_variants=None):
    """all_columns / n_variants: the columns of the input table and its number of variants.  polars' unique(variant).collect()
    in Experiment._read_variants keeps every column of the table but only one row per variant: that is the variants fetch
    (a row-level fetch never holds an undeclared column such as `junk`)."""
    out = []
    for rec in log:
        cols = rec["columns"]
        if (all_columns is not None and sorted(cols) == sorted(all_columns) and rec["rows"] == n_variants
                and not any(c.startswith(("_count", "_mean__", "_var__", "_cov__")) for c in cols)):
            out.append({"kind": "variants", "rows": rec["rows"]})
            continue
        if any(c.startswith(("_count", "_mean__", "_var__", "_cov__")) for c in cols):
            out.append({"kind": "aggr", "rows": rec["rows"], "grouped": int("variant" in cols),
                        "has_count": int("_count" in cols), "n_mean": sum(c.startswith("_mean__") for c in cols),
                        "n_var": sum(c.startswith("_var__") for c in cols), "n_cov": sum(c.startswith("_cov__") for c in cols)})
        elif cols == ["variant"]:
            out.append({"kind": "variants", "rows": rec["rows"]})
        else:
            out.append({"kind": "gran", "rows": rec["rows"], "n_cols": len([c for c in cols if c != "variant"]),
                        "columns": sorted(cols)})
    return out


# ------------------------------------------------------------------ power analysis dispatch (C03 / C12)
POWER_KINDS = ("mean", "ratio", "srm", "custom_aggr", "quantile", "power_aggr", "power_plain")


def run_power(case):
    """Experiment.solve_power on a lazy backend with fetch counters. Returns (objs, observed fetches, names of the plain
    power calls in order, result keys, failures about what the aggregated power metrics received)."""
    import random
    import backends as B
    import tea_tasting as tt
    objs, Plain = build(case["metrics"])
    for m in objs.values():
        if isinstance(m, (tt.Mean, tt.RatioOfMeans)):
            m.rel_effect_size = 0.2
    data = rand_data(random.Random(case["data_seed"]), [0, 1], [5, 9])
    fails = []
    try:
        tab = B.make_table(case["backend"], data)
        with B.fetch_counters() as log:
            res = tt.Experiment(objs).solve_power(tab, "power")
    finally:
        B.cleanup()
    observed = classify(log, len(data["variant"]), list(data), 2)
    for name, m in objs.items():
        if type(m).__name__ == "PowerAggr":
            if m.received is None:
                fails.append(f"{name}: PowerBaseAggregated metric was not solved")
            elif m.received[0] != "Aggregates" or m.received[1]:
                fails.append(f"{name}: received {m.received[0]}, declared statistics missing: {m.received[1]}")
    for name in res:
        m = objs[name]
        if isinstance(m, (tt.Mean, tt.RatioOfMeans)):
            alone = m.solve_power(B.make_table("pandas", data), "power")
            a = [tuple(round(float(x), 9) for x in r) for r in res[name]]
            b = [tuple(round(float(x), 9) for x in r) for r in alone]
            if a != b:
                fails.append(f"{name}: entry {a} differs from the metric's own solve_power {b}")
    for c in Plain.PowerPlain.calls:
        if c[2] != "power":
            fails.append(f"{c[0]}: the plain power metric was asked for {c[2]!r}, Experiment.solve_power was called with 'power'")
    return objs, observed, [c[0] for c in Plain.PowerPlain.calls], list(res), fails


def power_correspondence(ctx, tag, n):
    """observed solve_power behaviour = model/Experiment.solve_power_trace / power_entries (vm_compute)"""
    import backends as B
    cases, terms, runs = [], [], []
    for i in range(n):
        case = {"metrics": make_metrics(ctx.rng, kinds=POWER_KINDS), "backend": ctx.rng.choice(B.LAZY_KINDS),
                "data_seed": ctx.rng.randint(0, 10**9), "power": True}
        try:
            objs, observed, plain_calls, keys, fails = run_power(case)
        except Exception as e:  # noqa: BLE001
            ctx.oblige(False, "correspondence", "Experiment.solve_power on metrics of mixed power classes",
                       f"{type(e).__name__}: {e}", case)
            continue
        cases.append(case)
        runs.append((objs, observed, plain_calls, keys, fails))
        terms.append(power_term(objs))
        ctx.count("power:backend:" + case["backend"])
        ctx.case_seen(repr(case), nontrivial=len(case["metrics"]) > 1)
    res, errs = H.coq_eval_shards(tag, HEADER, terms)
    for e in errs:
        ctx.oblige(False, "correspondence", "vm_compute evaluation of power dispatch", e)
    for case, r, (objs, observed, plain_calls, keys, fails) in zip(cases, res, runs):
        if r is None:
            continue
        mtrace, mentries = parse_power(r)
        names = list(objs)
        fails = list(fails)
        maggr = [f for f in mtrace if f["kind"] == "aggr"]
        mplain = [names[f["metric"]] for f in mtrace if f["kind"] == "plain"]
        oaggr = [f for f in observed if f["kind"] == "aggr"]
        if len(observed) != len(oaggr) or len(oaggr) != len(maggr):
            fails.append(f"fetches {observed} != model {maggr}")
        for o, m in zip(oaggr, maggr):
            for k in ("n_mean", "n_var", "n_cov", "grouped"):
                if o[k] != m[k]:
                    fails.append(f"power query {k}: observed {o[k]} model {m[k]}")
            if o["rows"] != 1 or (m["has_count"] and not o["has_count"]):
                fails.append(f"power query rows={o['rows']} has_count={o['has_count']}")
        if plain_calls != mplain:
            fails.append(f"metrics solving on the raw data {plain_calls} != model {mplain}")
        if keys != [names[i] for i in mentries]:
            fails.append(f"result entries {keys} != model {[names[i] for i in mentries]}")
        ctx.oblige(not fails, "correspondence", "Experiment.solve_power dispatch, query and entries = model/Experiment.v (power classes)",
                   "; ".join(fails), case)
        ctx.sample({"power_metrics": [(n, k) for n, k, _ in case["metrics"]], "observed": observed, "entries": keys}, limit=2)
