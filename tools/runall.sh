#!/bin/bash
# run every claimed check (quick tier by default) on the current /repo tree; prints one line per check
cd /verif
git -C /repo diff --quiet || echo "WARNING: /repo working tree is not clean"
ids=$(python3 -c "import json; print(' '.join(c['property_id'] for c in json.load(open('MANIFEST.json'))['checks']))")
fail=0
for c in ${@:-$ids}; do
  out=$(./check $c --tier ${VERIF_TIER:-quick} 2>&1 | grep -v conda)
  echo "$out" | grep -q "^VIOLATION" && fail=1
  echo "$out" | grep "^VIOLATION\|^$c:" | tr '\n' ' '; echo
done
exit $fail
