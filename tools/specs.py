"""Translation targets: which Python functions become which Gallina definitions."""
from py2coq import (AGG, ALT, BOOL, DIST, EXT, NUM, STR, NAT, Func, Record, opt, tup, lst, fun)

AGG_REC = Record(AGG, "mk_aggregates", {
    "count_": opt(NUM),
    "mean_": ("dict", STR, NUM),
    "var_": ("dict", STR, NUM),
    "cov_": ("dict", tup(STR, STR), NUM),
})

AGGR = {
    "source": "aggr.py",
    "records": {AGG: AGG_REC},
    "ctors": {"Aggregates": AGG_REC},
    "self_types": {"Aggregates": AGG},
    "targets": [
        {"py": "_sorted_tuple", "coq": "sorted_tuple"},
        {"py": "Aggregates.count", "coq": "agg_count"},
        {"py": "Aggregates.mean", "coq": "agg_mean"},
        {"py": "Aggregates.var", "coq": "agg_var"},
        {"py": "Aggregates.cov", "coq": "agg_cov"},
        {"py": "Aggregates.ratio_var", "coq": "agg_ratio_var"},
        {"py": "Aggregates.ratio_cov", "coq": "agg_ratio_cov"},
        {"py": "_add_mean", "coq": "add_mean"},
        {"py": "_add_var", "coq": "add_var"},
        {"py": "_add_cov", "coq": "add_cov"},
        {"py": "Aggregates.__add__", "coq": "agg_add"},
    ],
}

SPECS = {"Aggr": AGGR}


# ----------------------------------------------------------------------------- metrics/mean.py
import ast as _ast

ROM = "rom"
ROM_REC = Record(ROM, "mk_rom", {
    "numer": STR, "denom": opt(STR), "numer_covariate": opt(STR), "denom_covariate": opt(STR),
    "alternative": ALT, "confidence_level": NUM, "equal_var": BOOL, "use_t": BOOL,
    "alpha": NUM, "ratio": NUM, "power": NUM,
}, prefix="cfg_")
MR_REC = Record("mean_result", "mk_mean_result", {
    "control": NUM, "treatment": NUM, "effect_size": NUM,
    "effect_size_ci_lower": EXT, "effect_size_ci_upper": EXT,
    "rel_effect_size": NUM, "rel_effect_size_ci_lower": EXT, "rel_effect_size_ci_upper": EXT,
    "pvalue": NUM, "statistic": NUM,
}, prefix="mr_")


def _record_decl(rec, tyname):
    from py2coq import coq_ty
    fields = "; ".join(f"{rec.proj(f)} : {coq_ty(t)}" for f, t in rec.fields.items())
    return f"Record {tyname} := {rec.ctor} {{ {fields} }}.\n"


def _mean_preamble(tr):
    from py2coq import Unsupported
    # the configuration record mirrors the attributes RatioOfMeans.__init__ stores on self
    init = tr.find_def("RatioOfMeans.__init__")
    stored = set()
    for n in _ast.walk(init):
        if isinstance(n, _ast.Assign):
            for t in n.targets:
                if isinstance(t, _ast.Attribute) and isinstance(t.value, _ast.Name) and t.value.id == "self":
                    stored.add(t.attr)
    missing = [f for f in ROM_REC.fields if f not in stored]
    if missing:
        raise Unsupported(f"RatioOfMeans.__init__ no longer stores {missing}")
    # result record mirrors class MeanResult
    cls = tr.find_def("MeanResult")
    fields = [n.target.id for n in cls.body if isinstance(n, _ast.AnnAssign)]
    if fields != list(MR_REC.fields):
        raise Unsupported(f"MeanResult fields changed: {fields}")
    def setter(field, ty):
        args = " ".join(("v" if f == field else f"({ROM_REC.proj(f)} c)") for f in ROM_REC.fields)
        return f"Definition rom_with_{field} (c : rom) (v : {ty}) : rom := mk_rom {args}.\n"
    setters = (setter("alternative", "alternative") + setter("confidence_level", "num")
               + setter("equal_var", "bool") + setter("use_t", "bool"))
    # class Mean(RatioOfMeans): __init__ forwards to super().__init__ - the wiring becomes the definition mean_cfg
    minit = tr.find_def("Mean.__init__")
    sup = [n for n in _ast.walk(minit) if isinstance(n, _ast.Call) and _ast.unparse(n.func) == "super().__init__"]
    if len(sup) != 1 or sup[0].args:
        raise Unsupported("Mean.__init__: expected exactly one keyword-only super().__init__ call")
    kw = {k.arg: k.value for k in sup[0].keywords}
    from py2coq import coq_ty
    params, args = ["(v_value : string)", "(v_covariate : option string)"], []
    for f, t in ROM_REC.fields.items():
        if f not in kw:
            raise Unsupported(f"Mean.__init__ does not pass {f}")
        v = kw[f]
        if isinstance(v, _ast.Constant) and v.value is None:
            args.append("None")
        elif isinstance(v, _ast.Name) and v.id == "value":
            args.append("v_value")
        elif isinstance(v, _ast.Name) and v.id == "covariate":
            args.append("v_covariate")
        elif isinstance(v, _ast.Name) and v.id == f:
            params.append(f"(v_{f} : {coq_ty(t)})")
            args.append(f"v_{f}")
        else:
            raise Unsupported(f"Mean.__init__ passes {f}={_ast.unparse(v)}")
    wiring = ("(* Mean.__init__: " + _ast.unparse(sup[0])[:200].replace("*)", "* )") + " *)\n"
              f"Definition mean_cfg {' '.join(params)} : rom := mk_rom {' '.join(args)}.\n")
    return _record_decl(ROM_REC, "rom") + _record_decl(MR_REC, "mean_result") + setters + wiring + "\n"


SD_RET = tup(NUM, DIST, opt(DIST))
MEAN = {
    "source": "metrics/mean.py",
    "uses": ["Aggr"],
    "section": "Variable fam : dist_family num.",
    "records": {ROM: ROM_REC, "mean_result": MR_REC},
    "ctors": {"MeanResult": MR_REC},
    "self_types": {"RatioOfMeans": ("rec", ROM)},
    "ann": {
        "MeanResult": ("rec", "mean_result"),
        "tuple[float, scipy.stats.rv_frozen, scipy.stats.rv_frozen | None]": SD_RET,
    },
    "preamble": _mean_preamble,
    "targets": [
        {"py": "RatioOfMeans._covariate_cov", "coq": "rom_covariate_cov"},
        {"py": "RatioOfMeans._covariate_coef", "coq": "rom_covariate_coef"},
        {"py": "RatioOfMeans._metric_mean", "coq": "rom_metric_mean"},
        {"py": "RatioOfMeans._metric_var", "coq": "rom_metric_var"},
        {"py": "RatioOfMeans._scale_and_distr", "coq": "rom_scale_and_distr"},
        {"py": "RatioOfMeans._analyze_stats", "coq": "rom_analyze_stats"},
        {"py": "RatioOfMeans.analyze_aggregates", "coq": "rom_analyze_aggregates"},
        {"py": "RatioOfMeans._power_from_stats", "coq": "rom_power_from_stats"},
    ],
}
AGGR["targets"].append({"raw": lambda tr: (
    "(* Aggregates.with_zero_div: wraps every number in utils.Float/Int so that x/0 gives inf/nan instead of raising.\n"
    "   On the number line of this model (no zero divisors under the theorems' hypotheses) it is the identity;\n"
    "   the wrapper arithmetic itself is the subject of C18. *)\n"
    "Definition agg_with_zero_div (v_self : (aggregates num)) : (aggregates num) := v_self.\n"),
    "func": ("Aggregates.with_zero_div", Func("agg_with_zero_div", [("self", AGG, None)], AGG, None, AGG))})

SPECS["Mean"] = MEAN


# instance-independent models (over lib/PyVal): (name, translator module, source file)
PLAIN = [("Utils", "utils2coq", "utils.py")]
