"""Translation targets: which Python functions become which Gallina definitions."""
from py2coq import (AGG, ALT, BOOL, DIST, EXT, NUM, STR, NAT, Func, Record, opt, tup, lst, fun)

AGG_REC = Record(AGG, "mk_aggregates", {
    "count_": opt(NUM),
    "mean_": ("dict", STR, NUM),
    "var_": ("dict", STR, NUM),
    "cov_": ("dict", tup(STR, STR), NUM),
})

AGGR = {
    "source": "aggr.py",
    "records": {AGG: AGG_REC},
    "ctors": {"Aggregates": AGG_REC},
    "self_types": {"Aggregates": AGG},
    "targets": [
        {"py": "_sorted_tuple", "coq": "sorted_tuple"},
        {"py": "Aggregates.count", "coq": "agg_count"},
        {"py": "Aggregates.mean", "coq": "agg_mean"},
        {"py": "Aggregates.var", "coq": "agg_var"},
        {"py": "Aggregates.cov", "coq": "agg_cov"},
        {"py": "Aggregates.ratio_var", "coq": "agg_ratio_var"},
        {"py": "Aggregates.ratio_cov", "coq": "agg_ratio_cov"},
        {"py": "_add_mean", "coq": "add_mean"},
        {"py": "_add_var", "coq": "add_var"},
        {"py": "_add_cov", "coq": "add_cov"},
        {"py": "Aggregates.__add__", "coq": "agg_add"},
    ],
}

SPECS = {"Aggr": AGGR}
