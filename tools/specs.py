"""Translation targets: which Python functions become which Gallina definitions."""
from py2coq import (AGG, ALT, BOOL, DIST, EXT, NUM, STR, NAT, Func, Record, opt, tup, lst, fun)

AGG_REC = Record(AGG, "mk_aggregates", {
    "count_": opt(NUM),
    "mean_": ("dict", STR, NUM),
    "var_": ("dict", STR, NUM),
    "cov_": ("dict", tup(STR, STR), NUM),
})

AGGR = {
    "source": "aggr.py",
    "records": {AGG: AGG_REC},
    "ctors": {"Aggregates": AGG_REC},
    "self_types": {"Aggregates": AGG},
    "targets": [
        {"py": "_sorted_tuple", "coq": "sorted_tuple"},
        {"py": "Aggregates.count", "coq": "agg_count"},
        {"py": "Aggregates.mean", "coq": "agg_mean"},
        {"py": "Aggregates.var", "coq": "agg_var"},
        {"py": "Aggregates.cov", "coq": "agg_cov"},
        {"py": "Aggregates.ratio_var", "coq": "agg_ratio_var"},
        {"py": "Aggregates.ratio_cov", "coq": "agg_ratio_cov"},
        {"py": "_add_mean", "coq": "add_mean"},
        {"py": "_add_var", "coq": "add_var"},
        {"py": "_add_cov", "coq": "add_cov"},
        {"py": "Aggregates.__add__", "coq": "agg_add"},
    ],
}

SPECS = {"Aggr": AGGR}


# ----------------------------------------------------------------------------- metrics/mean.py
import ast as _ast

ROM = "rom"
ROM_REC = Record(ROM, "mk_rom", {
    "numer": STR, "denom": opt(STR), "numer_covariate": opt(STR), "denom_covariate": opt(STR),
    "alternative": ALT, "confidence_level": NUM, "equal_var": BOOL, "use_t": BOOL,
    "alpha": NUM, "ratio": NUM, "power": NUM,
}, prefix="cfg_")
MR_REC = Record("mean_result", "mk_mean_result", {
    "control": NUM, "treatment": NUM, "effect_size": NUM,
    "effect_size_ci_lower": EXT, "effect_size_ci_upper": EXT,
    "rel_effect_size": NUM, "rel_effect_size_ci_lower": EXT, "rel_effect_size_ci_upper": EXT,
    "pvalue": NUM, "statistic": NUM,
}, prefix="mr_")


def _record_decl(rec, tyname):
    from py2coq import coq_ty
    fields = "; ".join(f"{rec.proj(f)} : {coq_ty(t)}" for f, t in rec.fields.items())
    return f"Record {tyname} := {rec.ctor} {{ {fields} }}.\n"


def _mean_preamble(tr):
    from py2coq import Unsupported
    # the configuration record mirrors the attributes RatioOfMeans.__init__ stores on self
    init = tr.find_def("RatioOfMeans.__init__")
    stored = set()
    for n in _ast.walk(init):
        if isinstance(n, _ast.Assign):
            for t in n.targets:
                if isinstance(t, _ast.Attribute) and isinstance(t.value, _ast.Name) and t.value.id == "self":
                    stored.add(t.attr)
    missing = [f for f in ROM_REC.fields if f not in stored]
    if missing:
        raise Unsupported(f"RatioOfMeans.__init__ no longer stores {missing}")
    # result record mirrors class MeanResult
    cls = tr.find_def("MeanResult")
    fields = [n.target.id for n in cls.body if isinstance(n, _ast.AnnAssign)]
    if fields != list(MR_REC.fields):
        raise Unsupported(f"MeanResult fields changed: {fields}")
    def setter(field, ty):
        args = " ".join(("v" if f == field else f"({ROM_REC.proj(f)} c)") for f in ROM_REC.fields)
        return f"Definition rom_with_{field} (c : rom) (v : {ty}) : rom := mk_rom {args}.\n"
    setters = (setter("alternative", "alternative") + setter("confidence_level", "num")
               + setter("equal_var", "bool") + setter("use_t", "bool"))
    # class Mean(RatioOfMeans): __init__ forwards to super().__init__ - the wiring becomes the definition mean_cfg
    minit = tr.find_def("Mean.__init__")
    sup = [n for n in _ast.walk(minit) if isinstance(n, _ast.Call) and _ast.unparse(n.func) == "super().__init__"]
    if len(sup) != 1 or sup[0].args:
        raise Unsupported("Mean.__init__: expected exactly one keyword-only super().__init__ call")
    kw = {k.arg: k.value for k in sup[0].keywords}
    from py2coq import coq_ty
    params, args = ["(v_value : string)", "(v_covariate : option string)"], []
    for f, t in ROM_REC.fields.items():
        if f not in kw:
            raise Unsupported(f"Mean.__init__ does not pass {f}")
        v = kw[f]
        if isinstance(v, _ast.Constant) and v.value is None:
            args.append("None")
        elif isinstance(v, _ast.Name) and v.id == "value":
            args.append("v_value")
        elif isinstance(v, _ast.Name) and v.id == "covariate":
            args.append("v_covariate")
        elif isinstance(v, _ast.Name) and v.id == f:
            params.append(f"(v_{f} : {coq_ty(t)})")
            args.append(f"v_{f}")
        else:
            raise Unsupported(f"Mean.__init__ passes {f}={_ast.unparse(v)}")
    wiring = ("(* Mean.__init__: " + _ast.unparse(sup[0])[:200].replace("*)", "* )") + " *)\n"
              f"Definition mean_cfg {' '.join(params)} : rom := mk_rom {' '.join(args)}.\n")
    return _record_decl(ROM_REC, "rom") + _record_decl(MR_REC, "mean_result") + setters + wiring + "\n"


SD_RET = tup(NUM, DIST, opt(DIST))
MEAN = {
    "source": "metrics/mean.py",
    "uses": ["Aggr"],
    "section": "Variable fam : dist_family num.\n(* scipy.optimize.brentq(fn, lo, hi): an oracle *)\nVariable solver : (num -> num) -> num -> num -> num.",
    "allow_half_defined": True,
    "records": {ROM: ROM_REC, "mean_result": MR_REC},
    "ctors": {"MeanResult": MR_REC},
    "self_types": {"RatioOfMeans": ("rec", ROM)},
    "ann": {
        "MeanResult": ("rec", "mean_result"),
        "tuple[float, scipy.stats.rv_frozen, scipy.stats.rv_frozen | None]": SD_RET,
    },
    "preamble": _mean_preamble,
    "targets": [
        {"py": "RatioOfMeans._covariate_cov", "coq": "rom_covariate_cov"},
        {"py": "RatioOfMeans._covariate_coef", "coq": "rom_covariate_coef"},
        {"py": "RatioOfMeans._metric_mean", "coq": "rom_metric_mean"},
        {"py": "RatioOfMeans._metric_var", "coq": "rom_metric_var"},
        {"py": "RatioOfMeans._scale_and_distr", "coq": "rom_scale_and_distr"},
        {"py": "RatioOfMeans._analyze_stats", "coq": "rom_analyze_stats"},
        {"py": "RatioOfMeans.analyze_aggregates", "coq": "rom_analyze_aggregates"},
        {"py": "RatioOfMeans._power_from_stats", "coq": "rom_power_from_stats"},
        {"raw": lambda tr: _find_boundary_emit(tr),
         "func": ("_find_boundary", Func("find_boundary", [("fn", fun(NUM, NUM), None), ("init", NUM, None),
                                                           ("mult", NUM, ("(nlit 10)", NUM))], NUM))},
        {"py": "RatioOfMeans._solve_power_from_stats", "coq": "rom_solve_power_from_stats"},
        {"raw": lambda tr: _power_rows_emit(tr)},
    ],
}


_SPFA_WANT = """tea_tasting.utils.check_scalar(parameter, 'parameter', in_={'power', 'effect_size', 'rel_effect_size', 'n_obs'})
data = data.with_zero_div()
covariate_coef = self._covariate_coef(data)
covariate_mean = data.mean(self.numer_covariate) / data.mean(self.denom_covariate)
metric_mean = self._metric_mean(data, covariate_coef, covariate_mean)
power, effect_size, rel_effect_size, n_obs = self._validate_power_parameters(metric_mean=metric_mean, sample_count=data.count(), parameter=parameter)
result = MeanPowerResults()
for effect_size_i, rel_effect_size_i in zip(effect_size, rel_effect_size, strict=True):
    for n_obs_i in n_obs:
        parameter_value = self._solve_power_from_stats(sample_var=self._metric_var(data, covariate_coef), sample_count=n_obs_i, effect_size=effect_size_i, power=power)
        result.append(MeanPowerResult(power=parameter_value if parameter == 'power' else power, effect_size=parameter_value if parameter in {'effect_size', 'rel_effect_size'} else effect_size_i, rel_effect_size=parameter_value / metric_mean if parameter in {'effect_size', 'rel_effect_size'} else rel_effect_size_i, n_obs=math.ceil(parameter_value) if parameter == 'n_obs' else n_obs_i))
return result"""
_VPP_WANT = """n_obs = None
effect_size = None
rel_effect_size = None
power = None
if parameter in {'power', 'n_obs'}:
    if self.effect_size is None and self.rel_effect_size is None:
        raise ValueError('Both `effect_size` and `rel_effect_size` are `None`. One of them should be defined.')
    effect_size = self.effect_size if self.rel_effect_size is None else tuple((rel_effect_size * metric_mean for rel_effect_size in _to_seq(self.rel_effect_size)))
    rel_effect_size = self.rel_effect_size if self.effect_size is None else tuple((effect_size / metric_mean for effect_size in _to_seq(self.effect_size)))
if parameter in {'power', 'effect_size', 'rel_effect_size'}:
    n_obs = (sample_count,) if self.n_obs is None else self.n_obs
if parameter in {'effect_size', 'rel_effect_size', 'n_obs'}:
    power = self.power
return (power, _to_seq(effect_size), _to_seq(rel_effect_size), _to_seq(n_obs))"""


def _power_rows_emit(tr):
    """solve_power_from_aggregates / _validate_power_parameters: nested loops over sequences and scalar-or-sequence
    attributes.  Template translation: the normalised source text of both functions (and of _to_seq and MeanPowerResult)
    must be exactly the text this template was written for; any edit fails closed."""
    from py2coq import Unsupported

    def body_text(qual):
        d = tr.find_def(qual)
        return "\n".join(_ast.unparse(b) for b in d.body
                         if not (isinstance(b, _ast.Expr) and isinstance(b.value, _ast.Constant)))
    for qual, want in (("RatioOfMeans.solve_power_from_aggregates", _SPFA_WANT), ("RatioOfMeans._validate_power_parameters", _VPP_WANT),
                       ("_to_seq", "if isinstance(x, Sequence):\n    return x\nreturn (x,)")):
        got = body_text(qual)
        from py2coq import alpha_canon
        keep = ("data", "parameter", "metric_mean", "sample_count", "x", "self")
        if alpha_canon(got, keep) != alpha_canon(want, keep):
            import difflib
            diff = "\n".join(list(difflib.unified_diff(want.split("\n"), got.split("\n"), lineterm=""))[:12])
            raise Unsupported(f"{qual} is not the text the row-assembly template was written for:\n{diff}")
    mpr = tr.find_def("MeanPowerResult")
    fields = [b.target.id for b in mpr.body if isinstance(b, _ast.AnnAssign)]
    if fields != ["power", "effect_size", "rel_effect_size", "n_obs"]:
        raise Unsupported(f"MeanPowerResult fields {fields}")
    return (
        "(* ---- power analysis rows: RatioOfMeans._validate_power_parameters and the loops of solve_power_from_aggregates ----\n"
        "   self.effect_size / self.rel_effect_size / self.n_obs are scalars or sequences (_to_seq): a scalar is a one-element\n"
        "   list here.  Outer None of rom_validate_power_parameters = ValueError. *)\n"
        "Inductive power_param := PPower | PEffect | PRelEffect | PNObs.\n"
        "Definition pp_needs_effect (p : power_param) : bool := match p with PPower | PNObs => true | _ => false end.\n"
        "Definition pp_needs_n_obs (p : power_param) : bool := match p with PNObs => false | _ => true end.\n"
        "Definition pp_needs_power (p : power_param) : bool := match p with PPower => false | _ => true end.\n"
        "Definition pp_solves_effect (p : power_param) : bool := match p with PEffect | PRelEffect => true | _ => false end.\n"
        "Record power_row := mk_power_row { pw_power : option num; pw_effect_size : option num; pw_rel_effect_size : option num;\n"
        "                                   pw_n_obs : option num }.\n"
        "Definition to_seq_opt (o : option (list num)) : list (option num) := match o with Some l => map Some l | None => [None] end.\n"
        "Definition rom_validate_power_parameters (v_self : rom) (es rs ns : option (list num)) (v_metric_mean v_sample_count : num)\n"
        "    (p : power_param) : option (option num * list (option num) * list (option num) * list (option num)) :=\n"
        "  if pp_needs_effect p && negb (is_some es) && negb (is_some rs) then None else\n"
        "  let v_effect_size := if pp_needs_effect p then\n"
        "      match rs with None => es | Some rl => Some (map (fun v_rel_effect_size => (v_rel_effect_size * v_metric_mean)%num) rl) end\n"
        "    else None in\n"
        "  let v_rel_effect_size := if pp_needs_effect p then\n"
        "      match es with None => rs | Some el => Some (map (fun v_effect_size => (v_effect_size / v_metric_mean)%num) el) end\n"
        "    else None in\n"
        "  let v_n_obs := if pp_needs_n_obs p then match ns with None => Some [v_sample_count] | Some l => Some l end else None in\n"
        "  let v_power := if pp_needs_power p then Some (cfg_power v_self) else None in\n"
        "  Some (v_power, to_seq_opt v_effect_size, to_seq_opt v_rel_effect_size, to_seq_opt v_n_obs).\n"
        "Definition rom_power_row (v_self : rom) (v_var v_metric_mean : num) (p : power_param) (v_power : option num)\n"
        "    (v_effect_size_i v_rel_effect_size_i v_n_obs_i : option num) : power_row :=\n"
        "  let v_parameter_value := rom_solve_power_from_stats v_self v_var v_n_obs_i v_effect_size_i v_power in\n"
        "  mk_power_row (match p with PPower => Some v_parameter_value | _ => v_power end)\n"
        "               (if pp_solves_effect p then Some v_parameter_value else v_effect_size_i)\n"
        "               (if pp_solves_effect p then Some (v_parameter_value / v_metric_mean)%num else v_rel_effect_size_i)\n"
        "               (match p with PNObs => Some (nceil v_parameter_value) | _ => v_n_obs_i end).\n"
        "(* for ... in zip(effect_size, rel_effect_size, strict=True): for n_obs_i in n_obs: result.append(...) *)\n"
        "Definition rom_power_rows (v_self : rom) (v_var v_metric_mean : num) (p : power_param) (v_power : option num)\n"
        "    (v_effect_size v_rel_effect_size v_n_obs : list (option num)) : list power_row :=\n"
        "  flat_map (fun er => map (fun v_n_obs_i => rom_power_row v_self v_var v_metric_mean p v_power (fst er) (snd er) v_n_obs_i) v_n_obs)\n"
        "           (combine v_effect_size v_rel_effect_size).\n"
        "Definition rom_solve_power_from_aggregates (v_self : rom) (es rs ns : option (list num)) (v_data : aggregates num)\n"
        "    (p : power_param) : option (list power_row) :=\n"
        "  let v_data := agg_with_zero_div v_data in\n"
        "  let v_covariate_coef := rom_covariate_coef v_self v_data in\n"
        "  let v_covariate_mean := ((agg_mean v_data (cfg_numer_covariate v_self)) / (agg_mean v_data (cfg_denom_covariate v_self)))%num in\n"
        "  let v_metric_mean := rom_metric_mean v_self v_data v_covariate_coef v_covariate_mean in\n"
        "  match rom_validate_power_parameters v_self es rs ns v_metric_mean (agg_count v_data) p with\n"
        "  | None => None\n"
        "  | Some (v_power, v_effect_size, v_rel_effect_size, v_n_obs) =>\n"
        "      if negb (Nat.eqb (length v_effect_size) (length v_rel_effect_size)) then None   (* zip(strict=True) *)\n"
        "      else Some (rom_power_rows v_self (rom_metric_var v_self v_data v_covariate_coef) v_metric_mean p v_power\n"
        "                                v_effect_size v_rel_effect_size v_n_obs)\n"
        "  end.\n")


def _find_boundary_emit(tr):
    """while fn(b) > 0: b *= mult; i += 1; if i == MAX_ITER: raise  ->  recursion on the iteration counter"""
    from py2coq import Unsupported
    f = tr.find_def("_find_boundary")
    src = [_ast.unparse(s) for s in f.body]
    want = ["b = init", "i = 0",
            "while fn(b) > 0:\n    b *= mult\n    i += 1\n    if i == MAX_ITER:\n        raise RuntimeError('Cannot find parameter boundaries. Maximum number of iterations is reached.')",
            "return b"]
    from py2coq import alpha_canon
    keep = ("fn", "init", "mult", "MAX_ITER")
    if (alpha_canon(src, keep) != alpha_canon(want, keep) or [a.arg for a in f.args.args] != ["fn", "init", "mult"]
            or _ast.unparse(f.args.defaults[0]) != "10"):
        raise Unsupported("_find_boundary changed: " + repr(src))
    mi = [n for n in tr.tree.body if isinstance(n, _ast.Assign) and _ast.unparse(n.targets[0]) == "MAX_ITER"]
    if len(mi) != 1 or not isinstance(mi[0].value, _ast.Constant):
        raise Unsupported("MAX_ITER")
    k = mi[0].value.value
    return (f"Definition MAX_ITER : nat := {k}.\n"
            "(* _find_boundary: `left` = MAX_ITER - i.  None = RuntimeError (maximum number of iterations) *)\n"
            "Fixpoint find_boundary_from (v_fn : num -> num) (v_mult : num) (left : nat) (v_b : num) : option num :=\n"
            "  if nltb (nlit 0) (v_fn v_b) then\n"
            "    match left with\n    | O => None\n    | S O => None            (* i + 1 = MAX_ITER: raise *)\n"
            "    | S left' => find_boundary_from v_fn v_mult left' (v_b * v_mult)%num\n    end\n"
            "  else Some v_b.\n"
            "Definition find_boundary_opt (v_fn : num -> num) (v_init v_mult : num) : option num :=\n"
            "  find_boundary_from v_fn v_mult MAX_ITER v_init.\n"
            "Definition find_boundary (v_fn : num -> num) (v_init v_mult : num) : num :=\n"
            "  match find_boundary_opt v_fn v_init v_mult with Some b => b | None => nraise end.\n")
def _with_zero_div(tr):
    """Aggregates.with_zero_div must wrap the count with Int and every mean / variance / covariance with numeric."""
    from py2coq import Unsupported
    d = tr.find_def("Aggregates.with_zero_div")
    body = [n for n in d.body if not (isinstance(n, _ast.Expr) and isinstance(n.value, _ast.Constant))]
    want = ("return Aggregates(count_=None if self.count_ is None else tea_tasting.utils.Int(self.count_), "
            "mean_={k: tea_tasting.utils.numeric(v) for k, v in self.mean_.items()}, "
            "var_={k: tea_tasting.utils.numeric(v) for k, v in self.var_.items()}, "
            "cov_={k: tea_tasting.utils.numeric(v) for k, v in self.cov_.items()})")
    from py2coq import alpha_canon
    if len(body) != 1 or alpha_canon(_ast.unparse(body[0])) != alpha_canon(want):
        raise Unsupported("Aggregates.with_zero_div no longer wraps count_ / mean_ / var_ / cov_ with Int / numeric: "
                          + " ".join(_ast.unparse(b) for b in body)[:300])
    return ("(* Aggregates.with_zero_div: wraps every number in utils.Int / numeric (checked above on the source text).\n"
            "   agg_wrap is the identity on the number lines R and Q (no zero divisors under those theorems' hypotheses)\n"
            "   and the Plain -> Wrapped map in the exception semantics of lib/PreludeX.v (C18). *)\n"
            "Definition agg_with_zero_div (v_self : (aggregates num)) : (aggregates num) := agg_wrap v_self.\n")


AGGR["targets"].append({"raw": _with_zero_div,
    "func": ("Aggregates.with_zero_div", Func("agg_with_zero_div", [("self", AGG, None)], AGG, None, AGG))})

SPECS["Mean"] = MEAN


# ----------------------------------------------------------------------------- multiplicity.py
BJ_REC = Record("benjamini", "mk_benjamini", {"alpha": NUM, "m_adj_": NUM}, prefix="bj_")
BF_REC = Record("bonferroni", "mk_bonferroni", {"alpha": NUM, "m": NUM}, prefix="bf_")
SD_REC = Record("sidak", "mk_sidak", {"alpha": NUM, "m": NUM}, prefix="sd_")
ADJ_T = ("funN", (NUM, NUM), tup(NUM, NUM))


def _mult_preamble(tr):
    from py2coq import Unsupported
    out = _record_decl(BJ_REC, "benjamini") + _record_decl(BF_REC, "bonferroni") + _record_decl(SD_REC, "sidak")
    # constructors: check what __init__ stores
    def stored(cls):
        init = tr.find_def(cls + ".__init__")
        d = {}
        for n in init.body:
            if isinstance(n, _ast.Assign) and isinstance(n.targets[0], _ast.Attribute):
                d[n.targets[0].attr] = n.value
        return d
    for cls, rec in (("_Bonferroni", BF_REC), ("_Sidak", SD_REC)):
        d = stored(cls)
        if set(d) != set(rec.fields) or any(_ast.unparse(v) != k for k, v in d.items()):
            raise Unsupported(f"{cls}.__init__ changed: {[(k, _ast.unparse(v)) for k, v in d.items()]}")
    d = stored("_Benjamini")
    want = "m * sum((1 / i for i in range(1, m + 1))) if arbitrary_dependence else m"
    if set(d) != {"alpha", "m_adj_"} or _ast.unparse(d["alpha"]) != "alpha" or _ast.unparse(d["m_adj_"]) != want:
        raise Unsupported("_Benjamini.__init__ changed: " + str({k: _ast.unparse(v) for k, v in d.items()}))
    out += ("(* _Benjamini.__init__: m_adj_ = m * sum(1 / i for i in range(1, m + 1)) if arbitrary_dependence else m *)\n"
            "Definition benjamini_init (v_alpha : num) (v_m : nat) (v_arbitrary_dependence : bool) : benjamini :=\n"
            "  mk_benjamini v_alpha (if v_arbitrary_dependence then (nofnat v_m * nharm v_m)%num else nofnat v_m).\n"
            "Definition bonferroni_init (v_alpha : num) (v_m : nat) : bonferroni := mk_bonferroni v_alpha (nofnat v_m).\n"
            "Definition sidak_init (v_alpha : num) (v_m : nat) : sidak := mk_sidak v_alpha (nofnat v_m).\n\n")
    return out


def _loop(py, coq):
    """for i, metric_result in enumerate(sorted(metric_results, key=lambda d: +-d['pvalue'])[, start=1]): body"""
    def emit(tr):
        from py2coq import Unsupported, fail, coq_ty
        f = tr.find_def(py)
        body = [s for s in f.body if not (isinstance(s, _ast.Expr) and isinstance(s.value, _ast.Constant))]
        loops = [s for s in body if isinstance(s, _ast.For)]
        if len(loops) != 1 or body[-1] is not loops[0]:
            raise Unsupported(f"{py}: expected exactly one trailing for loop")
        loop = loops[0]
        lst = f.args.args[0].arg          # the list of results (whatever it is called)
        carried, uses_m, mvar = [], False, "m"
        for s in body[:-1]:
            if not (isinstance(s, _ast.Assign) and isinstance(s.targets[0], _ast.Name)):
                fail(s, "pre-loop statement")
            nm = s.targets[0].id
            if _ast.unparse(s.value) == f"len({lst})":
                mvar = nm
                uses_m = True
            elif isinstance(s.value, _ast.Constant) and isinstance(s.value.value, int):
                carried.append((nm, s.value.value))
            else:
                fail(s, "pre-loop initialiser")
        it = loop.iter
        if not (isinstance(it, _ast.Call) and _ast.unparse(it.func) == "enumerate" and len(it.args) == 1):
            fail(loop, "loop iterator")
        start = 0
        for k in it.keywords:
            if k.arg == "start" and isinstance(k.value, _ast.Constant):
                start = k.value.value
            else:
                fail(loop, "enumerate keyword")
        srt = it.args[0]
        key = {k.arg: k.value for k in srt.keywords}.get("key") if isinstance(srt, _ast.Call) else None
        if not (isinstance(srt, _ast.Call) and _ast.unparse(srt.func) == "sorted" and _ast.unparse(srt.args[0]) == lst
                and key is not None):
            fail(loop, "sorted(...)")
        if not (isinstance(key, _ast.Lambda) and len(key.args.args) == 1):
            fail(loop, "sort key")
        ks = _ast.unparse(key.body).replace(key.args.args[0].arg + "[", "d[")     # the lambda's parameter name is immaterial
        if ks == "-d['pvalue']":
            order = "(fun a b => nleb b a)"   # ascending in -p  =  descending in p
        elif ks == "d['pvalue']":
            order = "nleb"
        else:
            fail(loop, "sort key " + ks)
        if not (isinstance(loop.target, _ast.Tuple) and len(loop.target.elts) == 2
                and all(isinstance(e, _ast.Name) for e in loop.target.elts)):
            fail(loop, "loop target")
        ivar = loop.target.elts[0].id
        elem = loop.target.elts[1].id
        stmts = list(loop.body)
        # pvalue = metric_result["pvalue"]
        first = [s for s in stmts if isinstance(s, (_ast.Assign, _ast.AnnAssign))
                 and _ast.unparse(s.value) == f"{elem}['pvalue']"]
        if len(first) != 1:
            fail(loop, "pvalue binding")
        stmts.remove(first[0])
        pname = (first[0].targets[0] if isinstance(first[0], _ast.Assign) else first[0].target).id
        last = stmts.pop()
        if not (isinstance(last, _ast.Expr) and isinstance(last.value, _ast.Call)
                and _ast.unparse(last.value.func) == f"{elem}.update" and not last.value.args):
            fail(last, "loop must end with <element>.update(...)")
        kws = {k.arg: k.value for k in last.value.keywords}
        if set(kws) != {"pvalue_adj", "alpha_adj", "null_rejected"}:
            fail(last, "update keywords")
        nr = kws["null_rejected"]
        if not (isinstance(nr, _ast.Call) and _ast.unparse(nr.func) == "int" and len(nr.args) == 1):
            fail(last, "null_rejected must be int(<comparison>)")
        env = {"adjust": ADJ_T, ivar: NUM, pname: NUM}
        if uses_m:
            env[mvar] = NUM
        for nm, _ in carried:
            env[nm] = NUM

        def k(e):
            c = ", ".join(tr.var(nm) for nm, _ in carried)
            pa, pat = tr.ex(kws["pvalue_adj"], e)
            aa, aat = tr.ex(kws["alpha_adj"], e)
            rj, rjt = tr.ex(nr.args[0], e)
            if (pat, aat, rjt) != (NUM, NUM, BOOL):
                fail(last, "update value types")
            return f"(({c}), ({pa}, {aa}, {rj}))"
        text = tr.block(stmts, env, None, k)
        cpat = ", ".join(tr.var(nm) for nm, _ in carried)
        cty = " * ".join("num" for _ in carried)
        inits = ", ".join(f"(nlit {v})" for _, v in carried)
        mparam = f"({tr.var(mvar)} : num) " if uses_m else ""
        marg = "(nofnat (length v_ps)) " if uses_m else ""
        return (f"(* {py} (line {f.lineno}): loop body; carried variables ({', '.join(n for n, _ in carried)}) *)\n"
                f"Definition {coq}_body (v_adjust : num -> num -> num * num) {mparam}(carry : {cty}) (v_{ivar} : num) ({tr.var(pname)} : num)\n"
                f"    : ({cty}) * (num * num * bool) :=\n  let '({cpat}) := carry in\n  {text}.\n"
                f"(* outputs (pvalue_adj, alpha_adj, null_rejected) in INPUT order; enumerate start = {start} *)\n"
                f"Definition {coq} (v_adjust : num -> num -> num * num) (v_ps : list num) : list (num * num * bool) :=\n"
                f"  run_sorted {order} nofnat {start} ({coq}_body v_adjust {marg}) ({inits}) (nlit 0, nlit 0, false) v_ps.\n")
    return emit


MULT = {
    "source": "multiplicity.py",
    "records": {"benjamini": BJ_REC, "bonferroni": BF_REC, "sidak": SD_REC},
    "self_types": {"_Benjamini": ("rec", "benjamini"), "_Bonferroni": ("rec", "bonferroni"), "_Sidak": ("rec", "sidak")},
    "ann": {"tuple[float, float]": tup(NUM, NUM)},
    "preamble": _mult_preamble,
    "extra_imports": ["lib.Loop"],
    "targets": [
        {"py": "_Benjamini.adjust", "coq": "benjamini_adjust"},
        {"py": "_Bonferroni.adjust", "coq": "bonferroni_adjust"},
        {"py": "_Sidak.adjust", "coq": "sidak_adjust"},
        {"raw": _loop("_hochberg_stepup", "hochberg_stepup")},
        {"raw": _loop("_holm_stepdown", "holm_stepdown")},
    ],
}
SPECS["Multiplicity"] = MULT

# ----------------------------------------------------------------------------- metrics/proportion.py
SRM = "srm"
SR_REC = Record("sr_cfg", "mk_sr_cfg", {"method": SRM, "correction": BOOL}, prefix="sr_")


def _sr_emit(tr):
    """SampleRatio.analyze: the statements after the aggregates have been read."""
    from py2coq import Unsupported, fail
    f = tr.find_def("SampleRatio.analyze")
    body = [s for s in f.body if not (isinstance(s, _ast.Expr) and isinstance(s.value, _ast.Constant))]
    src = [_ast.unparse(s) for s in body]
    want_head = ["aggr = tea_tasting.metrics.aggregate_by_variants(data, aggr_cols=self.aggr_cols, variant=variant)",
                 "k = aggr[treatment].count()", "n = k + aggr[control].count()"]
    if src[:2] != want_head[:2] or src[2] not in (want_head[2], "n = aggr[control].count() + k"):
        raise Unsupported("SampleRatio.analyze head changed: " + str(src[:3]))
    if src[3] != "r = self.ratio if isinstance(self.ratio, float | int) else self.ratio[treatment] / self.ratio[control]":
        raise Unsupported("SampleRatio.analyze ratio selection changed: " + src[3])
    if not (isinstance(body[4], _ast.Assign) and _ast.unparse(body[4].targets[0]) == "p"):
        fail(body[4], "expected p = ...")
    branch = body[5]
    if not (isinstance(branch, _ast.If) and len(branch.body) == 1
            and _ast.unparse(branch.body[0]) == "pvalue = scipy.stats.binomtest(k=int(k), n=int(n), p=p).pvalue"):
        fail(branch, "expected the binomtest branch")
    ret = body[6]
    if _ast.unparse(ret) != "return SampleRatioResult(control=n - k, treatment=k, pvalue=pvalue)":
        raise Unsupported("SampleRatio.analyze result wiring changed: " + _ast.unparse(ret))
    # module constant
    thr = [n for n in tr.tree.body if isinstance(n, _ast.Assign) and _ast.unparse(n.targets[0]) == "_MAX_EXACT_THRESHOLD"]
    if len(thr) != 1 or not isinstance(thr[0].value, _ast.Constant):
        raise Unsupported("_MAX_EXACT_THRESHOLD")
    tr.spec["globals"] = {"_MAX_EXACT_THRESHOLD": (f"(nlit {thr[0].value.value})", NUM)}
    env = {"self": ("rec", "sr_cfg"), "k": NUM, "n": NUM, "r": NUM}
    p_txt, p_ty = tr.ex(body[4].value, {"r": NUM})
    cond, cty = tr.ex(branch.test, {"self": ("rec", "sr_cfg"), "n": NUM})
    if cty != BOOL:
        fail(branch, "method condition")
    env2 = {"self": ("rec", "sr_cfg"), "k": NUM, "n": NUM, "p": NUM}
    norm = tr.block(list(branch.orelse), env2, NUM, lambda e: tr.var("pvalue"))
    return (
        "Record sr_result := mk_sr_result { sr_control : num; sr_treatment : num; sr_pvalue : num }.\n"
        "(* p = r / (1 + r), r the expected treatment/control ratio (scalar ratio, or ratio[treatment] / ratio[control]) *)\n"
        f"Definition sr_share (v_r : num) : num := {p_txt}.\n"
        "(* exact binomial test iff ... *)\n"
        f"Definition sr_use_binom (v_self : sr_cfg) (v_n : num) : bool := {cond}.\n"
        "(* the normal-approximation branch *)\n"
        f"Definition sr_norm_pvalue (v_self : sr_cfg) (v_k v_n v_p : num) : num :=\n  {norm}.\n"
        "(* SampleRatio.analyze after aggregation; binom : n -> k -> p -> pvalue is scipy.stats.binomtest (an oracle) *)\n"
        "Definition sr_analyze (binom : num -> num -> num -> num) (v_self : sr_cfg) (count_control count_treatment v_r : num) : sr_result :=\n"
        "  let v_k := count_treatment in let v_n := (v_k + count_control)%num in let v_p := sr_share v_r in\n"
        "  let v_pvalue := if sr_use_binom v_self v_n then binom v_n v_k v_p else sr_norm_pvalue v_self v_k v_n v_p in\n"
        "  mk_sr_result (v_n - v_k)%num v_k v_pvalue.\n")


PROP = {
    "source": "metrics/proportion.py",
    "section": "Variable fam : dist_family num.",
    "records": {"sr_cfg": SR_REC},
    "self_types": {"SampleRatio": ("rec", "sr_cfg")},
    "str_consts": {"binom": ("MBinom", SRM), "auto": ("MAuto", SRM), "norm": ("MNorm", SRM)},
    "eqb": {SRM: "srm_eqb"},
    "preamble": lambda tr: ("Inductive srm := MAuto | MBinom | MNorm.\n"
                            "Definition srm_eqb (a b : srm) : bool := match a, b with MAuto, MAuto | MBinom, MBinom | MNorm, MNorm => true | _, _ => false end.\n"
                            "Record sr_cfg := mk_sr_cfg { sr_method : srm; sr_correction : bool }.\n\n"),
    "targets": [{"raw": _sr_emit}],
}
SPECS["Proportion"] = PROP

# ----------------------------------------------------------------------------- datasets.py
def _datasets_emit(tr):
    """The parameter expressions handed to the rng.* calls of _make_data, as functions of the generator parameters and
    of ONE user's variant (0 or 1) and, for the covariates, of that user's earlier draws; ds_* for users data
    (explode_sessions = False), dsx_* for sessions data; ds_valid from _check_params."""
    from py2coq import Unsupported, fail
    f = tr.find_def("_make_data")
    assigns, explode_assigns, cov_assigns = {}, {}, {}
    order = []
    for n in f.body:
        if isinstance(n, _ast.Assign) and isinstance(n.targets[0], _ast.Name):
            assigns.setdefault(n.targets[0].id, n.value)
            order.append(n.targets[0].id)
        elif isinstance(n, _ast.If) and _ast.unparse(n.test) == "explode_sessions":
            for m in n.body:
                if not (isinstance(m, _ast.Assign) and isinstance(m.targets[0], _ast.Name)):
                    fail(m, "explode branch")
                explode_assigns[m.targets[0].id] = m.value
        elif isinstance(n, _ast.If) and _ast.unparse(n.test) == "covariates":
            for m in n.body:
                if isinstance(m, _ast.Assign) and isinstance(m.targets[0], _ast.Name):
                    cov_assigns[m.targets[0].id] = m.value
    if set(explode_assigns) != {"user", "sessions", "size", "revenue_log_scale"}:
        raise Unsupported(f"explode branch assigns {sorted(explode_assigns)}")
    want = {"user": "np.repeat(user, sessions)", "sessions": "np.ones_like(user)", "size": "len(user)"}
    for k, v in want.items():
        if _ast.unparse(explode_assigns[k]) != v:
            raise Unsupported(f"explode branch: {k} = {_ast.unparse(explode_assigns[k])}")
    # the order of the random draws is part of the model (it decides which draws users and sessions data share)
    draws = [k for k in order if "rng." in _ast.unparse(assigns[k])]
    if draws != ["variant", "sessions", "orders_per_sessions", "orders", "revenue_per_order"]:
        raise Unsupported(f"draw order {draws}")
    cdraws = [k for k in cov_assigns if "rng." in _ast.unparse(cov_assigns[k])]
    if cdraws != ["sessions_covariate", "orders_covariate", "revenue_per_order_covariate"]:
        raise Unsupported(f"covariate draw order {cdraws}")

    def rng_call(table, var, meth):
        v = table.get(var)
        call = v
        if isinstance(v, _ast.BinOp):      # sessions = 1 + rng.poisson(...)
            if not (_ast.unparse(v.left) == "1" and isinstance(v.op, _ast.Add)):
                fail(v, "sessions expression")
            call = v.right
        if not (isinstance(call, _ast.Call) and _ast.unparse(call.func) == "rng." + meth):
            raise Unsupported(f"{var} is no longer drawn with rng.{meth}: {_ast.unparse(v) if v is not None else None}")
        return {k.arg: k.value for k in call.keywords}
    params = ["ratio", "sessions_uplift", "orders_uplift", "revenue_uplift", "avg_sessions", "avg_orders_per_session",
              "avg_revenue_per_order"]
    out = []

    def emit(prefix, explode):
        env = {p: NUM for p in params + ["variant"]}
        binders = " ".join(f"(v_{p} : num)" for p in params + ["variant"])
        prelude = ""
        # every scalar helper assignment of _make_data (whatever it is called), in source order, becomes a let-binding;
        # statements that are not scalar expressions over the parameters (arrays, the draws themselves) are skipped -
        # a later use of a skipped name fails closed
        def bind(nm, node):
            nonlocal prelude
            if "rng." in _ast.unparse(node):
                return
            try:
                t, ty = tr.ex(node, env)
            except Exception as e:  # noqa: BLE001 - py2coq.Unsupported (the class differs when py2coq runs as __main__)
                if type(e).__name__ != "Unsupported":
                    raise
                return
            if ty != NUM:
                return
            prelude += f"let v_{nm} := {t} in\n  "
            env[nm] = ty
        for n in f.body:
            if isinstance(n, _ast.Assign) and isinstance(n.targets[0], _ast.Name):
                if n.targets[0].id not in env or n.targets[0].id not in params + ["variant"]:
                    bind(n.targets[0].id, n.value)
            elif isinstance(n, _ast.If) and _ast.unparse(n.test) == "explode_sessions" and explode:
                for m in n.body:
                    bind(m.targets[0].id, m.value)
        for nm in ("revenue_log_scale",):
            if nm not in env:
                raise Unsupported(f"{nm} not assigned")

        def define(name, node, extra="", extra_env=None, comment=""):
            e = dict(env)
            e.update(extra_env or {})
            # indexing by user (broadcast of a per-user array to rows) is the identity for one user's row
            node = _ast.parse(_ast.unparse(node).replace("[user]", ""), mode="eval").body
            t, ty = tr.ex(node, e)
            if ty != NUM:
                fail(node, "expected a number")
            out.append(f"(* {comment} *)\nDefinition {prefix}_{name} {binders}{extra} : num :=\n  {prelude}{t}.\n")
        kw = rng_call(assigns, "variant", "binomial")
        if _ast.unparse(kw["n"]) != "1":
            raise Unsupported("variant draw")
        define("variant_p", kw["p"], comment="variant ~ Bernoulli(p)")
        kw = rng_call(assigns, "sessions", "poisson")
        define("sessions_lam", kw["lam"], comment="sessions = 1 + Poisson(lam)")
        kw = rng_call(assigns, "orders_per_sessions", "beta")
        define("ops_a", kw["a"], comment="orders per session ~ Beta(a, b)")
        define("ops_b", kw["b"])
        kw = rng_call(assigns, "orders", "binomial")
        if _ast.unparse(kw["n"]) != "sessions" or _ast.unparse(kw["p"]) != "orders_per_sessions[user]":
            raise Unsupported("orders draw: " + str({k: _ast.unparse(v) for k, v in kw.items()}))
        kw = rng_call(assigns, "revenue_per_order", "lognormal")
        define("rpo_mean", kw["mean"], comment="revenue per order ~ LogNormal(mean, sigma)")
        define("rpo_sigma", kw["sigma"])
        if _ast.unparse(assigns["revenue"]) != "orders * revenue_per_order":
            raise Unsupported("revenue = " + _ast.unparse(assigns["revenue"]))
        # covariates: functions of this row's own draws
        kw = rng_call(cov_assigns, "sessions_covariate", "poisson")
        define("cov_sessions_lam", kw["lam"], " (v_sessions : num)", {"sessions": NUM}, "sessions_covariate ~ Poisson(lam)")
        define("cov_ops", cov_assigns["orders_per_sessions_covariate"], " (v_orders_per_sessions : num)",
               {"orders_per_sessions": NUM}, "orders_covariate ~ Binomial(sessions_covariate, p)")
        kw = rng_call(cov_assigns, "orders_covariate", "binomial")
        if _ast.unparse(kw["n"]) != "sessions_covariate" or _ast.unparse(kw["p"]) != "orders_per_sessions_covariate[user]":
            raise Unsupported("orders_covariate draw")
        kw = rng_call(cov_assigns, "revenue_per_order_covariate", "lognormal")
        define("cov_rpo_mean", kw["mean"], " (v_revenue_per_order : num)", {"revenue_per_order": NUM},
               "revenue per order covariate ~ LogNormal(mean, sigma)")
        if _ast.unparse(kw["sigma"]) != "revenue_log_scale":
            raise Unsupported("covariate sigma")
        if _ast.unparse(cov_assigns["revenue_covariate"]) != "orders_covariate * revenue_per_order_covariate":
            raise Unsupported("revenue_covariate")
    emit("ds", False)
    emit("dsx", True)
    # parameter domain
    g = tr.find_def("_check_params")
    conj = []
    env = {p: NUM for p in params}
    for n in g.body:
        if not (isinstance(n, _ast.Expr) and isinstance(n.value, _ast.Call)
                and _ast.unparse(n.value.func) == "tea_tasting.utils.check_scalar"):
            fail(n, "_check_params statement")
        c = n.value
        who = _ast.unparse(c.args[0])
        for k in c.keywords:
            if k.arg in ("name", "typ"):
                continue
            if who == "n_users":
                continue
            t, ty = tr.ex(k.value, env)
            x = f"v_{who}"
            conj.append({"gt": f"(nltb {t} {x})", "lt": f"(nltb {x} {t})", "ge": f"(nleb {t} {x})",
                         "le": f"(nleb {x} {t})"}[k.arg])
    binders = " ".join(f"(v_{p} : num)" for p in params)
    out.append(f"(* _check_params (n_users aside) *)\nDefinition ds_valid {binders} : bool :=\n  "
               + "\n  && ".join(conj) + ".\n")
    return "\n".join(out)


DATASETS = {
    "source": "datasets.py",
    "targets": [{"raw": _datasets_emit}],
}
SPECS["Datasets"] = DATASETS

X_INSTANCE = ("Aggr", "Mean")      # also instantiated over lib/PreludeX.v (exception semantics, C18)

# instance-independent models (over lib/PyVal): (name, translator module, source file)
PLAIN = [("Utils", "utils2coq", "utils.py"), ("ExperimentPairs", "exp2coq", "experiment.py"),
         ("Resampling", "gran2coq", "metrics/resampling.py")]
