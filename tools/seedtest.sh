#!/bin/bash
# usage: tools/seedtest.sh <seed-dir> <name> <check ids...>
# Confirms a seeded change (demo passes pristine / fails changed, test suite still passes) and runs the checks on it.
sd="$1"; name="$2"; shift 2
cd /repo || exit 2
git diff --quiet || { echo "/repo not clean"; exit 2; }
run() { PYTHONPATH=/repo/src PYTHONHASHSEED=0 /venv/bin/python "$@" 2>&1 | grep -v conda; return ${PIPESTATUS[0]}; }
run "$sd/demo.py" > /tmp/seed_demo0.log; d0=$?
git apply "$sd/patch.diff" || { echo "patch does not apply"; exit 2; }
run "$sd/demo.py" > /tmp/seed_demo1.log; d1=$?
PYTHONPATH=/repo/src /venv/bin/python -m pytest -q -p no:cacheprovider -x --deselect-from-file=/dev/null tests 2>/dev/null | tail -1 > /tmp/seed_tests.log
tests=$(PYTHONPATH=/repo/src /venv/bin/python -m pytest -q -p no:cacheprovider tests 2>&1 | tail -1)
echo "demo pristine rc=$d0, demo changed rc=$d1, tests: $tests"
res=""
for c in "$@"; do
  out=$(cd /verif && ./check $c 2>&1 | grep -v conda | tail -3)
  rc=$(echo "$out" | grep -c "^VIOLATION")
  echo "--- check $c: $(echo "$out" | tr '\n' ' ')"
  res="$res $c:$rc"
done
git -C /repo checkout -- .
echo "RESULT $name demo0=$d0 demo1=$d1 detected:$res"
