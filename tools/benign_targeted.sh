#!/bin/bash
cd /verif
run() { f=$1; shift; n=$(basename $f .diff)
  git -C /repo diff --quiet || { echo "/repo not clean"; exit 2; }
  git -C /repo apply $f || return
  out=""
  for c in "$@"; do r=$(./check $c 2>&1 | grep "^VIOLATION" | head -1); [ -n "$r" ] && out="$out [$r]"; done
  git -C /repo checkout -- .
  echo "BT $n: $@ ->$out"
}
B=/verif/benign
run $B/B4_rename_multiplicity.diff C10
run $B/D6_commute_multiplicity.diff C10
run $B/B6_rename_datasets.diff C20
run $B/D7_commute_proportion.diff C11
run $B/D1_commute_analyze_stats.diff C04 C07 C18
run $B/D2_commute_metric_var.diff C06 C18 C08
run $B/D3_commute_ratio_var.diff C05 C14
run $B/D4_commute_add_var.diff C14 C12
run $B/D5_commute_power.diff C08 C09
run $B/B2_commute_scale.diff C04 C17 C18
run $B/B9_factor_pooled.diff C04 C06 C18
run $B/E1_rename_pairs.diff C12 C03
run $B/E2_reorder_kwargs.diff C04 C18
run $B/E3_ternary_coef.diff C06 C17 C18
run $B/E4_half.diff C04 C07 C18
run $B/F1_extract_method.diff C04 C07 C18
run $B/F2_extract_function.diff C14 C12 C18
run $B/B1_rename_local_mean.diff C04 C07
run $B/B3_reorder_query_columns.diff C01 C02 C03
run $B/B5_reorder_auto_check.diff C19 C13
run $B/G1_reorder_bound_checks.diff C19 C13
run $B/G2_rename_select.diff C15
run $B/G3_rename_power_loop.diff C09 C08
run $B/G4_rename_find_boundary.diff C09
run $B/G5_rename_zero_div.diff C18 C14
run $B/G7_rename_proportion.diff C11
run $B/H1_commute_ratio_cov.diff C06 C14
run $B/H2_commute_add_mean_cov.diff C14
run $B/H3_commute_power_sizes.diff C08 C09
run $B/H4_commute_solve_bounds.diff C09
run $B/H5_commute_proportion.diff C11
run $B/H6_commute_datasets.diff C20
run $B/H7_commute_sidak.diff C10
run $B/I1_reorder_analyze_aggregates.diff C04 C06 C18
run $B/I2_commute_stepup.diff C10
run $B/I3_commute_coef_test.diff C06 C18
run $B/I4_k_expr.diff C10
run $B/J1_negated_branch.diff C04 C18
run $B/J2_div_regroup.diff C04 C07 C18
run $B/J4_elif_chain.diff C04 C07 C18
run $B/K1_reorder_power_branches.diff C08 C09
run $B/K2_commute_correction_test.diff C11
run $B/K3_add_condition_order.diff C14 C12
run $B/L1_ibis_fallback_respelled.diff C01 C02
run $B/L2_narwhals_product_commuted.diff C01 C02
