"""Reify the query that the REAL builders of tea_tasting.aggr construct (they do not compute) as a term of lib/Plan.v.

* narwhals: tea_tasting.aggr.nw is replaced (inside this process) by a recording namespace; collect() stops the run.
* ibis: an unbound table, ibis.get_backend patched to a stub whose has_operation is forced to either branch, and
  Table.to_pyarrow patched to capture the expression.
"""
from __future__ import annotations

import sys
import types

import harness as H

if "pyarrow_hotfix" not in sys.modules:
    sys.modules["pyarrow_hotfix"] = types.ModuleType("pyarrow_hotfix")


class Stop(Exception):
    pass


# ----------------------------------------------------------------------------- narwhals recorder
class E:
    def __init__(self, op, *args):
        self.op, self.args = op, args

    def mean(self):
        return E("mean", self)

    def over(self, g):
        return E("over", self, g)

    def _b(self, op, o, swap=False):
        o = o if isinstance(o, E) else E("lit", o)
        return E(op, o, self) if swap else E(op, self, o)
    def __add__(self, o): return self._b("add", o)
    def __radd__(self, o): return self._b("add", o, True)
    def __sub__(self, o): return self._b("sub", o)
    def __rsub__(self, o): return self._b("sub", o, True)
    def __mul__(self, o): return self._b("mul", o)
    def __rmul__(self, o): return self._b("mul", o, True)
    def __truediv__(self, o): return self._b("div", o)
    def __rtruediv__(self, o): return self._b("div", o, True)


class Frame:
    def __init__(self, steps=()):
        self.steps = list(steps)

    def lazy(self):
        return self

    def with_columns(self, *a, **kw):
        if a:
            raise Stop("positional with_columns")
        return Frame(self.steps + [("with_columns", dict(kw))])

    def select(self, *a, **kw):
        if a:
            raise Stop("positional select")
        return Frame(self.steps + [("aggregate", None, dict(kw))])

    def group_by(self, g):
        return GroupBy(self, g)

    def join(self, other, on=None, how="inner", **kw):
        """data.join(data.group_by(g).agg(alias = col.mean(), ...), on=g, how="left"): every row receives the means of its
        own group.  Recorded as the equivalent window step  alias := mean(col) over the partition of g  (a relational
        identity: the right-hand table has exactly one row per value of g; rows with a null key aside)."""
        if kw or how != "left" or not isinstance(other, Frame) or other.steps[:-1] != self.steps or not other.steps:
            raise Stop("join shape")
        last = other.steps[-1]
        if last[0] != "aggregate" or last[1] is None or last[1] != on:
            raise Stop("join: right-hand side is not group_by(on).agg(...)")
        defs = {}
        for alias, e in last[2].items():
            if not (isinstance(e, E) and e.op == "mean" and e.args[0].op == "col"):
                raise Stop("join: aggregated column is not a plain mean")
            defs[alias] = E("over", e, on)
        return Frame(self.steps + [("with_columns", defs)])

    def collect(self):
        raise Stop(self)


class GroupBy:
    def __init__(self, frame, g):
        self.frame, self.g = frame, g

    def agg(self, *a, **kw):
        if a:
            raise Stop("positional agg")
        return Frame(self.frame.steps + [("aggregate", self.g, dict(kw))])


def capture_narwhals(group, has_count, mean_cols, var_cols, cov_cols):
    import tea_tasting.aggr as A
    fake = types.SimpleNamespace(from_native=lambda d: Frame(), LazyFrame=Frame, col=lambda c: E("col", c),
                                 len=lambda: E("len"), Expr=E)
    old = A.nw
    A.nw = fake
    try:
        A._read_aggr_narwhals(object(), group, has_count=has_count, mean_cols=mean_cols, var_cols=var_cols, cov_cols=cov_cols)
    except Stop as s:
        frame = s.args[0]
        if isinstance(frame, str):
            raise
    finally:
        A.nw = old
    steps = []
    for st in frame.steps:
        if st[0] == "with_columns":
            steps.append(("with", [(k, nw_expr(v, False)) for k, v in st[1].items()]))
        else:
            steps.append(("agg", st[1], [(k, nw_expr(v, True)) for k, v in st[2].items()]))
    return steps


def nw_expr(e, agg):
    """recorded narwhals expression -> plan expression (nested tuples)"""
    if e.op == "col":
        return ("Col", e.args[0])
    if e.op == "lit":
        v = e.args[0]
        if not (isinstance(v, int) and not isinstance(v, bool)):
            raise ValueError(f"literal {v!r}")
        return ("Lit", v)
    if e.op == "len":
        if not agg:
            raise ValueError("len outside an aggregation")
        return ("AggLen",)
    if e.op in ("add", "sub", "mul", "div"):
        return (e.op.capitalize(), nw_expr(e.args[0], agg), nw_expr(e.args[1], agg))
    if e.op == "mean":
        inner = nw_expr(e.args[0], False)
        return ("AggMean", inner) if agg else ("MeanOver", inner, None)
    if e.op == "over":
        if e.args[0].op != "mean" or agg:
            raise ValueError("over() on something else than mean()")
        return ("MeanOver", nw_expr(e.args[0].args[0], False), e.args[1])
    raise ValueError(e.op)


# ----------------------------------------------------------------------------- ibis capture
def capture_ibis(native, group, has_count, mean_cols, var_cols, cov_cols, int_cols=()):
    import ibis
    import ibis.expr.types as ir
    import tea_tasting.aggr as A
    cols = sorted({*mean_cols, *var_cols, *[c for p in cov_cols for c in p]})
    schema = {"variant": "int64", **{c: ("int64" if c in int_cols else "float64") for c in cols}}
    t = ibis.table(schema, name="t")
    cap = {}

    class Backend:
        def has_operation(self, op):
            return native
    old_gb, old_tp = A.ibis.get_backend, ir.Table.to_pyarrow

    def grab(self, *a, **k):
        cap["e"] = self
        raise Stop()
    A.ibis.get_backend = lambda data: Backend()
    ir.Table.to_pyarrow = grab
    try:
        A._read_aggr_ibis(t, group, has_count=has_count, mean_cols=mean_cols, var_cols=var_cols, cov_cols=cov_cols)
    except Stop:
        pass
    finally:
        A.ibis.get_backend, ir.Table.to_pyarrow = old_gb, old_tp
    return ibis_plan(cap["e"].op())


def ibis_plan(op):
    import ibis.expr.operations as ops
    steps = []
    if not isinstance(op, ops.Aggregate):
        raise ValueError("top-level operation is " + type(op).__name__)
    parent = op.parent
    if isinstance(parent, ops.Project):
        defs = []
        for name, v in parent.values.items():
            if isinstance(v, ops.Field) and v.name == name:
                continue   # column passed through
            defs.append((name, ibis_expr(v, False)))
        steps.append(("with", defs))
        parent = parent.parent
    if not isinstance(parent, ops.UnboundTable):
        raise ValueError("unexpected source " + type(parent).__name__)
    groups = list(op.groups)
    if len(groups) > 1:
        raise ValueError("several group keys")
    steps.append(("agg", groups[0] if groups else None, [(k, ibis_expr(v, True)) for k, v in op.metrics.items()]))
    return steps


def ibis_expr(o, agg):
    import ibis.expr.operations as ops
    t = type(o).__name__
    if isinstance(o, ops.Field):
        return ("Col", o.name)
    if isinstance(o, ops.Literal):
        v = o.value
        if isinstance(v, float) and v == int(v):
            v = int(v)
        if not (isinstance(v, int) and not isinstance(v, bool)):
            raise ValueError(f"literal {v!r}")
        return ("Lit", v)
    if isinstance(o, ops.Cast):
        if not o.to.is_floating():
            raise ValueError("cast to " + str(o.to))
        return ("Cast", ibis_expr(o.arg, agg))
    binary = {"Add": "Add", "Subtract": "Sub", "Multiply": "Mul", "Divide": "Div"}
    if t in binary:
        return (binary[t], ibis_expr(o.left, agg), ibis_expr(o.right, agg))
    if isinstance(o, ops.WindowFunction):
        f = o.func
        if not isinstance(f, ops.Mean) or o.order_by or f.where is not None:
            raise ValueError("window function " + type(f).__name__)
        g = [x.name for x in o.group_by]
        if len(g) > 1:
            raise ValueError("window over several keys")
        return ("MeanOver", ibis_expr(f.arg, False), g[0] if g else None)
    if getattr(o, "where", None) is not None:
        raise ValueError("filtered aggregate")
    if isinstance(o, ops.CountStar):
        return ("AggLen",)
    if isinstance(o, ops.Mean):
        return ("AggMean", ibis_expr(o.arg, False))
    if isinstance(o, ops.Sum):
        return ("AggSum", ibis_expr(o.arg, False))
    if isinstance(o, ops.Variance):
        return ("AggVar", o.how == "sample", ibis_expr(o.arg, False))
    if isinstance(o, ops.Covariance):
        return ("AggCov", o.how == "sample", ibis_expr(o.left, False), ibis_expr(o.right, False))
    raise ValueError("unsupported ibis operation " + t)


# ----------------------------------------------------------------------------- to Coq
ORDER = ["_count", "_mean__", "_var__", "_cov__", "_demean__"]


def canon_defs(defs):
    """dict / set iteration order is irrelevant: category order (count, mean, var, cov, demean), then alias"""
    def key(kv):
        k = kv[0]
        cat = next((i for i, p in enumerate(ORDER) if k.startswith(p)), 99)
        return (cat, k)
    return sorted(defs, key=key)


def coq_expr(e):
    tag = e[0]
    if tag == "Col":
        return f"(Col {H.slit(e[1])})"
    if tag == "Lit":
        return f"(Lit ({e[1]}))"
    if tag == "AggLen":
        return "AggLen"
    if tag == "MeanOver":
        return f"(MeanOver {coq_expr(e[1])} {'None' if e[2] is None else '(Some ' + H.slit(e[2]) + ')'})"
    if tag in ("AggVar", "AggCov"):
        return f"({tag} {'true' if e[1] else 'false'} " + " ".join(coq_expr(x) for x in e[2:]) + ")"
    return f"({tag} " + " ".join(coq_expr(x) for x in e[1:]) + ")"


def coq_plan(steps):
    out = []
    for st in steps:
        if st[0] == "with":
            out.append("WithColumns [" + "; ".join(f"({H.slit(k)}, {coq_expr(v)})" for k, v in canon_defs(st[1])) + "]")
        else:
            g = "None" if st[1] is None else f"(Some {H.slit(st[1])})"
            out.append(f"Aggregate {g} [" + "; ".join(f"({H.slit(k)}, {coq_expr(v)})" for k, v in canon_defs(st[2])) + "]")
    return "[" + "; ".join(out) + "]"


def coq_request(has_count, mean_cols, var_cols, cov_cols):
    covar = sorted({*var_cols, *[c for p in cov_cols for c in p]})
    ls = lambda xs: "[" + "; ".join(H.slit(x) for x in xs) + "]"
    cv = "[" + "; ".join(f"({H.slit(a)}, {H.slit(b)})" for a, b in sorted(cov_cols)) + "]"
    return (f"(mk_request {'true' if has_count else 'false'} {ls(sorted(mean_cols))} {ls(sorted(var_cols))} {cv} {ls(covar)})")
