#!/bin/bash
# quick benign screening: regenerate + full build only
cd /verif
for f in "$@"; do
  n=$(basename $f .diff)
  git -C /repo diff --quiet || { echo "/repo not clean"; exit 2; }
  git -C /repo apply $f || { echo "$n does not apply"; continue; }
  r=$(python3 tools/py2coq.py 2>&1 | grep -i "unsupported\|error\|Traceback" | head -3)
  b=$(cd coq && timeout 1200 make -k -j16 2>&1 | grep -E "^File" | head -5 | tr '\n' ' ')
  git -C /repo checkout -- .
  echo "BQ $n regen:[$r] build:[$b]"
done
python3 tools/py2coq.py >/dev/null 2>&1; (cd coq && make -j16 >/dev/null 2>&1)
