"""Exact differential execution of metrics/mean.py against the regenerated model genQ/Mean.v.

The real RatioOfMeans methods are run on fractions.Fraction.  math.sqrt / math.exp / scipy.stats.{t,norm,nct}
are replaced (inside this process only) by the same fixed rational stand-in functions that lib/PreludeQ.v
defines, so the comparison is exact and checks which function is applied to which argument.
"""
from __future__ import annotations

import contextlib
import math
import random
import types
from fractions import Fraction as F

import gen as G
import harness as H


def _F(x):
    """exact value of a Fraction / int / float / exact wrapper (object with attribute v)"""
    return x.v if hasattr(x, "v") else F(x)


# ---- stand-ins (must equal lib/PreludeQ.v: nsqrt, nexp, nrpow, ufun, udist, ufam)
def u_sqrt(x):
    x = _F(x)
    return 3 * x + 1


def u_exp(x):
    x = _F(x)
    return 2 * x - 5


def ufun(c0, c1, c2, c3, p1, p2, x):
    x, p1, p2 = _F(x), _F(p1), _F(p2)
    return c0 + c1 * x + c2 * p1 + c3 * p2


class UDist:
    def __init__(self, k, p1, p2):
        self.k, self.p1, self.p2 = k, p1, p2

    def cdf(self, x):
        return ufun(self.k + 1, 2, 3, 5, self.p1, self.p2, x)

    def sf(self, x):
        return ufun(self.k + 2, 3, 5, 7, self.p1, self.p2, x)

    def ppf(self, x):
        return ufun(self.k + 3, 5, 7, 11, self.p1, self.p2, x)

    def isf(self, x):
        return ufun(self.k + 4, 7, 11, 13, self.p1, self.p2, x)


class _Stats:
    @staticmethod
    def t(df):
        return UDist(10, df, 0)

    @staticmethod
    def norm(loc=0):
        return UDist(20, loc, 0)

    @staticmethod
    def nct(df, nc):
        return UDist(30, df, nc)


class _Math:
    sqrt = staticmethod(u_sqrt)
    exp = staticmethod(u_exp)
    ceil = staticmethod(math.ceil)
    isnan = staticmethod(lambda x: False)


@contextlib.contextmanager
def rational_shims():
    """Install the stand-ins in tea_tasting.metrics.mean and make with_zero_div the identity."""
    import tea_tasting.aggr as A
    import tea_tasting.metrics.mean as M
    cls = A.Aggregates
    old = (M.math, M.scipy, cls.with_zero_div, cls.mean, cls.var, cls.cov, cls.count)
    shim_scipy = types.SimpleNamespace(stats=_Stats, optimize=old[1].optimize)
    M.math, M.scipy = _Math, shim_scipy
    cls.with_zero_div = lambda self: self
    # value-preserving wrappers: Python's int/int is a float; keeping every accessor result a Fraction
    # keeps the whole run exact (1 -> Fraction(1), 0 -> Fraction(0), count -> Fraction(count))
    cls.mean = lambda self, name, _f=old[3]: F(_f(self, name))
    cls.var = lambda self, name, _f=old[4]: F(_f(self, name))
    cls.cov = lambda self, left, right, _f=old[5]: F(_f(self, left, right))
    cls.count = lambda self, _f=old[6]: F(_f(self))
    try:
        yield
    finally:
        M.math, M.scipy, cls.with_zero_div, cls.mean, cls.var, cls.cov, cls.count = old


ALTS = ["two-sided", "greater", "less"]
ALT_COQ = {"two-sided": "TwoSided", "greater": "Greater", "less": "Less"}


def rand_cfg(rng, covariates=None, ratio_metric=None):
    """A metric configuration as a plain dict (names drawn from G.COLS)."""
    ratio_metric = rng.random() < 0.5 if ratio_metric is None else ratio_metric
    covariates = rng.choice([0, 1, 2]) if covariates is None else covariates
    cols = list(G.COLS)
    rng.shuffle(cols)
    cfg = {
        "numer": cols[0], "denom": cols[1] if ratio_metric else None,
        "numer_covariate": cols[2] if covariates >= 1 else None,
        "denom_covariate": cols[3] if covariates >= 2 else None,
        "alternative": rng.choice(ALTS),
        "confidence_level": F(rng.randint(1, 99), 100),
        "equal_var": rng.random() < 0.5, "use_t": rng.random() < 0.5,
        "alpha": F(rng.randint(1, 30), 100), "ratio": F(rng.choice([1, 1, 2, 3, 1])) / rng.choice([1, 2, 4]),
        "power": F(rng.randint(50, 95), 100),
    }
    return cfg


def make_metric(cfg):
    import tea_tasting.metrics.mean as M
    m = M.RatioOfMeans(cfg["numer"], cfg["denom"], cfg["numer_covariate"], cfg["denom_covariate"],
                       alternative=cfg["alternative"], equal_var=cfg["equal_var"], use_t=cfg["use_t"])
    # Fractions are set after construction (the constructor insists on float for these)
    m.confidence_level = cfg["confidence_level"]
    m.alpha = cfg["alpha"]
    m.ratio = cfg["ratio"]
    m.power = cfg["power"]
    return m


def coq_cfg(cfg):
    o = lambda x: "None" if x is None else f"(Some {H.slit(x)})"
    b = lambda x: "true" if x else "false"
    return (f"(mk_rom {H.slit(cfg['numer'])} {o(cfg['denom'])} {o(cfg['numer_covariate'])} {o(cfg['denom_covariate'])} "
            f"{ALT_COQ[cfg['alternative']]} {H.qlit(cfg['confidence_level'])} {b(cfg['equal_var'])} {b(cfg['use_t'])} "
            f"{H.qlit(cfg['alpha'])} {H.qlit(cfg['ratio'])} {H.qlit(cfg['power'])})")


def cfg_json(cfg):
    return {k: (H.frac(v) if isinstance(v, F) else v) for k, v in cfg.items()}


def cfg_from_json(d):
    out = dict(d)
    for k in ("confidence_level", "alpha", "ratio", "power"):
        out[k] = F(d[k])
    return out


RES_FIELDS = ["control", "treatment", "effect_size", "effect_size_ci_lower", "effect_size_ci_upper",
              "rel_effect_size", "rel_effect_size_ci_lower", "rel_effect_size_ci_upper", "pvalue", "statistic"]
EXT_FIELDS = {"effect_size_ci_lower", "effect_size_ci_upper", "rel_effect_size_ci_lower", "rel_effect_size_ci_upper"}


def canon_result(res):
    """MeanResult on Fractions -> list of canonical values: ('fin', Fraction) | ('inf', +-1)."""
    out = []
    for f in RES_FIELDS:
        v = getattr(res, f)
        if isinstance(v, float) and math.isinf(v):
            out.append(("inf", 1 if v > 0 else -1))
        else:
            out.append(("fin", F(v)))
    return out


def model_result_term(cfg_term, a_term, b_term):
    parts = []
    for f in RES_FIELDS:
        if f in EXT_FIELDS:
            parts.append(f"eshow (mr_{f} r)")
        else:
            parts.append(f"(0, qshow (mr_{f} r))")
    return (f"let r := rom_analyze_aggregates ufam {cfg_term} {a_term} {b_term} in\n  [" + "; ".join(parts) + "]")


def parse_result(s):
    import re
    out = []
    for k, a, b in re.findall(r"\((-?\d+), \((-?\d+), (\d+)\)\)", s):
        k = int(k)
        out.append(("fin", F(int(a), int(b))) if k == 0 else ("inf", k))
    return out


HEADER = "From TT Require Import lib.PreludeQ lib.CaseQ genQ.Aggr genQ.Mean."


def sample_pair(rng, cfg, sizes=None):
    """Two samples (rows of Fractions) on which every division of the metric is defined."""
    for _ in range(50):
        n1 = rng.choice(sizes or [2, 3, 4, 5, 8])
        n2 = rng.choice(sizes or [2, 3, 4, 6, 7])
        # small exact values: the model is evaluated by vm_compute, whose gcd is quadratic in the digits
        style = rng.choice(["ints", "ints", "smallpos", "smallgen"])
        r1, r2 = G.rand_rows(rng, n1, style=style), G.rand_rows(rng, n2, style=style)
        a, b = G.real_aggregates(r1, G.COLS), G.real_aggregates(r2, G.COLS)
        try:
            with rational_shims():
                make_metric(cfg).analyze_aggregates(a, b)
        except ZeroDivisionError:
            continue
        return r1, r2, a, b
    return None


def run_correspondence(ctx, ncases, tag, cfg_filter=None):
    """Shared by C04..C07, C17: analyze_aggregates through the real code vs the model, exact."""
    ok, out, dt, failed = H.make(["genQ/Mean.vo", "lib/CaseQ.vo"])
    if not ctx.oblige(ok, "correspondence", "build of the executable model genQ/Mean.vo", out):
        return
    cases, terms, expect = [], [], []
    for i in range(ncases):
        cfg = rand_cfg(ctx.rng)
        if cfg_filter:
            cfg = cfg_filter(cfg, ctx.rng)
        sp = sample_pair(ctx.rng, cfg)
        if sp is None:
            ctx.count("skipped_zero_division")
            continue
        r1, r2, a, b = sp
        with rational_shims():
            res = make_metric(cfg).analyze_aggregates(a, b)
        expect.append(canon_result(res))
        terms.append(model_result_term(coq_cfg(cfg), G.coq_agg(a), G.coq_agg(b)))
        cases.append({"cfg": cfg_json(cfg), "control": G.agg_json(a), "treatment": G.agg_json(b)})
        ctx.count(f"alt={cfg['alternative']} equal_var={cfg['equal_var']} use_t={cfg['use_t']}")
        ctx.count("kind=" + ("ratio" if cfg["denom"] else "mean") + "+cov%d" % (
            (cfg["numer_covariate"] is not None) + (cfg["denom_covariate"] is not None)))
        ctx.case_seen(cases[-1], nontrivial=True)
    res, errs = H.coq_eval_shards(tag, HEADER, terms)
    for e in errs:
        ctx.oblige(False, "correspondence", "vm_compute evaluation of generated cases", e)
    for case, r, exp in zip(cases, res, expect):
        if r is None:
            continue
        got = parse_result(r)
        same = H.same_numbers(got, exp)
        ctx.oblige(same, "correspondence", "model genQ/Mean.rom_analyze_aggregates = real analyze_aggregates (Fractions, stand-in sqrt/exp/distributions)",
                   f"model={got} impl={exp}", case)
        ctx.sample({"cfg": case["cfg"], "equal": same, "impl_pvalue": str(exp[8][1])}, limit=3)


# ----------------------------------------------------------------------------- reference test (oracle)
def _safe_exp(x):
    """exp for the reference relative interval: NaN stays NaN, overflow is +inf (the interval is then not compared)."""
    try:
        return math.exp(x)
    except OverflowError:
        return math.inf


def reference_test(xs, ys, alt, equal_var, use_t, cl):
    """Textbook two-sample test from raw observations with numpy/scipy, written independently of tea-tasting."""
    import numpy as np
    import scipy.stats as st
    xs, ys = np.asarray(xs, dtype=float), np.asarray(ys, dtype=float)
    nx, ny = len(xs), len(ys)
    mx, my = xs.mean(), ys.mean()
    vx, vy = xs.var(ddof=1), ys.var(ddof=1)

    def se_df(vx, vy):
        if equal_var:
            sp2 = ((nx - 1) * vx + (ny - 1) * vy) / (nx + ny - 2)
            return math.sqrt(sp2 * (1 / nx + 1 / ny)), nx + ny - 2
        a, b = vx / nx, vy / ny
        return math.sqrt(a + b), (a + b) ** 2 / (a * a / (nx - 1) + b * b / (ny - 1))
    se, df = se_df(vx, vy)
    d = st.t(df) if use_t else st.norm()
    t = (my - mx) / se
    out = {"control": mx, "treatment": my, "effect_size": my - mx, "statistic": t, "rel_effect_size": my / mx - 1}
    with np.errstate(divide="ignore", invalid="ignore"):
        lse, ldf = se_df(vx / mx ** 2, vy / my ** 2)
    ld = st.t(ldf) if use_t else st.norm()
    lr = math.log(my / mx) if my / mx > 0 else float("nan")
    if alt == "two-sided":
        z, zl = d.ppf((1 + cl) / 2), ld.ppf((1 + cl) / 2)
        out.update(pvalue=2 * d.sf(abs(t)),
                   effect_size_ci_lower=my - mx - z * se, effect_size_ci_upper=my - mx + z * se,
                   rel_effect_size_ci_lower=_safe_exp(lr - zl * lse) - 1, rel_effect_size_ci_upper=_safe_exp(lr + zl * lse) - 1)
    elif alt == "greater":
        z, zl = d.ppf(cl), ld.ppf(cl)
        out.update(pvalue=d.sf(t), effect_size_ci_lower=my - mx - z * se, effect_size_ci_upper=math.inf,
                   rel_effect_size_ci_lower=_safe_exp(lr - zl * lse) - 1, rel_effect_size_ci_upper=math.inf)
    else:
        z, zl = d.ppf(cl), ld.ppf(cl)
        out.update(pvalue=d.cdf(t), effect_size_ci_lower=-math.inf, effect_size_ci_upper=my - mx + z * se,
                   rel_effect_size_ci_lower=-math.inf, rel_effect_size_ci_upper=_safe_exp(lr + zl * lse) - 1)
    return out


def compare_result(res, ref, rtol=1e-7, skip_rel_ci=False):
    """List of (field, got, want) that differ beyond a conditioning-scaled tolerance.

    The effect is a difference of two means and the statistic divides it by the standard error, so their absolute
    rounding error is proportional to the magnitude of the MEANS (not of the possibly tiny effect)."""
    bad = []
    base = max(abs(float(ref["control"])), abs(float(ref["treatment"])), 1e-300)
    st = float(ref["statistic"])
    se = abs(float(ref["effect_size"]) / st) if st not in (0.0,) and math.isfinite(st) and st != 0 else base
    se = se if se > 0 and math.isfinite(se) else base
    for f in RES_FIELDS:
        if skip_rel_ci and f.startswith("rel_effect_size_ci"):
            continue
        g, w = float(getattr(res, f)), float(ref[f])
        if math.isnan(w):
            continue
        if math.isnan(g):            # a finite reference value but NaN from the code
            bad.append((f, g, w))
            continue
        if math.isinf(w) or math.isinf(g):
            if g != w:
                bad.append((f, g, w))
            continue
        # rounding of the means (a few ulp of `base`) propagates into the effect absolutely; everything else is relative
        # to the field itself or to the natural scale of the interval (the standard error)
        ulp = 1e3 * 2.0 ** -52 * base
        if f in ("control", "treatment"):
            tol = 1e-10 * base
        elif f.startswith("effect_size"):
            tol = rtol * max(abs(w), se) + ulp
        elif f.startswith("rel_"):
            tol = rtol * max(abs(w), se / base) + ulp / base
        elif f == "statistic":
            tol = rtol * max(abs(w), 1.0) + ulp / se
        else:  # pvalue: d log p / d statistic ~ -statistic in the tails
            tol = rtol * abs(w) * (1.0 + st * st if math.isfinite(st) else 1.0) + ulp / se + 1e-12
        if abs(g - w) > tol:
            bad.append((f, g, w))
    return bad


def float_table(rng, n, cols=None, kind=None):
    """Rows of floats (dict col -> list) with positive-mean columns."""
    import numpy as np
    cols = cols or G.COLS
    kind = kind or rng.choice(["normal", "lognormal", "ints", "offset"])
    seed = rng.randint(0, 2**31)
    r = np.random.default_rng(seed)
    out = {}
    base = r.normal(size=n)
    for i, c in enumerate(cols):
        if kind == "normal":
            v = 5 + i + r.normal(size=n) * (1 + i) + 0.7 * base
        elif kind == "lognormal":
            v = np.exp(r.normal(size=n) * 0.5 + 0.3 * base) * (i + 1)
        elif kind == "ints":
            v = r.poisson(3 + i, size=n).astype(float) + 1 + r.integers(0, 2, size=n)
        else:
            v = 1e6 + r.normal(size=n) * 3 + base
        out[c] = [float(x) for x in v]
    return out


# ----------------------------------------------------------------------------- object reuse (results depend on the arguments only)
def reuse_history(seed, parameter):
    """One metric object and one mutable frame: call, modify the frame IN PLACE (same object identity), call again, switch
    to another frame and back. Every call must return exactly what a fresh metric returns for a fresh copy of the frame's
    current contents - results are a function of the arguments, not of earlier calls. `parameter` is a solve_power
    parameter or "analyze". Returns a list of failure strings."""
    import numpy as np
    import pandas as pd
    import tea_tasting as tt
    rng = random.Random(seed)
    r = np.random.default_rng(seed)
    n = rng.choice([120, 400])
    mk = lambda mu, sd: pd.DataFrame({"variant": r.integers(0, 2, n), "x": r.normal(mu, sd, n), "c": r.normal(5, 1, n)})
    df, other = mk(10, 2), mk(3, 1)
    cov = rng.choice([None, "c"])
    kw = dict(alternative=rng.choice(ALTS), use_t=rng.random() < 0.5, equal_var=rng.random() < 0.5,
              alpha=rng.choice([0.01, 0.05, 0.1]))
    if kw["alternative"] == "two-sided" and parameter != "analyze":
        kw["use_t"] = False     # scipy's nct returns NaN in the far lower tail (known findings C08 / C09)
    sgn = -1 if kw["alternative"] == "less" else 1     # an effect against the alternative has no solution for n_obs
    if parameter == "power":
        if rng.random() < 0.5:
            kw.update(rel_effect_size=sgn * 0.05, n_obs=(500, 2000))
        else:       # an ABSOLUTE effect and explicit n_obs: then only the sample variance distinguishes two calls
            kw.update(effect_size=sgn * 0.3, n_obs=(500, 2000))
    elif parameter in ("effect_size", "rel_effect_size"):
        kw.update(n_obs=(500, 2000))
    elif parameter == "n_obs":
        kw.update(rel_effect_size=(sgn * 0.05, sgn * 0.1))
    fresh = lambda: tt.Mean("x", covariate=cov, **kw)
    metric = fresh()
    exp = tt.Experiment(m=metric)

    def call(m, e, data, via_exp):
        if parameter == "analyze":
            res = e.analyze(data).get("m") if via_exp else m.analyze(data, 0, 1, "variant")
            rows = [tuple(res)]
        else:
            res = e.solve_power(data, parameter)["m"] if via_exp else m.solve_power(data, parameter)
            rows = [tuple(x) for x in res]
        return [tuple("nan" if isinstance(v, float) and v != v else v for v in row) for row in rows]

    def get(res, name):
        return res[name] if not hasattr(res, "get") else res.get(name)
    fails = []
    plan = ["call", "mutate", "call", "other", "call", "mutate-rows", "call"]
    cur = df
    for step, op in enumerate(plan):
        if op == "mutate":
            df["x"] = df["x"] * 3.0 + 1.0           # in place: the object passed before now has other contents
        elif op == "mutate-rows":
            df.loc[df.index[: n // 2], "x"] = 0.5
        elif op == "other":
            try:
                call(metric, exp, other, False)
            except Exception:  # noqa: BLE001 - only the calls on `df` are compared
                pass
        else:
            via_exp = rng.random() < 0.5
            try:
                got = call(metric, exp, cur, via_exp)
                want = call(fresh(), tt.Experiment(m=fresh()), cur.copy(deep=True), via_exp)
            except Exception as e:  # noqa: BLE001
                if "is NaN" in str(e) or "nct" in str(e) or "Cannot find parameter boundaries" in str(e):
                    continue        # solver limits (C09 known findings / unreachable targets), not a matter of object reuse
                fails.append(f"step {step}: {type(e).__name__}: {e}")
                continue
            if got != want:
                fails.append(f"reused metric object, step {step} ({'Experiment' if via_exp else 'metric'}.{parameter}): "
                             f"{got[0]} but a fresh metric on the same contents gives {want[0]}")
    return fails
