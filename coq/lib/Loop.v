(* `for i, x in enumerate(sorted(xs, key=...), start=s): <body>` with loop-carried variables and one output per
   element, as used by multiplicity._hochberg_stepup / _holm_stepdown.  Python's sorted() is stable; it is modelled
   by a stable insertion sort.  Outputs are returned in INPUT order (the code updates each dict in place). *)
From Coq Require Import List Arith Bool.
Import ListNotations.

Section Loop.
Variables (A C O : Type).
Variable leb : A -> A -> bool.          (* key order: ascending processing order *)
Variable ofnat : nat -> A.

(* stable insertion: x goes after every element whose key is <= key x *)
Fixpoint insert (x : nat * A) (l : list (nat * A)) : list (nat * A) :=
  match l with
  | [] => [x]
  | y :: t => if leb (snd y) (snd x) then y :: insert x t else x :: y :: t
  end.
Definition stable_sort (l : list (nat * A)) : list (nat * A) := fold_left (fun acc x => insert x acc) l [].
Definition indexed (xs : list A) : list (nat * A) := combine (seq 0 (length xs)) xs.

(* the loop proper, over an already ordered list *)
Fixpoint run_loop (body : C -> A -> A -> C * O) (carry : C) (i : nat) (l : list (nat * A)) : list (nat * O) :=
  match l with
  | [] => []
  | (idx, x) :: t => let '(carry', o) := body carry (ofnat i) x in (idx, o) :: run_loop body carry' (S i) t
  end.
Fixpoint find_out (outs : list (nat * O)) (i : nat) (d : O) : O :=
  match outs with [] => d | (j, o) :: t => if Nat.eqb i j then o else find_out t i d end.
Definition run_sorted (start : nat) (body : C -> A -> A -> C * O) (carry : C) (d : O) (xs : list A) : list O :=
  let outs := run_loop body carry start (stable_sort (indexed xs)) in
  map (fun i => find_out outs i d) (seq 0 (length xs)).
End Loop.
Arguments run_sorted {A C O}. Arguments run_loop {A C O}. Arguments stable_sort {A}. Arguments indexed {A}.
Arguments insert {A}. Arguments find_out {O}.
