(* A small universe of Python values for the parameter-validation models (C19, C13):
   None, bool, int, float (finite rational | nan | +-inf), str, sequences, anything else.
   Python's comparison / isinstance semantics on these values; results carry the exception kind. *)
From Coq Require Import ZArith QArith String List Bool.
Import ListNotations.
Local Open Scope bool_scope.

Inductive pyfloat := FNaN | FPInf | FNInf | FFin (q : Q).
Inductive pyval :=
  | VNone | VBool (b : bool) | VInt (z : Z) | VFloat (f : pyfloat) | VStr (s : string)
  | VSeq (l : list pyval) | VOther.

Inductive pyexc := TypeError | ValueError | KeyError | RuntimeError.
Inductive result (A : Type) := Ok (a : A) | Err (e : pyexc).
Arguments Ok {A}. Arguments Err {A}.
Definition bind {A B} (r : result A) (f : A -> result B) : result B :=
  match r with Ok a => f a | Err e => Err e end.
Definition is_ok {A} (r : result A) : bool := match r with Ok _ => true | Err _ => false end.

(* type tags used in `typ=` arguments (unions are lists) *)
Inductive tytag := TFloat | TInt | TBool | TStr | TSeq | TNone | TDict | TCallable | TOtherType.
Definition isinstance1 (v : pyval) (t : tytag) : bool :=
  match v, t with
  | VFloat _, TFloat => true
  | VInt _, TInt => true
  | VBool _, TInt => true            (* bool is a subclass of int *)
  | VBool _, TBool => true
  | VStr _, TStr => true
  | VStr _, TSeq => true             (* str is a collections.abc.Sequence *)
  | VSeq _, TSeq => true
  | VNone, TNone => true
  | _, _ => false
  end.
Definition isinstance (v : pyval) (ts : list tytag) : bool := existsb (isinstance1 v) ts.

(* numeric view: bool and int embed into the floats' order *)
Definition as_num (v : pyval) : option pyfloat :=
  match v with
  | VBool b => Some (FFin (if b then 1 else 0))
  | VInt z => Some (FFin (inject_Z z))
  | VFloat f => Some f
  | _ => None
  end.
Definition flt (a b : pyfloat) : bool :=
  match a, b with
  | FNaN, _ | _, FNaN => false
  | FNInf, FNInf => false | FNInf, _ => true
  | _, FNInf => false
  | FPInf, _ => false
  | FFin _, FPInf => true
  | FFin x, FFin y => match Qcompare x y with Lt => true | _ => false end
  end.
Definition feq (a b : pyfloat) : bool :=
  match a, b with
  | FNaN, _ | _, FNaN => false
  | FPInf, FPInf | FNInf, FNInf => true
  | FFin x, FFin y => Qeq_bool x y
  | _, _ => false
  end.
Definition fle (a b : pyfloat) : bool := flt a b || feq a b.

(* value < bound etc.; None = Python raises TypeError (unorderable types) *)
Definition py_lt (a b : pyval) : option bool :=
  match as_num a, as_num b with Some x, Some y => Some (flt x y) | _, _ => None end.
Definition py_le (a b : pyval) : option bool :=
  match as_num a, as_num b with Some x, Some y => Some (fle x y) | _, _ => None end.
Definition py_gt (a b : pyval) : option bool := py_lt b a.
Definition py_ge (a b : pyval) : option bool := py_le b a.
Fixpoint py_eq (a b : pyval) : bool :=
  match as_num a, as_num b with
  | Some x, Some y => feq x y
  | _, _ =>
    match a, b with
    | VNone, VNone => true
    | VStr s, VStr t => String.eqb s t
    | VSeq l, VSeq m =>
        (fix eql (l m : list pyval) : bool :=
           match l, m with [] , [] => true | x :: l', y :: m' => py_eq x y && eql l' m' | _, _ => false end) l m
    | _, _ => false
    end
  end.
Definition py_in (v : pyval) (l : list pyval) : bool := existsb (py_eq v) l.
Definition onot (o : option bool) : option bool := option_map negb o.

(* iteration over a Sequence value: tuples/lists give their items, str gives 1-character strings *)
Fixpoint chars (s : string) : list pyval :=
  match s with EmptyString => [] | String c t => VStr (String c EmptyString) :: chars t end.
Definition seq_items (v : pyval) : list pyval :=
  match v with VSeq l => l | VStr s => chars s | _ => [] end.
Fixpoint check_all (f : pyval -> result pyval) (l : list pyval) : result unit :=
  match l with [] => Ok tt | x :: t => bind (f x) (fun _ => check_all f t) end.

(* `if cond: raise E` where evaluating cond may itself raise TypeError *)
Definition guard (cond : option bool) (e : pyexc) (k : result pyval) : result pyval :=
  match cond with None => Err TypeError | Some true => Err e | Some false => k end.
