(* Instance of the number line used for the EXCEPTION semantics of C18: a Python number is
     Plain i v   - an ordinary int (i = true) or float (i = false),
     Wrapped i v - a tea_tasting.utils.Int (i = true) or utils.Float (i = false): the result of Aggregates.with_zero_div
                   and of the arithmetic operations that dispatch to _NumericBase (which re-wraps with numeric()),
     Raise e     - evaluation raised e (propagates through every operation, like a Python exception),
   Operator dispatch follows Python: the left operand's method runs unless the right operand's type is a subclass of
   the left one's that overrides the reflected method.  Hence  Float/Int op x,  x op Float  and  int op Int  are
   wrapped, but  float op Int  is computed by float.__op__ and is PLAIN (1.0 / Int(0) raises ZeroDivisionError).
   where v is an IEEE value: a finite number (an exact rational here: no rounding, no overflow), +inf, -inf or NaN.
   What this instance decides is WHICH operation can raise: plain / plain division by zero (ZeroDivisionError),
   math.sqrt of a negative number (ValueError), math.exp of a large number (OverflowError); Wrapped / x and x / Wrapped
   follow utils.div.  Finite values of sqrt / exp are stand-ins that keep the sign class.
   The semantics below is hand-written (trusted) and compared with the real operators on special values by
   tools/props/C18.py.  Definitions only. *)
From Coq Require Export QArith Qround String List Bool ZArith.
From TT Require Export lib.Base.
Export ListNotations.

Inductive fl := FFin (q : Q) | FPInf | FNInf | FNaN.
Inductive exn := ZeroDivisionError | ValueError | OverflowError | OtherError.
Inductive xv := Plain (i : bool) (v : fl) | Wrapped (i : bool) (v : fl) | Raise (e : exn).
Notation num := xv (only parsing).

(* ---------- IEEE arithmetic on fl (finite part exact) ---------- *)
Definition qsgn (q : Q) : comparison := (q ?= 0)%Q.          (* Lt: negative, Eq: zero, Gt: positive *)
Definition fneg (a : fl) : fl :=
  match a with FFin q => FFin (Qred (- q)) | FPInf => FNInf | FNInf => FPInf | FNaN => FNaN end.
Definition fadd (a b : fl) : fl :=
  match a, b with
  | FNaN, _ | _, FNaN => FNaN
  | FFin x, FFin y => FFin (Qred (x + y))
  | FPInf, FNInf | FNInf, FPInf => FNaN
  | FPInf, _ | _, FPInf => FPInf
  | FNInf, _ | _, FNInf => FNInf
  end.
Definition fsub (a b : fl) : fl := fadd a (fneg b).
Definition inf_of (c : comparison) : fl := match c with Gt => FPInf | Lt => FNInf | Eq => FNaN end.
Definition cmul (a b : comparison) : comparison :=
  match a, b with Eq, _ | _, Eq => Eq | Gt, Gt | Lt, Lt => Gt | _, _ => Lt end.
Definition fsgn (a : fl) : comparison := match a with FFin q => qsgn q | FPInf => Gt | FNInf => Lt | FNaN => Eq end.
Definition fmul (a b : fl) : fl :=
  match a, b with
  | FNaN, _ | _, FNaN => FNaN
  | FFin x, FFin y => FFin (Qred (x * y))
  | _, _ => inf_of (cmul (fsgn a) (fsgn b))       (* 0 * inf = NaN *)
  end.
Definition fis_zero (a : fl) : bool := match a with FFin q => Qeq_bool q 0 | _ => false end.
(* IEEE division for a denominator that is not zero *)
Definition fdiv (a b : fl) : fl :=
  match a, b with
  | FNaN, _ | _, FNaN => FNaN
  | FFin x, FFin y => FFin (Qred (x / y))
  | FFin _, _ => FFin 0
  | _, FFin y => inf_of (cmul (fsgn a) (qsgn y))
  | _, _ => FNaN                                    (* inf / inf *)
  end.
Definition fltb (a b : fl) : bool :=
  match a, b with
  | FNaN, _ | _, FNaN => false
  | FFin x, FFin y => match (x ?= y)%Q with Lt => true | _ => false end
  | FNInf, FNInf | FPInf, _ => false
  | FNInf, _ => true
  | _, FPInf => true
  | _, FNInf => false
  end.
Definition feqb (a b : fl) : bool :=
  match a, b with
  | FFin x, FFin y => Qeq_bool x y
  | FPInf, FPInf | FNInf, FNInf => true
  | _, _ => false
  end.
Definition fleb (a b : fl) : bool := fltb a b || feqb a b.
(* utils.div with fill_zero_div = "auto":  numer / denom  if denom != 0,  else inf if numer > 0 else nan *)
Definition udiv (a b : fl) : fl :=
  if fis_zero b then (if fltb (FFin 0) a then FPInf else FNaN) else fdiv a b.

(* ---------- Python values ---------- *)
(* does  a op b  dispatch to _NumericBase (left operand wrapped; or right operand wrapped and not [float op Int]) *)
Definition lift2 (f : fl -> fl -> fl) (a b : xv) : xv :=
  match a, b with
  | Raise e, _ => Raise e
  | _, Raise e => Raise e
  | Plain i x, Plain j y => Plain (i && j) (f x y)
  | Plain false x, Wrapped true y => Plain false (f x y)              (* float.__op__(float, Int) *)
  | Plain i x, Wrapped j y | Wrapped i x, Plain j y | Wrapped i x, Wrapped j y => Wrapped (i && j) (f x y)
  end.
Definition xadd := lift2 fadd.
Definition xsub := lift2 fsub.
Definition xmul := lift2 fmul.
(* true division: the result is a float *)
Definition xdiv (a b : xv) : xv :=
  match a, b with
  | Raise e, _ => Raise e
  | _, Raise e => Raise e
  | Plain _ x, Plain _ y | Plain false x, Wrapped true y => if fis_zero y then Raise ZeroDivisionError else Plain false (fdiv x y)
  | Plain _ x, Wrapped _ y | Wrapped _ x, Plain _ y | Wrapped _ x, Wrapped _ y => Wrapped false (udiv x y)
  end.
Definition xneg (a : xv) : xv :=
  match a with Plain i x => Plain i (fneg x) | Wrapped i x => Wrapped i (fneg x) | Raise e => Raise e end.

Declare Scope num_scope.
Delimit Scope num_scope with num.
Notation "x + y" := (xadd x y) : num_scope.
Notation "x - y" := (xsub x y) : num_scope.
Notation "x * y" := (xmul x y) : num_scope.
Notation "x / y" := (xdiv x y) : num_scope.
Notation "- x" := (xneg x) : num_scope.

Definition nlit (z : Z) : num := Plain true (FFin (inject_Z z)).
Definition val (a : xv) : fl := match a with Plain _ x | Wrapped _ x => x | Raise _ => FNaN end.
Definition raises (a : xv) : bool := match a with Raise _ => true | _ => false end.
Definition neqb (x y : num) : bool := negb (raises x) && negb (raises y) && feqb (val x) (val y).
Definition nltb (x y : num) : bool := negb (raises x) && negb (raises y) && fltb (val x) (val y).
Definition nleb (x y : num) : bool := negb (raises x) && negb (raises y) && fleb (val x) (val y).
Definition first_raise (a b : xv) : option exn :=
  match a, b with Raise e, _ => Some e | _, Raise e => Some e | _, _ => None end.
(* Python's max(x, y): x unless y > x;  min(x, y): x unless y < x *)
Definition nmax (x y : num) : num :=
  match first_raise x y with Some e => Raise e | None => if fltb (val x) (val y) then y else x end.
Definition nmin (x y : num) : num :=
  match first_raise x y with Some e => Raise e | None => if fltb (val y) (val x) then y else x end.
Definition nabs (x : num) : num :=
  match x with
  | Plain i v => Plain i (if fltb v (FFin 0) then fneg v else v)
  | Wrapped i v => Wrapped i (if fltb v (FFin 0) then fneg v else v)
  | Raise e => Raise e
  end.
(* x ** n for floats raises OverflowError when the result is finite in exact arithmetic but exceeds the largest double
   (unlike x * x, which returns inf); ints are unbounded *)
Definition fmax : Q := inject_Z (2 ^ 1024).
Definition pow_guard (r : xv) : xv :=
  match r with
  | Plain false (FFin q) | Wrapped false (FFin q) =>
      if Qle_bool q fmax && Qle_bool (- fmax) q then r else Raise OverflowError
  | _ => r
  end.
Fixpoint npow (x : num) (n : nat) : num :=
  match n with O => nlit 1 | S O => x | S k => pow_guard (xmul x (npow x k)) end.
(* math.sqrt: ValueError below zero (and at -inf); the result is a plain float.  Finite stand-in: identity (keeps the sign class) *)
Definition nsqrt (x : num) : num :=
  match x with
  | Raise e => Raise e
  | Plain _ v | Wrapped _ v =>
      match v with
      | FFin q => if fltb v (FFin 0) then Raise ValueError else Plain false (FFin q)
      | FPInf => Plain false FPInf
      | FNInf => Raise ValueError
      | FNaN => Plain false FNaN
      end
  end.
(* math.exp: OverflowError above ~709.78; finite stand-in 1 + q^2 (positive) *)
Definition exp_fin (q : Q) : fl := FFin (Qred (1 + q * q)).
Definition nexp (x : num) : num :=
  match x with
  | Raise e => Raise e
  | Plain _ v | Wrapped _ v =>
      match v with
      | FFin q => if fltb (FFin 709) v then Raise OverflowError else Plain false (exp_fin q)
      | FPInf => Plain false FPInf
      | FNInf => Plain false (FFin 0)
      | FNaN => Plain false FNaN
      end
  end.
(* mean.py _exp: the same, +inf instead of OverflowError *)
Definition nexp_sat (x : num) : num :=
  match x with
  | Raise e => Raise e
  | Plain _ v | Wrapped _ v =>
      match v with
      | FFin q => if fltb (FFin 709) v then Plain false FPInf else Plain false (exp_fin q)
      | FPInf => Plain false FPInf
      | FNInf => Plain false (FFin 0)
      | FNaN => Plain false FNaN
      end
  end.
(* "Python raises here" (RuntimeError / ValueError raised by the code itself) *)
(* math.ceil (only used by power analysis, outside C18): value kept, int kind; ceil of inf / NaN raises in Python *)
Definition nceil (x : num) : num := match x with Plain _ (FFin q) | Wrapped _ (FFin q) => Plain true (FFin (inject_Z (Qceiling q))) | Raise e => Raise e | _ => Raise OverflowError end.
Definition nraise : num := Raise OtherError.
Definition dist_raise : dist num := mk_dist (fun _ => nraise) (fun _ => nraise) (fun _ => nraise) (fun _ => nraise).
Definition oget_dist (o : option (dist num)) : dist num := match o with Some d => d | None => dist_raise end.
Definition eadd (a : ext num) (b : num) : ext num := match a with Fin x => Fin (x + b)%num | PInf => PInf | NInf => NInf end.
Definition esub (a : ext num) (b : num) : ext num := match a with Fin x => Fin (x - b)%num | PInf => PInf | NInf => NInf end.

(* Aggregates.with_zero_div: Int(count_), numeric(v) for every mean / variance / covariance (Int for an int, else Float) *)
Definition nwrap (x : num) : num := match x with Plain i v => Wrapped i v | other => other end.
Definition agg_wrap (a : aggregates num) : aggregates num :=
  mk_aggregates (option_map nwrap (count_ a)) (fun k => nwrap (mean_ a k)) (fun k => nwrap (var_ a k)) (fun k => nwrap (cov_ a k)).

(* printing helper for the primitive-operation differential: (kind, class): kind 0 float / 10 int / 1 Float / 11 Int / 2.. exception;
   class -2 -inf, -1 negative, 0 zero, 1 positive, 2 +inf, 3 NaN *)
Definition fclass (v : fl) : Z :=
  match v with FFin q => match qsgn q with Lt => (-1)%Z | Eq => 0%Z | Gt => 1%Z end | FPInf => 2%Z | FNInf => (-2)%Z | FNaN => 3%Z end.
Definition xshow (x : xv) : Z * Z :=
  match x with
  | Plain i v => ((if i then 10 else 0)%Z, fclass v) | Wrapped i v => ((if i then 11 else 1)%Z, fclass v)
  | Raise ZeroDivisionError => (2%Z, 0%Z) | Raise ValueError => (3%Z, 0%Z) | Raise OverflowError => (4%Z, 0%Z) | Raise OtherError => (5%Z, 0%Z)
  end.
