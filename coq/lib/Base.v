(* Shared, number-type-polymorphic datatypes used by the generated models. No proofs here. *)
From Coq Require Import String List.
Import ListNotations.

Record aggregates (num : Type) := mk_aggregates {
  count_ : option num;
  mean_ : string -> num;
  var_ : string -> num;
  cov_ : string * string -> num }.
Arguments mk_aggregates {num}. Arguments count_ {num}. Arguments mean_ {num}.
Arguments var_ {num}. Arguments cov_ {num}.

Inductive alternative := TwoSided | Greater | Less.
Definition alternative_eqb (a b : alternative) : bool :=
  match a, b with TwoSided, TwoSided | Greater, Greater | Less, Less => true | _, _ => false end.

(* frozen scipy.stats distribution: the four methods the code calls *)
Record dist (num : Type) := mk_dist { cdf : num -> num; sf : num -> num; ppf : num -> num; isf : num -> num }.
Arguments mk_dist {num}. Arguments cdf {num}. Arguments sf {num}. Arguments ppf {num}. Arguments isf {num}.

(* scipy.stats.t(df), scipy.stats.norm(loc), scipy.stats.nct(df,nc) : oracles, never axioms *)
Record dist_family (num : Type) := mk_family {
  t_ : num -> dist num;
  norm_ : num -> dist num;
  nct_ : num -> num -> dist num }.
Arguments mk_family {num}. Arguments t_ {num}. Arguments norm_ {num}. Arguments nct_ {num}.

(* float("+inf") / float("-inf") in result fields *)
Inductive ext (num : Type) := Fin (x : num) | PInf | NInf.
Arguments Fin {num}. Arguments PInf {num}. Arguments NInf {num}.

Definition is_some {A} (o : option A) : bool := match o with Some _ => true | None => false end.
