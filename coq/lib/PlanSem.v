(* Denotational semantics of the plan language of lib/Plan.v over tables of real-valued rows: what a dataframe /
   SQL engine computes when it evaluates the plan as read.  (That the five real engines do evaluate the captured
   plans this way is validated by the exact differential of tools/props/C01.py, not proved.)  Definitions and
   generic lemmas. *)
From Coq Require Import Reals String List Bool Lra.
From TT Require Import lib.Plan lib.Stats.
Import ListNotations.
Local Open Scope R_scope.

Definition table := list row.

(* rows of the same partition: equal value in the group column (None: the whole frame) *)
Definition same_group (g : option string) (r r' : row) : bool :=
  match g with None => true | Some c => if Req_EM_T (r c) (r' c) then true else false end.
Definition part (g : option string) (r : row) (tbl : table) : table := filter (same_group g r) tbl.

(* row context *)
Fixpoint ev (tbl : table) (e : expr) (r : row) : R :=
  match e with
  | Col c => r c
  | Lit z => IZR z
  | Cast a => ev tbl a r
  | Add a b => ev tbl a r + ev tbl b r
  | Sub a b => ev tbl a r - ev tbl b r
  | Mul a b => ev tbl a r * ev tbl b r
  | Div a b => ev tbl a r / ev tbl b r
  | MeanOver a g => smean (ev tbl a) (part g r tbl)
  | _ => 0                                   (* aggregates are not row expressions *)
  end.

(* aggregate context: l = the rows of one group *)
Fixpoint av (tbl : table) (l : table) (e : expr) : R :=
  match e with
  | AggLen => cnt l
  | AggMean a => smean (ev tbl a) l
  | AggSum a => rsum (ev tbl a) l
  | AggVar true a => svar (ev tbl a) l
  | AggVar false a => rsum (fun r => (ev tbl a r - smean (ev tbl a) l) * (ev tbl a r - smean (ev tbl a) l)) l / cnt l
  | AggCov true a b => scov (ev tbl a) (ev tbl b) l
  | AggCov false a b => rsum (fun r => (ev tbl a r - smean (ev tbl a) l) * (ev tbl b r - smean (ev tbl b) l)) l / cnt l
  | Lit z => IZR z
  | Cast a => av tbl l a
  | Add a b => av tbl l a + av tbl l b
  | Sub a b => av tbl l a - av tbl l b
  | Mul a b => av tbl l a * av tbl l b
  | Div a b => av tbl l a / av tbl l b
  | Col _ | MeanOver _ _ => 0
  end.

Fixpoint lookup (c : string) (defs : list (string * expr)) : option expr :=
  match defs with [] => None | (n, e) :: t => if String.eqb c n then Some e else lookup c t end.

(* with_columns / mutate: all definitions are evaluated on the incoming row *)
Definition wc_row (defs : list (string * expr)) (tbl : table) (r : row) : row :=
  fun c => match lookup c defs with Some e => ev tbl e r | None => r c end.
Definition with_columns (defs : list (string * expr)) (tbl : table) : table := map (wc_row defs tbl) tbl.

(* one representative per group, in order of first appearance *)
Fixpoint reps (g : option string) (tbl : table) : list row :=
  match tbl with [] => [] | r :: t => r :: filter (fun r' => negb (same_group g r r')) (reps g t) end.
(* group_by(g).agg(defs) / select(aggregates): one row per group; the group column keeps its value *)
Definition agg_row (g : option string) (defs : list (string * expr)) (tbl : table) (rep : row) : row :=
  fun c => match lookup c defs with Some e => av tbl (part g rep tbl) e | None => rep c end.
Definition aggregate (g : option string) (defs : list (string * expr)) (tbl : table) : table :=
  map (agg_row g defs tbl) (reps g tbl).

Definition run_step (s : step) (tbl : table) : table :=
  match s with WithColumns d => with_columns d tbl | Aggregate g d => aggregate g d tbl end.
Definition run_plan (p : plan) (tbl : table) : table := fold_left (fun t s => run_step s t) p tbl.

(* ---------- generic lemmas ---------- *)
Lemma lookup_app c d1 d2 :
  lookup c (d1 ++ d2) = match lookup c d1 with Some e => Some e | None => lookup c d2 end.
Proof. induction d1 as [|[n e] t IH]; cbn; [reflexivity|]. destruct (String.eqb c n); [reflexivity | exact IH]. Qed.

Lemma lookup_map_hit {X} (name : X -> string) (body : X -> expr) (l : list X) (y : X) :
  In y l -> (forall x, In x l -> name x = name y -> body x = body y) ->
  lookup (name y) (map (fun x => (name x, body x)) l) = Some (body y).
Proof.
  induction l as [|x t IH]; intros Hin Hinj; [destruct Hin|]. cbn.
  destruct (String.eqb (name y) (name x)) eqn:E.
  - apply String.eqb_eq in E. f_equal. apply Hinj; [left; reflexivity | symmetry; exact E].
  - destruct Hin as [->|Hin]; [rewrite String.eqb_refl in E; discriminate|].
    apply IH; [exact Hin | intros x' Hx'; apply Hinj; right; exact Hx'].
Qed.
Lemma lookup_map_miss {X} (name : X -> string) (body : X -> expr) (l : list X) c :
  (forall x, In x l -> String.eqb c (name x) = false) -> lookup c (map (fun x => (name x, body x)) l) = None.
Proof.
  induction l as [|x t IH]; intros H; [reflexivity|]. cbn. rewrite (H x (or_introl eq_refl)).
  apply IH. intros x' Hx'. apply H. right. exact Hx'.
Qed.

Lemma rsum_map f (h : row -> row) l : rsum f (map h l) = rsum (fun r => f (h r)) l.
Proof. induction l as [|r t IH]; cbn; [reflexivity | rewrite IH; reflexivity]. Qed.
Lemma cnt_map (h : row -> row) l : cnt (map h l) = cnt l.
Proof. unfold cnt. rewrite map_length. reflexivity. Qed.
Lemma smean_map f (h : row -> row) l : smean f (map h l) = smean (fun r => f (h r)) l.
Proof. unfold smean. rewrite rsum_map, cnt_map. reflexivity. Qed.

(* same_group is an equivalence *)
Lemma same_group_refl g r : same_group g r r = true.
Proof. destruct g as [c|]; cbn; [|reflexivity]. destruct (Req_EM_T (r c) (r c)); [reflexivity | contradiction]. Qed.
Lemma same_group_sym g r r' : same_group g r r' = same_group g r' r.
Proof.
  destruct g as [c|]; cbn; [|reflexivity].
  destruct (Req_EM_T (r c) (r' c)), (Req_EM_T (r' c) (r c)); try reflexivity; exfalso; auto.
Qed.
Lemma same_group_trans_eq g r r' : same_group g r r' = true -> forall x, same_group g r' x = same_group g r x.
Proof.
  destruct g as [c|]; cbn; [|reflexivity]. destruct (Req_EM_T (r c) (r' c)) as [E|E]; [|discriminate].
  intros _ x. rewrite E. reflexivity.
Qed.
Lemma part_of_member g rep tbl r : In r (part g rep tbl) -> part g r tbl = part g rep tbl.
Proof.
  unfold part. intros H. apply filter_In in H. destruct H as [_ H].
  apply filter_ext. intros x. apply same_group_trans_eq. exact H.
Qed.
Lemma part_member_in g rep tbl r : In r (part g rep tbl) -> In r tbl.
Proof. unfold part. intros H. apply filter_In in H. tauto. Qed.

(* a row transformer that keeps the group column commutes with partitioning and with the choice of representatives *)
Definition keeps (g : option string) (h : row -> row) : Prop := forall r r', same_group g (h r) (h r') = same_group g r r'.
Lemma part_map g h r tbl : keeps g h -> part g (h r) (map h tbl) = map h (part g r tbl).
Proof.
  intros Hk. unfold part. induction tbl as [|x t IH]; [reflexivity|]. cbn. rewrite Hk.
  destruct (same_group g r x); cbn; rewrite IH; reflexivity.
Qed.
Lemma filter_map_comm {X Y} (h : X -> Y) (p : Y -> bool) (l : list X) :
  filter p (map h l) = map h (filter (fun x => p (h x)) l).
Proof. induction l as [|x t IH]; [reflexivity|]. cbn. destruct (p (h x)); cbn; rewrite IH; reflexivity. Qed.
Lemma reps_map g h tbl : keeps g h -> reps g (map h tbl) = map h (reps g tbl).
Proof.
  intros Hk. induction tbl as [|x t IH]; [reflexivity|]. cbn. rewrite IH. f_equal.
  rewrite filter_map_comm. f_equal. apply filter_ext. intros r. rewrite Hk. reflexivity.
Qed.
Lemma reps_in g tbl rep : In rep (reps g tbl) -> In rep tbl.
Proof.
  revert rep. induction tbl as [|x t IH]; intros rep H; [destruct H|]. cbn in H.
  destruct H as [->|H]; [left; reflexivity|]. apply filter_In in H. right. apply IH. tauto.
Qed.

(* one representative per group: every row's group is represented, and two representatives are in different groups *)
Lemma reps_cover g tbl r : In r tbl -> exists rep, In rep (reps g tbl) /\ same_group g rep r = true.
Proof.
  induction tbl as [|x t IH]; intros H; [destruct H|]. cbn.
  destruct (same_group g x r) eqn:E; [exists x; split; [left; reflexivity | exact E]|].
  destruct H as [->|H]; [rewrite same_group_refl in E; discriminate|].
  destruct (IH H) as [rep [Hin Hs]]. exists rep. split; [|exact Hs]. right. apply filter_In. split; [exact Hin|].
  destruct (same_group g x rep) eqn:E2; [|reflexivity].
  rewrite (same_group_trans_eq g x rep E2 r), E in Hs. discriminate.
Qed.
Lemma reps_distinct g tbl : ForallOrdPairs (fun a b => same_group g a b = false) (reps g tbl).
Proof.
  induction tbl as [|x t IH]; cbn; [constructor|]. constructor.
  - apply Forall_forall. intros y Hy. apply filter_In in Hy. destruct Hy as [_ Hy].
    destruct (same_group g x y); [discriminate | reflexivity].
  - clear -IH. induction IH as [|a l Ha Hl IH']; cbn; [constructor|].
    destruct (negb (same_group g x a)); [|exact IH'].
    constructor; [|exact IH']. apply Forall_forall. intros y Hy. apply filter_In in Hy.
    rewrite Forall_forall in Ha. apply Ha. tauto.
Qed.
