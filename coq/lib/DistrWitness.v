(* A concrete family satisfying every law of lib/Distr.v (logistic location family).
   It shows that the hypothesis `fam_laws fam` of the theorems is satisfiable (non-vacuity) and serves as
   the witness family in the `_refuted` findings. *)
From Coq Require Import Reals Lra.
From TT Require Import lib.Base lib.Distr.
Local Open Scope R_scope.

Definition lcdf (x : R) : R := / (1 + exp (- x)).
Definition lppf (q : R) : R := ln (q / (1 - q)).
Definition logistic (loc : R) : dist R :=
  mk_dist (fun x => lcdf (x - loc)) (fun x => 1 - lcdf (x - loc))
          (fun q => loc + lppf q) (fun q => loc + lppf (1 - q)).
Definition logistic_family : dist_family R :=
  mk_family (fun _ => logistic 0) (fun loc => logistic loc) (fun _ nc => logistic nc).

Lemma lcdf_range x : 0 < lcdf x < 1.
Proof.
  unfold lcdf. pose proof (exp_pos (- x)) as He. split.
  - apply Rinv_0_lt_compat. lra.
  - assert (H : / (1 + exp (- x)) < / 1) by (apply Rinv_lt_contravar; lra).
    rewrite Rinv_1 in H. exact H.
Qed.
Lemma lcdf_mono x y : x < y -> lcdf x < lcdf y.
Proof.
  intros H. unfold lcdf. pose proof (exp_pos (- x)). pose proof (exp_pos (- y)).
  assert (exp (- y) < exp (- x)) by (apply exp_increasing; lra).
  apply Rinv_lt_contravar; [apply Rmult_lt_0_compat; lra | lra].
Qed.
Lemma lcdf_lppf q : 0 < q < 1 -> lcdf (lppf q) = q.
Proof.
  intros Hq. unfold lcdf, lppf.
  assert (Hpos : 0 < q / (1 - q)) by (apply Rmult_lt_0_compat; [lra | apply Rinv_0_lt_compat; lra]).
  rewrite exp_Ropp, exp_ln by exact Hpos. field. lra.
Qed.
Lemma lppf_lcdf x : lppf (lcdf x) = x.
Proof.
  unfold lppf, lcdf. pose proof (exp_pos (- x)) as He.
  replace (/ (1 + exp (- x)) / (1 - / (1 + exp (- x)))) with (/ exp (- x)) by (field; lra).
  rewrite <- exp_Ropp, Ropp_involutive. apply ln_exp.
Qed.
Lemma lcdf_sym x : lcdf (- x) = 1 - lcdf x.
Proof.
  unfold lcdf. rewrite Ropp_involutive, (exp_Ropp x). pose proof (exp_pos x). field. lra.
Qed.

Lemma logistic_laws loc : dist_laws (logistic loc).
Proof.
  constructor; cbn.
  - intros x. apply lcdf_range.
  - reflexivity.
  - intros x y H. apply lcdf_mono. lra.
  - intros q Hq. replace (loc + lppf q - loc) with (lppf q) by ring. apply lcdf_lppf. exact Hq.
  - intros x. rewrite lppf_lcdf. ring.
  - reflexivity.
Qed.
Lemma logistic_sym : symmetric (logistic 0).
Proof. intros x. cbn. rewrite !Rminus_0_r. apply lcdf_sym. Qed.

Theorem logistic_family_laws : fam_laws logistic_family.
Proof.
  constructor; cbn.
  - intros. apply logistic_laws.
  - intros. apply logistic_sym.
  - intros. apply logistic_laws.
  - apply logistic_sym.
  - intros. f_equal. ring.
  - intros. apply logistic_laws.
  - reflexivity.
  - intros df nc nc' x _ H. apply lcdf_mono. lra.
Qed.
