(* Sample statistics of lists of rows over the reals, and the algebra the property proofs need. *)
From Coq Require Import Reals String List Lra Lia.
From TT Require Import lib.Base.
Import ListNotations.
Local Open Scope R_scope.

Definition row := string -> R.
Definition col (c : string) : row -> R := fun r => r c.

Fixpoint rsum (f : row -> R) (l : list row) : R :=
  match l with [] => 0 | r :: t => f r + rsum f t end.
Definition cnt (l : list row) : R := INR (length l).
Definition smean (f : row -> R) (l : list row) : R := rsum f l / cnt l.
(* two-pass unbiased sample covariance *)
Definition scov (f g : row -> R) (l : list row) : R :=
  rsum (fun r => (f r - smean f l) * (g r - smean g l)) l / (cnt l - 1).
Definition svar (f : row -> R) (l : list row) : R := scov f f l.

(* the exact aggregates of a sample: what read_aggregates is meant to return (C01) *)
Definition aggr_of (l : list row) : aggregates R :=
  mk_aggregates (Some (cnt l))
    (fun c => smean (col c) l)
    (fun c => svar (col c) l)
    (fun p => scov (col (fst p)) (col (snd p)) l).

Lemma cnt_nil : cnt [] = 0. Proof. reflexivity. Qed.
Lemma cnt_cons r l : cnt (r :: l) = cnt l + 1.
Proof. unfold cnt. cbn [length]. rewrite S_INR. reflexivity. Qed.
Lemma cnt_app l1 l2 : cnt (l1 ++ l2) = cnt l1 + cnt l2.
Proof. unfold cnt. rewrite app_length, plus_INR. reflexivity. Qed.
Lemma cnt_nonneg l : 0 <= cnt l.
Proof. unfold cnt. apply pos_INR. Qed.
Lemma cnt_ge n l : (n <= length l)%nat -> INR n <= cnt l.
Proof. intros H. unfold cnt. apply le_INR. exact H. Qed.
Lemma cnt_ge2 l : (2 <= length l)%nat -> 2 <= cnt l.
Proof. intros H. apply (cnt_ge 2) in H. simpl in H. lra. Qed.

Lemma rsum_app f l1 l2 : rsum f (l1 ++ l2) = rsum f l1 + rsum f l2.
Proof. induction l1 as [|r t IH]; cbn [rsum app]; [lra | rewrite IH; lra]. Qed.
Lemma rsum_ext f g l : (forall r, f r = g r) -> rsum f l = rsum g l.
Proof. intros H. induction l as [|r t IH]; cbn [rsum]; [reflexivity | rewrite H, IH; reflexivity]. Qed.
Lemma rsum_ext_in f g l : (forall r, In r l -> f r = g r) -> rsum f l = rsum g l.
Proof.
  induction l as [|r t IH]; intros H; cbn [rsum]; [reflexivity|].
  rewrite (H r (or_introl eq_refl)), IH; [reflexivity|].
  intros r' Hr'. apply H. right. exact Hr'.
Qed.
Lemma rsum_plus f g l : rsum (fun r => f r + g r) l = rsum f l + rsum g l.
Proof. induction l as [|r t IH]; cbn [rsum]; [lra | rewrite IH; lra]. Qed.
Lemma rsum_scal a f l : rsum (fun r => a * f r) l = a * rsum f l.
Proof. induction l as [|r t IH]; cbn [rsum]; [lra | rewrite IH; lra]. Qed.
Lemma rsum_const a l : rsum (fun _ => a) l = a * cnt l.
Proof. induction l as [|r t IH]; [rewrite cnt_nil; cbn; lra | cbn [rsum]; rewrite IH, cnt_cons; lra]. Qed.
Lemma rsum_sq_nonneg f l : 0 <= rsum (fun r => f r * f r) l.
Proof. induction l as [|r t IH]; cbn [rsum]; [lra | pose proof (Rle_0_sqr (f r)) as H; unfold Rsqr in H; lra]. Qed.

(* centred cross-products in terms of plain sums, for arbitrary centres *)
Lemma rsum_centered f g a b l :
  rsum (fun r => (f r - a) * (g r - b)) l
  = rsum (fun r => f r * g r) l - a * rsum g l - b * rsum f l + a * b * cnt l.
Proof.
  induction l as [|r t IH]; [rewrite cnt_nil; cbn; lra|].
  cbn [rsum]. rewrite IH, cnt_cons. ring.
Qed.

(* two-pass covariance = sums form *)
Lemma scov_sums f g l : cnt l <> 0 ->
  scov f g l = (rsum (fun r => f r * g r) l - rsum f l * rsum g l / cnt l) / (cnt l - 1).
Proof.
  intros Hn. unfold scov, smean. rewrite rsum_centered. f_equal. field. exact Hn.
Qed.

Lemma scov_sym f g l : scov f g l = scov g f l.
Proof. unfold scov. f_equal. apply rsum_ext. intros r. ring. Qed.

(* product of two affine combinations of two columns each *)
Lemma rsum_affine_prod a b c f g a' b' c' f' g' l :
  rsum (fun r => (a + b * f r + c * g r) * (a' + b' * f' r + c' * g' r)) l
  = a * a' * cnt l + a * b' * rsum f' l + a * c' * rsum g' l
    + b * a' * rsum f l + b * b' * rsum (fun r => f r * f' r) l + b * c' * rsum (fun r => f r * g' r) l
    + c * a' * rsum g l + c * b' * rsum (fun r => g r * f' r) l + c * c' * rsum (fun r => g r * g' r) l.
Proof.
  induction l as [|r t IH]; [rewrite cnt_nil; cbn; lra|].
  cbn [rsum]. rewrite IH, cnt_cons. ring.
Qed.
Lemma rsum_affine a b c f g l :
  rsum (fun r => a + b * f r + c * g r) l = a * cnt l + b * rsum f l + c * rsum g l.
Proof.
  induction l as [|r t IH]; [rewrite cnt_nil; cbn; lra|].
  cbn [rsum]. rewrite IH, cnt_cons. ring.
Qed.

(* bilinearity of the sample covariance over affine combinations *)
Lemma scov_affine a b c f g a' b' c' f' g' l : cnt l <> 0 -> cnt l - 1 <> 0 ->
  scov (fun r => a + b * f r + c * g r) (fun r => a' + b' * f' r + c' * g' r) l
  = b * b' * scov f f' l + b * c' * scov f g' l + c * b' * scov g f' l + c * c' * scov g g' l.
Proof.
  intros Hn Hn1. rewrite !scov_sums by exact Hn.
  rewrite rsum_affine_prod, !rsum_affine. field. split; assumption.
Qed.

Lemma smean_affine a b c f g l : cnt l <> 0 ->
  smean (fun r => a + b * f r + c * g r) l = a + b * smean f l + c * smean g l.
Proof. intros Hn. unfold smean. rewrite rsum_affine. field. exact Hn. Qed.

Lemma scov_ext f f' g g' l : (forall r, f r = f' r) -> (forall r, g r = g' r) -> scov f g l = scov f' g' l.
Proof.
  intros Hf Hg. unfold scov, smean. rewrite (rsum_ext f f' l Hf), (rsum_ext g g' l Hg).
  f_equal. apply rsum_ext. intros r. rewrite Hf, Hg. reflexivity.
Qed.
Lemma smean_ext f f' l : (forall r, f r = f' r) -> smean f l = smean f' l.
Proof. intros H. unfold smean. rewrite (rsum_ext f f' l H). reflexivity. Qed.

Lemma smean_ext_in f f' l : (forall r, In r l -> f r = f' r) -> smean f l = smean f' l.
Proof. intros H. unfold smean. rewrite (rsum_ext_in f f' l H). reflexivity. Qed.
Lemma scov_ext_in f f' g g' l : (forall r, In r l -> f r = f' r) -> (forall r, In r l -> g r = g' r) ->
  scov f g l = scov f' g' l.
Proof.
  intros Hf Hg. unfold scov. rewrite (smean_ext_in f f' l Hf), (smean_ext_in g g' l Hg).
  f_equal. apply rsum_ext_in. intros r Hr. rewrite (Hf r Hr), (Hg r Hr). reflexivity.
Qed.

Lemma svar_nonneg f l : 1 < cnt l -> 0 <= svar f l.
Proof.
  intros Hn. unfold svar, scov. apply Rmult_le_pos.
  - apply (rsum_sq_nonneg (fun r => f r - smean f l)).
  - apply Rlt_le, Rinv_0_lt_compat. lra.
Qed.

(* Cauchy-Schwarz for the sample covariance: cov^2 <= var * var *)
Lemma rsum_cauchy f g l :
  rsum (fun r => f r * g r) l * rsum (fun r => f r * g r) l
  <= rsum (fun r => f r * f r) l * rsum (fun r => g r * g r) l.
Proof.
  (* discriminant argument: for all t, sum (f + t g)^2 >= 0 *)
  set (A := rsum (fun r => g r * g r) l).
  set (B := rsum (fun r => f r * g r) l).
  set (C := rsum (fun r => f r * f r) l).
  assert (HQ : forall t, 0 <= C + 2 * t * B + t * t * A).
  { intros t.
    replace (C + 2 * t * B + t * t * A) with (rsum (fun r => (f r + t * g r) * (f r + t * g r)) l).
    - apply rsum_sq_nonneg.
    - unfold A, B, C. clear. induction l as [|r tl IH]; cbn [rsum]; [lra | rewrite IH; ring]. }
  assert (HA : 0 <= A) by apply rsum_sq_nonneg.
  assert (HC : 0 <= C) by apply rsum_sq_nonneg.
  destruct (Req_dec A 0) as [HA0|HA0].
  - (* A = 0 forces B = 0 *)
    assert (HB : B = 0).
    { destruct (Req_dec B 0) as [|HB]; [assumption|exfalso].
      specialize (HQ (- (C + 1) / (2 * B))). rewrite HA0 in HQ.
      replace (C + 2 * (- (C + 1) / (2 * B)) * B + - (C + 1) / (2 * B) * (- (C + 1) / (2 * B)) * 0)
        with (-1) in HQ by (field; exact HB). lra. }
    rewrite HB, HA0. lra.
  - assert (HApos : 0 < A) by lra.
    specialize (HQ (- B / A)).
    replace (C + 2 * (- B / A) * B + - B / A * (- B / A) * A) with ((C * A - B * B) / A) in HQ
      by (field; exact HA0).
    assert (0 <= C * A - B * B).
    { apply Rmult_le_reg_r with (/ A); [apply Rinv_0_lt_compat; exact HApos|].
      rewrite Rmult_0_l. exact HQ. }
    lra.
Qed.

Lemma scov_cauchy f g l : 1 < cnt l -> scov f g l * scov f g l <= svar f l * svar g l.
Proof.
  intros Hn. unfold svar, scov.
  pose proof (rsum_cauchy (fun r => f r - smean f l) (fun r => g r - smean g l) l) as H.
  cbv beta in H.
  set (P := rsum (fun r => (f r - smean f l) * (g r - smean g l)) l) in *.
  set (F := rsum (fun r => (f r - smean f l) * (f r - smean f l)) l) in *.
  set (G := rsum (fun r => (g r - smean g l) * (g r - smean g l)) l) in *.
  assert (Hi : 0 < / (cnt l - 1)) by (apply Rinv_0_lt_compat; lra).
  unfold Rdiv.
  replace (P * / (cnt l - 1) * (P * / (cnt l - 1))) with ((P * P) * (/ (cnt l - 1) * / (cnt l - 1))) by ring.
  replace (F * / (cnt l - 1) * (G * / (cnt l - 1))) with ((F * G) * (/ (cnt l - 1) * / (cnt l - 1))) by ring.
  apply Rmult_le_compat_r; [|exact H].
  apply Rlt_le, Rmult_lt_0_compat; exact Hi.
Qed.

(* permutation invariance *)
From Coq Require Import Permutation.
Lemma rsum_perm f l l' : Permutation l l' -> rsum f l = rsum f l'.
Proof. induction 1; cbn [rsum]; lra. Qed.
Lemma cnt_perm l l' : Permutation l l' -> cnt l = cnt l'.
Proof. intros H. unfold cnt. rewrite (Permutation_length H). reflexivity. Qed.
Lemma smean_perm f l l' : Permutation l l' -> smean f l = smean f l'.
Proof. intros H. unfold smean. rewrite (rsum_perm f _ _ H), (cnt_perm _ _ H). reflexivity. Qed.
Lemma scov_perm f g l l' : Permutation l l' -> scov f g l = scov f g l'.
Proof.
  intros H. unfold scov. rewrite (smean_perm f _ _ H), (smean_perm g _ _ H), (cnt_perm _ _ H).
  f_equal. apply rsum_perm. exact H.
Qed.
