(* Instance of the number line used for THEOREMS: Coq's real numbers. *)
From Coq Require Export Reals String List Bool.
From TT Require Export lib.Base.
Export ListNotations.

Notation num := R (only parsing).
Declare Scope num_scope.
Delimit Scope num_scope with num.

Notation "x + y" := (Rplus x y) : num_scope.
Notation "x - y" := (Rminus x y) : num_scope.
Notation "x * y" := (Rmult x y) : num_scope.
Notation "x / y" := (Rdiv x y) : num_scope.
Notation "- x" := (Ropp x) : num_scope.
Definition nlit (z : Z) : num := IZR z.
Definition neqb (x y : num) : bool := if Req_EM_T x y then true else false.
Definition nltb (x y : num) : bool := if Rlt_dec x y then true else false.
Definition nleb (x y : num) : bool := if Rle_dec x y then true else false.
Definition nsqrt (x : num) : num := sqrt x.
Definition nexp (x : num) : num := exp x.
Definition nln (x : num) : num := ln x.
(* mean.py _exp: math.exp saturating at +inf on overflow; the reals do not overflow *)
Definition nexp_sat (x : num) : num := exp x.
Definition nabs (x : num) : num := Rabs x.
Definition nmin (x y : num) : num := Rmin x y.
Definition nmax (x y : num) : num := Rmax x y.
Definition npow (x : num) (n : nat) : num := pow x n.
(* x ** y for a real exponent (only used by the Sidak correction) *)
(* Python float power for a non-negative base: 0**y is 0 for y > 0 and 1 for y = 0 (Rpower 0 y would be 1) *)
Definition nrpow (x y : num) : num :=
  if Req_EM_T x 0 then (if Req_EM_T y 0 then 1%R else 0%R) else Rpower x y.
Definition nofnat (n : nat) : num := INR n.
Fixpoint nharm (m : nat) : num := match m with O => 0%R | S k => (nharm k + 1 / INR (S k))%R end.
(* junk value standing for "Python raises here"; every theorem excludes these paths by hypothesis *)
(* math.ceil *)
Definition nceil (x : num) : num := (- IZR (Int_part (- x)))%R.
Definition nraise : num := 0%R.
Definition agg_wrap (a : aggregates num) : aggregates num := a.
Definition dist_raise : dist num := mk_dist (fun _ => 0%R) (fun _ => 0%R) (fun _ => 0%R) (fun _ => 0%R).
Definition oget_dist (o : option (dist num)) : dist num := match o with Some d => d | None => dist_raise end.
Definition eadd (a : ext num) (b : num) : ext num := match a with Fin x => Fin (x + b)%num | PInf => PInf | NInf => NInf end.
Definition esub (a : ext num) (b : num) : ext num := match a with Fin x => Fin (x - b)%num | PInf => PInf | NInf => NInf end.
