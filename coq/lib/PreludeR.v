(* Instance of the number line used for THEOREMS: Coq's real numbers. *)
From Coq Require Export Reals String List Bool.
From TT Require Export lib.Base.
Export ListNotations.

Notation num := R (only parsing).
Declare Scope num_scope.
Delimit Scope num_scope with num.

Notation "x + y" := (Rplus x y) : num_scope.
Notation "x - y" := (Rminus x y) : num_scope.
Notation "x * y" := (Rmult x y) : num_scope.
Notation "x / y" := (Rdiv x y) : num_scope.
Notation "- x" := (Ropp x) : num_scope.
Definition nlit (z : Z) : num := IZR z.
Definition neqb (x y : num) : bool := if Req_EM_T x y then true else false.
Definition nltb (x y : num) : bool := if Rlt_dec x y then true else false.
Definition nleb (x y : num) : bool := if Rle_dec x y then true else false.
Definition nsqrt (x : num) : num := sqrt x.
Definition nexp (x : num) : num := exp x.
Definition nabs (x : num) : num := Rabs x.
Definition nmin (x y : num) : num := Rmin x y.
Definition nmax (x y : num) : num := Rmax x y.
Definition npow (x : num) (n : nat) : num := pow x n.
(* x ** y for a real exponent (only used by the Sidak correction) *)
Definition nrpow (x y : num) : num := Rpower x y.
(* junk value standing for "Python raises here"; every theorem excludes these paths by hypothesis *)
Definition nraise : num := 0%R.
Definition dist_raise : dist num := mk_dist (fun _ => 0%R) (fun _ => 0%R) (fun _ => 0%R) (fun _ => 0%R).
Definition oget_dist (o : option (dist num)) : dist num := match o with Some d => d | None => dist_raise end.
Definition eadd (a : ext num) (b : num) : ext num := match a with Fin x => Fin (x + b)%num | PInf => PInf | NInf => NInf end.
Definition esub (a : ext num) (b : num) : ext num := match a with Fin x => Fin (x - b)%num | PInf => PInf | NInf => NInf end.
