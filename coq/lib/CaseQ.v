(* Helpers for the generated correspondence case files (executed with vm_compute over reduced Q). *)
From TT Require Import lib.PreludeQ.
Local Open Scope bool_scope.

Definition qmk (p : Z) (q : positive) : num := Qred (p # q).
Fixpoint alookup (k : string) (l : list (string * num)) : num :=
  match l with [] => nlit 0 | (k', v) :: t => if String.eqb k k' then v else alookup k t end.
Fixpoint alookup2 (k : string * string) (l : list (string * string * num)) : num :=
  match l with
  | [] => nlit 0
  | (a, b, v) :: t => if String.eqb (fst k) a && String.eqb (snd k) b then v else alookup2 k t
  end.
Definition mk_agg (n : option num) (ms vs : list (string * num)) (cs : list (string * string * num)) : aggregates num :=
  mk_aggregates n (fun k => alookup k ms) (fun k => alookup k vs) (fun k => alookup2 k cs).
Definition eshow (e : ext num) : Z * (Z * Z) :=
  match e with Fin x => (0%Z, qshow x) | PInf => (1%Z, (0%Z, 1%Z)) | NInf => ((-1)%Z, (0%Z, 1%Z)) end.
