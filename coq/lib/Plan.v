(* A small relational plan language: what tea_tasting.aggr._read_aggr_narwhals / _read_aggr_ibis BUILD (they do not
   compute).  Plans are reified from the real builders by tools/plans.py and compared with model/ReadPlan.plan_of_spec. *)
From Coq Require Import ZArith String List Bool.
Import ListNotations.
Local Open Scope bool_scope.

Inductive expr :=
  | Col (c : string)
  | Lit (z : Z)
  | Cast (e : expr)                                (* cast("float") *)
  | Add (a b : expr) | Sub (a b : expr) | Mul (a b : expr) | Div (a b : expr)
  | MeanOver (e : expr) (g : option string)        (* row context: mean over the partition of g (None: whole frame) *)
  | AggLen                                         (* aggregate context: number of rows *)
  | AggMean (e : expr) | AggSum (e : expr)
  | AggVar (sample : bool) (e : expr)              (* backend var(how) *)
  | AggCov (sample : bool) (a b : expr).           (* backend cov(how) *)

Inductive step :=
  | WithColumns (defs : list (string * expr))                    (* adds / replaces columns, row count unchanged *)
  | Aggregate (g : option string) (defs : list (string * expr)). (* one row per value of g (one row if None) *)
Definition plan := list step.

Definition ostr_eqb (a b : option string) : bool :=
  match a, b with Some x, Some y => String.eqb x y | None, None => true | _, _ => false end.
Fixpoint expr_eqb (x y : expr) : bool :=
  match x, y with
  | Col a, Col b => String.eqb a b
  | Lit a, Lit b => Z.eqb a b
  | Cast a, Cast b => expr_eqb a b
  | Add a1 a2, Add b1 b2 | Sub a1 a2, Sub b1 b2 | Mul a1 a2, Mul b1 b2 | Div a1 a2, Div b1 b2 =>
      expr_eqb a1 b1 && expr_eqb a2 b2
  | MeanOver a g, MeanOver b h => expr_eqb a b && ostr_eqb g h
  | AggLen, AggLen => true
  | AggMean a, AggMean b | AggSum a, AggSum b => expr_eqb a b
  | AggVar s a, AggVar t b => Bool.eqb s t && expr_eqb a b
  | AggCov s a1 a2, AggCov t b1 b2 => Bool.eqb s t && expr_eqb a1 b1 && expr_eqb a2 b2
  | _, _ => false
  end.
Fixpoint defs_eqb (x y : list (string * expr)) : bool :=
  match x, y with
  | [], [] => true
  | (a, e) :: t, (b, f) :: u => String.eqb a b && expr_eqb e f && defs_eqb t u
  | _, _ => false
  end.
Definition step_eqb (x y : step) : bool :=
  match x, y with
  | WithColumns a, WithColumns b => defs_eqb a b
  | Aggregate g a, Aggregate h b => ostr_eqb g h && defs_eqb a b
  | _, _ => false
  end.
Fixpoint plan_eqb (x y : plan) : bool :=
  match x, y with [], [] => true | a :: t, b :: u => step_eqb a b && plan_eqb t u | _, _ => false end.

(* ---------- comparison up to the commutativity of + and * (the order in which the source writes the factors of a
   product or the terms of a sum is immaterial; soundness: proofs/C01_eqc.v) ---------- *)
Fixpoint expr_eqc (x y : expr) : bool :=
  match x, y with
  | Col a, Col b => String.eqb a b
  | Lit a, Lit b => Z.eqb a b
  | Cast a, Cast b => expr_eqc a b
  | Add a1 a2, Add b1 b2 | Mul a1 a2, Mul b1 b2 =>
      (expr_eqc a1 b1 && expr_eqc a2 b2) || (expr_eqc a1 b2 && expr_eqc a2 b1)
  | Sub a1 a2, Sub b1 b2 | Div a1 a2, Div b1 b2 => expr_eqc a1 b1 && expr_eqc a2 b2
  | MeanOver a g, MeanOver b h => expr_eqc a b && ostr_eqb g h
  | AggLen, AggLen => true
  | AggMean a, AggMean b | AggSum a, AggSum b => expr_eqc a b
  | AggVar s a, AggVar t b => Bool.eqb s t && expr_eqc a b
  | AggCov s a1 a2, AggCov t b1 b2 => Bool.eqb s t && expr_eqc a1 b1 && expr_eqc a2 b2
  | _, _ => false
  end.
Fixpoint defs_eqc (x y : list (string * expr)) : bool :=
  match x, y with
  | [], [] => true
  | (a, e) :: t, (b, f) :: u => String.eqb a b && expr_eqc e f && defs_eqc t u
  | _, _ => false
  end.
Definition step_eqc (x y : step) : bool :=
  match x, y with
  | WithColumns a, WithColumns b => defs_eqc a b
  | Aggregate g a, Aggregate h b => ostr_eqb g h && defs_eqc a b
  | _, _ => false
  end.
Fixpoint plan_eqc (x y : plan) : bool :=
  match x, y with [], [] => true | a :: t, b :: u => step_eqc a b && plan_eqc t u | _, _ => false end.
