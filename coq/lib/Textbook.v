(* The textbook two-sample Student / Welch / Z test computed DIRECTLY from raw observations (lists of reals),
   written from the statistics textbook and independently of the code: only cdf and ppf of the reference
   distribution are used.  C04/C05/C06 prove that the regenerated model of metrics/mean.py equals this. *)
From Coq Require Import Reals List Lra.
From TT Require Import lib.Base lib.Distr lib.ExtR.
Import ListNotations.
Local Open Scope R_scope.

Definition lsum (xs : list R) : R := fold_right Rplus 0 xs.
Definition lmean (xs : list R) : R := lsum xs / INR (length xs).
Definition lvar (xs : list R) : R :=
  lsum (map (fun x => (x - lmean xs) * (x - lmean xs)) xs) / (INR (length xs) - 1).

Record tb_result := mk_tb {
  tb_control : R; tb_treatment : R; tb_effect : R; tb_ci_lower : ext R; tb_ci_upper : ext R;
  tb_rel_effect : R; tb_rel_ci_lower : ext R; tb_rel_ci_upper : ext R; tb_pvalue : R; tb_statistic : R }.

Section Textbook.
Variable fam : dist_family R.

(* standard error of the difference of two means *)
Definition tb_se (equal_var : bool) (vx nx vy ny : R) : R :=
  if equal_var
  then sqrt (((nx - 1) * vx + (ny - 1) * vy) / (nx + ny - 2) * (1 / nx + 1 / ny))   (* pooled: s_p^2 (1/n1 + 1/n2) *)
  else sqrt (vx / nx + vy / ny).
(* degrees of freedom: n1+n2-2 (Student) or Welch-Satterthwaite *)
Definition tb_df (equal_var : bool) (vx nx vy ny : R) : R :=
  if equal_var then nx + ny - 2
  else (vx / nx + vy / ny) * (vx / nx + vy / ny)
       / ((vx / nx) * (vx / nx) / (nx - 1) + (vy / ny) * (vy / ny) / (ny - 1)).
Definition tb_ref (equal_var use_t : bool) (vx nx vy ny : R) : dist R :=
  if use_t then t_ fam (tb_df equal_var vx nx vy ny) else norm_ fam 0.

(* the test as a function of the two samples' mean, variance and size *)
Definition tb_of_stats (alt : alternative) (equal_var use_t : bool) (cl : R) (mx vx nx my vy ny : R) : tb_result :=
  let se := tb_se equal_var vx nx vy ny in
  let d := tb_ref equal_var use_t vx nx vy ny in
  let t := (my - mx) / se in
  (* log-scale delta method for the ratio of the two means: var(log mean) ~ var / (n mean^2) *)
  let wx := vx / (mx * mx) in let wy := vy / (my * my) in
  let se_log := tb_se equal_var wx nx wy ny in
  let d_log := tb_ref equal_var use_t wx nx wy ny in
  let lr := ln (my / mx) in
  match alt with
  | TwoSided =>
      let z := ppf d ((1 + cl) / 2) in let zl := ppf d_log ((1 + cl) / 2) in
      mk_tb mx my (my - mx) (Fin (my - mx - z * se)) (Fin (my - mx + z * se))
            (my / mx - 1) (Fin (exp (lr - zl * se_log) - 1)) (Fin (exp (lr + zl * se_log) - 1))
            (2 * (1 - cdf d (Rabs t))) t
  | Greater =>
      let z := ppf d cl in let zl := ppf d_log cl in
      mk_tb mx my (my - mx) (Fin (my - mx - z * se)) PInf
            (my / mx - 1) (Fin (exp (lr - zl * se_log) - 1)) PInf
            (1 - cdf d t) t
  | Less =>
      let z := ppf d cl in let zl := ppf d_log cl in
      mk_tb mx my (my - mx) NInf (Fin (my - mx + z * se))
            (my / mx - 1) NInf (Fin (exp (lr + zl * se_log) - 1))
            (cdf d t) t
  end.

(* ... computed directly from the raw observations *)
Definition textbook (alt : alternative) (equal_var use_t : bool) (cl : R) (xs ys : list R) : tb_result :=
  tb_of_stats alt equal_var use_t cl (lmean xs) (lvar xs) (INR (length xs)) (lmean ys) (lvar ys) (INR (length ys)).
End Textbook.
