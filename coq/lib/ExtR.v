(* order on extended reals (result fields that may be float("+inf") / float("-inf")) *)
From Coq Require Import Reals Lra.
From TT Require Import lib.Base.
Local Open Scope R_scope.

Definition ext_le (a b : ext R) : Prop :=
  match a, b with
  | NInf, _ => True | _, PInf => True
  | Fin x, Fin y => x <= y
  | _, _ => False
  end.
Definition ext_lt (a b : ext R) : Prop :=
  match a, b with
  | Fin x, Fin y => x < y
  | NInf, Fin _ | NInf, PInf | Fin _, PInf => True
  | _, _ => False
  end.
(* "the interval [lo, hi] excludes zero" *)
Definition excludes_zero (lo hi : ext R) : Prop := ext_lt (Fin 0) lo \/ ext_lt hi (Fin 0).
