(* Distribution oracles: scipy.stats.{t,norm,nct} enter the models as records of functions.
   Their assumed behaviour is a PREDICATE (never an axiom); theorems take `fam_laws fam` as a hypothesis. *)
From Coq Require Import Reals Lra.
From TT Require Import lib.Base.
Local Open Scope R_scope.

Record dist_laws (d : dist R) : Prop := mk_dist_laws {
  L_range : forall x, 0 < cdf d x < 1;                        (* L1 *)
  L_sf : forall x, sf d x = 1 - cdf d x;                      (* L2 *)
  L_mono : forall x y, x < y -> cdf d x < cdf d y;            (* L3 *)
  L_cdf_ppf : forall q, 0 < q < 1 -> cdf d (ppf d q) = q;     (* L4a *)
  L_ppf_cdf : forall x, ppf d (cdf d x) = x;                  (* L4b *)
  L_isf : forall q, 0 < q < 1 -> isf d q = ppf d (1 - q) }.   (* L5 *)

Definition symmetric (d : dist R) : Prop := forall x, cdf d (- x) = 1 - cdf d x.   (* L6 *)

Record fam_laws (fam : dist_family R) : Prop := mk_fam_laws {
  F_t : forall df, 0 < df -> dist_laws (t_ fam df);
  F_t_sym : forall df, 0 < df -> symmetric (t_ fam df);
  F_norm : forall loc, dist_laws (norm_ fam loc);
  F_norm_sym : symmetric (norm_ fam 0);
  F_norm_shift : forall loc x, cdf (norm_ fam loc) x = cdf (norm_ fam 0) (x - loc);     (* L7 *)
  F_nct : forall df nc, 0 < df -> dist_laws (nct_ fam df nc);
  F_nct_zero : forall df x, 0 < df -> cdf (nct_ fam df 0) x = cdf (t_ fam df) x;        (* L8 *)
  (* L9: the noncentral t is stochastically increasing in its noncentrality *)
  F_nct_mono : forall df nc nc' x, 0 < df -> nc < nc' -> cdf (nct_ fam df nc') x < cdf (nct_ fam df nc) x }.

Section Derived.
Variable d : dist R.
Hypothesis HL : dist_laws d.

Lemma cdf_le x y : x <= y -> cdf d x <= cdf d y.
Proof. intros [H|H]; [left; apply (L_mono d HL); exact H | subst; right; reflexivity]. Qed.
Lemma cdf_lt_inv x y : cdf d x < cdf d y -> x < y.
Proof.
  intros H. destruct (Rlt_le_dec x y) as [Hl|Hl]; [exact Hl|].
  pose proof (cdf_le y x Hl). lra.
Qed.
Lemma cdf_le_inv x y : cdf d x <= cdf d y -> x <= y.
Proof.
  intros H. destruct (Rle_lt_dec x y) as [Hl|Hl]; [exact Hl|].
  pose proof (L_mono d HL y x Hl). lra.
Qed.
Lemma cdf_inj x y : cdf d x = cdf d y -> x = y.
Proof. intros H. apply Rle_antisym; apply cdf_le_inv; lra. Qed.

Lemma ppf_lt q x : 0 < q < 1 -> (ppf d q < x <-> q < cdf d x).
Proof.
  intros Hq. split; intros H.
  - rewrite <- (L_cdf_ppf d HL q Hq). apply (L_mono d HL). exact H.
  - apply cdf_lt_inv. rewrite (L_cdf_ppf d HL q Hq). exact H.
Qed.
Lemma ppf_gt q x : 0 < q < 1 -> (x < ppf d q <-> cdf d x < q).
Proof.
  intros Hq. split; intros H.
  - rewrite <- (L_cdf_ppf d HL q Hq). apply (L_mono d HL). exact H.
  - apply cdf_lt_inv. rewrite (L_cdf_ppf d HL q Hq). exact H.
Qed.
Lemma ppf_le q x : 0 < q < 1 -> (ppf d q <= x <-> q <= cdf d x).
Proof.
  intros Hq. split; intros H.
  - rewrite <- (L_cdf_ppf d HL q Hq). apply cdf_le. exact H.
  - apply cdf_le_inv. rewrite (L_cdf_ppf d HL q Hq). exact H.
Qed.
Lemma ppf_ge q x : 0 < q < 1 -> (x <= ppf d q <-> cdf d x <= q).
Proof.
  intros Hq. split; intros H.
  - rewrite <- (L_cdf_ppf d HL q Hq). apply cdf_le. exact H.
  - apply cdf_le_inv. rewrite (L_cdf_ppf d HL q Hq). exact H.
Qed.
Lemma ppf_mono q1 q2 : 0 < q1 < 1 -> 0 < q2 < 1 -> q1 <= q2 -> ppf d q1 <= ppf d q2.
Proof.
  intros H1 H2 H. apply cdf_le_inv. rewrite (L_cdf_ppf d HL q1 H1), (L_cdf_ppf d HL q2 H2). exact H.
Qed.

Hypothesis HS : symmetric d.

Lemma cdf_zero : cdf d 0 = 1 / 2.
Proof. pose proof (HS 0) as H. rewrite Ropp_0 in H. lra. Qed.
Lemma ppf_half : ppf d (1 / 2) = 0.
Proof. rewrite <- cdf_zero. apply (L_ppf_cdf d HL). Qed.
Lemma ppf_sym q : 0 < q < 1 -> ppf d (1 - q) = - ppf d q.
Proof.
  intros Hq. apply cdf_inj. rewrite HS, !(L_cdf_ppf d HL) by lra. reflexivity.
Qed.
Lemma isf_neg_ppf q : 0 < q < 1 -> isf d q = - ppf d q.
Proof. intros Hq. rewrite (L_isf d HL q Hq). apply ppf_sym. exact Hq. Qed.
Lemma ppf_nonneg q : 1 / 2 <= q < 1 -> 0 <= ppf d q.
Proof. intros Hq. rewrite <- ppf_half. apply ppf_mono; lra. Qed.
Lemma sf_neg x : sf d (- x) = cdf d x.
Proof. rewrite (L_sf d HL), HS. lra. Qed.
Lemma sf_abs_le_half x : sf d (Rabs x) <= 1 / 2.
Proof.
  rewrite (L_sf d HL). pose proof (cdf_le 0 (Rabs x) (Rabs_pos x)) as H. rewrite cdf_zero in H. lra.
Qed.
End Derived.
