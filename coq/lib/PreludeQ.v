(* Instance of the number line used for EXECUTION (vm_compute): canonical rationals.
   sqrt / exp are fixed rational stand-in functions; the correspondence harness installs the
   same stand-ins in place of math.sqrt / math.exp / scipy.stats on the Python side, so this
   instance checks which function is applied to which argument, exactly. *)
From Coq Require Export QArith Qround String List Bool ZArith.
From TT Require Export lib.Base.
Export ListNotations.

Notation num := Q (only parsing).
(* every operation renormalises (Qred), so values stay small and no proof terms are carried *)
Definition qadd (x y : Q) : Q := Qred (Qplus x y).
Definition qsub (x y : Q) : Q := Qred (Qminus x y).
Definition qmul (x y : Q) : Q := Qred (Qmult x y).
Definition qdiv (x y : Q) : Q := Qred (Qdiv x y).
Definition qopp (x : Q) : Q := Qopp x.
Declare Scope num_scope.
Delimit Scope num_scope with num.

Notation "x + y" := (qadd x y) : num_scope.
Notation "x - y" := (qsub x y) : num_scope.
Notation "x * y" := (qmul x y) : num_scope.
Notation "x / y" := (qdiv x y) : num_scope.
Notation "- x" := (qopp x) : num_scope.
Definition nlit (z : Z) : num := inject_Z z.
Definition neqb (x y : num) : bool := Qeq_bool x y.
Definition nltb (x y : num) : bool := match (x ?= y)%Q with Lt => true | _ => false end.
Definition nleb (x y : num) : bool := Qle_bool x y.
Definition nabs (x : num) : num := if nltb x (nlit 0) then qopp x else x.
Definition nmin (x y : num) : num := if nleb x y then x else y.
Definition nmax (x y : num) : num := if nleb x y then y else x.
Fixpoint npow (x : num) (n : nat) : num := match n with O => nlit 1 | S k => qmul x (npow x k) end.
(* stand-ins are AFFINE with pairwise different coefficients: injective in every argument, different
   functions differ, and the size of the rationals grows only additively (vm_compute stays fast) *)
Definition nsqrt (x : num) : num := qadd (qmul (nlit 3) x) (nlit 1).
Definition nexp (x : num) : num := qsub (qmul (nlit 2) x) (nlit 5).
Definition nexp_sat (x : num) : num := nexp x.
Definition nln (x : num) : num := qadd (qmul (nlit 7) x) (nlit 2).
Definition nrpow (x y : num) : num := qadd (qadd (qmul (nlit 5) x) (qmul (nlit 3) y)) (nlit 7).
Definition nofnat (n : nat) : num := inject_Z (Z.of_nat n).
Fixpoint nharm (m : nat) : num := match m with O => nlit 0 | S k => qadd (nharm k) (qdiv (nlit 1) (nofnat (S k))) end.
(* math.ceil *)
Definition nceil (x : num) : num := inject_Z (Qceiling x).
Definition nraise : num := nlit 0.
Definition agg_wrap (a : aggregates num) : aggregates num := a.
Definition dist_raise : dist num := mk_dist (fun _ => nlit 0) (fun _ => nlit 0) (fun _ => nlit 0) (fun _ => nlit 0).
Definition oget_dist (o : option (dist num)) : dist num := match o with Some d => d | None => dist_raise end.
Definition eadd (a : ext num) (b : num) : ext num := match a with Fin x => Fin (x + b)%num | PInf => PInf | NInf => NInf end.
Definition esub (a : ext num) (b : num) : ext num := match a with Fin x => Fin (x - b)%num | PInf => PInf | NInf => NInf end.

(* stand-in distribution family: U(kind, method, params, x) = c0 + c1 x + c2 p1 + c3 p2 *)
Definition ufun (c0 c1 c2 c3 : Z) (p1 p2 x : num) : num :=
  qadd (qadd (qadd (nlit c0) (qmul (nlit c1) x)) (qmul (nlit c2) p1)) (qmul (nlit c3) p2).
Definition udist (k : Z) (p1 p2 : num) : dist num :=
  mk_dist (ufun (k+1) 2 3 5 p1 p2) (ufun (k+2) 3 5 7 p1 p2) (ufun (k+3) 5 7 11 p1 p2) (ufun (k+4) 7 11 13 p1 p2).
Definition ufam : dist_family num :=
  mk_family (fun df => udist 10 df (nlit 0)) (fun loc => udist 20 loc (nlit 0)) (fun df nc => udist 30 df nc).

(* printing helper: numerator/denominator as a pair of Z *)
Definition qshow (x : num) : Z * Z := let r := Qred x in (Qnum r, Zpos (Qden r)).
