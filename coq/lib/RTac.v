(* `rq`: equality of real-valued expressions (and of tuples / options / distributions built from them) up to the ring laws
   at every level of the term - below sqrt, Rmax, inverses and distribution parameters as well.  Used for the
   characterising lemmas of the generated model, so that a behaviour-preserving rearrangement of the source (operands
   commuted, a common factor taken out, a subexpression named) does not break them. *)
From Coq Require Import Reals Lra.
Local Open Scope R_scope.

(* identify the arguments of inverses that are equal as ring expressions, so that  / (a + b)  and  / (b + a)  become one atom *)
Ltac norm_inv :=
  repeat match goal with
         | |- context [ / ?x ] =>
             match goal with
             | |- context [ / ?y ] => tryif constr_eq x y then fail else (replace y with x by ring)
             end
         end.
Ltac rq_leaf := first [ reflexivity | ring | (unfold Rdiv; ring) | (unfold Rdiv; norm_inv; ring)
                      | (unfold Rdiv; rewrite ?Rinv_mult; norm_inv; ring) ].
Ltac rq :=
  solve [ rq_leaf
        | match goal with
          | |- (if Rle_dec ?a ?b then _ else _) = (if Rle_dec ?a' ?b' then _ else _) =>
              let Ea := fresh in let Eb := fresh in
              assert (Ea : a' = a) by rq; assert (Eb : b' = b) by rq; rewrite ?Ea, ?Eb; rq
          | |- (if Rlt_dec ?a ?b then _ else _) = (if Rlt_dec ?a' ?b' then _ else _) =>
              let Ea := fresh in let Eb := fresh in
              assert (Ea : a' = a) by rq; assert (Eb : b' = b) by rq; rewrite ?Ea, ?Eb; rq
          | |- (if Req_EM_T ?a ?b then _ else _) = (if Req_EM_T ?a' ?b' then _ else _) =>
              let Ea := fresh in let Eb := fresh in
              assert (Ea : a' = a) by rq; assert (Eb : b' = b) by rq; rewrite ?Ea, ?Eb; rq
          | |- (_, _) = (_, _) => apply f_equal2; rq
          | |- Some _ = Some _ => apply f_equal; rq
          | |- sqrt _ = sqrt _ => apply f_equal; rq
          | |- exp _ = exp _ => apply f_equal; rq
          | |- ln _ = ln _ => apply f_equal; rq
          | |- Rabs _ = Rabs _ => apply f_equal; rq
          | |- Rmax _ _ = Rmax _ _ => first [ apply f_equal2; rq | rewrite Rmax_comm; apply f_equal2; rq ]
          | |- Rmin _ _ = Rmin _ _ => first [ apply f_equal2; rq | rewrite Rmin_comm; apply f_equal2; rq ]
          | |- / _ = / _ => apply f_equal; rq
          | |- - _ = - _ => apply f_equal; rq
          | |- _ / _ = _ / _ => apply f_equal2; rq
          | |- _ * _ = _ * _ => first [ apply f_equal2; rq | rewrite Rmult_comm; apply f_equal2; rq ]
          | |- _ + _ = _ + _ => first [ apply f_equal2; rq | rewrite Rplus_comm; apply f_equal2; rq ]
          | |- _ - _ = _ - _ => apply f_equal2; rq
          | |- ?f _ = ?f _ => apply f_equal; rq
          | |- ?f _ _ = ?f _ _ => apply f_equal2; rq
          | |- ?f _ _ _ = ?f _ _ _ => apply f_equal3; rq
          | |- _ => progress f_equal; rq      (* n-ary constructors (result records): argument by argument *)
          end ].

(* `canon_to t`: every real subterm of the goal that equals the textbook spelling `t` as a ring expression, but is written
   differently (operands in another order, regrouped), is replaced by `t` - so that a proof script written for the
   textbook spelling applies to whatever spelling the generated text uses *)
Ltac canon_to t :=
  repeat match goal with
         | |- context [?e] =>
             lazymatch type of e with R => idtac end;
             tryif constr_eq e t then fail else (replace e with t by ring)
         end.

Example rq_test1 a b c : sqrt (Rmax (a / b + c / b) 0) = sqrt (Rmax (c / b + a / b) 0).
Proof. rq. Qed.
Example rq_test2 p cn tn : sqrt (Rmax (p * (1 / cn + 1 / tn)) 0) = sqrt (Rmax (p / cn + p / tn) 0).
Proof. rq. Qed.
Example rq_test3 a b c d : (a + b) * (a + b) / (a * a / (c - 1) + b * b / (d - 1)) = (b + a) * (b + a) / (b * b / (d - 1) + a * a / (c - 1)).
Proof. rq. Qed.
Example rq_test4 a b : (sqrt (a + b), Some (/ (b + a))) = (sqrt (b + a), Some (/ (a + b))).
Proof. rq. Qed.
Example rq_test5 a b c : Rmin (a * b) 1 = Rmin 1 (b * a) /\ sqrt c * (a + b) = (b + a) * sqrt c.
Proof. split; rq. Qed.
Example rq_test6 f (a b : R) : f (a + b) * exp (b * a) + a = a + exp (a * b) * f (b + a).
Proof. rq. Qed.
Example rq_test7 a b c na nb : (a + b / (na + nb) + c) / (na + nb - 1) = (c + b / (nb + na) + a) / (nb + na - 1).
Proof. rq. Qed.
Example canon_test k n p : sqrt (p * n * (1 - p)) + (k - p * n) = sqrt (n * p * (1 - p)) + (k - n * p).
Proof. canon_to (k - n * p). canon_to (n * p * (1 - p)). reflexivity. Qed.
Example rq_test8 p a t : (Rmin a t, (if Rle_dec p (Rmax a t) then true else false)) = (Rmin t a, (if Rle_dec p (Rmax t a) then true else false)).
Proof. rq. Qed.
Example rq_test9 a b c : a / b / c = a / (c * b).
Proof. rq. Qed.
