(* C12 - user-defined aggregated metrics receive at least the statistics they declared: the merged request of an
   experiment (model/Experiment.merged_spec, AggrCols.__or__ folded over the metrics) covers every metric's own request. *)
From Coq Require Import ZArith String List Bool.
From TT Require Import genP.ExperimentPairs model.Experiment.
Import ListNotations.

Lemma sltb_asym x y : String.ltb x y = true -> String.ltb y x = false.
Proof.
  unfold String.ltb. rewrite (String.compare_antisym y x). destruct (String.compare x y); cbn; try discriminate. reflexivity.
Qed.
Lemma sort_pair_idem p : sort_pair (sort_pair p) = sort_pair p.
Proof.
  unfold sort_pair. destruct (String.ltb (snd p) (fst p)) eqn:E; cbn [fst snd]; [|rewrite E; reflexivity].
  rewrite (sltb_asym _ _ E). reflexivity.
Qed.

(* `big` provides everything `small` asks for (covariance pairs in sorted order, as the reader looks them up) *)
Definition covers (big small : aggr_spec) : Prop :=
  (has_count small = true -> has_count big = true) /\
  (forall c, In c (mean_cols small) -> In c (mean_cols big)) /\
  (forall c, In c (var_cols small) -> In c (var_cols big)) /\
  (forall p, In p (cov_cols small) -> In (sort_pair p) (cov_cols big)).

Lemma covers_or_l a b : covers (spec_or a b) a.
Proof.
  unfold covers, spec_or. cbn. repeat split.
  - intros ->. reflexivity.
  - intros c H. apply nodup_In, in_or_app. left. exact H.
  - intros c H. apply nodup_In, in_or_app. left. exact H.
  - intros p H. apply nodup_In, in_map, nodup_In, in_or_app. left. exact H.
Qed.
Lemma covers_or_r a b : covers (spec_or a b) b.
Proof.
  unfold covers, spec_or. cbn. repeat split.
  - intros ->. apply orb_true_r.
  - intros c H. apply nodup_In, in_or_app. right. exact H.
  - intros c H. apply nodup_In, in_or_app. right. exact H.
  - intros p H. apply nodup_In, in_map, nodup_In, in_or_app. right. exact H.
Qed.
Lemma covers_trans a b c : covers a b -> covers b c -> covers a c.
Proof.
  intros (A1 & A2 & A3 & A4) (B1 & B2 & B3 & B4). repeat split; auto.
  intros p H. rewrite <- sort_pair_idem. apply A4, B4, H.
Qed.
(* everything already accumulated stays covered (its covariance pairs are looked up in sorted order) *)
Definition covers_self (a : aggr_spec) : Prop := covers a a.
Lemma covers_self_or a b : covers_self (spec_or a b).
Proof.
  unfold covers_self, covers. repeat split; auto.
  intros p H. unfold spec_or in *. cbn in *. apply nodup_In in H. apply in_map_iff in H. destruct H as [q [<- Hq]].
  rewrite sort_pair_idem. apply nodup_In, in_map. exact Hq.
Qed.

Lemma fold_covers_acc ms acc : covers_self acc ->
  covers (fold_left (fun a m => match m with MAggr s => spec_or a s | _ => a end) ms acc) acc.
Proof.
  revert acc. induction ms as [|m ms IH]; intros acc Hs; [exact Hs|]. cbn [fold_left].
  destruct m as [s| |]; try (apply IH; exact Hs).
  eapply covers_trans; [apply IH; apply covers_self_or | apply covers_or_l].
Qed.
Lemma fold_covers_member ms acc s : covers_self acc -> In (MAggr s) ms ->
  covers (fold_left (fun a m => match m with MAggr s => spec_or a s | _ => a end) ms acc) s.
Proof.
  revert acc. induction ms as [|m ms IH]; intros acc Hs Hin; [destruct Hin|]. cbn [fold_left].
  destruct Hin as [->|Hin].
  - eapply covers_trans; [apply fold_covers_acc; apply covers_self_or | apply covers_or_r].
  - destruct m as [s'| |]; try (apply IH; assumption). apply IH; [apply covers_self_or | exact Hin].
Qed.

Theorem merged_spec_covers ms s : In (MAggr s) ms -> covers (merged_spec ms) s.
Proof.
  intros H. unfold merged_spec. apply fold_covers_member; [|exact H].
  unfold covers_self, covers, spec_empty. cbn. repeat split; auto; intros ? [].
Qed.

(* the same for power analysis: every PowerBaseAggregated metric's request is covered by the ungrouped query *)
Theorem power_merged_spec_covers ps s : In (PwAggr s) ps -> covers (power_merged_spec ps) s.
Proof.
  intros H. unfold power_merged_spec. apply merged_spec_covers.
  change (MAggr s) with (power_metric (PwAggr s)). apply in_map. exact H.
Qed.
