(* C02 - chunk layout: a table handed over as a sequence of chunks (record batches) denotes the concatenation of its
   chunks.  Cutting the same rows into chunks anywhere, and handing the chunks over in any order, gives the same exact
   statistics (and hence the same analysis).  What is NOT covered is an engine misreading a chunked table - that is the
   subject of the cross-backend differential, which is where the pyarrow defects 9286216 / 3e3677c were found. *)
From Coq Require Import Reals String List Lra Permutation.
From TT Require Import lib.PreludeR lib.Stats proofs.C02_invariance.
Import ListNotations.
Local Open Scope R_scope.

Lemma perm_concat {X} (chs chs' : list (list X)) : Permutation chs chs' -> Permutation (concat chs) (concat chs').
Proof.
  induction 1 as [|c l l' _ IH|c1 c2 l|l1 l2 l3 _ IH1 _ IH2]; cbn [concat].
  - apply perm_nil.
  - apply Permutation_app_head. exact IH.
  - rewrite !app_assoc. apply Permutation_app_tail. apply Permutation_app_comm.
  - eapply perm_trans; eassumption.
Qed.
(* cutting a table anywhere *)
Lemma cut_concat {X} (l : list X) k : concat [firstn k l; skipn k l] = l.
Proof. cbn [concat]. rewrite app_nil_r. apply firstn_skipn. Qed.

Theorem chunks_in_any_order f g (chs chs' : list (list row)) : Permutation chs chs' ->
  cnt (concat chs) = cnt (concat chs') /\ smean f (concat chs) = smean f (concat chs') /\
  scov f g (concat chs) = scov f g (concat chs').
Proof.
  intros H. pose proof (perm_concat chs chs' H) as P.
  repeat split; [apply cnt_perm | apply smean_perm | apply scov_perm]; exact P.
Qed.
Theorem any_chunking_of_the_same_rows f g (chs chs' : list (list row)) : concat chs = concat chs' ->
  cnt (concat chs) = cnt (concat chs') /\ smean f (concat chs) = smean f (concat chs') /\
  scov f g (concat chs) = scov f g (concat chs').
Proof. intros ->. repeat split. Qed.
