(* Characterising lemmas for the GENERATED genR/Mean.v: later proofs depend on these, not on the raw text. *)
From Coq Require Import Reals String List Lra.
From TT Require Import lib.PreludeR lib.RTac lib.Stats lib.Distr genR.Aggr genR.Mean.
Local Open Scope R_scope.

Ltac nR := cbv [nlit nraise neqb nsqrt nexp nexp_sat nabs nmax npow pow] in *.

Section Core.
Variable fam : dist_family R.

(* textbook quantities, written independently of the generated code *)
Definition pooled_var (cv cn tv tn : R) : R := ((cn - 1) * cv + (tn - 1) * tv) / (cn + tn - 2).
Definition se_of (equal_var : bool) (cv cn tv tn : R) : R :=
  if equal_var then sqrt (Rmax (pooled_var cv cn tv tn / cn + pooled_var cv cn tv tn / tn) 0)
  else sqrt (Rmax (cv / cn + tv / tn) 0).
(* the clamp at zero (it only guards against a rounding error making the variance negative) is inactive on the reals *)
Definition se_plain (equal_var : bool) (cv cn tv tn : R) : R :=
  if equal_var then sqrt (pooled_var cv cn tv tn / cn + pooled_var cv cn tv tn / tn) else sqrt (cv / cn + tv / tn).
Lemma se_of_plain ev cv cn tv tn : 0 <= cv -> 0 <= tv -> 1 < cn -> 1 < tn -> se_of ev cv cn tv tn = se_plain ev cv cn tv tn.
Proof.
  intros Hcv Htv Hcn Htn. unfold se_of, se_plain, pooled_var.
  assert (H1 : 0 <= cv / cn) by (apply Rmult_le_pos; [lra | left; apply Rinv_0_lt_compat; lra]).
  assert (H2 : 0 <= tv / tn) by (apply Rmult_le_pos; [lra | left; apply Rinv_0_lt_compat; lra]).
  destruct ev.
  - assert (Hp : 0 <= ((cn - 1) * cv + (tn - 1) * tv) / (cn + tn - 2)).
    { apply Rmult_le_pos; [|left; apply Rinv_0_lt_compat; lra].
      apply Rplus_le_le_0_compat; apply Rmult_le_pos; lra. }
    rewrite Rmax_left; [reflexivity|].
    apply Rplus_le_le_0_compat; (apply Rmult_le_pos; [exact Hp | left; apply Rinv_0_lt_compat; lra]).
  - rewrite Rmax_left; [reflexivity | lra].
Qed.
Definition welch_df (cv cn tv tn : R) : R :=
  (cv / cn + tv / tn) * (cv / cn + tv / tn)
  / ((cv / cn) * (cv / cn) / (cn - 1) + (tv / tn) * (tv / tn) / (tn - 1)).
Definition df_of (equal_var : bool) (cv cn tv tn : R) : R :=
  if equal_var then cn + tn - 2 else welch_df cv cn tv tn.
Definition null_of (equal_var use_t : bool) (cv cn tv tn : R) : dist R :=
  if use_t then t_ fam (df_of equal_var cv cn tv tn) else norm_ fam 0.

Lemma scale_and_distr_none cfg cv cn tv tn :
  rom_scale_and_distr fam cfg cv cn tv tn None
  = (se_of (cfg_equal_var cfg) cv cn tv tn, null_of (cfg_equal_var cfg) (cfg_use_t cfg) cv cn tv tn, None).
Proof.
  unfold rom_scale_and_distr, se_of, null_of, df_of, welch_df, pooled_var.
  destruct (cfg_equal_var cfg), (cfg_use_t cfg); nR; cbv zeta; rewrite ?Rmult_1_r; rq.
Qed.

Definition alt_of (use_t : bool) (df nc : R) : dist R :=
  if use_t then nct_ fam df nc else norm_ fam nc.
Lemma scale_and_distr_some cfg cv cn tv tn e :
  rom_scale_and_distr fam cfg cv cn tv tn (Some e)
  = (se_of (cfg_equal_var cfg) cv cn tv tn, null_of (cfg_equal_var cfg) (cfg_use_t cfg) cv cn tv tn,
     Some (alt_of (cfg_use_t cfg) (df_of (cfg_equal_var cfg) cv cn tv tn) (e / se_of (cfg_equal_var cfg) cv cn tv tn))).
Proof.
  unfold rom_scale_and_distr, alt_of, se_of, null_of, df_of, welch_df, pooled_var.
  destruct (cfg_equal_var cfg), (cfg_use_t cfg); nR; cbv zeta; rewrite ?Rmult_1_r; rq.
Qed.

(* the result of _analyze_stats, one lemma per alternative *)
Section Stats.
Variables (cfg : rom) (cm cv cn tm tv tn : R).
Let ev := cfg_equal_var cfg. Let ut := cfg_use_t cfg.
Let s := se_of ev cv cn tv tn.
Let d := null_of ev ut cv cn tv tn.
Let ls := se_of ev (cv / cm / cm) cn (tv / tm / tm) tn.
Let ld := null_of ev ut (cv / cm / cm) cn (tv / tm / tm) tn.
Let cl := cfg_confidence_level cfg.

Lemma analyze_stats_greater : cfg_alternative cfg = Greater ->
  rom_analyze_stats fam cfg cm cv cn tm tv tn =
  mk_mean_result cm tm (tm - cm)
    (Fin (tm - cm + s * isf d cl)) PInf
    (tm / cm - 1) (Fin (tm / cm * exp (ls * isf ld cl) - 1)) PInf
    (sf d ((tm - cm) / s)) ((tm - cm) / s).
Proof.
  intros Ha. unfold rom_analyze_stats. rewrite !scale_and_distr_none, Ha. cbn [alternative_eqb]. first [reflexivity | (cbv beta iota zeta; nR; cbn [esub eadd]; unfold s, d, ls, ld, cl, ev, ut; rq)].
Qed.
Lemma analyze_stats_less : cfg_alternative cfg = Less ->
  rom_analyze_stats fam cfg cm cv cn tm tv tn =
  mk_mean_result cm tm (tm - cm)
    NInf (Fin (tm - cm + s * ppf d cl))
    (tm / cm - 1) NInf (Fin (tm / cm * exp (ls * ppf ld cl) - 1))
    (cdf d ((tm - cm) / s)) ((tm - cm) / s).
Proof.
  intros Ha. unfold rom_analyze_stats. rewrite !scale_and_distr_none, Ha. cbn [alternative_eqb]. first [reflexivity | (cbv beta iota zeta; nR; cbn [esub eadd]; unfold s, d, ls, ld, cl, ev, ut; rq)].
Qed.
Lemma analyze_stats_two_sided : cfg_alternative cfg = TwoSided ->
  rom_analyze_stats fam cfg cm cv cn tm tv tn =
  mk_mean_result cm tm (tm - cm)
    (Fin (tm - cm - s * ppf d ((1 + cl) / 2))) (Fin (tm - cm + s * ppf d ((1 + cl) / 2)))
    (tm / cm - 1)
    (Fin (tm / cm / exp (ls * ppf ld ((1 + cl) / 2)) - 1)) (Fin (tm / cm * exp (ls * ppf ld ((1 + cl) / 2)) - 1))
    (2 * sf d (Rabs ((tm - cm) / s))) ((tm - cm) / s).
Proof.
  intros Ha. unfold rom_analyze_stats. rewrite !scale_and_distr_none, Ha. cbn [alternative_eqb]. first [reflexivity | (cbv beta iota zeta; nR; cbn [esub eadd]; unfold s, d, ls, ld, cl, ev, ut; rq)].
Qed.
End Stats.

(* ---------- admissibility: the distribution actually used satisfies the laws ---------- *)
Lemma welch_df_pos cv cn tv tn : 1 < cn -> 1 < tn -> 0 <= cv -> 0 <= tv -> 0 < cv + tv ->
  0 < welch_df cv cn tv tn.
Proof.
  intros Hcn Htn Hcv Htv Hs. unfold welch_df.
  set (a := cv / cn). set (b := tv / tn).
  assert (Ha : 0 <= a) by (unfold a; apply Rmult_le_pos; [lra | apply Rlt_le, Rinv_0_lt_compat; lra]).
  assert (Hb : 0 <= b) by (unfold b; apply Rmult_le_pos; [lra | apply Rlt_le, Rinv_0_lt_compat; lra]).
  assert (Hab : 0 < a + b).
  { destruct Hcv as [Hcv|Hcv].
    - assert (0 < a) by (unfold a; apply Rmult_lt_0_compat; [lra | apply Rinv_0_lt_compat; lra]). lra.
    - assert (0 < tv) by lra.
      assert (0 < b) by (unfold b; apply Rmult_lt_0_compat; [lra | apply Rinv_0_lt_compat; lra]). lra. }
  apply Rmult_lt_0_compat; [apply Rmult_lt_0_compat; exact Hab|].
  apply Rinv_0_lt_compat.
  assert (Hi1 : 0 < / (cn - 1)) by (apply Rinv_0_lt_compat; lra).
  assert (Hi2 : 0 < / (tn - 1)) by (apply Rinv_0_lt_compat; lra).
  destruct Ha as [Ha|Ha].
  - assert (0 < a * a / (cn - 1)) by (apply Rmult_lt_0_compat; [apply Rmult_lt_0_compat; exact Ha | exact Hi1]).
    assert (0 <= b * b / (tn - 1)) by (apply Rmult_le_pos; [apply Rmult_le_pos; exact Hb | lra]).
    lra.
  - assert (Hb' : 0 < b) by lra.
    assert (0 <= a * a / (cn - 1)) by (rewrite <- Ha; unfold Rdiv; rewrite !Rmult_0_l; lra).
    assert (0 < b * b / (tn - 1)) by (apply Rmult_lt_0_compat; [apply Rmult_lt_0_compat; exact Hb' | exact Hi2]).
    lra.
Qed.

Lemma df_of_pos ev cv cn tv tn : 1 < cn -> 1 < tn -> 0 <= cv -> 0 <= tv -> 0 < cv + tv ->
  0 < df_of ev cv cn tv tn.
Proof.
  intros. unfold df_of. destruct ev; [lra | apply welch_df_pos; assumption].
Qed.

Lemma null_of_laws ev ut cv cn tv tn : fam_laws fam ->
  1 < cn -> 1 < tn -> 0 <= cv -> 0 <= tv -> 0 < cv + tv ->
  dist_laws (null_of ev ut cv cn tv tn) /\ symmetric (null_of ev ut cv cn tv tn).
Proof.
  intros HF Hcn Htn Hcv Htv Hs. unfold null_of. destruct ut.
  - pose proof (df_of_pos ev cv cn tv tn Hcn Htn Hcv Htv Hs) as Hdf.
    split; [apply (F_t fam HF) | apply (F_t_sym fam HF)]; exact Hdf.
  - split; [apply (F_norm fam HF) | apply (F_norm_sym fam HF)].
Qed.

Lemma Rmax_scale c x : 0 < c -> Rmax (c * x) 0 = c * Rmax x 0.
Proof.
  intros Hc. unfold Rmax. destruct (Rle_dec (c * x) 0) as [H|H], (Rle_dec x 0) as [H'|H']; try lra; nra.
Qed.

Lemma se_of_pos ev cv cn tv tn : 1 < cn -> 1 < tn -> 0 <= cv -> 0 <= tv -> 0 < cv + tv ->
  0 < se_of ev cv cn tv tn.
Proof.
  intros Hcn Htn Hcv Htv Hs. rewrite se_of_plain by assumption. unfold se_plain, pooled_var.
  assert (Hi1 : 0 < / cn) by (apply Rinv_0_lt_compat; lra).
  assert (Hi2 : 0 < / tn) by (apply Rinv_0_lt_compat; lra).
  destruct ev; apply sqrt_lt_R0.
  - assert (Hp : 0 < ((cn - 1) * cv + (tn - 1) * tv) / (cn + tn - 2)).
    { apply Rmult_lt_0_compat; [|apply Rinv_0_lt_compat; lra].
      destruct Hcv as [Hcv|Hcv].
      + assert (0 < (cn - 1) * cv) by (apply Rmult_lt_0_compat; lra).
        assert (0 <= (tn - 1) * tv) by (apply Rmult_le_pos; lra). lra.
      + assert (0 < (tn - 1) * tv) by (apply Rmult_lt_0_compat; lra).
        rewrite <- Hcv. lra. }
    assert (0 < ((cn - 1) * cv + (tn - 1) * tv) / (cn + tn - 2) / cn) by (apply Rmult_lt_0_compat; lra).
    assert (0 < ((cn - 1) * cv + (tn - 1) * tv) / (cn + tn - 2) / tn) by (apply Rmult_lt_0_compat; lra).
    lra.
  - destruct Hcv as [Hcv|Hcv].
    + assert (0 < cv / cn) by (apply Rmult_lt_0_compat; lra).
      assert (0 <= tv / tn) by (apply Rmult_le_pos; lra). lra.
    + assert (0 < tv / tn) by (apply Rmult_lt_0_compat; lra).
      rewrite <- Hcv. unfold Rdiv at 1. rewrite Rmult_0_l. lra.
Qed.
End Core.
