(* C04/C05 - the generated _analyze_stats is the textbook test; aggregated analysis = test on (linearised) rows *)
From Coq Require Import Reals String List Lra.
From TT Require Import lib.PreludeR lib.Stats lib.Distr lib.ExtR lib.Textbook genR.Aggr genR.Mean
  proofs.C14_pooling proofs.Mean_core proofs.Mean_aggr.
Import ListNotations.
Local Open Scope R_scope.

Definition to_tb (r : mean_result) : tb_result :=
  mk_tb (mr_control r) (mr_treatment r) (mr_effect_size r) (mr_effect_size_ci_lower r) (mr_effect_size_ci_upper r)
        (mr_rel_effect_size r) (mr_rel_effect_size_ci_lower r) (mr_rel_effect_size_ci_upper r)
        (mr_pvalue r) (mr_statistic r).

(* ---------- raw lists vs row statistics ---------- *)
Lemma lsum_map f l : lsum (map f l) = rsum f l.
Proof. induction l as [|r t IH]; cbn; [reflexivity | unfold lsum in IH; rewrite IH; reflexivity]. Qed.
Lemma lmean_map f l : lmean (map f l) = smean f l.
Proof. unfold lmean, smean, cnt. rewrite lsum_map, map_length. reflexivity. Qed.
Lemma lvar_map f l : lvar (map f l) = svar f l.
Proof.
  unfold lvar, svar, scov, cnt. rewrite map_length, lmean_map, map_map, lsum_map. reflexivity.
Qed.

Section StatsLevel.
Variable fam : dist_family R.
Hypothesis HF : fam_laws fam.
Variables (cfg : rom) (cm cv cn tm tv tn : R).
Hypothesis Hcn : 1 < cn.
Hypothesis Htn : 1 < tn.
Hypothesis Hcv : 0 <= cv.
Hypothesis Htv : 0 <= tv.
Hypothesis Hpos : 0 < cv + tv.
Hypothesis Hcl : 0 < cfg_confidence_level cfg < 1.

Lemma se_textbook ev a b : 0 <= a -> 0 <= b -> se_of ev a cn b tn = tb_se ev a cn b tn.
Proof.
  intros Ha Hb. rewrite se_of_plain by assumption.
  unfold se_plain, tb_se, pooled_var. destruct ev; [|reflexivity]. f_equal. field. lra.
Qed.
Lemma null_textbook ev ut a b : null_of fam ev ut a cn b tn = tb_ref fam ev ut a cn b tn.
Proof. reflexivity. Qed.

Let R0 := rom_analyze_stats fam cfg cm cv cn tm tv tn.
Let T0 := tb_of_stats fam (cfg_alternative cfg) (cfg_equal_var cfg) (cfg_use_t cfg) (cfg_confidence_level cfg)
                      cm cv cn tm tv tn.

(* everything except the relative interval: no sign condition *)
Lemma stats_textbook_abs :
  mr_control R0 = tb_control T0 /\ mr_treatment R0 = tb_treatment T0 /\ mr_effect_size R0 = tb_effect T0 /\
  mr_effect_size_ci_lower R0 = tb_ci_lower T0 /\ mr_effect_size_ci_upper R0 = tb_ci_upper T0 /\
  mr_rel_effect_size R0 = tb_rel_effect T0 /\ mr_pvalue R0 = tb_pvalue T0 /\ mr_statistic R0 = tb_statistic T0.
Proof.
  destruct (null_of_laws fam (cfg_equal_var cfg) (cfg_use_t cfg) cv cn tv tn HF Hcn Htn Hcv Htv Hpos) as [HL HS].
  unfold R0, T0, tb_of_stats. destruct (cfg_alternative cfg) eqn:Ha.
  - rewrite (analyze_stats_two_sided fam cfg cm cv cn tm tv tn Ha). cbn.
    rewrite !se_textbook, !null_textbook in * by assumption. rewrite (L_sf _ HL).
    repeat split; try reflexivity; f_equal; ring.
  - rewrite (analyze_stats_greater fam cfg cm cv cn tm tv tn Ha). cbn.
    rewrite !se_textbook, !null_textbook in * by assumption. rewrite (L_sf _ HL), (isf_neg_ppf _ HL HS _ Hcl).
    repeat split; try reflexivity; f_equal; ring.
  - rewrite (analyze_stats_less fam cfg cm cv cn tm tv tn Ha). cbn.
    rewrite !se_textbook, !null_textbook in * by assumption.
    repeat split; try reflexivity; f_equal; ring.
Qed.

(* the relative interval is the log-scale delta-method interval when the two means have the same sign *)
Hypothesis Hsign : 0 < cm * tm.
Lemma stats_textbook_rel :
  mr_rel_effect_size_ci_lower R0 = tb_rel_ci_lower T0 /\ mr_rel_effect_size_ci_upper R0 = tb_rel_ci_upper T0.
Proof.
  assert (Hcm : cm <> 0) by (intros E; rewrite E in Hsign; lra).
  assert (Htm : tm <> 0) by (intros E; rewrite E in Hsign; lra).
  assert (Hratio : 0 < tm / cm).
  { replace (tm / cm) with (cm * tm * / (cm * cm)) by (field; assumption).
    apply Rmult_lt_0_compat; [exact Hsign | apply Rinv_0_lt_compat; nra]. }
  assert (Hw1 : cv / cm / cm = cv / (cm * cm)) by (field; exact Hcm).
  assert (Hw2 : tv / tm / tm = tv / (tm * tm)) by (field; exact Htm).
  assert (Hs1 : 0 <= cv / (cm * cm)) by (apply Rmult_le_pos; [lra | apply Rlt_le, Rinv_0_lt_compat; nra]).
  assert (Hs2 : 0 <= tv / (tm * tm)) by (apply Rmult_le_pos; [lra | apply Rlt_le, Rinv_0_lt_compat; nra]).
  assert (Hs3 : 0 < cv / (cm * cm) + tv / (tm * tm)).
  { assert (0 < / (cm * cm)) by (apply Rinv_0_lt_compat; nra).
    assert (0 < / (tm * tm)) by (apply Rinv_0_lt_compat; nra).
    destruct Hcv as [Hc|Hc].
    - assert (0 < cv / (cm * cm)) by (apply Rmult_lt_0_compat; lra). lra.
    - assert (0 < tv / (tm * tm)) by (apply Rmult_lt_0_compat; lra). lra. }
  destruct (null_of_laws fam (cfg_equal_var cfg) (cfg_use_t cfg) _ cn _ tn HF Hcn Htn Hs1 Hs2 Hs3) as [HL HS].
  assert (Hexp : forall u, tm / cm * exp u = exp (ln (tm / cm) + u)).
  { intros u. rewrite exp_plus, exp_ln by exact Hratio. reflexivity. }
  unfold R0, T0, tb_of_stats. destruct (cfg_alternative cfg) eqn:Ha.
  - rewrite (analyze_stats_two_sided fam cfg cm cv cn tm tv tn Ha). cbn.
    rewrite Hw1, Hw2, !se_textbook, !null_textbook by assumption.
    split; f_equal; f_equal.
    + unfold Rdiv at 1. rewrite <- exp_Ropp, Hexp. f_equal. ring.
    + rewrite Hexp. f_equal. ring.
  - rewrite (analyze_stats_greater fam cfg cm cv cn tm tv tn Ha). cbn.
    rewrite Hw1, Hw2, !se_textbook, !null_textbook by assumption.
    split; [|reflexivity]. f_equal. f_equal.
    rewrite <- null_textbook, (isf_neg_ppf _ HL HS _ Hcl), Hexp. f_equal. ring.
  - rewrite (analyze_stats_less fam cfg cm cv cn tm tv tn Ha). cbn.
    rewrite Hw1, Hw2, !se_textbook, !null_textbook by assumption.
    split; [reflexivity|]. f_equal. f_equal. rewrite Hexp. f_equal. ring.
Qed.
End StatsLevel.

(* ---------- aggregated analysis without covariates = the test on the linearised rows ---------- *)
Section NoCovariate.
Variable fam : dist_family R.
Variable cfg : rom.
Hypothesis Hnc : cfg_numer_covariate cfg = None.
Hypothesis Hdc : cfg_denom_covariate cfg = None.
Variables lc lt : list row.
Hypothesis Hlc : (2 <= length lc)%nat.
Hypothesis Hlt : (2 <= length lt)%nat.
Hypothesis Hdc_c : smean (ocol (cfg_denom cfg)) lc <> 0.
Hypothesis Hdc_t : smean (ocol (cfg_denom cfg)) lt <> 0.

Lemma smean_one l : (2 <= length l)%nat -> smean (ocol None) l = 1.
Proof. intros H. cbn. apply smean_const. pose proof (cnt_ge2 l H). lra. Qed.

Lemma analyze_no_covariate :
  rom_analyze_aggregates fam cfg (aggr_of lc) (aggr_of lt)
  = rom_analyze_stats fam cfg
      (smean (linY cfg lc) lc) (svar (linY cfg lc) lc) (cnt lc)
      (smean (linY cfg lt) lt) (svar (linY cfg lt) lt) (cnt lt).
Proof.
  unfold rom_analyze_aggregates, agg_with_zero_div, agg_wrap.
  rewrite (covariate_coef_none cfg _ Hnc Hdc).
  assert (Hx_c : smean (ocol (cfg_denom_covariate cfg)) lc <> 0) by (rewrite Hdc, smean_one by exact Hlc; lra).
  assert (Hx_t : smean (ocol (cfg_denom_covariate cfg)) lt <> 0) by (rewrite Hdc, smean_one by exact Hlt; lra).
  rewrite (metric_mean_repr cfg lc Hlc Hdc_c Hx_c), (metric_mean_repr cfg lt Hlt Hdc_t Hx_t).
  rewrite (metric_var_repr cfg lc Hlc Hdc_c Hx_c), (metric_var_repr cfg lt Hlt Hdc_t Hx_t).
  rewrite !agg_count_aggr_of.
  f_equal; try (apply smean_ext; intros r; ring); unfold svar; apply scov_ext; intros r; ring.
Qed.
End NoCovariate.

(* a denominator that is absent, or a column of ones, linearises to the numerator itself *)
Lemma lin_const_one f l r : cnt l <> 0 -> lin f (fun _ => 1) l r = f r.
Proof. intros Hn. unfold lin. rewrite smean_const by exact Hn. field. Qed.
Lemma lin_ones f g l r : cnt l <> 0 -> (forall r', In r' l -> g r' = 1) -> In r l -> lin f g l r = f r.
Proof.
  intros Hn Hg Hr. unfold lin.
  assert (Hm : smean g l = 1).
  { unfold smean. rewrite (rsum_ext_in g (fun _ => 1) l Hg), rsum_const. field. exact Hn. }
  rewrite Hm, (Hg r Hr). field.
Qed.

(* ---------- row-level statements ---------- *)
Definition tb_abs_eq (r : mean_result) (T : tb_result) : Prop :=
  mr_control r = tb_control T /\ mr_treatment r = tb_treatment T /\ mr_effect_size r = tb_effect T /\
  mr_effect_size_ci_lower r = tb_ci_lower T /\ mr_effect_size_ci_upper r = tb_ci_upper T /\
  mr_rel_effect_size r = tb_rel_effect T /\ mr_pvalue r = tb_pvalue T /\ mr_statistic r = tb_statistic T.
Definition tb_rel_eq (r : mean_result) (T : tb_result) : Prop :=
  mr_rel_effect_size_ci_lower r = tb_rel_ci_lower T /\ mr_rel_effect_size_ci_upper r = tb_rel_ci_upper T.

Section RowLevel.
Variable fam : dist_family R.
Hypothesis HF : fam_laws fam.
Variable cfg : rom.
Hypothesis Hnc : cfg_numer_covariate cfg = None.
Hypothesis Hdc : cfg_denom_covariate cfg = None.
Hypothesis Hcl : 0 < cfg_confidence_level cfg < 1.
Variables lc lt : list row.
Hypothesis Hlc : (2 <= length lc)%nat.
Hypothesis Hlt : (2 <= length lt)%nat.
Hypothesis Hdc_c : smean (ocol (cfg_denom cfg)) lc <> 0.
Hypothesis Hdc_t : smean (ocol (cfg_denom cfg)) lt <> 0.
Hypothesis Hvar : 0 < svar (linY cfg lc) lc + svar (linY cfg lt) lt.

Let Lc := map (linY cfg lc) lc.
Let Lt := map (linY cfg lt) lt.
Let T := textbook fam (cfg_alternative cfg) (cfg_equal_var cfg) (cfg_use_t cfg) (cfg_confidence_level cfg) Lc Lt.
Let Rr := rom_analyze_aggregates fam cfg (aggr_of lc) (aggr_of lt).

Lemma ratio_textbook_abs : tb_abs_eq Rr T.
Proof.
  pose proof (cnt_ge2 lc Hlc). pose proof (cnt_ge2 lt Hlt).
  unfold Rr, T, textbook, Lc, Lt. rewrite !lmean_map, !lvar_map, !map_length.
  rewrite (analyze_no_covariate fam cfg Hnc Hdc lc lt Hlc Hlt Hdc_c Hdc_t).
  apply stats_textbook_abs; try assumption; try (fold (cnt lc) (cnt lt); lra);
    apply svar_nonneg; lra.
Qed.

Lemma ratio_textbook_rel : 0 < smean (linY cfg lc) lc * smean (linY cfg lt) lt -> tb_rel_eq Rr T.
Proof.
  intros Hs. pose proof (cnt_ge2 lc Hlc). pose proof (cnt_ge2 lt Hlt).
  unfold Rr, T, textbook, Lc, Lt. rewrite !lmean_map, !lvar_map, !map_length.
  rewrite (analyze_no_covariate fam cfg Hnc Hdc lc lt Hlc Hlt Hdc_c Hdc_t).
  apply stats_textbook_rel; try assumption; try (fold (cnt lc) (cnt lt); lra);
    apply svar_nonneg; lra.
Qed.

(* mean and variance of the linearised observations are the ratio of means and ratio_var *)
Lemma linearised_mean_var :
  smean (linY cfg lc) lc = smean (col (cfg_numer cfg)) lc / smean (ocol (cfg_denom cfg)) lc /\
  svar (linY cfg lc) lc = agg_ratio_var (aggr_of lc) (Some (cfg_numer cfg)) (cfg_denom cfg).
Proof.
  pose proof (cnt_ge2 lc Hlc). split.
  - unfold linY. rewrite lin_mean by (try assumption; lra). reflexivity.
  - symmetry. apply ratio_var_linearised_gen; assumption.
Qed.
End RowLevel.

(* Mean: the linearised observations are the observations themselves *)
Lemma linY_mean_cfg cfg l r : cfg_denom cfg = None -> cnt l <> 0 -> linY cfg l r = col (cfg_numer cfg) r.
Proof. intros Hd Hn. unfold linY. rewrite Hd. cbn [ocol]. apply lin_const_one. exact Hn. Qed.

Lemma map_linY_mean cfg l : cfg_denom cfg = None -> (2 <= length l)%nat ->
  map (linY cfg l) l = map (col (cfg_numer cfg)) l.
Proof.
  intros Hd Hl. apply map_ext. intros r. apply linY_mean_cfg; [exact Hd|]. pose proof (cnt_ge2 l Hl). lra.
Qed.

(* a denominator column of ones gives exactly the result of the metric without denominator *)
Lemma denominator_ones_lemma fam cfg y lc lt :
  cfg_numer_covariate cfg = None -> cfg_denom_covariate cfg = None -> cfg_denom cfg = Some y ->
  (2 <= length lc)%nat -> (2 <= length lt)%nat ->
  (forall r, In r (lc ++ lt) -> r y = 1) ->
  let cfg0 := mk_rom (cfg_numer cfg) None None None (cfg_alternative cfg) (cfg_confidence_level cfg)
                     (cfg_equal_var cfg) (cfg_use_t cfg) (cfg_alpha cfg) (cfg_ratio cfg) (cfg_power cfg) in
  rom_analyze_aggregates fam cfg (aggr_of lc) (aggr_of lt) = rom_analyze_aggregates fam cfg0 (aggr_of lc) (aggr_of lt).
Proof.
  intros Hnc Hdc Hd Hlc Hlt Hones cfg0.
  pose proof (cnt_ge2 lc Hlc) as Hn1. pose proof (cnt_ge2 lt Hlt) as Hn2.
  assert (Hy : forall l, (forall r, In r l -> r y = 1) -> cnt l <> 0 -> smean (ocol (cfg_denom cfg)) l = 1).
  { intros l Hl Hn. rewrite Hd. cbn [ocol]. unfold smean.
    rewrite (rsum_ext_in (col y) (fun _ => 1) l) by (intros r Hr; apply Hl; exact Hr).
    rewrite rsum_const. field. exact Hn. }
  assert (Hc1 : forall r, In r lc -> r y = 1) by (intros r Hr; apply Hones, in_or_app; left; exact Hr).
  assert (Ht1 : forall r, In r lt -> r y = 1) by (intros r Hr; apply Hones, in_or_app; right; exact Hr).
  rewrite (analyze_no_covariate fam cfg Hnc Hdc lc lt Hlc Hlt) by (rewrite Hy; [lra | assumption | lra]).
  rewrite (analyze_no_covariate fam cfg0 eq_refl eq_refl lc lt Hlc Hlt)
    by (cbn [cfg0 cfg_denom ocol]; rewrite smean_const; lra).
  assert (HL : forall l, (forall r, In r l -> r y = 1) -> cnt l <> 0 ->
               forall r, In r l -> linY cfg l r = linY cfg0 l r).
  { intros l Hl Hn r Hr. unfold linY. cbn [cfg0 cfg_numer cfg_denom]. rewrite Hd. cbn [ocol].
    rewrite lin_const_one by exact Hn. apply lin_ones; assumption. }
  unfold rom_analyze_stats. unfold svar.
  rewrite (smean_ext_in _ _ lc (HL lc Hc1 ltac:(lra))), (smean_ext_in _ _ lt (HL lt Ht1 ltac:(lra))).
  rewrite (scov_ext_in _ _ _ _ lc (HL lc Hc1 ltac:(lra)) (HL lc Hc1 ltac:(lra))).
  rewrite (scov_ext_in _ _ _ _ lt (HL lt Ht1 ltac:(lra)) (HL lt Ht1 ltac:(lra))).
  reflexivity.
Qed.

(* ---------- the Mean metric (configuration generated from Mean.__init__'s super().__init__ wiring) ---------- *)
Section MeanMetric.
Variable fam : dist_family R.
Hypothesis HF : fam_laws fam.
Variables (v : string) (alt : Base.alternative) (cl : R) (ev ut : bool) (alpha ratio power : R).
Variables lc lt : list row.
Hypothesis Hlc : (2 <= length lc)%nat.
Hypothesis Hlt : (2 <= length lt)%nat.
Hypothesis Hvar : 0 < svar (col v) lc + svar (col v) lt.
Hypothesis Hcl : 0 < cl < 1.

Let cfg := mean_cfg v None alt cl ev ut alpha ratio power.

Lemma mean_cfg_side :
  smean (ocol (cfg_denom cfg)) lc <> 0 /\ smean (ocol (cfg_denom cfg)) lt <> 0 /\
  0 < svar (linY cfg lc) lc + svar (linY cfg lt) lt /\
  smean (linY cfg lc) lc = smean (col v) lc /\ smean (linY cfg lt) lt = smean (col v) lt.
Proof.
  pose proof (cnt_ge2 lc Hlc). pose proof (cnt_ge2 lt Hlt).
  assert (E1 : forall r0, linY cfg lc r0 = col v r0) by (intros r0; apply (linY_mean_cfg cfg lc r0 eq_refl); lra).
  assert (E2 : forall r0, linY cfg lt r0 = col v r0) by (intros r0; apply (linY_mean_cfg cfg lt r0 eq_refl); lra).
  repeat split.
  - cbn [cfg mean_cfg cfg_denom ocol]. rewrite smean_const; lra.
  - cbn [cfg mean_cfg cfg_denom ocol]. rewrite smean_const; lra.
  - unfold svar. rewrite (scov_ext _ _ _ _ lc E1 E1), (scov_ext _ _ _ _ lt E2 E2). exact Hvar.
  - apply smean_ext. exact E1.
  - apply smean_ext. exact E2.
Qed.

Lemma mean_textbook_abs :
  tb_abs_eq (rom_analyze_aggregates fam cfg (aggr_of lc) (aggr_of lt))
            (textbook fam alt ev ut cl (map (col v) lc) (map (col v) lt)).
Proof.
  destruct mean_cfg_side as (S1 & S2 & S3 & _ & _).
  change (map (col v) lc) with (map (col (cfg_numer cfg)) lc).
  change (map (col v) lt) with (map (col (cfg_numer cfg)) lt).
  rewrite <- (map_linY_mean cfg lc eq_refl Hlc), <- (map_linY_mean cfg lt eq_refl Hlt).
  exact (ratio_textbook_abs fam HF cfg eq_refl eq_refl Hcl lc lt Hlc Hlt S1 S2 S3).
Qed.

Lemma mean_textbook_rel : 0 < smean (col v) lc * smean (col v) lt ->
  tb_rel_eq (rom_analyze_aggregates fam cfg (aggr_of lc) (aggr_of lt))
            (textbook fam alt ev ut cl (map (col v) lc) (map (col v) lt)).
Proof.
  intros Hs. destruct mean_cfg_side as (S1 & S2 & S3 & S4 & S5).
  change (map (col v) lc) with (map (col (cfg_numer cfg)) lc).
  change (map (col v) lt) with (map (col (cfg_numer cfg)) lt).
  rewrite <- (map_linY_mean cfg lc eq_refl Hlc), <- (map_linY_mean cfg lt eq_refl Hlt).
  apply (ratio_textbook_rel fam HF cfg eq_refl eq_refl Hcl lc lt Hlc Hlt S1 S2 S3).
  rewrite S4, S5. exact Hs.
Qed.
End MeanMetric.
