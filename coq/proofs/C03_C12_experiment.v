(* C03 / C12 - orchestration: fetch traces (model/Experiment.v) and variant pairs (genP/ExperimentPairs.v) *)
From Coq Require Import ZArith String List Bool Lia Sorted FinFun.
From TT Require Import genP.ExperimentPairs model.Experiment.
Import ListNotations.
Local Open Scope bool_scope.

(* ---------- C12: the compared pairs ---------- *)
Lemma pairs_control_in c vs t x : In (x, t) (pairs_control c vs) <-> x = c /\ In t vs /\ t <> c.
Proof.
  unfold pairs_control. rewrite in_map_iff. split.
  - intros [t' [H1 H2]]. injection H1 as <- <-. apply filter_In in H2. destruct H2 as [H2 H3].
    apply negb_true_iff, Z.eqb_neq in H3. auto.
  - intros (-> & H1 & H2). exists t. split; [reflexivity|]. apply filter_In. split; [exact H1|].
    apply negb_true_iff, Z.eqb_neq. exact H2.
Qed.
Lemma pairs_control_order c vs : map snd (pairs_control c vs) = filter (fun t => negb (Z.eqb t c)) vs.
Proof. unfold pairs_control. rewrite map_map. cbn. apply map_id. Qed.
Lemma pairs_control_nodup c vs : NoDup vs -> NoDup (pairs_control c vs).
Proof.
  intros H. unfold pairs_control. apply Injective_map_NoDup.
  - intros a b E. injection E as ->. reflexivity.
  - apply NoDup_filter. exact H.
Qed.

Lemma pairs_all_in vs c t : In (c, t) (pairs_all vs) <-> In c vs /\ In t vs /\ (c < t)%Z.
Proof.
  unfold pairs_all. rewrite in_flat_map. split.
  - intros [c' [Hc H]]. apply in_map_iff in H. destruct H as [t' [E H]]. injection E as <- <-.
    apply filter_In in H. destruct H as [Ht Hlt]. apply Z.ltb_lt in Hlt. auto.
  - intros (Hc & Ht & Hlt). exists c. split; [exact Hc|]. apply in_map_iff. exists t. split; [reflexivity|].
    apply filter_In. split; [exact Ht | apply Z.ltb_lt; exact Hlt].
Qed.
Lemma pairs_all_control_lt vs p : In p (pairs_all vs) -> (fst p < snd p)%Z.
Proof. destruct p as [c t]. intros H. apply pairs_all_in in H. cbn. tauto. Qed.

Lemma guard_iff ps av : guard_raises ps av = true <-> av = false /\ length ps <> 1%nat.
Proof.
  unfold guard_raises. rewrite andb_true_iff, !negb_true_iff, Nat.eqb_neq. tauto.
Qed.

(* ---------- C03: fetch traces ---------- *)
Definition all_aggr (ms : list metric) : Prop := forall m, In m ms -> exists s, m = MAggr s.
Definition aggr_or_gran (ms : list metric) : Prop := forall m, In m ms -> (exists s, m = MAggr s) \/ (exists c, m = MGran c).

Lemma no_fetch_per_metric ms l i pair : has_aggr ms = true -> has_gran ms = true \/ (forall m, In m l -> exists s, m = MAggr s) ->
  (forall m, In m l -> (exists s, m = MAggr s) \/ (exists c, m = MGran c)) -> metrics_fetches ms i l pair = [].
Proof.
  intros Ha Hg. revert i. induction l as [|m t IH]; intros i Hk; [reflexivity|].
  cbn [metrics_fetches].
  assert (Hm : metric_fetches ms i m pair = []).
  { destruct (Hk m (or_introl eq_refl)) as [[s ->]|[c ->]]; cbn [metric_fetches]; [rewrite Ha; reflexivity|].
    destruct Hg as [Hg|Hg]; [rewrite Hg; reflexivity|].
    destruct (Hg (MGran c) (or_introl eq_refl)) as [s E]. discriminate. }
  rewrite Hm. cbn [app]. apply IH; [|intros m' Hm'; apply Hk; right; exact Hm'].
  destruct Hg as [Hg|Hg]; [left; exact Hg | right; intros m' Hm'; apply Hg; right; exact Hm'].
Qed.

Lemma flat_map_nil {X Y} (f : X -> list Y) l : (forall x, In x l -> f x = []) -> flat_map f l = [].
Proof. induction l as [|a t IH]; intros H; cbn; [reflexivity|]. rewrite (H a (or_introl eq_refl)), IH; [reflexivity|]. intros x Hx. apply H. right. exact Hx. Qed.

Lemma all_aggr_no_gran ms : all_aggr ms -> has_gran ms = false.
Proof.
  intros H. unfold has_gran, merged_cols.
  assert (E : flat_map (fun m => match m with MGran c => c | _ => [] end) ms = []).
  { apply flat_map_nil. intros m Hm. destruct (H m Hm) as [s ->]. reflexivity. }
  rewrite E. reflexivity.
Qed.

(* only aggregated metrics: exactly one aggregate query grouped by the variant, whatever the number of metrics, pairs, rows *)
Lemma aggregated_only_trace ms variant control av variants tr :
  all_aggr ms -> has_aggr ms = true ->
  analyze_trace ms variant control av variants = Some tr ->
  tr = [FAggr (merged_spec ms) (Some variant)].
Proof.
  intros Hall Ha. unfold analyze_trace, read_data. rewrite Ha, (all_aggr_no_gran ms Hall). cbn [orb app].
  destruct (guard_raises _ _); [discriminate|]. intros H. injection H as <-.
  rewrite flat_map_nil; [reflexivity|].
  intros pair _. apply no_fetch_per_metric; [exact Ha | right; exact Hall | intros m Hm; left; apply Hall; exact Hm].
Qed.

(* aggregated and row-level metrics: exactly one additional fetch, of the declared columns plus the variant column *)
Lemma with_granular_trace ms variant control av variants tr :
  aggr_or_gran ms -> has_aggr ms = true -> has_gran ms = true ->
  analyze_trace ms variant control av variants = Some tr ->
  tr = [FAggr (merged_spec ms) (Some variant); FGran (merged_cols ms) variant].
Proof.
  intros Hk Ha Hg. unfold analyze_trace, read_data. rewrite Ha, Hg. cbn [orb app].
  destruct (guard_raises _ _); [discriminate|]. intros H. injection H as <-.
  rewrite flat_map_nil; [reflexivity|].
  intros pair _. apply no_fetch_per_metric; [exact Ha | left; exact Hg | exact Hk].
Qed.
Lemma granular_only_trace ms variant control av variants tr :
  (forall m, In m ms -> exists c, m = MGran c) -> has_gran ms = true -> has_aggr ms = false ->
  analyze_trace ms variant control av variants = Some tr ->
  tr = [FGran (merged_cols ms) variant].
Proof.
  intros Hk Hg Ha. unfold analyze_trace, read_data. rewrite Ha, Hg. cbn [orb app].
  destruct (guard_raises _ _); [discriminate|]. intros H. injection H as <-.
  rewrite flat_map_nil; [reflexivity|].
  intros pair _. assert (G : forall l i, (forall m, In m l -> exists c, m = MGran c) -> metrics_fetches ms i l pair = []).
  { induction l as [|m t IH]; intros i Hl; [reflexivity|]. cbn [metrics_fetches].
    destruct (Hl m (or_introl eq_refl)) as [c ->]. cbn [metric_fetches]. rewrite Hg. cbn [app]. apply IH. intros m' Hm'. apply Hl. right. exact Hm'. }
  apply G. exact Hk.
Qed.

(* the row-level fetch contains exactly the declared columns *)
Lemma granular_columns ms c : In c (merged_cols ms) <-> exists cols, In (MGran cols) ms /\ In c cols.
Proof.
  unfold merged_cols. rewrite nodup_In, in_flat_map. split.
  - intros [m [Hm Hc]]. destruct m; try destruct Hc. exists cols. auto.
  - intros [cols [Hm Hc]]. exists (MGran cols). auto.
Qed.

(* power analysis: without metrics that read the data themselves, exactly one ungrouped aggregate query *)
Lemma power_calls_none ps i : (forall p, In p ps -> p <> PwPlain) -> power_calls i ps = [].
Proof.
  revert i. induction ps as [|p t IH]; intros i H; [reflexivity|]. cbn [power_calls].
  destruct p; try (apply IH; intros q Hq; apply H; right; exact Hq).
  exfalso. apply (H PwPlain); [left; reflexivity | reflexivity].
Qed.
Lemma solve_power_single_query ps : (forall p, In p ps -> p <> PwPlain) -> has_power_aggr ps = true ->
  solve_power_trace ps = [FAggr (power_merged_spec ps) None].
Proof. intros Hn H. unfold solve_power_trace. rewrite H, (power_calls_none ps 0 Hn). reflexivity. Qed.
(* in general: at most one aggregate query, first, ungrouped; every other fetch is a metric reading the data itself *)
Lemma power_calls_plain ps i f : In f (power_calls i ps) -> exists j, f = FPlain j (0, 0)%Z /\ nth_error ps (j - i) = Some PwPlain /\ i <= j.
Proof.
  revert i. induction ps as [|p t IH]; intros i H; [destruct H|]. cbn [power_calls] in H.
  assert (R : In f (power_calls (S i) t) -> exists j, f = FPlain j (0, 0)%Z /\ nth_error (p :: t) (j - i) = Some PwPlain /\ i <= j).
  { intros H'. destruct (IH _ H') as [j [E [N L]]]. exists j. split; [exact E|]. split; [|lia].
    replace (j - i) with (S (j - S i)) by lia. exact N. }
  destruct p; try (apply R; exact H).
  destruct H as [<-|H]; [|apply R; exact H].
  exists i. rewrite Nat.sub_diag. split; [reflexivity|]. split; [reflexivity | lia].
Qed.
Lemma solve_power_trace_shape ps : exists calls, (forall f, In f calls -> exists j, f = FPlain j (0, 0)%Z /\ nth_error ps j = Some PwPlain) /\ solve_power_trace ps = (if has_power_aggr ps then [FAggr (power_merged_spec ps) None] else []) ++ calls.
Proof.
  exists (power_calls 0 ps). split; [|reflexivity]. intros f H. destruct (power_calls_plain ps 0 f H) as [j [E [N _]]].
  exists j. rewrite Nat.sub_0_r in N. auto.
Qed.
(* the result has one entry per metric with a power analysis, in metric order *)
Lemma power_entries_spec ps i j : In j (power_entries i ps) <-> (i <= j /\ exists p, nth_error ps (j - i) = Some p /\ p <> PwNone).
Proof.
  revert i. induction ps as [|p t IH]; intros i; cbn [power_entries].
  - split; [intros []|]. intros [_ [p [H _]]]. destruct (j - i); discriminate H.
  - assert (S1 : i <= j /\ (exists q, nth_error (p :: t) (j - i) = Some q /\ q <> PwNone) <->
                 (j = i /\ p <> PwNone) \/ (S i <= j /\ exists q, nth_error t (j - S i) = Some q /\ q <> PwNone)).
    { split.
      - intros [L [q [N Q]]]. destruct (Nat.eq_dec j i) as [->|Ne].
        + left. rewrite Nat.sub_diag in N. cbn in N. injection N as ->. auto.
        + right. assert (L' : S i <= j) by lia.
          split; [exact L'|]. exists q. split; [|exact Q].
          replace (j - i) with (S (j - S i)) in N by lia. exact N.
      - intros [[-> Q]|[L [q [N Q]]]].
        + split; [lia|]. exists p. rewrite Nat.sub_diag. auto.
        + split; [lia|]. exists q. split; [|exact Q].
          replace (j - i) with (S (j - S i)) by lia. exact N. }
    rewrite S1. destruct p.
    + cbn [In]. rewrite IH. split.
      * intros [<-|H]; [left; split; [reflexivity | discriminate] | right; exact H].
      * intros [[-> _]|H]; [left; reflexivity | right; exact H].
    + cbn [In]. rewrite IH. split.
      * intros [<-|H]; [left; split; [reflexivity | discriminate] | right; exact H].
      * intros [[-> _]|H]; [left; reflexivity | right; exact H].
    + rewrite IH. split; [intros H; right; exact H|]. intros [[_ Q]|H]; [exfalso; apply Q; reflexivity | exact H].
Qed.
Lemma power_entries_spec0 ps j : In j (power_entries 0 ps) <-> exists p, nth_error ps j = Some p /\ p <> PwNone.
Proof.
  rewrite (power_entries_spec ps 0 j), Nat.sub_0_r. split; [intros [_ H]; exact H | intros H; split; [apply Nat.le_0_l | exact H]].
Qed.
Lemma power_entries_increasing ps i : forall a b l1 l2, power_entries i ps = l1 ++ a :: b :: l2 -> a < b.
Proof.
  assert (G : forall ps i j, In j (power_entries i ps) -> i <= j).
  { intros ps0 i0 j H. apply power_entries_spec in H. apply H. }
  revert i. induction ps as [|p t IH]; intros i a b l1 l2 E; cbn [power_entries] in E.
  - destruct l1; discriminate E.
  - assert (R : forall l1, power_entries (S i) t = l1 ++ a :: b :: l2 -> a < b) by (intros l1'; apply IH).
    assert (C : i :: power_entries (S i) t = l1 ++ a :: b :: l2 -> a < b).
    { intros E'. destruct l1 as [|x l1]; cbn [app] in E'.
      - injection E' as <- E'. apply (G t (S i) b). rewrite E'. left. reflexivity.
      - injection E' as _ E'. apply (R l1 E'). }
    destruct p; [apply C; exact E | apply C; exact E | apply (R l1 E)].
Qed.

