(* C03 / C12 - orchestration: fetch traces (model/Experiment.v) and variant pairs (genP/ExperimentPairs.v) *)
From Coq Require Import ZArith String List Bool Lia Sorted FinFun.
From TT Require Import genP.ExperimentPairs model.Experiment.
Import ListNotations.
Local Open Scope bool_scope.

(* ---------- C12: the compared pairs ---------- *)
Lemma pairs_control_in c vs t x : In (x, t) (pairs_control c vs) <-> x = c /\ In t vs /\ t <> c.
Proof.
  unfold pairs_control. rewrite in_map_iff. split.
  - intros [t' [H1 H2]]. injection H1 as <- <-. apply filter_In in H2. destruct H2 as [H2 H3].
    apply negb_true_iff, Z.eqb_neq in H3. auto.
  - intros (-> & H1 & H2). exists t. split; [reflexivity|]. apply filter_In. split; [exact H1|].
    apply negb_true_iff, Z.eqb_neq. exact H2.
Qed.
Lemma pairs_control_order c vs : map snd (pairs_control c vs) = filter (fun t => negb (Z.eqb t c)) vs.
Proof. unfold pairs_control. rewrite map_map. cbn. apply map_id. Qed.
Lemma pairs_control_nodup c vs : NoDup vs -> NoDup (pairs_control c vs).
Proof.
  intros H. unfold pairs_control. apply Injective_map_NoDup.
  - intros a b E. injection E as ->. reflexivity.
  - apply NoDup_filter. exact H.
Qed.

Lemma pairs_all_in vs c t : In (c, t) (pairs_all vs) <-> In c vs /\ In t vs /\ (c < t)%Z.
Proof.
  unfold pairs_all. rewrite in_flat_map. split.
  - intros [c' [Hc H]]. apply in_map_iff in H. destruct H as [t' [E H]]. injection E as <- <-.
    apply filter_In in H. destruct H as [Ht Hlt]. apply Z.ltb_lt in Hlt. auto.
  - intros (Hc & Ht & Hlt). exists c. split; [exact Hc|]. apply in_map_iff. exists t. split; [reflexivity|].
    apply filter_In. split; [exact Ht | apply Z.ltb_lt; exact Hlt].
Qed.
Lemma pairs_all_control_lt vs p : In p (pairs_all vs) -> (fst p < snd p)%Z.
Proof. destruct p as [c t]. intros H. apply pairs_all_in in H. cbn. tauto. Qed.

Lemma guard_iff ps av : guard_raises ps av = true <-> av = false /\ length ps <> 1%nat.
Proof.
  unfold guard_raises. rewrite andb_true_iff, !negb_true_iff, Nat.eqb_neq. tauto.
Qed.

(* ---------- C03: fetch traces ---------- *)
Definition all_aggr (ms : list metric) : Prop := forall m, In m ms -> exists s, m = MAggr s.
Definition aggr_or_gran (ms : list metric) : Prop := forall m, In m ms -> (exists s, m = MAggr s) \/ (exists c, m = MGran c).

Lemma no_fetch_per_metric ms l i pair : has_aggr ms = true -> has_gran ms = true \/ (forall m, In m l -> exists s, m = MAggr s) ->
  (forall m, In m l -> (exists s, m = MAggr s) \/ (exists c, m = MGran c)) -> metrics_fetches ms i l pair = [].
Proof.
  intros Ha Hg. revert i. induction l as [|m t IH]; intros i Hk; [reflexivity|].
  cbn [metrics_fetches].
  assert (Hm : metric_fetches ms i m pair = []).
  { destruct (Hk m (or_introl eq_refl)) as [[s ->]|[c ->]]; cbn [metric_fetches]; [rewrite Ha; reflexivity|].
    destruct Hg as [Hg|Hg]; [rewrite Hg; reflexivity|].
    destruct (Hg (MGran c) (or_introl eq_refl)) as [s E]. discriminate. }
  rewrite Hm. cbn [app]. apply IH; [|intros m' Hm'; apply Hk; right; exact Hm'].
  destruct Hg as [Hg|Hg]; [left; exact Hg | right; intros m' Hm'; apply Hg; right; exact Hm'].
Qed.

Lemma flat_map_nil {X Y} (f : X -> list Y) l : (forall x, In x l -> f x = []) -> flat_map f l = [].
Proof. induction l as [|a t IH]; intros H; cbn; [reflexivity|]. rewrite (H a (or_introl eq_refl)), IH; [reflexivity|]. intros x Hx. apply H. right. exact Hx. Qed.

Lemma all_aggr_no_gran ms : all_aggr ms -> has_gran ms = false.
Proof.
  intros H. unfold has_gran, merged_cols.
  assert (E : flat_map (fun m => match m with MGran c => c | _ => [] end) ms = []).
  { apply flat_map_nil. intros m Hm. destruct (H m Hm) as [s ->]. reflexivity. }
  rewrite E. reflexivity.
Qed.

(* only aggregated metrics: exactly one aggregate query grouped by the variant, whatever the number of metrics, pairs, rows *)
Lemma aggregated_only_trace ms variant control av variants tr :
  all_aggr ms -> has_aggr ms = true ->
  analyze_trace ms variant control av variants = Some tr ->
  tr = [FAggr (merged_spec ms) (Some variant)].
Proof.
  intros Hall Ha. unfold analyze_trace, read_data. rewrite Ha, (all_aggr_no_gran ms Hall). cbn [orb app].
  destruct (guard_raises _ _); [discriminate|]. intros H. injection H as <-.
  rewrite flat_map_nil; [reflexivity|].
  intros pair _. apply no_fetch_per_metric; [exact Ha | right; exact Hall | intros m Hm; left; apply Hall; exact Hm].
Qed.

(* aggregated and row-level metrics: exactly one additional fetch, of the declared columns plus the variant column *)
Lemma with_granular_trace ms variant control av variants tr :
  aggr_or_gran ms -> has_aggr ms = true -> has_gran ms = true ->
  analyze_trace ms variant control av variants = Some tr ->
  tr = [FAggr (merged_spec ms) (Some variant); FGran (merged_cols ms) variant].
Proof.
  intros Hk Ha Hg. unfold analyze_trace, read_data. rewrite Ha, Hg. cbn [orb app].
  destruct (guard_raises _ _); [discriminate|]. intros H. injection H as <-.
  rewrite flat_map_nil; [reflexivity|].
  intros pair _. apply no_fetch_per_metric; [exact Ha | left; exact Hg | exact Hk].
Qed.
Lemma granular_only_trace ms variant control av variants tr :
  (forall m, In m ms -> exists c, m = MGran c) -> has_gran ms = true -> has_aggr ms = false ->
  analyze_trace ms variant control av variants = Some tr ->
  tr = [FGran (merged_cols ms) variant].
Proof.
  intros Hk Hg Ha. unfold analyze_trace, read_data. rewrite Ha, Hg. cbn [orb app].
  destruct (guard_raises _ _); [discriminate|]. intros H. injection H as <-.
  rewrite flat_map_nil; [reflexivity|].
  intros pair _. assert (G : forall l i, (forall m, In m l -> exists c, m = MGran c) -> metrics_fetches ms i l pair = []).
  { induction l as [|m t IH]; intros i Hl; [reflexivity|]. cbn [metrics_fetches].
    destruct (Hl m (or_introl eq_refl)) as [c ->]. cbn [metric_fetches]. rewrite Hg. cbn [app]. apply IH. intros m' Hm'. apply Hl. right. exact Hm'. }
  apply G. exact Hk.
Qed.

(* the row-level fetch contains exactly the declared columns *)
Lemma granular_columns ms c : In c (merged_cols ms) <-> exists cols, In (MGran cols) ms /\ In c cols.
Proof.
  unfold merged_cols. rewrite nodup_In, in_flat_map. split.
  - intros [m [Hm Hc]]. destruct m; try destruct Hc. exists cols. auto.
  - intros [cols [Hm Hc]]. exists (MGran cols). auto.
Qed.

Lemma solve_power_single_query ms : has_aggr ms = true -> solve_power_trace ms = [FAggr (merged_spec ms) None].
Proof. intros H. unfold solve_power_trace. rewrite H. reflexivity. Qed.
