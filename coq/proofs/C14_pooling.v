(* C14 - pooling and delta-method formulas: lemmas about the GENERATED model genR/Aggr.v *)
From Coq Require Import Reals String List Lra Lia.
From TT Require Import lib.RTac lib.PreludeR lib.Stats genR.Aggr.
Import ListNotations.
Local Open Scope R_scope.

Ltac nR := cbv [nlit nraise neqb npow pow] in *.

(* ---------- sorted_tuple ---------- *)
Lemma ltb_asym x y : String.ltb x y = true -> String.ltb y x = false.
Proof.
  unfold String.ltb. rewrite (String.compare_antisym y x).
  destruct (String.compare x y); cbn; congruence.
Qed.
Lemma sorted_tuple_cases x y :
  sorted_tuple x y = (x, y) \/ sorted_tuple x y = (y, x).
Proof. unfold sorted_tuple. destruct (String.ltb y x); auto. Qed.
Lemma sorted_tuple_idem x y :
  sorted_tuple (fst (sorted_tuple x y)) (snd (sorted_tuple x y)) = sorted_tuple x y.
Proof.
  unfold sorted_tuple. destruct (String.ltb y x) eqn:E; cbn [fst snd].
  - rewrite (ltb_asym _ _ E). reflexivity.
  - rewrite E. reflexivity.
Qed.

Lemma sorted_tuple_comm x y : sorted_tuple x y = sorted_tuple y x.
Proof.
  unfold sorted_tuple, String.ltb. rewrite (String.compare_antisym y x).
  destruct (String.compare x y) eqn:C; cbn; try reflexivity.
  apply String.compare_eq_iff in C. subst. reflexivity.
Qed.

(* columns addressed by an optional name: a missing name is the constant 1 *)
Definition ocol (o : option string) : row -> R :=
  match o with Some c => col c | None => fun _ => 1 end.

Lemma scov_const_l k g l : cnt l <> 0 -> scov (fun _ => k) g l = 0.
Proof.
  intros Hn. unfold scov, smean. rewrite rsum_const.
  replace (rsum (fun r => (k - k * cnt l / cnt l) * (g r - rsum g l / cnt l)) l)
    with (rsum (fun r => 0 * (g r - rsum g l / cnt l)) l).
  - rewrite rsum_scal. unfold Rdiv. ring.
  - apply rsum_ext. intros r. f_equal. field. exact Hn.
Qed.
Lemma scov_const_r f k l : cnt l <> 0 -> scov f (fun _ => k) l = 0.
Proof. intros Hn. rewrite scov_sym. apply scov_const_l. exact Hn. Qed.
Lemma smean_const k l : cnt l <> 0 -> smean (fun _ => k) l = k.
Proof. intros Hn. unfold smean. rewrite rsum_const. field. exact Hn. Qed.

(* reading the exact aggregates through the generated accessors *)
Lemma agg_count_aggr_of l : agg_count (aggr_of l) = cnt l.
Proof. reflexivity. Qed.
Lemma agg_mean_aggr_of l o : cnt l <> 0 -> agg_mean (aggr_of l) o = smean (ocol o) l.
Proof. intros Hn. destruct o as [c|]; cbn; [reflexivity|]. nR. rewrite smean_const by exact Hn. reflexivity. Qed.
Lemma agg_var_aggr_of l o : cnt l <> 0 -> agg_var (aggr_of l) o = svar (ocol o) l.
Proof.
  intros Hn. destruct o as [c|]; cbn; [reflexivity|]. nR.
  unfold svar. rewrite scov_const_l by exact Hn. reflexivity.
Qed.
Lemma agg_cov_aggr_of l a b : cnt l <> 0 -> agg_cov (aggr_of l) a b = scov (ocol a) (ocol b) l.
Proof.
  intros Hn. destruct a as [a|], b as [b|]; cbn [agg_cov ocol]; nR.
  - cbn [aggr_of cov_]. destruct (sorted_tuple_cases a b) as [E|E]; rewrite E; cbn [fst snd].
    + reflexivity.
    + apply scov_sym.
  - rewrite scov_const_r by exact Hn. reflexivity.
  - rewrite scov_const_l by exact Hn. reflexivity.
  - rewrite scov_const_l by exact Hn. reflexivity.
Qed.

(* ---------- concatenation ---------- *)
Section Concat.
Variables l1 l2 : list row.
Hypothesis H1 : (2 <= length l1)%nat.
Hypothesis H2 : (2 <= length l2)%nat.

Let n1 := cnt l1. Let n2 := cnt l2.
Lemma n1_ge : 2 <= cnt l1. Proof. apply cnt_ge2. exact H1. Qed.
Lemma n2_ge : 2 <= cnt l2. Proof. apply cnt_ge2. exact H2. Qed.

Lemma add_count_concat :
  count_ (agg_add (aggr_of l1) (aggr_of l2)) = Some (cnt (l1 ++ l2)).
Proof. cbn. rewrite cnt_app. reflexivity. Qed.

Lemma add_mean_concat c :
  mean_ (agg_add (aggr_of l1) (aggr_of l2)) c = smean (col c) (l1 ++ l2).
Proof.
  pose proof n1_ge. pose proof n2_ge.
  cbn. unfold add_mean. cbn. unfold smean. rewrite rsum_app, cnt_app. field. lra.
Qed.

Lemma add_cov_gen f g :
  ((scov f g l1 * (cnt l1 - 1) + scov f g l2 * (cnt l2 - 1)
    + (smean f l1 - smean f l2) * (smean g l1 - smean g l2) * cnt l1 * cnt l2 / (cnt l1 + cnt l2))
   / (cnt l1 + cnt l2 - 1)) = scov f g (l1 ++ l2).
Proof.
  pose proof n1_ge. pose proof n2_ge.
  rewrite !scov_sums by (rewrite ?cnt_app; lra).
  unfold smean. rewrite !rsum_app, cnt_app. field. lra.
Qed.

Lemma add_var_concat c :
  var_ (agg_add (aggr_of l1) (aggr_of l2)) c = svar (col c) (l1 ++ l2).
Proof.
  cbn. unfold add_var. cbn. nR. unfold svar. rewrite <- (add_cov_gen (col c) (col c)). first [reflexivity | rq].
Qed.

Lemma add_cov_concat p :
  cov_ (agg_add (aggr_of l1) (aggr_of l2)) p = scov (col (fst p)) (col (snd p)) (l1 ++ l2).
Proof.
  pose proof n1_ge. pose proof n2_ge.
  cbn [agg_add cov_]. unfold add_cov.
  rewrite !agg_cov_aggr_of, !agg_mean_aggr_of, !agg_count_aggr_of by lra.
  cbn [ocol]. nR. rewrite <- (add_cov_gen (col (fst p)) (col (snd p))). first [reflexivity | rq].
Qed.
End Concat.

(* ---------- commutativity / associativity for arbitrary admissible aggregates ---------- *)
Definition agg_eq (a b : aggregates R) : Prop :=
  count_ a = count_ b /\ (forall c, mean_ a c = mean_ b c) /\ (forall c, var_ a c = var_ b c)
  /\ (forall p, cov_ a p = cov_ b p).

Lemma add_comm_lemma a b na nb : count_ a = Some na -> count_ b = Some nb ->
  agg_eq (agg_add a b) (agg_add b a).
Proof.
  intros Ha Hb. unfold agg_eq, agg_add; cbn [count_ mean_ var_ cov_].
  rewrite Ha, Hb. unfold add_mean, add_var, add_cov, agg_count. rewrite Ha, Hb.
  repeat split.
  - cbv [nlit]; rq.
  - intros c. cbv [nlit]; rq.
  - intros c. cbv [nlit]; rq.
  - intros p. cbv [nlit]; rq.
Qed.

Lemma add_assoc_lemma a b c na nb nc :
  count_ a = Some na -> count_ b = Some nb -> count_ c = Some nc ->
  1 <= na -> 1 <= nb -> 1 <= nc ->
  agg_eq (agg_add (agg_add a b) c) (agg_add a (agg_add b c)).
Proof.
  intros Ha Hb Hc La Lb Lc. unfold agg_eq.
  repeat split.
  - unfold agg_add, agg_count; cbn [count_]. rewrite ?Ha, ?Hb, ?Hc. cbn [count_]. f_equal. ring.
  - intros x. unfold agg_add, add_mean, agg_count, agg_mean; cbn [count_ mean_].
    rewrite ?Ha, ?Hb, ?Hc. field. lra.
  - intros x. unfold agg_add, add_var, add_mean, agg_count, agg_mean, agg_var; cbn [count_ mean_ var_].
    rewrite ?Ha, ?Hb, ?Hc. nR. field. lra.
  - intros p. unfold agg_add, add_cov, add_mean, agg_count, agg_mean, agg_cov; cbn [count_ mean_ cov_].
    rewrite ?Ha, ?Hb, ?Hc. rewrite !sorted_tuple_idem. nR.
    destruct (sorted_tuple_cases (fst p) (snd p)) as [E|E]; rewrite E; cbn [fst snd]; field; lra.
Qed.

(* ---------- delta method ---------- *)
(* linearised ratio of two (derived) columns: r + (x_i - r*y_i)/mean(y), r = mean(x)/mean(y) *)
Definition lin (f g : row -> R) (l : list row) : row -> R :=
  fun r => smean f l / smean g l + (f r - smean f l / smean g l * g r) / smean g l.

Lemma lin_affine f g l : smean g l <> 0 ->
  forall r, lin f g l r = smean f l / smean g l + (/ smean g l) * f r + (- (smean f l / smean g l) / smean g l) * g r.
Proof. intros Hg r. unfold lin. field. exact Hg. Qed.

Lemma ratio_cov_linearised_gen l a b c d :
  (2 <= length l)%nat -> smean (ocol b) l <> 0 -> smean (ocol d) l <> 0 ->
  agg_ratio_cov (aggr_of l) a b c d = scov (lin (ocol a) (ocol b) l) (lin (ocol c) (ocol d) l) l.
Proof.
  intros Hl Hb Hd. pose proof (cnt_ge2 l Hl) as Hn.
  rewrite (scov_ext _ _ _ _ l (lin_affine _ _ l Hb) (lin_affine _ _ l Hd)).
  rewrite scov_affine by lra.
  unfold agg_ratio_cov. rewrite !agg_cov_aggr_of, !agg_mean_aggr_of by lra.
  rewrite (scov_sym (ocol b) (ocol c)).
  field. split; assumption.
Qed.

Lemma ratio_var_linearised_gen l a b :
  (2 <= length l)%nat -> smean (ocol b) l <> 0 ->
  agg_ratio_var (aggr_of l) a b = svar (lin (ocol a) (ocol b) l) l.
Proof.
  intros Hl Hb. pose proof (cnt_ge2 l Hl) as Hn. unfold svar.
  rewrite (scov_ext _ _ _ _ l (lin_affine _ _ l Hb) (lin_affine _ _ l Hb)).
  rewrite scov_affine by lra.
  unfold agg_ratio_var. rewrite !agg_cov_aggr_of, !agg_mean_aggr_of, !agg_var_aggr_of by lra.
  unfold svar. rewrite (scov_sym (ocol b) (ocol a)). nR.
  field. exact Hb.
Qed.

Lemma lin_mean f g l : cnt l <> 0 -> smean g l <> 0 -> smean (lin f g l) l = smean f l / smean g l.
Proof.
  intros Hn Hg. rewrite (smean_ext _ _ l (lin_affine f g l Hg)). rewrite smean_affine by exact Hn.
  field. exact Hg.
Qed.

(* special cases, for ARBITRARY aggregates *)
Lemma ratio_var_none_lemma (s : aggregates R) x : agg_ratio_var s (Some x) None = var_ s x.
Proof. unfold agg_ratio_var, agg_mean, agg_var, agg_cov. nR. field. Qed.

Lemma ratio_cov_none_none_lemma (s : aggregates R) a b :
  agg_ratio_cov s (Some a) None (Some b) None = cov_ s (sorted_tuple a b).
Proof. unfold agg_ratio_cov, agg_mean, agg_cov. nR. field. Qed.

Lemma ratio_cov_self_lemma (s : aggregates R) a b :
  cov_ s (a, a) = var_ s a -> cov_ s (b, b) = var_ s b -> mean_ s b <> 0 ->
  agg_ratio_cov s (Some a) (Some b) (Some a) (Some b) = agg_ratio_var s (Some a) (Some b).
Proof.
  intros Haa Hbb Hb. unfold agg_ratio_cov, agg_ratio_var, agg_mean, agg_var, agg_cov.
  assert (Hs : forall x, sorted_tuple x x = (x, x)).
  { intros x. destruct (sorted_tuple_cases x x) as [E|E]; exact E. }
  rewrite !Hs, Haa, Hbb.
  rewrite (sorted_tuple_comm b a).
  nR. field. exact Hb.
Qed.
