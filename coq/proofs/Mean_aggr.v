(* How the generated RatioOfMeans formulas read the exact aggregates of a sample (used by C04/C05/C06/C17). *)
From Coq Require Import Reals String List Lra FunctionalExtensionality.
From TT Require Import lib.PreludeR lib.Stats lib.Distr genR.Aggr genR.Mean proofs.C14_pooling proofs.Mean_core.
Local Open Scope R_scope.

(* C14 as an equality of records (functional extensionality: already in the trusted base through Reals) *)
Lemma agg_add_aggr_of l1 l2 : (2 <= length l1)%nat -> (2 <= length l2)%nat ->
  agg_add (aggr_of l1) (aggr_of l2) = aggr_of (l1 ++ l2).
Proof.
  intros H1 H2.
  pose proof (add_count_concat l1 l2) as Hc.
  pose proof (add_mean_concat l1 l2 H1 H2) as Hm.
  pose proof (add_var_concat l1 l2 H1 H2) as Hv.
  pose proof (add_cov_concat l1 l2 H1 H2) as Hcv.
  destruct (agg_add (aggr_of l1) (aggr_of l2)) as [c m v cv]. cbn in *.
  unfold aggr_of. f_equal; [exact Hc | | |]; apply functional_extensionality; assumption.
Qed.

Section Repr.
Variable cfg : rom.
Let Yc := ocol (Some (cfg_numer cfg)).
Let Yd := ocol (cfg_denom cfg).
Let Xc := ocol (cfg_numer_covariate cfg).
Let Xd := ocol (cfg_denom_covariate cfg).

(* linearised metric / covariate of a sample (in the sample's own means) *)
Definition linY (l : list row) : row -> R := lin Yc Yd l.
Definition linX (l : list row) : row -> R := lin Xc Xd l.

Variable l : list row.
Hypothesis Hl : (2 <= length l)%nat.
Hypothesis HYd : smean Yd l <> 0.
Hypothesis HXd : smean Xd l <> 0.

Lemma n_ge2 : 2 <= cnt l. Proof. apply cnt_ge2. exact Hl. Qed.

Lemma covariate_cov_repr : rom_covariate_cov cfg (aggr_of l) = scov (linY l) (linX l) l.
Proof. unfold rom_covariate_cov. apply ratio_cov_linearised_gen; assumption. Qed.

Lemma covariate_var_repr :
  agg_ratio_var (aggr_of l) (cfg_numer_covariate cfg) (cfg_denom_covariate cfg) = svar (linX l) l.
Proof. apply ratio_var_linearised_gen; assumption. Qed.

Lemma metric_var_repr theta :
  rom_metric_var cfg (aggr_of l) theta = svar (fun r => linY l r - theta * linX l r) l.
Proof.
  pose proof n_ge2 as Hn.
  unfold rom_metric_var. rewrite covariate_cov_repr, covariate_var_repr.
  rewrite (ratio_var_linearised_gen l (Some (cfg_numer cfg)) (cfg_denom cfg) Hl HYd).
  fold Yc Yd. fold (linY l). unfold svar at 3.
  rewrite (scov_ext (fun r => linY l r - theta * linX l r) (fun r => 0 + 1 * linY l r + (- theta) * linX l r)
                    (fun r => linY l r - theta * linX l r) (fun r => 0 + 1 * linY l r + (- theta) * linX l r) l)
    by (intros r; ring).
  rewrite scov_affine by lra. unfold svar. rewrite (scov_sym (linX l) (linY l)). nR. ring.
Qed.

Lemma metric_mean_repr theta xbar :
  rom_metric_mean cfg (aggr_of l) theta xbar
  = smean (fun r => linY l r - theta * (linX l r - xbar)) l.
Proof.
  pose proof n_ge2 as Hn. assert (Hn0 : cnt l <> 0) by lra.
  unfold rom_metric_mean. rewrite !agg_mean_aggr_of by exact Hn0.
  fold Yc Yd Xc Xd.
  rewrite (smean_ext (fun r => linY l r - theta * (linX l r - xbar))
                     (fun r => theta * xbar + 1 * linY l r + (- theta) * linX l r) l) by (intros r; ring).
  rewrite smean_affine by exact Hn0.
  unfold linY, linX. rewrite !lin_mean by assumption. ring.
Qed.
End Repr.

(* without covariate columns the coefficient is 0 and the formulas collapse *)
Lemma covariate_coef_none cfg a :
  cfg_numer_covariate cfg = None -> cfg_denom_covariate cfg = None -> rom_covariate_coef cfg a = 0.
Proof.
  intros H1 H2. unfold rom_covariate_coef. rewrite H1, H2.
  unfold agg_ratio_var, agg_mean, agg_var, agg_cov. nR.
  destruct (Req_EM_T _ _) as [E|E]; [reflexivity|]. exfalso. apply E. field.
Qed.
