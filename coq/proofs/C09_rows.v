(* C09 - the rows of solve_power: about the row assembly REGENERATED (template translation, tools/specs.py
   _power_rows_emit) from RatioOfMeans.solve_power_from_aggregates / _validate_power_parameters. *)
From Coq Require Import Reals String List Bool Lra Lia.
From TT Require Import lib.PreludeR lib.Distr genR.Aggr genR.Mean proofs.Mean_core proofs.C09_solve.
Import ListNotations.
Local Open Scope R_scope.

Section Rows.
Variable fam : dist_family R.
Variable solver : (R -> R) -> R -> R -> R.
Variables (cfg : rom) (var mean : R) (p : power_param) (power : option R).
Notation row := (rom_power_row fam solver cfg var mean p power).

(* one row per (effect size, n_obs) combination, effect sizes outermost, both in input order *)
Lemma rows_are_the_product es rs ns :
  rom_power_rows fam solver cfg var mean p power es rs ns
  = map (fun x => row (fst (fst x)) (snd (fst x)) (snd x)) (list_prod (combine es rs) ns).
Proof.
  unfold rom_power_rows. induction (combine es rs) as [|er t IH]; [reflexivity|].
  cbn [flat_map list_prod]. rewrite map_app, map_map, IH. reflexivity.
Qed.
Lemma rows_count es rs ns : length es = length rs ->
  length (rom_power_rows fam solver cfg var mean p power es rs ns) = (length es * length ns)%nat.
Proof. intros H. rewrite rows_are_the_product, map_length, prod_length, combine_length, <- H, Nat.min_id. reflexivity. Qed.
Lemma rows_nth es rs ns i j e r n d : length es = length rs ->
  nth_error es i = Some e -> nth_error rs i = Some r -> nth_error ns j = Some n ->
  nth (i * length ns + j) (rom_power_rows fam solver cfg var mean p power es rs ns) d = row e r n.
Proof.
  intros Hlen He Hr Hn. unfold rom_power_rows.
  assert (Hc : nth_error (combine es rs) i = Some (e, r)).
  { revert rs i Hlen He Hr. induction es as [|e0 es IH]; intros [|r0 rs] i Hlen He Hr; try (destruct i; discriminate).
    destruct i as [|i]; cbn in *; [congruence|]. apply IH; [lia | exact He | exact Hr]. }
  clear He Hr Hlen. revert i Hc. induction (combine es rs) as [|er t IH]; intros i Hc; [destruct i; discriminate|].
  cbn [flat_map]. destruct i as [|i].
  - cbn in Hc. injection Hc as ->. cbn [fst snd Nat.mul Nat.add].
    assert (Hj : (j < length ns)%nat) by (apply nth_error_Some; rewrite Hn; discriminate).
    rewrite app_nth1 by (rewrite map_length; exact Hj).
    rewrite (nth_indep _ d (row e r n)) by (rewrite map_length; exact Hj).
    change (row e r n) with ((fun v => row e r v) n) at 2. rewrite map_nth. f_equal.
    apply nth_error_nth. exact Hn.
  - cbn in Hc. rewrite app_nth2 by (rewrite map_length; cbn; lia). rewrite map_length.
    replace (S i * length ns + j - length ns)%nat with (i * length ns + j)%nat by (cbn; lia). apply IH. exact Hc.
Qed.
End Rows.

(* absolute and relative effect size of every row are related by the (CUPED-adjusted) sample mean *)
Section Related.
Variable fam : dist_family R.
Variable solver : (R -> R) -> R -> R -> R.
Variables (cfg : rom) (var mean count : R).
Hypothesis Hmean : mean <> 0.

Definition related (w : power_row) : Prop :=
  match pw_effect_size w, pw_rel_effect_size w with
  | Some e, Some r => e = r * mean
  | _, _ => False
  end.

Lemma combine_map2 {A B C} (f : A -> B) (g : A -> C) (l : list A) : combine (map f l) (map g l) = map (fun x => (f x, g x)) l.
Proof. induction l; cbn; [reflexivity | rewrite IHl; reflexivity]. Qed.

Lemma rows_related_given p power es rs ns : pp_solves_effect p = false ->
  Forall (fun er => match fst er, snd er with Some e, Some r => e = r * mean | _, _ => False end) (combine es rs) ->
  Forall related (rom_power_rows fam solver cfg var mean p power es rs ns).
Proof.
  intros Hp H. unfold rom_power_rows. induction H as [|er t Her _ IH]; cbn [flat_map]; [constructor|].
  apply Forall_app. split; [|exact IH]. apply Forall_forall. intros w Hw. apply in_map_iff in Hw.
  destruct Hw as [n [<- _]]. unfold related, rom_power_row. cbn [pw_effect_size pw_rel_effect_size]. rewrite Hp. exact Her.
Qed.
Lemma rows_related_solved p power es rs ns : pp_solves_effect p = true ->
  Forall related (rom_power_rows fam solver cfg var mean p power es rs ns).
Proof.
  intros Hp. unfold rom_power_rows. induction (combine es rs) as [|er t IH]; cbn [flat_map]; [constructor|].
  apply Forall_app. split; [|exact IH]. apply Forall_forall. intros w Hw. apply in_map_iff in Hw.
  destruct Hw as [n [<- _]]. unfold related, rom_power_row. cbn [pw_effect_size pw_rel_effect_size]. rewrite Hp.
  cbv [nlit]. field. exact Hmean.
Qed.

(* through _validate_power_parameters: exactly one of effect_size / rel_effect_size is given (the constructor's rule) *)
Theorem validated_rows_related es rs ns p pw el rl nl : (es = None \/ rs = None) ->
  rom_validate_power_parameters cfg es rs ns mean count p = Some (pw, el, rl, nl) ->
  Forall related (rom_power_rows fam solver cfg var mean p pw el rl nl).
Proof.
  intros Hone Hv. destruct (pp_solves_effect p) eqn:Hs; [apply rows_related_solved; exact Hs|].
  apply rows_related_given; [exact Hs|].
  assert (Hne : pp_needs_effect p = true) by (destruct p; try discriminate; reflexivity).
  unfold rom_validate_power_parameters in Hv. rewrite Hne in Hv. cbn [andb] in Hv.
  destruct es as [e0|], rs as [r0|]; cbn [is_some negb andb] in Hv; try discriminate;
    try (destruct Hone; discriminate); injection Hv as _ <- <- _; unfold to_seq_opt.
  - (* effect sizes given: rel = e / mean *)
    rewrite map_map, combine_map2. apply Forall_forall. intros x Hx. apply in_map_iff in Hx.
    destruct Hx as [e [<- _]]. cbn [fst snd]. cbv [nlit]. field. exact Hmean.
  - (* relative effect sizes given: e = r * mean *)
    rewrite map_map, combine_map2. apply Forall_forall. intros x Hx. apply in_map_iff in Hx.
    destruct Hx as [r [<- _]]. cbn [fst snd]. reflexivity.
Qed.
End Related.
