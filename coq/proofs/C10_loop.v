(* Generic facts about lib/Loop.v: the stable insertion sort is a sorted permutation; run_sorted returns, at input
   position j, the output that the loop produced for the element with index j. *)
From Coq Require Import List Arith Bool Permutation Sorted Lia.
From TT Require Import lib.Loop.
Import ListNotations.

Section LoopFacts.
Variables (A C O : Type).
Variable leb : A -> A -> bool.
Variable ofnat : nat -> A.
Hypothesis leb_total : forall a b, leb a b = true \/ leb b a = true.
Hypothesis leb_trans : forall a b c, leb a b = true -> leb b c = true -> leb a c = true.

Lemma insert_perm x l : Permutation (insert leb x l) (x :: l).
Proof.
  induction l as [|y t IH]; cbn; [reflexivity|].
  destruct (leb (snd y) (snd x)); [|reflexivity].
  rewrite IH. apply perm_swap.
Qed.
Lemma stable_sort_perm_gen l acc : Permutation (fold_left (fun a x => insert leb x a) l acc) (l ++ acc).
Proof.
  revert acc. induction l as [|x t IH]; intros acc; cbn; [reflexivity|].
  rewrite IH, insert_perm. symmetry. apply Permutation_middle.
Qed.
Lemma stable_sort_perm l : Permutation (stable_sort leb l) l.
Proof. unfold stable_sort. rewrite stable_sort_perm_gen, app_nil_r. reflexivity. Qed.

Definition key_le (x y : nat * A) : Prop := leb (snd x) (snd y) = true.
Lemma insert_sorted x l : StronglySorted key_le l -> StronglySorted key_le (insert leb x l).
Proof.
  induction 1 as [|y t Ht IH Hy]; cbn; [repeat constructor|].
  destruct (leb (snd y) (snd x)) eqn:E.
  - constructor; [exact IH|]. rewrite Forall_forall. intros z Hz.
    apply (Permutation_in _ (insert_perm x t)) in Hz. destruct Hz as [<-|Hz]; [exact E|].
    rewrite Forall_forall in Hy. apply Hy. exact Hz.
  - assert (Hxy : key_le x y) by (unfold key_le; destruct (leb_total (snd x) (snd y)); congruence).
    constructor; [constructor; assumption|]. constructor; [exact Hxy|].
    rewrite Forall_forall in *. intros z Hz. specialize (Hy z Hz).
    unfold key_le in *. eapply leb_trans; eassumption.
Qed.
Lemma stable_sort_sorted_gen l acc : StronglySorted key_le acc ->
  StronglySorted key_le (fold_left (fun a x => insert leb x a) l acc).
Proof. revert acc. induction l as [|x t IH]; intros acc H; cbn; [exact H | apply IH, insert_sorted, H]. Qed.
Lemma stable_sort_sorted l : StronglySorted key_le (stable_sort leb l).
Proof. apply stable_sort_sorted_gen. constructor. Qed.

(* the loop keeps the indices, in order *)
Lemma run_loop_fst (body : C -> A -> A -> C * O) c i l :
  map fst (run_loop ofnat body c i l) = map fst l.
Proof.
  revert c i. induction l as [|[idx x] t IH]; intros c i; cbn; [reflexivity|].
  destruct (body c (ofnat i) x) as [c' o]. cbn. rewrite IH. reflexivity.
Qed.

Lemma find_out_in (outs : list (nat * O)) j o d : NoDup (map fst outs) -> In (j, o) outs -> find_out outs j d = o.
Proof.
  induction outs as [|[k o'] t IH]; intros Hnd Hin; [destruct Hin|].
  cbn in *. inversion Hnd as [|? ? Hk Hnd']; subst.
  destruct Hin as [Heq|Hin].
  - injection Heq as -> ->. rewrite Nat.eqb_refl. reflexivity.
  - destruct (Nat.eqb j k) eqn:E.
    + apply Nat.eqb_eq in E. subst k. exfalso. apply Hk. apply (in_map fst) in Hin. exact Hin.
    + apply IH; assumption.
Qed.

Lemma map_fst_combine {X Y} (l : list X) (l' : list Y) : length l = length l' -> map fst (combine l l') = l.
Proof.
  revert l'. induction l as [|x t IH]; intros [|y t'] H; cbn in *; try reflexivity; try discriminate.
  f_equal. apply IH. lia.
Qed.
Lemma map_snd_combine {X Y} (l : list X) (l' : list Y) : length l = length l' -> map snd (combine l l') = l'.
Proof.
  revert l'. induction l as [|x t IH]; intros [|y t'] H; cbn in *; try reflexivity; try discriminate.
  f_equal. apply IH. lia.
Qed.
Lemma indexed_fst (xs : list A) : map fst (indexed xs) = seq 0 (length xs).
Proof. unfold indexed. apply map_fst_combine. rewrite seq_length. reflexivity. Qed.
Lemma indexed_snd (xs : list A) : map snd (indexed xs) = xs.
Proof. unfold indexed. apply map_snd_combine. rewrite seq_length. reflexivity. Qed.

Lemma sorted_indices (xs : list A) : Permutation (map fst (stable_sort leb (indexed xs))) (seq 0 (length xs)).
Proof. rewrite <- indexed_fst. apply Permutation_map, stable_sort_perm. Qed.

(* at input position j, run_sorted returns the output the loop produced for the element with index j *)
Lemma run_sorted_spec start (body : C -> A -> A -> C * O) c d xs j : j < length xs ->
  In (j, nth j (run_sorted leb ofnat start body c d xs) d)
     (run_loop ofnat body c start (stable_sort leb (indexed xs))).
Proof.
  intros Hj. unfold run_sorted.
  set (outs := run_loop ofnat body c start (stable_sort leb (indexed xs))).
  assert (Hfst : map fst outs = map fst (stable_sort leb (indexed xs))) by apply run_loop_fst.
  assert (Hperm : Permutation (map fst outs) (seq 0 (length xs))) by (rewrite Hfst; apply sorted_indices).
  assert (Hnd : NoDup (map fst outs)).
  { apply (Permutation_NoDup (Permutation_sym Hperm)), seq_NoDup. }
  assert (Hin : In j (map fst outs)).
  { apply (Permutation_in _ (Permutation_sym Hperm)), in_seq. lia. }
  apply in_map_iff in Hin. destruct Hin as [[j' o] [Hj' Hin]]. cbn in Hj'. subst j'.
  assert (E : nth j (map (fun i => find_out outs i d) (seq 0 (length xs))) d = find_out outs j d).
  { rewrite (nth_indep _ d (find_out outs 0 d)) by (rewrite map_length, seq_length; exact Hj).
    rewrite (map_nth (fun i => find_out outs i d) (seq 0 (length xs)) 0 j), seq_nth by exact Hj. reflexivity. }
  rewrite E, (find_out_in outs j o d Hnd Hin). exact Hin.
Qed.
Lemma run_sorted_length start (body : C -> A -> A -> C * O) c d xs :
  length (run_sorted leb ofnat start body c d xs) = length xs.
Proof. unfold run_sorted. rewrite map_length, seq_length. reflexivity. Qed.
End LoopFacts.

Lemma indexed_in_gen {X} (xs : list X) s j x :
  In (j, x) (combine (seq s (length xs)) xs) -> s <= j /\ nth_error xs (j - s) = Some x.
Proof.
  revert s. induction xs as [|y t IH]; intros s H; cbn in H; [destruct H|].
  destruct H as [H|H].
  - injection H as <- <-. rewrite Nat.sub_diag. split; [lia | reflexivity].
  - destruct (IH _ H) as [H1 H2]. split; [lia|].
    replace (j - s) with (S (j - S s)) by lia. exact H2.
Qed.
Lemma indexed_in {X} (xs : list X) j x : In (j, x) (indexed xs) -> nth_error xs j = Some x.
Proof. intros H. destruct (indexed_in_gen xs 0 j x H) as [_ H2]. rewrite Nat.sub_0_r in H2. exact H2. Qed.
