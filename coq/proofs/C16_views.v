(* C16 - dataframe views (model/Views.v): every key of every row is a column, no column is repeated, rows keep their
   order, and a cell is exactly what the row holds under that key (absent = null). *)
From Coq Require Import String List Bool.
From TT Require Import model.Views.
Import ListNotations.

Lemma mem_In k l : mem k l = true <-> In k l.
Proof.
  unfold mem. rewrite existsb_exists. split.
  - intros [x [Hx E]]. apply String.eqb_eq in E. subst. exact Hx.
  - intros H. exists k. split; [exact H | apply String.eqb_refl].
Qed.

Lemma dedup_In seen l k : In k (dedup seen l) <-> In k l /\ ~ In k seen.
Proof.
  revert seen. induction l as [|x t IH]; intros seen; cbn [dedup].
  - split; [intros [] | intros [[] _]].
  - destruct (mem x seen) eqn:M.
    + apply mem_In in M. rewrite IH. split.
      * intros [H N]. split; [right; exact H | exact N].
      * intros [[->|H] N]; [contradiction | split; assumption].
    + assert (NM : ~ In x seen) by (intros C; apply mem_In in C; congruence).
      cbn [In]. rewrite IH. split.
      * intros [<-|[H N]]; [split; [left; reflexivity | exact NM] | split; [right; exact H | intros C; apply N; right; exact C]].
      * intros [[->|H] N]; [left; reflexivity|].
        destruct (String.eqb_spec x k) as [->|Ne]; [left; reflexivity|].
        right. split; [exact H|]. intros [C|C]; [contradiction | contradiction].
Qed.
Lemma dedup_NoDup seen l : NoDup (dedup seen l).
Proof.
  revert seen. induction l as [|x t IH]; intros seen; cbn [dedup]; [constructor|].
  destruct (mem x seen); [apply IH|]. constructor; [|apply IH].
  intros C. apply dedup_In in C. destruct C as [_ C]. apply C. left. reflexivity.
Qed.

Section Views.
  Context {V : Type}.
  Implicit Types (rows : list (list (string * V))) (row : list (string * V)).

  (* the columns are exactly the keys that occur in some row, each once *)
  Theorem columns_are_the_union rows k : In k (union_keys rows) <-> exists row, In row rows /\ In k (row_keys row).
  Proof.
    unfold union_keys. rewrite dedup_In, in_flat_map. split; [intros [H _]; exact H | intros H; split; [exact H | intros []]].
  Qed.
  Theorem columns_distinct rows : NoDup (union_keys rows).
  Proof. apply dedup_NoDup. Qed.
  (* same number of rows, in the same order: row i of the view is row i of to_dicts read through the column list *)
  Theorem rows_in_order rows i row : nth_error rows i = Some row ->
    nth_error (snd (view rows)) i = Some (view_row (union_keys rows) row).
  Proof. intros H. cbn [view snd]. rewrite nth_error_map, H. reflexivity. Qed.
  Theorem same_number_of_rows rows : length (snd (view rows)) = length rows.
  Proof. cbn [view snd]. apply map_length. Qed.
  Theorem rows_in_order_and_count rows i row : nth_error rows i = Some row ->
    nth_error (snd (view rows)) i = Some (view_row (union_keys rows) row) /\ length (snd (view rows)) = length rows.
  Proof. intros H. split; [exact (rows_in_order rows i row H) | exact (same_number_of_rows rows)]. Qed.
  (* a cell is what the row holds under the column's key *)
  Theorem cell_is_lookup keys row j k : nth_error keys j = Some k -> nth_error (view_row keys row) j = Some (lookup k row).
  Proof. intros H. unfold view_row. rewrite nth_error_map, H. reflexivity. Qed.
  (* nothing a row holds is lost: each of its keys is a column, and the cell there is its (first) value *)
  Lemma lookup_In k row : In k (row_keys row) -> exists v, lookup k row = Some v /\ In (k, v) row.
  Proof.
    induction row as [|[k' v'] t IH]; intros H; [destruct H|]. cbn [lookup].
    destruct (String.eqb_spec k k') as [->|Ne].
    - exists v'. split; [reflexivity | left; reflexivity].
    - destruct H as [E|H]; [cbn in E; congruence|]. destruct (IH H) as [v [L I]]. exists v. split; [exact L | right; exact I].
  Qed.
  Theorem no_value_lost rows row k : In row rows -> In k (row_keys row) ->
    exists j v, nth_error (union_keys rows) j = Some k /\ nth_error (view_row (union_keys rows) row) j = Some (Some v) /\ In (k, v) row.
  Proof.
    intros Hr Hk. assert (Hc : In k (union_keys rows)) by (apply columns_are_the_union; exists row; auto).
    destruct (In_nth_error _ _ Hc) as [j Hj]. destruct (lookup_In k row Hk) as [v [L I]].
    exists j, v. split; [exact Hj|]. split; [|exact I]. rewrite (cell_is_lookup _ row j k Hj), L. reflexivity.
  Qed.
  (* a key the row does not have gives a null cell *)
  Theorem absent_key_is_null row k : ~ In k (row_keys row) -> lookup k row = None.
  Proof.
    induction row as [|[k' v'] t IH]; intros H; [reflexivity|]. cbn [lookup].
    destruct (String.eqb_spec k k') as [->|Ne]; [exfalso; apply H; left; reflexivity|].
    apply IH. intros C. apply H. right. exact C.
  Qed.
End Views.
