(* C20 - value invariants and the users/sessions correspondence. About model/Datasets.v. *)
From Coq Require Import ZArith QArith Qabs List Bool Lia.
From TT Require Import model.Render model.Datasets proofs.C16_render.
Import ListNotations.
Local Open Scope Z_scope.

(* ---------- rounding to cents ---------- *)
Lemma rhe_nonneg n d : 0 <= n -> 0 < d -> 0 <= round_half_even n d.
Proof.
  intros Hn Hd. unfold round_half_even.
  assert (0 <= n / d) by (apply Z.div_pos; lia).
  destruct (2 * (n mod d) ?= d); try destruct (Z.even (n / d)); lia.
Qed.
Lemma rhe_zero d : 0 < d -> round_half_even 0 d = 0.
Proof.
  intros Hd. unfold round_half_even. rewrite Z.div_0_l, Z.mod_0_l by lia.
  destruct (Z.compare_spec (2 * 0) d); lia.
Qed.
Lemma round2_nonneg q : (0 <= q)%Q -> (0 <= round2 q)%Q.
Proof.
  intros H. unfold round2, Qle in *. cbn in *. pose proof (rhe_nonneg (Qnum q * 100) (Z.pos (Qden q))). lia.
Qed.
Lemma round2_zero q : (q == 0)%Q -> (round2 q == 0)%Q.
Proof.
  intros H. unfold round2, Qeq in *. cbn in *. assert (Qnum q = 0) by lia.
  replace (Qnum q * 100) with 0 by lia. rewrite rhe_zero by lia. reflexivity.
Qed.
(* rounding moves a value by at most half a cent *)
Lemma round2_error q : (Qabs (round2 q - q) <= 1 # 200)%Q.
Proof.
  destruct q as [n d]. unfold round2. cbn [Qnum Qden].
  pose proof (round_half_even_error (n * 100) (Z.pos d) ltac:(lia)) as He.
  set (m := round_half_even (n * 100) (Z.pos d)) in *.
  apply Qabs_Qle_condition. unfold Qle, Qminus, Qplus, Qopp. cbn. split; nia.
Qed.

(* ---------- sums and averages ---------- *)
Lemma qsum_nonneg l : Forall (fun q => 0 <= q)%Q l -> (0 <= qsum l)%Q.
Proof.
  induction 1 as [|q l Hq _ IH]; cbn; [apply Qle_refl|].
  replace 0%Q with (0 + 0)%Q by reflexivity. apply Qplus_le_compat; assumption.
Qed.
Lemma qsum_map_le {A} (f g : A -> Q) l : (forall a, In a l -> (f a <= g a)%Q) -> (qsum (map f l) <= qsum (map g l))%Q.
Proof.
  induction l as [|a l IH]; intros H; cbn; [apply Qle_refl|].
  apply Qplus_le_compat; [apply H; left; reflexivity | apply IH; intros b Hb; apply H; right; exact Hb].
Qed.
Lemma qsum_map_zero {A} (f : A -> Q) l : (forall a, In a l -> (f a == 0)%Q) -> (qsum (map f l) == 0)%Q.
Proof.
  induction l as [|a l IH]; intros H; cbn; [reflexivity|].
  rewrite (H a (or_introl eq_refl)), IH by (intros b Hb; apply H; right; exact Hb). reflexivity.
Qed.
Lemma qsum_zero_each {A} (f : A -> Q) l : (forall a, In a l -> (0 <= f a)%Q) -> (qsum (map f l) == 0)%Q ->
  forall a, In a l -> (f a == 0)%Q.
Proof.
  induction l as [|x l IH]; intros Hpos Hs a Ha; [destruct Ha|]. cbn in Hs.
  assert (H1 : (0 <= f x)%Q) by (apply Hpos; left; reflexivity).
  assert (H2 : (0 <= qsum (map f l))%Q).
  { apply qsum_nonneg. apply Forall_forall. intros q Hq. apply in_map_iff in Hq. destruct Hq as [b [<- Hb]].
    apply Hpos. right. exact Hb. }
  assert (E1 : (f x == 0)%Q).
  { apply Qle_antisym; [|exact H1]. rewrite <- Hs. rewrite <- (Qplus_0_r (f x)) at 1. apply Qplus_le_compat; [apply Qle_refl | exact H2]. }
  destruct Ha as [<- | Ha]; [exact E1|].
  apply IH; [intros b Hb; apply Hpos; right; exact Hb | | exact Ha].
  rewrite E1 in Hs. rewrite Qplus_0_l in Hs. exact Hs.
Qed.

Lemma len_pos_Q {A} (l : list A) : l <> [] -> (0 < inject_Z (Z.of_nat (length l)))%Q.
Proof. intros H. destruct l; [contradiction|]. unfold Qlt. cbn. lia. Qed.
Lemma qdiv_le a b c : (0 < c)%Q -> (a <= b)%Q -> (a / c <= b / c)%Q.
Proof. intros Hc H. unfold Qdiv. apply Qmult_le_compat_r; [exact H|]. apply Qinv_le_0_compat. apply Qlt_le_weak. exact Hc. Qed.
Lemma qdiv_nonneg a c : (0 < c)%Q -> (0 <= a)%Q -> (0 <= a / c)%Q.
Proof. intros Hc H. unfold Qdiv. apply Qmult_le_0_compat; [exact H|]. apply Qinv_le_0_compat. apply Qlt_le_weak. exact Hc. Qed.
Lemma qdiv_zero_iff a c : (0 < c)%Q -> ((a / c == 0)%Q <-> (a == 0)%Q).
Proof.
  intros Hc. split; intros H.
  - assert (E : (a == a / c * c)%Q) by (field; intros E0; rewrite E0 in Hc; apply (Qlt_irrefl 0); exact Hc).
    rewrite E, H. ring.
  - rewrite H. unfold Qdiv. ring.
Qed.

(* ---------- the invariants of one row ---------- *)
Definition row_ok (r : drow) : Prop :=
  (r_variant r = 0 \/ r_variant r = 1) /\ 1 <= r_sessions r /\ 0 <= r_orders r <= r_sessions r /\
  (0 <= r_revenue r)%Q /\ (r_orders r = 0 -> (r_revenue r == 0)%Q) /\
  (0 <= r_orders_cov r)%Q /\ (r_orders_cov r <= r_sessions_cov r)%Q /\
  (0 <= r_revenue_cov r)%Q /\ ((r_orders_cov r == 0)%Q -> (r_revenue_cov r == 0)%Q).

Lemma inject_Z_nonneg z : 0 <= z -> (0 <= inject_Z z)%Q.
Proof. intros H. unfold Qle. cbn. lia. Qed.
Lemma inject_Z_le a b : a <= b -> (inject_Z a <= inject_Z b)%Q.
Proof. intros H. unfold Qle. cbn. lia. Qed.

Ltac proj := cbn [r_user r_variant r_sessions r_orders r_revenue r_sessions_cov r_orders_cov r_revenue_cov].

Lemma users_row_ok i d : udraw_ok d -> row_ok (users_row i d).
Proof.
  intros (Hv & Hp & Ho & Hr & Hcs & Hco & Hcr). unfold row_ok, users_row. proj.
  repeat split; try lia.
  - apply round2_nonneg. apply Qmult_le_0_compat; [apply inject_Z_nonneg; lia | apply Qlt_le_weak; exact Hr].
  - intros E. apply round2_zero. rewrite E. ring.
  - apply inject_Z_nonneg. lia.
  - apply inject_Z_le. lia.
  - apply round2_nonneg. apply Qmult_le_0_compat; [apply inject_Z_nonneg; lia | apply Qlt_le_weak; exact Hcr].
  - intros E. apply round2_zero. rewrite E. ring.
Qed.

Lemma users_from_ok i ds : Forall udraw_ok ds -> Forall row_ok (users_from i ds).
Proof.
  intros H. revert i. induction H as [|d ds Hd _ IH]; intros i; cbn; constructor; [apply users_row_ok; exact Hd | apply IH].
Qed.

(* one row per user 0 .. n-1, in order *)
Lemma users_from_ids i ds : map r_user (users_from i ds) = map (fun k => i + Z.of_nat k) (seq 0 (length ds)).
Proof.
  revert i. induction ds as [|d ds IH]; intros i; cbn; [reflexivity|]. f_equal; [lia|].
  rewrite IH, <- seq_shift, map_map. apply map_ext. intros k. lia.
Qed.
Lemma users_data_length ds : length (users_data ds) = length ds.
Proof. unfold users_data. generalize 0. induction ds as [|d ds IH]; intros i; cbn; [reflexivity | rewrite IH; reflexivity]. Qed.

(* ---------- sessions data ---------- *)
Lemma sessions_rows_ok i u : xuser_ok u -> Forall row_ok (sessions_rows i u).
Proof.
  intros (Hv & Hp & Hlen & Hs). unfold sessions_rows.
  assert (Hne : x_sess u <> []) by (intros E; rewrite E in Hlen; cbn [length Z.of_nat] in Hlen; lia).
  pose proof (len_pos_Q _ Hne) as Hn.
  rewrite Forall_forall in Hs.
  assert (Hco0 : forall s, In s (x_sess u) -> (0 <= inject_Z (s_co s))%Q).
  { intros s Hin. apply inject_Z_nonneg. destruct (Hs s Hin) as (_ & _ & _ & Hc & _). lia. }
  apply Forall_forall. intros r Hr. apply in_map_iff in Hr. destruct Hr as [s [<- Hin]].
  destruct (Hs s Hin) as (Ho & Hr & Hcs & Hco & Hcr).
  unfold row_ok. proj. repeat split; try lia.
  - apply round2_nonneg. apply Qmult_le_0_compat; [apply inject_Z_nonneg; lia | apply Qlt_le_weak; exact Hr].
  - intros E. apply round2_zero. rewrite E. ring.
  - unfold qavg. rewrite map_length. apply qdiv_nonneg; [exact Hn|]. apply qsum_nonneg.
    apply Forall_forall. intros q Hq. apply in_map_iff in Hq. destruct Hq as [s' [<- Hin']]. apply Hco0. exact Hin'.
  - unfold qavg. rewrite !map_length. apply qdiv_le; [exact Hn|]. apply qsum_map_le.
    intros s' Hin'. apply inject_Z_le. destruct (Hs s' Hin') as (_ & _ & _ & Hc & _). lia.
  - apply round2_nonneg. unfold qavg. rewrite map_length. apply qdiv_nonneg; [exact Hn|]. apply qsum_nonneg.
    apply Forall_forall. intros q Hq. apply in_map_iff in Hq. destruct Hq as [s' [<- Hin']].
    destruct (Hs s' Hin') as (_ & _ & _ & Hc & Hcr').
    apply Qmult_le_0_compat; [apply inject_Z_nonneg; lia | apply Qlt_le_weak; exact Hcr'].
  - intros E. apply round2_zero. unfold qavg in *. rewrite map_length in *.
    apply (proj1 (qdiv_zero_iff _ _ Hn)) in E. apply (proj2 (qdiv_zero_iff _ _ Hn)).
    apply qsum_map_zero. intros s' Hin'.
    rewrite (qsum_zero_each (fun s => inject_Z (s_co s)) (x_sess u) Hco0 E s' Hin'). ring.
Qed.

Lemma sessions_from_ok i us : Forall xuser_ok us -> Forall row_ok (sessions_from i us).
Proof.
  intros H. revert i. induction H as [|u us Hu _ IH]; intros i; cbn; [constructor|].
  apply Forall_app. split; [apply sessions_rows_ok; exact Hu | apply IH].
Qed.

(* in every row of a user: the user's id and variant, sessions = 1, and the same three covariate values *)
Lemma sessions_rows_constant i u r1 r2 : In r1 (sessions_rows i u) -> In r2 (sessions_rows i u) ->
  r_user r1 = i /\ r_variant r1 = x_variant u /\ r_sessions r1 = 1 /\
  r_sessions_cov r1 = r_sessions_cov r2 /\ r_orders_cov r1 = r_orders_cov r2 /\ r_revenue_cov r1 = r_revenue_cov r2.
Proof.
  unfold sessions_rows. intros H1 H2. apply in_map_iff in H1, H2.
  destruct H1 as [s1 [<- _]], H2 as [s2 [<- _]]. cbn. repeat split; reflexivity.
Qed.
Lemma sessions_rows_length i u : length (sessions_rows i u) = length (x_sess u).
Proof. unfold sessions_rows. apply map_length. Qed.

(* per-user summary of sessions data: user i appears in one run of exactly 1 + (Poisson draw) rows with its variant *)
Fixpoint summary_from (i : Z) (us : list xuser) : list (Z * Z * Z) :=
  match us with [] => [] | u :: t => (i, x_variant u, 1 + x_pois u) :: summary_from (i + 1) t end.

Lemma runs_block i v (ss : list drow) rest :
  ss <> [] -> (forall r, In r ss -> r_user r = i /\ r_variant r = v) ->
  (forall u v' n tl, runs rest = (u, v', n) :: tl -> u <> i) ->
  runs (ss ++ rest) = (i, v, Z.of_nat (length ss)) :: runs rest.
Proof.
  intros Hne Hall Hrest. induction ss as [|r ss IH]; [contradiction|].
  destruct (Hall r (or_introl eq_refl)) as [Hu Hv].
  destruct ss as [|r' ss'].
  - cbn [app runs length]. destruct (runs rest) as [|[[u v'] n] tl] eqn:E.
    + rewrite Hu, Hv. reflexivity.
    + destruct (Z.eqb_spec u (r_user r)) as [E'|E']; [exfalso; apply (Hrest u v' n tl eq_refl); congruence|].
      rewrite Hu, Hv. reflexivity.
  - change ((r :: r' :: ss') ++ rest) with (r :: ((r' :: ss') ++ rest)). cbn [runs].
    rewrite IH; [|discriminate | intros x Hx; apply Hall; right; exact Hx].
    rewrite Hu, Z.eqb_refl. f_equal. f_equal. cbn [length]. lia.
Qed.

Lemma runs_sessions_from_head i us u v n tl : Forall xuser_ok us -> runs (sessions_from i us) = (u, v, n) :: tl -> i <= u.
Proof.
  intros H. revert i u v n tl. induction H as [|x us Hx _ IH]; intros i u v n tl E; [discriminate|].
  cbn [sessions_from] in E. destruct Hx as (_ & Hp & Hlen & _).
  destruct (sessions_rows i x) as [|r ss] eqn:Er.
  { pose proof (sessions_rows_length i x) as Hl. rewrite Er in Hl. cbn in Hl. lia. }
  assert (Hu : r_user r = i).
  { assert (Hin : In r (sessions_rows i x)) by (rewrite Er; left; reflexivity).
    destruct (sessions_rows_constant i x r r Hin Hin) as [Hu _]. exact Hu. }
  cbn [app runs] in E. destruct (runs (ss ++ sessions_from (i + 1) us)) as [|[[u' v'] n'] tl'].
  - injection E as <- _ _ _. lia.
  - destruct (Z.eqb u' (r_user r)) eqn:Eq; injection E as <- _ _ _; [apply Z.eqb_eq in Eq|]; lia.
Qed.

Lemma runs_sessions_from i us : Forall xuser_ok us -> runs (sessions_from i us) = summary_from i us.
Proof.
  intros H. revert i. induction H as [|x us Hx Hrest IH]; intros i; [reflexivity|].
  cbn [sessions_from summary_from]. pose proof Hx as (_ & Hp & Hlen & _).
  rewrite (runs_block i (x_variant x)).
  - rewrite IH, sessions_rows_length, Hlen. reflexivity.
  - intros E. pose proof (sessions_rows_length i x) as Hl. rewrite E in Hl. cbn in Hl. lia.
  - intros r Hr. destruct (sessions_rows_constant i x r r Hr Hr) as (H1 & H2 & _). split; assumption.
  - intros u v' n tl E. pose proof (runs_sessions_from_head (i + 1) us u v' n tl Hrest E). lia.
Qed.

(* users data and sessions data built from the same variant / session-count draws describe the same users *)
Lemma users_summary i ds :
  map (fun r => (r_user r, r_variant r, r_sessions r)) (users_from i ds)
  = (fix go i ds := match ds with [] => [] | d :: t => (i, u_variant d, 1 + u_pois d) :: go (i + 1) t end) i ds.
Proof. revert i. induction ds as [|d ds IH]; intros i; cbn; [reflexivity | rewrite IH; reflexivity]. Qed.

Lemma sessions_explode_users ds us : Forall xuser_ok us -> map shared_u ds = map shared_x us ->
  runs (sessions_data us) = map (fun r => (r_user r, r_variant r, r_sessions r)) (users_data ds).
Proof.
  intros Hok Hsh. unfold sessions_data, users_data. rewrite (runs_sessions_from 0 us Hok), users_summary.
  generalize 0. revert us Hok Hsh. induction ds as [|d ds IH]; intros us Hok Hsh i.
  - destruct us; [reflexivity | discriminate].
  - destruct us as [|u us]; [discriminate|]. cbn in Hsh. injection Hsh as Hv Hp Hrest.
    cbn [summary_from]. rewrite Hv, Hp. f_equal. apply IH; [inversion Hok; assumption | exact Hrest].
Qed.

(* the number of rows of sessions data is the total of the users' sessions *)
Lemma sessions_data_length i us : Forall xuser_ok us ->
  Z.of_nat (length (sessions_from i us)) = zsum (map (fun u => 1 + x_pois u) us).
Proof.
  intros H. revert i. induction H as [|u us Hu _ IH]; intros i; [reflexivity|].
  cbn [sessions_from map zsum fold_right]. rewrite app_length, Nat2Z.inj_add, sessions_rows_length, IH.
  destruct Hu as (_ & _ & Hlen & _). unfold zsum. lia.
Qed.

(* non-vacuity *)
Example udraw_ok_example : udraw_ok {| u_variant := 1; u_pois := 2; u_orders := 2; u_rpo := 7 # 2; u_cs := 1; u_co := 0; u_crpo := 5 # 1 |}.
Proof. unfold udraw_ok. cbn. repeat split; try lia; try (right; reflexivity). Qed.
Example xuser_ok_example :
  xuser_ok {| x_variant := 0; x_pois := 1;
              x_sess := [ {| s_orders := 1; s_rpo := 3 # 1; s_cs := 2; s_co := 1; s_crpo := 1 # 2 |};
                          {| s_orders := 0; s_rpo := 9 # 4; s_cs := 0; s_co := 0; s_crpo := 2 # 1 |} ] |}.
Proof.
  unfold xuser_ok. cbn. repeat split; try lia; try (left; reflexivity).
  repeat constructor; cbn; try lia; reflexivity.
Qed.
