(* C16 - the digit layer of model/Render.v: the decimal text produced by `digits` (and zero padding / "_" grouping)
   denotes the number it was produced from, so the fixed-point text of fixed_abs denotes exactly m / 10^p, where m is the
   half-even rounding whose error bound is proved in proofs/C16_render.v. *)
From Coq Require Import ZArith String Ascii List Bool Lia.
From TT Require Import model.Render.
Import ListNotations.
Local Open Scope Z_scope.

Definition digit_val (c : ascii) : Z := Z.of_nat (nat_of_ascii c) - 48.
Fixpoint parse_acc (acc : Z) (s : string) : Z :=
  match s with EmptyString => acc | String c t => parse_acc (10 * acc + digit_val c) t end.
Definition parse_nat (s : string) : Z := parse_acc 0 s.

Lemma digit_char_facts d : 0 <= d < 10 ->
  digit_val (digit_char d) = d /\ is_continuation (digit_char d) = false /\ Ascii.eqb (digit_char d) "_" = false.
Proof.
  intros H. assert (E : d = 0 \/ d = 1 \/ d = 2 \/ d = 3 \/ d = 4 \/ d = 5 \/ d = 6 \/ d = 7 \/ d = 8 \/ d = 9) by lia.
  repeat (destruct E as [-> | E]; [repeat split; reflexivity|]). subst. repeat split; reflexivity.
Qed.

Lemma parse_acc_app a s t : parse_acc a (s ++ t) = parse_acc (parse_acc a s) t.
Proof. revert a. induction s as [|c s IH]; intros a; cbn; [reflexivity | apply IH]. Qed.
Lemma app_assoc_s (a b c : string) : ((a ++ b) ++ c)%string = (a ++ (b ++ c))%string.
Proof. induction a as [|x t IH]; cbn; [reflexivity | rewrite IH; reflexivity]. Qed.
Lemma str_len_app' a b : str_len (a ++ b) = (str_len a + str_len b)%nat.
Proof. induction a as [|c t IH]; cbn; [reflexivity|]. destruct (is_continuation c); rewrite IH; reflexivity. Qed.

(* digit strings: every character is a decimal digit *)
Fixpoint all_digits (s : string) : Prop :=
  match s with EmptyString => True | String c t => (exists d, 0 <= d < 10 /\ c = digit_char d) /\ all_digits t end.
Lemma all_digits_app a b : all_digits a -> all_digits b -> all_digits (a ++ b).
Proof. induction a as [|c t IH]; cbn; [tauto|]. intros [H1 H2] Hb. split; [exact H1 | apply IH; assumption]. Qed.

(* what digits_fuel prepends: a digit string ds of L characters that denotes n, most significant digit first, minimal *)
Lemma digits_fuel_spec fuel : forall n acc, 0 <= n < 10 ^ Z.of_nat fuel -> (0 < fuel)%nat ->
  exists ds, digits_fuel fuel n acc = (ds ++ acc)%string /\ all_digits ds /\
             (forall a, parse_acc a ds = a * 10 ^ Z.of_nat (str_len ds) + n) /\
             (0 < str_len ds)%nat /\ n < 10 ^ Z.of_nat (str_len ds) /\ (str_len ds = 1%nat \/ 10 ^ (Z.of_nat (str_len ds) - 1) <= n).
Proof.
  induction fuel as [|f IH]; intros n acc Hn Hf; [lia|].
  cbn [digits_fuel].
  assert (Hd : 0 <= n mod 10 < 10) by (apply Z.mod_pos_bound; lia).
  destruct (digit_char_facts _ Hd) as (Hv & Hc & _).
  destruct (n / 10 =? 0) eqn:E.
  - apply Z.eqb_eq in E. assert (Hsmall : n < 10) by (pose proof (Z.div_mod n 10 ltac:(lia)); lia).
    assert (Hmod : n mod 10 = n) by (apply Z.mod_small; lia).
    exists (String (digit_char (n mod 10)) EmptyString). cbn [append str_len all_digits parse_acc]. rewrite Hc, Hv, Hmod.
    split; [reflexivity|]. split; [split; [exists n; split; [split; [apply Hn | exact Hsmall] | reflexivity] | exact I]|].
    change (Z.of_nat 1) with 1. rewrite Z.pow_1_r.
    split; [intros a; lia|]. split; [lia|]. split; [exact Hsmall | left; reflexivity].
  - apply Z.eqb_neq in E.
    assert (Hq : 0 <= n / 10 < 10 ^ Z.of_nat f).
    { split; [apply Z.div_pos; lia|]. apply Z.div_lt_upper_bound; [lia|]. rewrite Nat2Z.inj_succ, Z.pow_succ_r in Hn by lia. lia. }
    assert (Hf' : (0 < f)%nat).
    { destruct f; [|lia]. cbn in Hq. assert (n / 10 = 0) by lia. contradiction. }
    destruct (IH (n / 10) (String (digit_char (n mod 10)) acc) Hq Hf') as (ds & E1 & Hall & Hp & Hl & Hlt & Hmin).
    exists (ds ++ String (digit_char (n mod 10)) EmptyString)%string.
    assert (Hlen : str_len (ds ++ String (digit_char (n mod 10)) EmptyString) = S (str_len ds)).
    { rewrite str_len_app'. cbn [str_len]. rewrite Hc. lia. }
    pose proof (Z.div_mod n 10 ltac:(lia)) as Hdm.
    repeat split.
    + rewrite E1. rewrite app_assoc_s. reflexivity.
    + apply all_digits_app; [exact Hall|]. cbn. split; [exists (n mod 10); split; [lia | reflexivity] | exact I].
    + intros a. rewrite parse_acc_app, Hp. cbn [parse_acc]. rewrite Hv, Hlen, Nat2Z.inj_succ, Z.pow_succ_r by lia. lia.
    + lia.
    + rewrite Hlen, Nat2Z.inj_succ, Z.pow_succ_r by lia. lia.
    + right. rewrite Hlen, Nat2Z.inj_succ. replace (Z.succ (Z.of_nat (str_len ds)) - 1) with (Z.of_nat (str_len ds)) by lia.
      destruct Hmin as [H1 | Hge].
      * rewrite H1. cbn. lia.
      * replace (Z.of_nat (str_len ds)) with (Z.succ (Z.of_nat (str_len ds) - 1)) by lia.
        rewrite Z.pow_succ_r by lia. lia.
Qed.

Lemma digits_fuel_enough n : 0 <= n -> n < 10 ^ Z.of_nat (S (Z.to_nat (Z.log2 (Z.max n 1)))).
Proof.
  intros Hn. set (k := Z.log2 (Z.max n 1)).
  assert (Hk : 0 <= k) by apply Z.log2_nonneg.
  assert (H2 : n < 2 ^ (k + 1)).
  { destruct (Z.max_spec n 1) as [[_ E]|[_ E]].
    - unfold k. rewrite E. cbn. lia.
    - unfold k. rewrite E. pose proof (Z.log2_spec n ltac:(lia)). lia. }
  rewrite Nat2Z.inj_succ, Z2Nat.id by lia.
  assert (2 ^ (k + 1) <= 10 ^ (k + 1)) by (apply Z.pow_le_mono_l; lia). lia.
Qed.

Theorem digits_spec n : 0 <= n ->
  all_digits (digits n) /\ parse_nat (digits n) = n /\ (0 < str_len (digits n))%nat /\
  n < 10 ^ Z.of_nat (str_len (digits n)) /\ (str_len (digits n) = 1%nat \/ 10 ^ (Z.of_nat (str_len (digits n)) - 1) <= n).
Proof.
  intros Hn. unfold digits.
  destruct (digits_fuel_spec _ n EmptyString (conj Hn (digits_fuel_enough n Hn)) ltac:(lia)) as (ds & E & Hall & Hp & Hl & Hlt & Hmin).
  assert (Eds : (ds ++ "")%string = ds) by (clear; induction ds; cbn; [reflexivity | rewrite IHds; reflexivity]).
  rewrite E, Eds. repeat split; try assumption. unfold parse_nat. rewrite Hp. lia.
Qed.

(* zero padding on the left keeps the value and gives the fractional field its p digits *)
Lemma pad_zeros_spec k s : parse_nat (pad_zeros k s) = parse_nat s /\ str_len (pad_zeros k s) = (k + str_len s)%nat /\
  (all_digits s -> all_digits (pad_zeros k s)).
Proof.
  revert s. induction k as [|k IH]; intros s; [cbn; repeat split; auto|].
  cbn [pad_zeros]. destruct (IH (String "0" s)) as (H1 & H2 & H3). repeat split.
  - rewrite H1. reflexivity.
  - rewrite H2. change (str_len (String "0" s)) with (S (str_len s)). lia.
  - intros Hs. apply H3. cbn. split; [exists 0; split; [lia | reflexivity] | exact Hs].
Qed.

(* a number below 10^p has at most p digits *)
Lemma digits_len_le n p : 0 <= n < 10 ^ Z.of_nat p -> (0 < p)%nat -> (str_len (digits n) <= p)%nat.
Proof.
  intros Hn Hp. destruct (digits_spec n ltac:(lia)) as (_ & _ & Hl & _ & [H1 | Hge]); [lia|].
  destruct (Nat.le_gt_cases (str_len (digits n)) p) as [H|H]; [exact H|].
  assert (10 ^ Z.of_nat p <= 10 ^ (Z.of_nat (str_len (digits n)) - 1)) by (apply Z.pow_le_mono_r; lia). lia.
Qed.

(* "_" grouping only inserts separators: removing them gives the digit string back *)
Fixpoint ungroup (s : string) : string :=
  match s with EmptyString => EmptyString | String c t => if Ascii.eqb c "_" then ungroup t else String c (ungroup t) end.
Definition no_sep (l : list ascii) : Prop := Forall (fun c => Ascii.eqb c "_" = false) l.
Lemma filter_group_rev l i : no_sep l -> filter (fun c => negb (Ascii.eqb c "_")) (group_rev l i) = l.
Proof.
  intros H. revert i. induction H as [|c t Hc _ IH]; intros i; [reflexivity|]. cbn [group_rev].
  rewrite filter_app, IH. destruct ((0 <? i)%nat && (i mod 3 =? 0)%nat); cbn; rewrite Hc; reflexivity.
Qed.
Lemma ungroup_of_list l : ungroup (of_list l) = of_list (filter (fun c => negb (Ascii.eqb c "_")) l).
Proof. induction l as [|c t IH]; [reflexivity|]. cbn. destruct (Ascii.eqb c "_"); cbn; rewrite IH; reflexivity. Qed.
Lemma filter_rev {X} (p : X -> bool) l : filter p (rev l) = rev (filter p l).
Proof.
  induction l as [|x t IH]; [reflexivity|]. cbn. rewrite filter_app, IH. cbn. destruct (p x); cbn; [reflexivity | rewrite app_nil_r; reflexivity].
Qed.
Lemma of_to_list s : of_list (to_list s) = s.
Proof. induction s; cbn; [reflexivity | rewrite IHs; reflexivity]. Qed.
Lemma all_digits_no_sep s : all_digits s -> no_sep (to_list s).
Proof.
  induction s as [|c t IH]; cbn; [constructor|]. intros [[d [Hd ->]] Ht]. constructor; [apply digit_char_facts; exact Hd | apply IH; exact Ht].
Qed.
Theorem ungroup_group3 s : all_digits s -> ungroup (group3 s) = s.
Proof.
  intros H. unfold group3. rewrite ungroup_of_list, filter_rev, filter_group_rev.
  - rewrite rev_involutive. apply of_to_list.
  - unfold no_sep. apply Forall_rev. apply all_digits_no_sep. exact H.
Qed.

(* the two fields of the fixed-point text of m / 10^p *)
Theorem fixed_fields_denote m p : 0 <= m -> (0 < p)%nat ->
  let ip := m / pow10 p in let fp := m mod pow10 p in
  let frac := pad_zeros (p - str_len (digits fp)) (digits fp) in
  parse_nat (ungroup (group3 (digits ip))) = ip /\ parse_nat frac = fp /\ str_len frac = p /\
  ip * pow10 p + fp = m.
Proof.
  intros Hm Hp ip fp frac. unfold pow10 in *.
  assert (Hpow : 0 < 10 ^ Z.of_nat p) by (apply Z.pow_pos_nonneg; lia).
  assert (Hip : 0 <= ip) by (apply Z.div_pos; lia).
  assert (Hfp : 0 <= fp < 10 ^ Z.of_nat p) by (apply Z.mod_pos_bound; lia).
  destruct (digits_spec ip Hip) as (Hall & Hpar & _).
  destruct (digits_spec fp ltac:(lia)) as (Hallf & Hparf & _).
  pose proof (digits_len_le fp p Hfp Hp) as Hlen.
  destruct (pad_zeros_spec (p - str_len (digits fp)) (digits fp)) as (H1 & H2 & _).
  repeat split.
  - rewrite (ungroup_group3 _ Hall). exact Hpar.
  - unfold frac. rewrite H1. exact Hparf.
  - unfold frac. rewrite H2. lia.
  - unfold ip, fp. pose proof (Z.div_mod m (10 ^ Z.of_nat p) ltac:(lia)). lia.
Qed.
