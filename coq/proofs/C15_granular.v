(* C15 - row-level metrics see exactly their variant's rows. About model/Granular.v. *)
From Coq Require Import ZArith String List Bool Lia Permutation.
From TT Require Import model.Granular.
Import ListNotations.
Local Open Scope bool_scope.

Lemma distinct_in l x : In x (distinct l) <-> In x l.
Proof.
  induction l as [|y t IH]; cbn; [tauto|]. rewrite filter_In, IH, negb_true_iff, Z.eqb_neq.
  destruct (Z.eq_dec y x) as [E|E].
  - subst. tauto.
  - split.
    + intros [H|[H _]]; [left; exact H | right; exact H].
    + intros [H|H]; [left; exact H | right; split; [exact H | congruence]].
Qed.
Lemma distinct_nodup l : NoDup (distinct l).
Proof.
  induction l as [|y t IH]; cbn; [constructor|]. constructor.
  - rewrite filter_In, negb_true_iff, Z.eqb_neq. intros [_ H]. congruence.
  - apply NoDup_filter. exact IH.
Qed.

(* keys: exactly the distinct variants, each once *)
Lemma granular_keys cols tbl : map fst (read_granular cols tbl) = distinct (map fst tbl).
Proof. unfold read_granular. rewrite map_map. cbn. apply map_id. Qed.

(* each variant receives exactly its own rows, in table order, restricted to the declared columns *)
Lemma granular_rows cols tbl v rows : In (v, rows) (read_granular cols tbl) ->
  rows = map (project cols) (rows_of_variant v tbl).
Proof.
  unfold read_granular. rewrite in_map_iff. intros [v' [E _]]. injection E as <- <-. reflexivity.
Qed.
Lemma rows_of_variant_in v tbl r : In r (rows_of_variant v tbl) <-> In (v, r) tbl.
Proof.
  unfold rows_of_variant. rewrite in_map_iff. split.
  - intros [[v' r'] [E H]]. cbn in E. subst r'. apply filter_In in H. destruct H as [H E]. cbn in E.
    apply Z.eqb_eq in E. subst v'. exact H.
  - intros H. exists (v, r). split; [reflexivity|]. apply filter_In. split; [exact H | cbn; apply Z.eqb_refl].
Qed.
Lemma rows_of_variant_length_sum tbl vs : NoDup vs -> (forall p, In p tbl -> In (fst p) vs) ->
  fold_right (fun v acc => length (rows_of_variant v tbl) + acc) 0 vs = length tbl.
Proof.
  revert vs. induction tbl as [|[v0 r0] t IH]; intros vs Hnd Hall.
  - induction vs as [|v vs IHv]; [reflexivity|]. cbn. inversion Hnd; subst. apply IHv; [assumption | intros p []].
  - assert (Hin : In v0 vs) by (apply (Hall (v0, r0)); left; reflexivity).
    assert (IH' := IH vs Hnd (fun p Hp => Hall p (or_intror Hp))).
    cbn [length]. rewrite <- IH'. clear IH IH' Hall.
    induction vs as [|v vs IHv]; [destruct Hin|]. inversion Hnd as [|? ? Hnv Hnd']; subst. cbn [fold_right].
    unfold rows_of_variant at 1 3. cbn [filter fst]. destruct (Z.eqb v0 v) eqn:E.
    + apply Z.eqb_eq in E. subst v. cbn [map length].
      assert (Hrest : forall l, ~ In v0 l ->
                fold_right (fun v acc => length (rows_of_variant v ((v0, r0) :: t)) + acc) 0 l
                = fold_right (fun v acc => length (rows_of_variant v t) + acc) 0 l).
      { induction l as [|a l IHl]; intros Hn; [reflexivity|]. cbn [fold_right].
        unfold rows_of_variant at 1. cbn [filter fst].
        destruct (Z.eqb v0 a) eqn:E'; [apply Z.eqb_eq in E'; subst a; exfalso; apply Hn; left; reflexivity|].
        fold (rows_of_variant a t). rewrite IHl; [reflexivity | intros H; apply Hn; right; exact H]. }
      rewrite (Hrest vs Hnv). fold (rows_of_variant v0 t). lia.
    + fold (rows_of_variant v t). destruct Hin as [Hin|Hin]; [subst v; rewrite Z.eqb_refl in E; discriminate|].
      rewrite (IHv Hnd' Hin). lia.
Qed.

(* nothing lost, duplicated or leaked: the per-variant row counts add up to the table *)
Lemma granular_no_loss cols tbl :
  fold_right (fun kv acc => length (snd kv) + acc) 0 (read_granular cols tbl) = length tbl.
Proof.
  unfold read_granular.
  rewrite <- (rows_of_variant_length_sum tbl (distinct (map fst tbl)) (distinct_nodup _)).
  - induction (distinct (map fst tbl)) as [|v vs IH]; [reflexivity|]. cbn. rewrite map_length, IH. reflexivity.
  - intros p Hp. apply distinct_in, in_map. exact Hp.
Qed.

(* a metric reading from the shared (union) fetch sees the same values for its own columns as a stand-alone read *)
Lemma shared_read_projects cols union r c : (forall x, In x cols -> In x union) -> In c cols ->
  project union r c = project cols r c.
Proof.
  intros Hsub Hc. unfold project.
  assert (H1 : existsb (String.eqb c) cols = true) by (apply existsb_exists; exists c; split; [exact Hc | apply String.eqb_refl]).
  assert (H2 : existsb (String.eqb c) union = true) by (apply existsb_exists; exists c; split; [apply Hsub; exact Hc | apply String.eqb_refl]).
  rewrite H1, H2. reflexivity.
Qed.
Lemma project_hides_undeclared cols r c : ~ In c cols -> project cols r c = 0%Z.
Proof.
  intros H. unfold project. destruct (existsb (String.eqb c) cols) eqn:E; [|reflexivity].
  apply existsb_exists in E. destruct E as [x [Hx E]]. apply String.eqb_eq in E. subst x. contradiction.
Qed.
