(* C20 - calibration of the synthetic data: about genR/Datasets.v (the parameter expressions _make_data hands to the
   numpy Generator, and the parameter domain of _check_params). *)
From Coq Require Import Reals List Bool Lra.
From TT Require Import lib.RTac lib.PreludeR genR.Datasets.
Local Open Scope R_scope.

(* textbook means of the distributions drawn from (trusted: not derived from densities here) *)
Definition poisson_mean (lam : R) : R := lam.
Definition beta_mean (a b : R) : R := a / (a + b).
Definition binomial_mean (n p : R) : R := n * p.
Definition lognormal_mean (mu sigma : R) : R := exp (mu + sigma * sigma / 2).

Lemma nltb_true a b : nltb a b = true -> a < b.
Proof. unfold nltb. destruct (Rlt_dec a b); [trivial | discriminate]. Qed.

Section Calib.
Variables ratio su ou ru avs aops arpo : R.
Hypothesis Hvalid : ds_valid ratio su ou ru avs aops arpo = true.

Lemma domain_facts :
  0 < ratio /\ 1 / avs - 1 < su /\ -1 < ou /\ ou < (1 + su) / aops - 1 /\ -1 < ru /\ 1 < avs /\ 0 < aops < 1 /\ 0 < arpo.
Proof.
  pose proof Hvalid as Hv. unfold ds_valid in Hv. repeat (apply andb_prop in Hv; destruct Hv as [Hv ?H]).
  repeat match goal with H : nltb _ _ = true |- _ => apply nltb_true in H end.
  cbv [nlit] in *. repeat split; lra.
Qed.

Lemma su_pos : 0 < 1 + su.
Proof.
  destruct domain_facts as (_ & H & _ & _ & _ & Ha & _).
  assert (0 < 1 / avs) by (apply Rdiv_lt_0_compat; lra). lra.
Qed.
Lemma mult_pos u v : -1 < u -> (v = 0 \/ v = 1) -> 0 < 1 + u * v.
Proof. intros Hu [-> | ->]; lra. Qed.

Notation P f v := (f ratio su ou ru avs aops arpo v).

(* Closed forms of the generated parameter expressions.  Everything below depends on the generated text only through
   these lemmas, which hold up to the ring laws (lib/RTac.v), so a behaviour-preserving respelling of datasets.py does
   not disturb the proofs. *)
Ltac dsq := cbv [nlit nln nsqrt nexp npow nmin nmax]; cbv zeta; rq.
Lemma variant_p_closed v : P ds_variant_p v = ratio / (1 + ratio).
Proof. unfold ds_variant_p. dsq. Qed.
Lemma sessions_lam_closed v : P ds_sessions_lam v = avs * (1 + su * v) - 1.
Proof. unfold ds_sessions_lam. dsq. Qed.
Lemma rpo_sigma_closed v : P ds_rpo_sigma v = 1 / 2.
Proof. unfold ds_rpo_sigma. dsq. Qed.
Lemma rpo_mean_closed v : P ds_rpo_mean v = ln (arpo * ((1 + ru * v) / (1 + ou * v))) - (1 / 2) * (1 / 2) / 2.
Proof. unfold ds_rpo_mean. dsq. Qed.
Lemma xrpo_sigma_closed v : P dsx_rpo_sigma v = sqrt (ln (1 + avs * (exp ((1 / 2) ^ 2) - 1))).
Proof. unfold dsx_rpo_sigma. dsq. Qed.
Lemma xrpo_mean_closed v : P dsx_rpo_mean v = ln (arpo * ((1 + ru * v) / (1 + ou * v))) - P dsx_rpo_sigma v * P dsx_rpo_sigma v / 2.
Proof. unfold dsx_rpo_mean, dsx_rpo_sigma. dsq. Qed.
Lemma cov_sessions_lam_closed v x : ds_cov_sessions_lam ratio su ou ru avs aops arpo v x = x / (1 + su * v).
Proof. unfold ds_cov_sessions_lam. dsq. Qed.

(* ----- every distribution parameter is valid on the whole documented domain, in both variants ----- *)
Lemma variant_p_valid v : 0 < P ds_variant_p v < 1.
Proof.
  destruct domain_facts as (Hr & _). rewrite variant_p_closed.
  split; [apply Rdiv_lt_0_compat; lra|]. apply Rmult_lt_reg_r with (1 + ratio); [lra|].
  replace (ratio / (1 + ratio) * (1 + ratio)) with ratio by (field; lra). lra.
Qed.

(* requested treatment share: odds of treatment are exactly `ratio` *)
Lemma treatment_odds v : P ds_variant_p v / (1 - P ds_variant_p v) = ratio.
Proof. destruct domain_facts as (Hr & _). rewrite variant_p_closed. field. lra. Qed.

Lemma sessions_lam_valid v : (v = 0 \/ v = 1) -> 0 < P ds_sessions_lam v.
Proof.
  intros Hv. destruct domain_facts as (_ & H & _ & _ & _ & Ha & _). rewrite sessions_lam_closed.
  destruct Hv as [-> | ->]; [lra|].
  assert (1 / avs < 1 + su) by lra.
  assert (avs * (1 / avs) < avs * (1 + su)) by (apply Rmult_lt_compat_l; lra).
  replace (avs * (1 / avs)) with 1 in * by (field; lra). lra.
Qed.

Lemma ops_mean_eq v : (v = 0 \/ v = 1) ->
  P ds_ops_a v = aops * ((1 + ou * v) / (1 + su * v)) /\ P ds_ops_b v = 1 - aops * ((1 + ou * v) / (1 + su * v)).
Proof. intros Hv. unfold ds_ops_a, ds_ops_b. split; dsq. Qed.

Lemma beta_params_valid v : (v = 0 \/ v = 1) -> 0 < P ds_ops_a v /\ 0 < P ds_ops_b v.
Proof.
  intros Hv. destruct (ops_mean_eq v Hv) as [-> ->].
  destruct domain_facts as (_ & _ & Ho & Ho2 & _ & _ & [Ha1 Ha2] & _). pose proof su_pos as Hs.
  destruct Hv as [-> | ->].
  - replace ((1 + ou * 0) / (1 + su * 0)) with 1 by (field; lra). lra.
  - rewrite !Rmult_1_r. split.
    + apply Rmult_lt_0_compat; [lra|]. apply Rdiv_lt_0_compat; lra.
    + assert (1 + ou < (1 + su) / aops) by lra.
      assert (aops * (1 + ou) < aops * ((1 + su) / aops)) by (apply Rmult_lt_compat_l; lra).
      replace (aops * ((1 + su) / aops)) with (1 + su) in * by (field; lra).
      assert (aops * ((1 + ou) / (1 + su)) < 1); [|lra].
      apply Rmult_lt_reg_r with (1 + su); [lra|].
      replace (aops * ((1 + ou) / (1 + su)) * (1 + su)) with (aops * (1 + ou)) by (field; lra). lra.
Qed.

Lemma rpo_arg_pos v : (v = 0 \/ v = 1) -> 0 < arpo * ((1 + ru * v) / (1 + ou * v)).
Proof.
  intros Hv. destruct domain_facts as (_ & _ & Ho & _ & Hr & _ & _ & Ha).
  apply Rmult_lt_0_compat; [lra|]. apply Rdiv_lt_0_compat; apply mult_pos; assumption.
Qed.

Lemma rpo_sigma_valid v : 0 < P ds_rpo_sigma v.
Proof. rewrite rpo_sigma_closed. lra. Qed.

(* sessions data rescales sigma; the new value is still a valid (positive) scale *)
Lemma rpo_sigma_sessions_valid v : 0 < P dsx_rpo_sigma v.
Proof.
  destruct domain_facts as (_ & _ & _ & _ & _ & Ha & _).
  rewrite xrpo_sigma_closed.
  apply sqrt_lt_R0. rewrite <- ln_1. apply ln_increasing; [lra|].
  assert (1 < exp ((1 / 2) ^ 2)).
  { pose proof (exp_increasing 0 ((1 / 2) ^ 2)) as He. rewrite exp_0 in He. apply He. simpl. lra. }
  assert (0 < avs * (exp ((1 / 2) ^ 2) - 1)) by (apply Rmult_lt_0_compat; lra). lra.
Qed.

(* ----- expected values per user, by variant ----- *)
Definition E_sessions (v : R) : R := 1 + poisson_mean (P ds_sessions_lam v).
Definition E_orders_per_session (v : R) : R := beta_mean (P ds_ops_a v) (P ds_ops_b v).
(* orders ~ Binomial(sessions, p) with p independent of sessions: E[orders] = E[sessions] * E[p] *)
Definition E_orders (v : R) : R := binomial_mean (E_sessions v) (E_orders_per_session v).
Definition E_revenue_per_order (v : R) : R := lognormal_mean (P ds_rpo_mean v) (P ds_rpo_sigma v).
(* revenue = orders * revenue_per_order, independent *)
Definition E_revenue (v : R) : R := E_orders v * E_revenue_per_order v.

Lemma E_sessions_closed v : E_sessions v = avs * (1 + su * v).
Proof. unfold E_sessions, poisson_mean. rewrite sessions_lam_closed. ring. Qed.

Lemma E_ops_closed v : (v = 0 \/ v = 1) -> E_orders_per_session v = aops * ((1 + ou * v) / (1 + su * v)).
Proof.
  intros Hv. unfold E_orders_per_session, beta_mean. destruct (ops_mean_eq v Hv) as [-> ->]. field.
  pose proof su_pos. destruct Hv as [-> | ->]; lra.
Qed.

Lemma E_orders_closed v : (v = 0 \/ v = 1) -> E_orders v = avs * aops * (1 + ou * v).
Proof.
  intros Hv. unfold E_orders, binomial_mean. rewrite E_sessions_closed, (E_ops_closed v Hv). field.
  pose proof su_pos. destruct Hv as [-> | ->]; lra.
Qed.

Lemma E_rpo_closed v : (v = 0 \/ v = 1) -> E_revenue_per_order v = arpo * ((1 + ru * v) / (1 + ou * v)).
Proof.
  intros Hv. unfold E_revenue_per_order, lognormal_mean. rewrite rpo_mean_closed, rpo_sigma_closed.
  match goal with |- exp ?e = _ => replace e with (ln (arpo * ((1 + ru * v) / (1 + ou * v)))) by field end.
  apply exp_ln. apply rpo_arg_pos. exact Hv.
Qed.

Lemma E_revenue_closed v : (v = 0 \/ v = 1) -> E_revenue v = avs * aops * arpo * (1 + ru * v).
Proof.
  intros Hv. unfold E_revenue. rewrite (E_orders_closed v Hv), (E_rpo_closed v Hv). field.
  destruct domain_facts as (_ & _ & Ho & _). destruct Hv as [-> | ->]; lra.
Qed.

(* the requested uplifts are exactly the expected relative differences between the variants *)
Theorem uplifts_calibrated :
  E_sessions 1 / E_sessions 0 = 1 + su /\ E_orders 1 / E_orders 0 = 1 + ou /\ E_revenue 1 / E_revenue 0 = 1 + ru.
Proof.
  destruct domain_facts as (_ & _ & _ & _ & _ & Ha & [Ho1 Ho2] & Hr).
  rewrite !E_sessions_closed, !E_orders_closed, !E_revenue_closed by (auto; right; reflexivity).
  repeat split; field; repeat split; lra.
Qed.

(* the control group has the requested averages *)
Theorem control_averages :
  E_sessions 0 = avs /\ E_orders 0 / E_sessions 0 = aops /\ E_revenue 0 / E_orders 0 = arpo.
Proof.
  destruct domain_facts as (_ & _ & _ & _ & _ & Ha & [Ho1 Ho2] & Hr).
  rewrite !E_sessions_closed, !E_orders_closed, !E_revenue_closed by (left; reflexivity).
  repeat split; field; repeat split; lra.
Qed.

(* ----- sessions data: same per-user expectations (rows per user = sessions; per-row Bernoulli orders) ----- *)
Definition Ex_orders_row (v : R) : R := binomial_mean 1 (beta_mean (P dsx_ops_a v) (P dsx_ops_b v)).
Definition Ex_rpo (v : R) : R := lognormal_mean (P dsx_rpo_mean v) (P dsx_rpo_sigma v).
Lemma sessions_data_same_means v : (v = 0 \/ v = 1) ->
  P dsx_variant_p v = P ds_variant_p v /\ P dsx_sessions_lam v = P ds_sessions_lam v /\
  E_sessions v * Ex_orders_row v = E_orders v /\ Ex_rpo v = E_revenue_per_order v.
Proof.
  intros Hv. split; [reflexivity|]. split; [reflexivity|]. split.
  - unfold Ex_orders_row, E_orders, binomial_mean. change (P dsx_ops_a v) with (P ds_ops_a v).
    change (P dsx_ops_b v) with (P ds_ops_b v). unfold E_orders_per_session. ring.
  - rewrite (E_rpo_closed v Hv). unfold Ex_rpo, lognormal_mean. rewrite xrpo_mean_closed.
    match goal with |- exp ?e = _ => replace e with (ln (arpo * ((1 + ru * v) / (1 + ou * v)))) by field end.
    apply exp_ln. apply rpo_arg_pos. exact Hv.
Qed.

(* ----- covariates: valid parameters for every value the earlier draws can take, and no treatment effect ----- *)
Notation C f v x := (f ratio su ou ru avs aops arpo v x).
Lemma ops_mult_pos v : (v = 0 \/ v = 1) -> 0 < (1 + ou * v) / (1 + su * v).
Proof.
  intros Hv. destruct domain_facts as (_ & _ & Ho & _). pose proof su_pos.
  apply Rdiv_lt_0_compat; apply mult_pos; try assumption. lra.
Qed.
Lemma cov_ops_eq v p : C ds_cov_ops v p = Rmin (p / ((1 + ou * v) / (1 + su * v))) 1.
Proof. unfold ds_cov_ops. first [cbv [nlit nmin]; cbv zeta; reflexivity | dsq]. Qed.

(* the order probability of the covariate is a probability for EVERY order probability p in [0, 1] *)
Theorem cov_parameters_valid v sessions p rpo : (v = 0 \/ v = 1) -> 1 <= sessions -> 0 <= p <= 1 -> 0 < rpo ->
  0 < C ds_cov_sessions_lam v sessions /\ 0 <= C ds_cov_ops v p <= 1 /\ 0 < rpo / ((1 + ru * v) / (1 + ou * v)).
Proof.
  intros Hv Hs Hp Hr. pose proof (ops_mult_pos v Hv) as Hm. pose proof su_pos as Hsu.
  destruct domain_facts as (_ & _ & Ho & _ & Hru & _).
  split; [|split].
  - rewrite cov_sessions_lam_closed. apply Rdiv_lt_0_compat; [lra|]. apply mult_pos; [lra | exact Hv].
  - rewrite cov_ops_eq. split; [|apply Rmin_r]. apply Rmin_glb; [|lra].
    apply Rmult_le_pos; [lra|]. left. apply Rinv_0_lt_compat. exact Hm.
  - apply Rdiv_lt_0_compat; [exact Hr|]. apply Rdiv_lt_0_compat; apply mult_pos; assumption.
Qed.

(* the cap at 1 is inactive whenever p <= multiplier; always, when the orders uplift is at least the sessions uplift *)
Lemma cov_ops_uncapped v p : (v = 0 \/ v = 1) -> p <= (1 + ou * v) / (1 + su * v) ->
  C ds_cov_ops v p = p / ((1 + ou * v) / (1 + su * v)).
Proof.
  intros Hv Hp. rewrite cov_ops_eq. pose proof (ops_mult_pos v Hv) as Hm. apply Rmin_left.
  apply Rmult_le_reg_r with ((1 + ou * v) / (1 + su * v)); [exact Hm|].
  set (m := (1 + ou * v) / (1 + su * v)) in *.
  replace (p / m * m) with p by (field; lra). lra.
Qed.

Definition E_cov_sessions (v : R) : R := poisson_mean (C ds_cov_sessions_lam v (E_sessions v)).
Theorem covariates_have_no_uplift v : (v = 0 \/ v = 1) ->
  E_cov_sessions v = avs /\
  (su <= ou -> forall p, 0 <= p <= 1 -> C ds_cov_ops v p = p / ((1 + ou * v) / (1 + su * v))) /\
  E_orders_per_session v / ((1 + ou * v) / (1 + su * v)) = aops.
Proof.
  intros Hv. pose proof su_pos as Hsu. destruct domain_facts as (_ & _ & Ho & _).
  split; [|split].
  - unfold E_cov_sessions, poisson_mean. rewrite cov_sessions_lam_closed, E_sessions_closed.
    field. destruct Hv as [-> | ->]; lra.
  - intros Hle p Hp. apply cov_ops_uncapped; [exact Hv|].
    apply Rle_trans with 1; [lra|]. apply Rmult_le_reg_r with (1 + su * v); [apply mult_pos; [lra | exact Hv]|].
    replace ((1 + ou * v) / (1 + su * v) * (1 + su * v)) with (1 + ou * v) by (field; destruct Hv as [-> | ->]; lra).
    destruct Hv as [-> | ->]; lra.
  - rewrite (E_ops_closed v Hv). field. destruct Hv as [-> | ->]; split; lra.
Qed.
End Calib.

(* non-vacuity: the default parameters are valid *)
Example defaults_valid : ds_valid 1 0 (1/10) (1/10) 2 (1/4) 10 = true.
Proof.
  unfold ds_valid. cbv [nlit].
  repeat match goal with |- context [nltb ?a ?b] =>
    let H := fresh in assert (H : nltb a b = true) by (unfold nltb; destruct (Rlt_dec a b); [reflexivity | exfalso; lra]);
    rewrite H; clear H end.
  reflexivity.
Qed.
