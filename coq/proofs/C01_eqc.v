(* C01 - soundness of the plan comparison used by the plan-capture tie: two plans that are equal up to the order of the
   operands of + and * (lib/Plan.plan_eqc) denote the same table transformation (lib/PlanSem.run_plan), so the
   denotation theorem proved for model/ReadPlan.plan_of_spec holds for the captured plan as well. *)
From Coq Require Import Reals ZArith String List Bool Lra FunctionalExtensionality.
From TT Require Import lib.Plan lib.Stats lib.PlanSem.
Import ListNotations.
Local Open Scope R_scope.

Lemma ostr_eqb_eq g h : ostr_eqb g h = true -> g = h.
Proof. destruct g, h; cbn; try discriminate; [intros E; apply String.eqb_eq in E; subst; reflexivity | reflexivity]. Qed.

Lemma expr_eqc_ev tbl x : forall y, expr_eqc x y = true -> forall r, ev tbl x r = ev tbl y r.
Proof.
  induction x as [c|z|a IH|a1 IH1 a2 IH2|a1 IH1 a2 IH2|a1 IH1 a2 IH2|a1 IH1 a2 IH2|a IH g| |a IH|a IH|s a IH|s a1 IH1 a2 IH2];
    intros y H r; destruct y; cbn [expr_eqc] in H; try discriminate H; cbn [ev]; try reflexivity.
  - apply String.eqb_eq in H. subst. reflexivity.
  - apply Z.eqb_eq in H. subst. reflexivity.
  - apply IH. exact H.
  - apply orb_true_iff in H. destruct H as [H|H]; apply andb_true_iff in H; destruct H as [H1 H2].
    + rewrite (IH1 _ H1 r), (IH2 _ H2 r). reflexivity.
    + rewrite (IH1 _ H1 r), (IH2 _ H2 r). apply Rplus_comm.
  - apply andb_true_iff in H. destruct H as [H1 H2]. rewrite (IH1 _ H1 r), (IH2 _ H2 r). reflexivity.
  - apply orb_true_iff in H. destruct H as [H|H]; apply andb_true_iff in H; destruct H as [H1 H2].
    + rewrite (IH1 _ H1 r), (IH2 _ H2 r). reflexivity.
    + rewrite (IH1 _ H1 r), (IH2 _ H2 r). apply Rmult_comm.
  - apply andb_true_iff in H. destruct H as [H1 H2]. rewrite (IH1 _ H1 r), (IH2 _ H2 r). reflexivity.
  - apply andb_true_iff in H. destruct H as [H1 H2]. apply ostr_eqb_eq in H2. subst.
    apply smean_ext. intros r'. apply IH. exact H1.
Qed.

Lemma expr_eqc_av tbl x : forall y, expr_eqc x y = true -> forall l, av tbl l x = av tbl l y.
Proof.
  induction x as [c|z|a IH|a1 IH1 a2 IH2|a1 IH1 a2 IH2|a1 IH1 a2 IH2|a1 IH1 a2 IH2|a IH g| |a IH|a IH|s a IH|s a1 IH1 a2 IH2];
    intros y H l; destruct y; cbn [expr_eqc] in H; try discriminate H; cbn [av]; try reflexivity.
  - apply Z.eqb_eq in H. subst. reflexivity.
  - apply IH. exact H.
  - apply orb_true_iff in H. destruct H as [H|H]; apply andb_true_iff in H; destruct H as [H1 H2].
    + rewrite (IH1 _ H1 l), (IH2 _ H2 l). reflexivity.
    + rewrite (IH1 _ H1 l), (IH2 _ H2 l). apply Rplus_comm.
  - apply andb_true_iff in H. destruct H as [H1 H2]. rewrite (IH1 _ H1 l), (IH2 _ H2 l). reflexivity.
  - apply orb_true_iff in H. destruct H as [H|H]; apply andb_true_iff in H; destruct H as [H1 H2].
    + rewrite (IH1 _ H1 l), (IH2 _ H2 l). reflexivity.
    + rewrite (IH1 _ H1 l), (IH2 _ H2 l). apply Rmult_comm.
  - apply andb_true_iff in H. destruct H as [H1 H2]. rewrite (IH1 _ H1 l), (IH2 _ H2 l). reflexivity.
  - apply smean_ext. intros r. apply expr_eqc_ev. exact H.
  - apply rsum_ext. intros r. apply expr_eqc_ev. exact H.
  - apply andb_true_iff in H. destruct H as [Hs H]. apply eqb_prop in Hs. subst.
    match goal with H : expr_eqc ?u ?v = true |- _ =>
      assert (E : forall r, ev tbl u r = ev tbl v r) by (intros r; apply expr_eqc_ev; exact H) end.
    match goal with |- context [if ?b then _ else _] => destruct b end || idtac.
    all: try (unfold svar; apply scov_ext; exact E).
    all: try (rewrite (smean_ext _ _ l E); f_equal; apply rsum_ext; intros r; rewrite (E r); reflexivity).
  - apply andb_true_iff in H. destruct H as [H H2]. apply andb_true_iff in H. destruct H as [Hs H1]. apply eqb_prop in Hs. subst.
    match goal with H1 : expr_eqc ?u ?v = true, H2 : expr_eqc ?u2 ?v2 = true |- _ =>
      assert (E1 : forall r, ev tbl u r = ev tbl v r) by (intros r; apply expr_eqc_ev; exact H1);
      assert (E2 : forall r, ev tbl u2 r = ev tbl v2 r) by (intros r; apply expr_eqc_ev; exact H2) end.
    match goal with |- context [if ?b then _ else _] => destruct b end || idtac.
    all: try (apply scov_ext; assumption).
    all: try (rewrite (smean_ext _ _ l E1), (smean_ext _ _ l E2); f_equal; apply rsum_ext; intros r; rewrite (E1 r), (E2 r); reflexivity).
Qed.

Lemma lookup_eqc c d : forall d', defs_eqc d d' = true ->
  match lookup c d, lookup c d' with
  | Some e, Some e' => expr_eqc e e' = true
  | None, None => True
  | _, _ => False
  end.
Proof.
  induction d as [|[n e] t IH]; intros [|[n' e'] t'] H; cbn [defs_eqc] in H; try discriminate H; cbn [lookup]; [exact I|].
  apply andb_true_iff in H. destruct H as [H Ht]. apply andb_true_iff in H. destruct H as [Hn He]. apply String.eqb_eq in Hn. subst.
  destruct (String.eqb c n'); [exact He | apply IH; exact Ht].
Qed.

Lemma step_eqc_run s s' tbl : step_eqc s s' = true -> run_step s tbl = run_step s' tbl.
Proof.
  destruct s as [d|g d], s' as [d'|g' d']; cbn [step_eqc]; try discriminate; intros H; cbn [run_step].
  - unfold with_columns. apply map_ext. intros r. unfold wc_row. apply functional_extensionality. intros c.
    pose proof (lookup_eqc c d d' H) as L. destruct (lookup c d), (lookup c d'); try contradiction; [|reflexivity].
    apply expr_eqc_ev. exact L.
  - apply andb_true_iff in H. destruct H as [Hg H]. apply ostr_eqb_eq in Hg. subst.
    unfold aggregate. apply map_ext. intros rep. unfold agg_row. apply functional_extensionality. intros c.
    pose proof (lookup_eqc c d d' H) as L. destruct (lookup c d), (lookup c d'); try contradiction; [|reflexivity].
    apply expr_eqc_av. exact L.
Qed.

(* plans equal up to the order of the operands of + and * denote the same transformation of every table *)
Theorem plan_eqc_sound p : forall q tbl, plan_eqc p q = true -> run_plan p tbl = run_plan q tbl.
Proof.
  unfold run_plan. induction p as [|s p IH]; intros [|s' q] tbl H; cbn [plan_eqc] in H; try discriminate H; [reflexivity|].
  apply andb_true_iff in H. destruct H as [Hs Hp]. cbn [fold_left]. rewrite (step_eqc_run s s' tbl Hs). apply IH. exact Hp.
Qed.

(* the strict comparison implies the commutative one (so everything accepted before is still accepted) *)
Lemma expr_eqb_eqc x : forall y, expr_eqb x y = true -> expr_eqc x y = true.
Proof.
  induction x; intros y H; destruct y; cbn [expr_eqb] in H; try discriminate H; cbn [expr_eqc]; try exact H;
    repeat match goal with
           | H : _ && _ = true |- _ => apply andb_true_iff in H; destruct H
           end;
    repeat match goal with
           | IH : forall y, expr_eqb ?a y = true -> _, H : expr_eqb ?a _ = true |- _ => apply IH in H
           end;
    repeat (apply andb_true_iff; split); try assumption;
    try (apply orb_true_iff; left; apply andb_true_iff; split; assumption).
Qed.
