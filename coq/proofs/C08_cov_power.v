(* C08 - a smaller variance never lowers the power (Z test, effect in the direction of a one-sided alternative); with
   covariate_never_raises_variance: adding a covariate never lowers the reported power. *)
From Coq Require Import Reals String List Lra.
From TT Require Import lib.PreludeR lib.Stats lib.Distr genR.Aggr genR.Mean proofs.Mean_core proofs.C08_power.
Local Open Scope R_scope.

Section PowerInVar.
Variable fam : dist_family R.
Hypothesis HF : fam_laws fam.
Variables (cfg : rom) (n : R).
Hypothesis Hr : 0 < cfg_ratio cfg.
Hypothesis Ha : 0 < cfg_alpha cfg < 1.
Hypothesis Hz : cfg_use_t cfg = false.
Hypothesis Hc : 1 < n / (1 + cfg_ratio cfg).
Hypothesis Ht : 1 < n * cfg_ratio cfg / (1 + cfg_ratio cfg).
Notation r := (cfg_ratio cfg).

Lemma n_pos : 0 < n.
Proof.
  assert (0 < n / (1 + r)) by lra. assert (H1 : n = n / (1 + r) * (1 + r)) by (field; lra).
  rewrite H1. apply Rmult_lt_0_compat; lra.
Qed.

Lemma se_increasing_in_var v1 v2 : 0 < v1 -> v1 <= v2 -> se_n cfg v1 n <= se_n cfg v2 n.
Proof.
  intros H1 H12. pose proof n_pos as Hn. rewrite !se_n_closed by (try assumption; lra).
  apply sqrt_le_1_alt. unfold Rdiv. apply Rmult_le_compat_r.
  - left. apply Rinv_0_lt_compat. apply Rmult_lt_0_compat; lra.
  - apply Rmult_le_compat_r; [|exact H12]. left. apply Rmult_lt_0_compat; lra.
Qed.

Lemma power_z_antitone_in_var_greater v1 v2 delta : cfg_alternative cfg = Greater -> 0 <= delta -> 0 < v1 -> v1 <= v2 ->
  rom_power_from_stats fam cfg v2 n delta <= rom_power_from_stats fam cfg v1 n delta.
Proof.
  intros Halt Hd H1 H12.
  rewrite (power_z_greater fam HF cfg v1 n Ha delta Hz Halt), (power_z_greater fam HF cfg v2 n Ha delta Hz Halt).
  fold (se_n cfg v1 n) (se_n cfg v2 n).
  pose proof (se_increasing_in_var v1 v2 H1 H12) as Hse.
  assert (Hp1 : 0 < se_n cfg v1 n) by (apply se_n_pos; assumption).
  assert (Hp2 : 0 < se_n cfg v2 n) by (apply se_n_pos; try assumption; lra).
  assert (Hq : delta / se_n cfg v2 n <= delta / se_n cfg v1 n).
  { unfold Rdiv. apply Rmult_le_compat_l; [exact Hd|]. apply Rinv_le_contravar; assumption. }
  pose proof (cdf_le _ (F_norm fam HF 0) (ppf (norm_ fam 0) (1 - cfg_alpha cfg) - delta / se_n cfg v1 n)
                (ppf (norm_ fam 0) (1 - cfg_alpha cfg) - delta / se_n cfg v2 n) ltac:(lra)). lra.
Qed.

Lemma power_z_antitone_in_var_less v1 v2 delta : cfg_alternative cfg = Less -> delta <= 0 -> 0 < v1 -> v1 <= v2 ->
  rom_power_from_stats fam cfg v2 n delta <= rom_power_from_stats fam cfg v1 n delta.
Proof.
  intros Halt Hd H1 H12.
  rewrite !power_textbook, Halt. unfold alt_of, null_of. rewrite Hz.
  fold (se_n cfg v1 n) (se_n cfg v2 n).
  rewrite (F_norm_shift fam HF (delta / se_n cfg v1 n)), (F_norm_shift fam HF (delta / se_n cfg v2 n)).
  pose proof (se_increasing_in_var v1 v2 H1 H12) as Hse.
  assert (Hp1 : 0 < se_n cfg v1 n) by (apply se_n_pos; assumption).
  assert (Hp2 : 0 < se_n cfg v2 n) by (apply se_n_pos; try assumption; lra).
  assert (Hq : delta / se_n cfg v1 n <= delta / se_n cfg v2 n).
  { assert (- delta / se_n cfg v2 n <= - delta / se_n cfg v1 n).
    { unfold Rdiv. apply Rmult_le_compat_l; [lra|]. apply Rinv_le_contravar; assumption. }
    unfold Rdiv in *. lra. }
  apply (cdf_le _ (F_norm fam HF 0)). lra.
Qed.
End PowerInVar.
