(* C17 - changing units or swapping variant roles. Lemmas about genR/Mean.v. *)
From Coq Require Import Reals String List Lra Permutation.
From TT Require Import lib.PreludeR lib.Stats lib.Distr lib.ExtR genR.Aggr genR.Mean
  proofs.C14_pooling proofs.Mean_core proofs.Mean_aggr proofs.C06_cuped.
Import ListNotations.
Local Open Scope R_scope.

Definition emul (k : R) (e : ext R) : ext R := match e with Fin x => Fin (k * x) | PInf => PInf | NInf => NInf end.
Definition eneg (e : ext R) : ext R := match e with Fin x => Fin (- x) | PInf => NInf | NInf => PInf end.
Definition mirror (a : Base.alternative) : Base.alternative :=
  match a with TwoSided => TwoSided | Greater => Less | Less => Greater end.

(* ---------- statistics level ---------- *)
Section Scale.
Variable fam : dist_family R.
Variables (cfg : rom) (cm cv cn tm tv tn k : R).
Hypothesis Hk : 0 < k.
Hypothesis Hcn : 1 < cn.
Hypothesis Htn : 1 < tn.
Hypothesis Hcm : cm <> 0.
Hypothesis Htm : tm <> 0.

Lemma se_scale ev a b : se_of ev (k * k * a) cn (k * k * b) tn = k * se_of ev a cn b tn.
Proof.
  unfold se_of, pooled_var. destruct ev.
  - replace (((cn - 1) * (k * k * a) + (tn - 1) * (k * k * b)) / (cn + tn - 2) / cn +
             ((cn - 1) * (k * k * a) + (tn - 1) * (k * k * b)) / (cn + tn - 2) / tn)
      with (k * k * (((cn - 1) * a + (tn - 1) * b) / (cn + tn - 2) / cn + ((cn - 1) * a + (tn - 1) * b) / (cn + tn - 2) / tn))
      by (field; lra).
    rewrite Rmax_scale by nra. rewrite sqrt_mult_alt by nra. rewrite sqrt_square by lra. reflexivity.
  - replace (k * k * a / cn + k * k * b / tn) with (k * k * (a / cn + b / tn)) by (field; lra).
    rewrite Rmax_scale by nra. rewrite sqrt_mult_alt by nra. rewrite sqrt_square by lra. reflexivity.
Qed.

Lemma div_cancel x n d : x <> 0 -> (x * n) / (x * d) = n / d.
Proof.
  intros Hx. unfold Rdiv. rewrite Rinv_mult.
  replace (x * n * (/ x * / d)) with (n * / d * (x * / x)) by ring. rewrite Rinv_r by exact Hx. ring.
Qed.

Lemma df_scale ev a b : df_of ev (k * k * a) cn (k * k * b) tn = df_of ev a cn b tn.
Proof.
  unfold df_of. destruct ev; [reflexivity|]. unfold welch_df.
  replace ((k * k * a / cn + k * k * b / tn) * (k * k * a / cn + k * k * b / tn))
    with ((k * k * k * k) * ((a / cn + b / tn) * (a / cn + b / tn))) by (field; lra).
  replace (k * k * a / cn * (k * k * a / cn) / (cn - 1) + k * k * b / tn * (k * k * b / tn) / (tn - 1))
    with ((k * k * k * k) * (a / cn * (a / cn) / (cn - 1) + b / tn * (b / tn) / (tn - 1))) by (field; lra).
  apply div_cancel. assert (0 < k * k * k * k) by (repeat apply Rmult_lt_0_compat; exact Hk). lra.
Qed.

Lemma null_scale ev ut a b :
  null_of fam ev ut (k * k * a) cn (k * k * b) tn = null_of fam ev ut a cn b tn.
Proof. unfold null_of. destruct ut; [|reflexivity]. rewrite df_scale. reflexivity. Qed.

Hypothesis Hcv : 0 <= cv.
Hypothesis Htv : 0 <= tv.
Hypothesis Hpos : 0 < cv + tv.

Lemma analyze_stats_scale_lemma :
  let r := rom_analyze_stats fam cfg cm cv cn tm tv tn in
  rom_analyze_stats fam cfg (k * cm) (k * k * cv) cn (k * tm) (k * k * tv) tn
  = mk_mean_result (k * mr_control r) (k * mr_treatment r) (k * mr_effect_size r)
      (emul k (mr_effect_size_ci_lower r)) (emul k (mr_effect_size_ci_upper r))
      (mr_rel_effect_size r) (mr_rel_effect_size_ci_lower r) (mr_rel_effect_size_ci_upper r)
      (mr_pvalue r) (mr_statistic r).
Proof.
  cbv zeta.
  assert (Hw1 : k * k * cv / (k * cm) / (k * cm) = cv / cm / cm) by (field; split; lra).
  assert (Hw2 : k * k * tv / (k * tm) / (k * tm) = tv / tm / tm) by (field; split; lra).
  assert (Hse : 0 < se_of (cfg_equal_var cfg) cv cn tv tn) by (apply se_of_pos; assumption).
  assert (Hst : (k * tm - k * cm) / (k * se_of (cfg_equal_var cfg) cv cn tv tn)
                = (tm - cm) / se_of (cfg_equal_var cfg) cv cn tv tn) by (field; split; lra).
  assert (Hr : k * tm / (k * cm) = tm / cm) by (field; split; lra).
  destruct (cfg_alternative cfg) eqn:Ha.
  - rewrite !(analyze_stats_two_sided fam cfg) by exact Ha.
    rewrite Hw1, Hw2, !se_scale, !null_scale, Hst, Hr. cbn. f_equal; try reflexivity; try ring; f_equal; ring.
  - rewrite !(analyze_stats_greater fam cfg) by exact Ha.
    rewrite Hw1, Hw2, !se_scale, !null_scale, Hst, Hr. cbn. f_equal; try reflexivity; try ring; f_equal; ring.
  - rewrite !(analyze_stats_less fam cfg) by exact Ha.
    rewrite Hw1, Hw2, !se_scale, !null_scale, Hst, Hr. cbn. f_equal; try reflexivity; try ring; f_equal; ring.
Qed.
End Scale.

Section Swap.
Variable fam : dist_family R.
Hypothesis HF : fam_laws fam.
Variables (cfg : rom) (cm cv cn tm tv tn : R).
Hypothesis Hcn : 1 < cn.
Hypothesis Htn : 1 < tn.
Hypothesis Hcv : 0 <= cv.
Hypothesis Htv : 0 <= tv.
Hypothesis Hpos : 0 < cv + tv.
Hypothesis Hcl : 0 < cfg_confidence_level cfg < 1.

Lemma se_swap ev : se_of ev tv tn cv cn = se_of ev cv cn tv tn.
Proof. unfold se_of, pooled_var. destruct ev; f_equal; f_equal; field; lra. Qed.
Lemma null_swap ev ut : null_of fam ev ut tv tn cv cn = null_of fam ev ut cv cn tv tn.
Proof.
  unfold null_of. destruct ut; [|reflexivity]. f_equal. unfold df_of. destruct ev; [ring|].
  unfold welch_df. f_equal; ring.
Qed.

Lemma analyze_stats_swap_lemma :
  let r := rom_analyze_stats fam cfg cm cv cn tm tv tn in
  let r' := rom_analyze_stats fam (rom_with_alternative cfg (mirror (cfg_alternative cfg))) tm tv tn cm cv cn in
  mr_control r' = mr_treatment r /\ mr_treatment r' = mr_control r /\
  mr_effect_size r' = - mr_effect_size r /\ mr_statistic r' = - mr_statistic r /\
  mr_pvalue r' = mr_pvalue r /\
  mr_effect_size_ci_lower r' = eneg (mr_effect_size_ci_upper r) /\
  mr_effect_size_ci_upper r' = eneg (mr_effect_size_ci_lower r).
Proof.
  cbv zeta.
  destruct (null_of_laws fam (cfg_equal_var cfg) (cfg_use_t cfg) cv cn tv tn HF Hcn Htn Hcv Htv Hpos) as [HL HS].
  assert (Hse : 0 < se_of (cfg_equal_var cfg) cv cn tv tn) by (apply se_of_pos; assumption).
  set (c' := rom_with_alternative cfg (mirror (cfg_alternative cfg))).
  assert (Hneg : (cm - tm) / se_of (cfg_equal_var cfg) cv cn tv tn = - ((tm - cm) / se_of (cfg_equal_var cfg) cv cn tv tn))
    by (field; lra).
  destruct (cfg_alternative cfg) eqn:Ha.
  - rewrite (analyze_stats_two_sided fam cfg _ _ _ _ _ _ Ha).
    rewrite (analyze_stats_two_sided fam c') by (unfold c'; reflexivity).
    cbn [c' rom_with_alternative cfg_equal_var cfg_use_t cfg_confidence_level mr_control mr_treatment mr_effect_size
         mr_statistic mr_pvalue mr_effect_size_ci_lower mr_effect_size_ci_upper eneg].
    rewrite se_swap, null_swap, Hneg, Rabs_Ropp. repeat split; try ring; f_equal; ring.
  - rewrite (analyze_stats_greater fam cfg _ _ _ _ _ _ Ha).
    rewrite (analyze_stats_less fam c') by (unfold c'; reflexivity).
    cbn [c' rom_with_alternative cfg_equal_var cfg_use_t cfg_confidence_level mr_control mr_treatment mr_effect_size
         mr_statistic mr_pvalue mr_effect_size_ci_lower mr_effect_size_ci_upper eneg].
    rewrite se_swap, null_swap, Hneg. rewrite (HS _), (L_sf _ HL), (isf_neg_ppf _ HL HS _ Hcl).
    repeat split; try ring; f_equal; ring.
  - rewrite (analyze_stats_less fam cfg _ _ _ _ _ _ Ha).
    rewrite (analyze_stats_greater fam c') by (unfold c'; reflexivity).
    cbn [c' rom_with_alternative cfg_equal_var cfg_use_t cfg_confidence_level mr_control mr_treatment mr_effect_size
         mr_statistic mr_pvalue mr_effect_size_ci_lower mr_effect_size_ci_upper eneg].
    rewrite se_swap, null_swap, Hneg. rewrite (L_sf _ HL), (HS _), (isf_neg_ppf _ HL HS _ Hcl).
    repeat split; try ring; f_equal; ring.
Qed.
End Swap.

(* ---------- row level ---------- *)
Definition scaled_result (k : R) (r : mean_result) : mean_result :=
  mk_mean_result (k * mr_control r) (k * mr_treatment r) (k * mr_effect_size r)
    (emul k (mr_effect_size_ci_lower r)) (emul k (mr_effect_size_ci_upper r))
    (mr_rel_effect_size r) (mr_rel_effect_size_ci_lower r) (mr_rel_effect_size_ci_upper r)
    (mr_pvalue r) (mr_statistic r).

Section RowScale.
Variable fam : dist_family R.
Variables cfg cfg' : rom.
Variables lc lt : list row.
Variable k : R.
Hypothesis Hk : 0 < k.
Hypothesis Hnc : cfg_numer_covariate cfg' = cfg_numer_covariate cfg.
Hypothesis Hdc : cfg_denom_covariate cfg' = cfg_denom_covariate cfg.
Hypothesis Halt : cfg_alternative cfg' = cfg_alternative cfg.
Hypothesis Hcl : cfg_confidence_level cfg' = cfg_confidence_level cfg.
Hypothesis Hev : cfg_equal_var cfg' = cfg_equal_var cfg.
Hypothesis Hut : cfg_use_t cfg' = cfg_use_t cfg.
Hypothesis Hc : dens_ok cfg lc.   Hypothesis Hc' : dens_ok cfg' lc.
Hypothesis Ht : dens_ok cfg lt.   Hypothesis Ht' : dens_ok cfg' lt.
Hypothesis Hp : dens_ok cfg (lc ++ lt).   Hypothesis Hp' : dens_ok cfg' (lc ++ lt).
(* the linearised metric is multiplied by k in every sample *)
Hypothesis HYc : forall r, In r lc -> linY cfg' lc r = k * linY cfg lc r.
Hypothesis HYt : forall r, In r lt -> linY cfg' lt r = k * linY cfg lt r.
Hypothesis HYp : forall r, In r (lc ++ lt) -> linY cfg' (lc ++ lt) r = k * linY cfg (lc ++ lt) r.
Local Notation p := (lc ++ lt).
Local Notation A l := (adj cfg p l).
Hypothesis Hmc : smean (A lc) lc <> 0.
Hypothesis Hmt : smean (A lt) lt <> 0.
Hypothesis Hvar : 0 < svar (A lc) lc + svar (A lt) lt.

Lemma linX_same l r : linX cfg' l r = linX cfg l r.
Proof. unfold linX. rewrite Hnc, Hdc. reflexivity. Qed.
Lemma xbar_same : xbar_of cfg' p = xbar_of cfg p.
Proof. unfold xbar_of. rewrite Hnc, Hdc. reflexivity. Qed.

Lemma theta_scale : theta_of cfg' p = k * theta_of cfg p.
Proof.
  pose proof (cnt_ge2 p (d_len _ _ Hp)) as Hn.
  unfold theta_of.
  assert (HV : svar (linX cfg' p) p = svar (linX cfg p) p).
  { unfold svar. apply scov_ext; intros r; apply linX_same. }
  assert (HC : scov (linY cfg' p) (linX cfg' p) p = k * scov (linY cfg p) (linX cfg p) p).
  { rewrite (scov_ext_in _ (fun r => 0 + k * linY cfg p r + 0 * linY cfg p r)
                         _ (fun r => 0 + 1 * linX cfg p r + 0 * linX cfg p r) p)
      by (intros r Hr; rewrite ?(HYp r Hr), ?linX_same; ring).
    rewrite scov_affine by lra. ring. }
  rewrite HV, HC. destruct (Req_EM_T (svar (linX cfg p) p) 0); [ring | unfold Rdiv; ring].
Qed.

Lemma adj_scale_c r : In r lc -> adj cfg' p lc r = k * adj cfg p lc r.
Proof. intros Hr. unfold adj. rewrite theta_scale, xbar_same, linX_same, (HYc r Hr). ring. Qed.
Lemma adj_scale_t r : In r lt -> adj cfg' p lt r = k * adj cfg p lt r.
Proof. intros Hr. unfold adj. rewrite theta_scale, xbar_same, linX_same, (HYt r Hr). ring. Qed.

Lemma stats_scale l (f f' : row -> R) : 2 <= cnt l -> (forall r, In r l -> f' r = k * f r) ->
  smean f' l = k * smean f l /\ svar f' l = k * k * svar f l.
Proof.
  intros Hn Hf. split.
  - rewrite (smean_ext_in f' (fun r => 0 + k * f r + 0 * f r) l) by (intros r Hr; rewrite (Hf r Hr); ring).
    rewrite smean_affine by lra. ring.
  - unfold svar. rewrite (scov_ext_in f' (fun r => 0 + k * f r + 0 * f r) f' (fun r => 0 + k * f r + 0 * f r) l)
      by (intros r Hr; rewrite (Hf r Hr); ring).
    rewrite scov_affine by lra. ring.
Qed.

Lemma scale_rows_lemma :
  rom_analyze_aggregates fam cfg' (aggr_of lc) (aggr_of lt)
  = scaled_result k (rom_analyze_aggregates fam cfg (aggr_of lc) (aggr_of lt)).
Proof.
  pose proof (cnt_ge2 lc (d_len _ _ Hc)) as Hn1. pose proof (cnt_ge2 lt (d_len _ _ Ht)) as Hn2.
  rewrite (cuped_regression_lemma fam cfg' lc lt Hc' Ht' Hp'), (cuped_regression_lemma fam cfg lc lt Hc Ht Hp).
  destruct (stats_scale lc (A lc) (adj cfg' p lc) Hn1 adj_scale_c) as [E1 E2].
  destruct (stats_scale lt (A lt) (adj cfg' p lt) Hn2 adj_scale_t) as [E3 E4].
  rewrite E1, E2, E3, E4.
  rewrite (analyze_stats_cfg fam cfg' cfg) by assumption.
  unfold scaled_result.
  apply (analyze_stats_scale_lemma fam cfg); try assumption; try lra; apply svar_nonneg; lra.
Qed.
End RowScale.

(* linearisation under column scaling *)
Lemma lin_scale_numer0 f f' g k l : (forall r, In r l -> f' r = k * f r) ->
  forall r, In r l -> lin f' g l r = k * lin f g l r.
Proof. intros Hf r Hr. rewrite (lin_scale_numer f f' g k l Hf r Hr). ring. Qed.
Lemma lin_scale_both f f' g g' k l : k <> 0 -> smean g l <> 0 ->
  (forall r, In r l -> f' r = k * f r) -> (forall r, In r l -> g' r = k * g r) ->
  forall r, In r l -> lin f' g' l r = 1 * lin f g l r.
Proof.
  intros Hk Hg Hf Hg' r Hr. unfold lin.
  assert (Hm1 : smean f' l = k * smean f l).
  { unfold smean. rewrite (rsum_ext_in f' (fun r => k * f r) l Hf), rsum_scal. unfold Rdiv. ring. }
  assert (Hm2 : smean g' l = k * smean g l).
  { unfold smean. rewrite (rsum_ext_in g' (fun r => k * g r) l Hg'), rsum_scal. unfold Rdiv. ring. }
  rewrite Hm1, Hm2, (Hf r Hr), (Hg' r Hr). field. split; assumption.
Qed.

(* ---------- swapping the roles of the variants ---------- *)
Section RowSwap.
Variable fam : dist_family R.
Hypothesis HF : fam_laws fam.
Variable cfg : rom.
Variables lc lt : list row.
Hypothesis Hc : dens_ok cfg lc.
Hypothesis Ht : dens_ok cfg lt.
Hypothesis Hp : dens_ok cfg (lc ++ lt).
Hypothesis Hcl : 0 < cfg_confidence_level cfg < 1.
Hypothesis Hvar : 0 < svar (adj cfg (lc ++ lt) lc) lc + svar (adj cfg (lc ++ lt) lt) lt.

Lemma perm_pool : Permutation (lt ++ lc) (lc ++ lt).
Proof. apply Permutation_app_comm. Qed.
Lemma lin_perm f g l l' r : Permutation l l' -> lin f g l r = lin f g l' r.
Proof. intros H. unfold lin. rewrite (smean_perm f _ _ H), (smean_perm g _ _ H). reflexivity. Qed.
Lemma theta_perm : theta_of cfg (lt ++ lc) = theta_of cfg (lc ++ lt).
Proof.
  unfold theta_of, svar.
  assert (EX : forall r, linX cfg (lt ++ lc) r = linX cfg (lc ++ lt) r) by (intros r; apply lin_perm, perm_pool).
  assert (EY : forall r, linY cfg (lt ++ lc) r = linY cfg (lc ++ lt) r) by (intros r; apply lin_perm, perm_pool).
  rewrite (scov_ext _ _ _ _ _ EX EX), (scov_ext _ _ _ _ _ EY EX).
  rewrite (scov_perm _ _ _ _ perm_pool), (scov_perm (linY cfg (lc ++ lt)) _ _ _ perm_pool). reflexivity.
Qed.
Lemma adj_perm l r : adj cfg (lt ++ lc) l r = adj cfg (lc ++ lt) l r.
Proof.
  unfold adj, xbar_of. rewrite theta_perm, !(smean_perm _ _ _ perm_pool). reflexivity.
Qed.
Lemma dens_ok_swapped : dens_ok cfg (lt ++ lc).
Proof.
  destruct Hp as [Hl Hy Hx]. constructor.
  - rewrite (Permutation_length perm_pool). exact Hl.
  - rewrite (smean_perm _ _ _ perm_pool). exact Hy.
  - rewrite (smean_perm _ _ _ perm_pool). exact Hx.
Qed.

Lemma swap_rows_lemma :
  let r := rom_analyze_aggregates fam cfg (aggr_of lc) (aggr_of lt) in
  let r' := rom_analyze_aggregates fam (rom_with_alternative cfg (mirror (cfg_alternative cfg))) (aggr_of lt) (aggr_of lc) in
  mr_control r' = mr_treatment r /\ mr_treatment r' = mr_control r /\
  mr_effect_size r' = - mr_effect_size r /\ mr_statistic r' = - mr_statistic r /\
  mr_pvalue r' = mr_pvalue r /\
  mr_effect_size_ci_lower r' = eneg (mr_effect_size_ci_upper r) /\
  mr_effect_size_ci_upper r' = eneg (mr_effect_size_ci_lower r).
Proof.
  cbv zeta.
  pose proof (cnt_ge2 lc (d_len _ _ Hc)) as Hn1. pose proof (cnt_ge2 lt (d_len _ _ Ht)) as Hn2.
  set (c' := rom_with_alternative cfg (mirror (cfg_alternative cfg))).
  assert (Hd : forall l, dens_ok cfg l -> dens_ok c' l) by (intros l [a b c]; constructor; assumption).
  rewrite (cuped_regression_lemma fam c' lt lc (Hd _ Ht) (Hd _ Hc) (Hd _ dens_ok_swapped)).
  rewrite (cuped_regression_lemma fam cfg lc lt Hc Ht Hp).
  assert (EA : forall l r, adj c' (lt ++ lc) l r = adj cfg (lc ++ lt) l r) by (intros l r; apply (adj_perm l r)).
  unfold svar.
  rewrite (smean_ext _ _ lt (EA lt)), (smean_ext _ _ lc (EA lc)),
          (scov_ext _ _ _ _ lt (EA lt) (EA lt)), (scov_ext _ _ _ _ lc (EA lc) (EA lc)).
  apply (analyze_stats_swap_lemma fam HF cfg); try assumption; try lra; apply svar_nonneg; lra.
Qed.
End RowSwap.
