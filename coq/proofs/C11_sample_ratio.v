(* C11 - SampleRatio. About genR/Proportion.v (regenerated from metrics/proportion.py). *)
From Coq Require Import Reals Bool Lra.
From TT Require Import lib.RTac lib.PreludeR lib.Distr genR.Proportion.
Local Open Scope R_scope.

Ltac nR := cbv [nlit nraise neqb nleb nltb nmin nmax nabs nsqrt] in *.

Section SR.
Variable fam : dist_family R.
Hypothesis HF : fam_laws fam.
Variable binom : R -> R -> R -> R.

(* reported counts are the true counts; the p-value comes from the selected test *)
Lemma sr_counts cfg cc ct r :
  sr_control (sr_analyze fam binom cfg cc ct r) = cc /\ sr_treatment (sr_analyze fam binom cfg cc ct r) = ct.
Proof. unfold sr_analyze. cbn. split; ring. Qed.

Lemma sr_method_selection cfg n :
  sr_use_binom cfg n = match sr_method cfg with MBinom => true | MAuto => if Rlt_dec n 1000 then true else false | MNorm => false end.
Proof. unfold sr_use_binom. destruct (sr_method cfg); cbn; nR; reflexivity. Qed.

Lemma sr_pvalue_source cfg cc ct r :
  sr_pvalue (sr_analyze fam binom cfg cc ct r)
  = if sr_use_binom cfg (ct + cc) then binom (ct + cc) ct (sr_share r) else sr_norm_pvalue fam cfg ct (ct + cc) (sr_share r).
Proof. reflexivity. Qed.

(* expected share: r/(1+r); scalar and mapping forms agree because only the quotient enters *)
Lemma sr_share_mapping rt rc : rc <> 0 -> rc + rt <> 0 -> sr_share (rt / rc) = rt / (rc + rt).
Proof. intros H1 H2. unfold sr_share. nR. field; repeat split; try assumption; lra. Qed.
Lemma sr_share_swap r : r <> 0 -> 1 + r <> 0 -> sr_share (1 / r) = 1 - sr_share r.
Proof. intros H1 H2. unfold sr_share. nR. field; repeat split; try assumption; lra. Qed.

(* continuity correction: half a unit towards zero, never across *)
Definition corrected (correction : bool) (d : R) : R :=
  if correction then (if Rlt_dec d 0 then Rmin (d + 1 / 2) 0 else Rmax (d - 1 / 2) 0) else d.
Lemma corrected_spec c d : Rabs (corrected c d) = if c then Rmax (Rabs d - 1 / 2) 0 else Rabs d.
Proof.
  unfold corrected. destruct c; [|reflexivity].
  destruct (Rlt_dec d 0) as [Hn|Hn].
  - rewrite (Rabs_left d Hn). unfold Rmin, Rmax.
    destruct (Rle_dec (d + 1 / 2) 0), (Rle_dec (- d - 1 / 2) 0); try lra.
    + destruct (Req_dec (d + 1 / 2) 0) as [E|E]; [rewrite E, Rabs_R0; lra | rewrite Rabs_left by lra; lra].
    + rewrite Rabs_left1 by lra. lra.
    + rewrite Rabs_R0. lra.
  - rewrite (Rabs_right d) by lra. unfold Rmax.
    destruct (Rle_dec (d - 1 / 2) 0); [rewrite Rabs_R0; reflexivity | rewrite Rabs_right by lra; reflexivity].
Qed.
Lemma corrected_neg c d : corrected c (- d) = - corrected c d.
Proof.
  unfold corrected. destruct c; [|reflexivity].
  destruct (Rlt_dec (- d) 0), (Rlt_dec d 0); try lra; unfold Rmin, Rmax.
  - destruct (Rle_dec (- d + 1 / 2) 0), (Rle_dec (d - 1 / 2) 0); lra.
  - destruct (Rle_dec (- d - 1 / 2) 0), (Rle_dec (d + 1 / 2) 0); lra.
  - assert (d = 0) by lra. subst. rewrite Ropp_0.
    destruct (Rle_dec (0 - 1 / 2) 0); lra.
Qed.

Lemma sr_norm_closed_form cfg k n p :
  sr_norm_pvalue fam cfg k n p
  = 2 * sf (norm_ fam 0) (Rabs (corrected (sr_correction cfg) (k - n * p) / sqrt (n * p * (1 - p)))).
Proof.
  unfold sr_norm_pvalue, corrected. nR. cbv zeta.
  canon_to (k - n * p). canon_to (n * p * (1 - p)).
  destruct (sr_correction cfg); rewrite ?andb_true_r, ?andb_false_r; cbn [andb negb].
  - destruct (Req_EM_T (k - n * p) 0) as [E|E]; cbn [negb].
    + rewrite E. destruct (Rlt_dec 0 0); [lra|]. unfold Rmax. destruct (Rle_dec (0 - 1 / 2) 0); [reflexivity | lra].
    + destruct (Rlt_dec (k - n * p) 0); reflexivity.
  - reflexivity.
Qed.

(* swapping the two variants (k <-> n-k, p <-> 1-p) leaves the normal-approximation p-value unchanged *)
Lemma sr_norm_swap cfg k n p :
  sr_norm_pvalue fam cfg (n - k) n (1 - p) = sr_norm_pvalue fam cfg k n p.
Proof.
  rewrite !sr_norm_closed_form.
  replace (n - k - n * (1 - p)) with (- (k - n * p)) by ring.
  replace (n * (1 - p) * (1 - (1 - p))) with (n * p * (1 - p)) by ring.
  rewrite corrected_neg.
  replace (- corrected (sr_correction cfg) (k - n * p) / sqrt (n * p * (1 - p)))
    with (- (corrected (sr_correction cfg) (k - n * p) / sqrt (n * p * (1 - p)))) by (unfold Rdiv; ring).
  rewrite Rabs_Ropp. reflexivity.
Qed.

Lemma sr_norm_range cfg k n p : 0 < sr_norm_pvalue fam cfg k n p <= 1.
Proof.
  rewrite sr_norm_closed_form.
  pose proof (F_norm fam HF 0) as HL. pose proof (F_norm_sym fam HF) as HS.
  set (z := Rabs _).
  pose proof (sf_abs_le_half _ HL HS (corrected (sr_correction cfg) (k - n * p) / sqrt (n * p * (1 - p)))) as H1.
  fold z in H1. rewrite (L_sf _ HL) in *. pose proof (L_range _ HL z). lra.
Qed.
End SR.
