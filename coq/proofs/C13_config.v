(* C13 - the global configuration is scoped, all-or-nothing, captured at construction. About model/Config.v. *)
From Coq Require Import ZArith String List Bool.
From TT Require Import lib.PyVal genP.Utils model.Config.
Import ListNotations.
Local Open Scope bool_scope.

Section Proofs.
Variable pool : list pyval.
Notation set_config := (set_config pool).
Notation exec_op := (exec_op pool).
Notation exec := (exec pool).
Notation resolve := (resolve pool).
Notation cfg_ok := (cfg_ok pool).
Notation validate := (validate pool).

(* the `with` statement in terms of exec *)
Lemma exec_op_with kvs body rb w :
  exec_op (With kvs body rb) w =
  match set_config kvs (w_cfg w) with
  | (s1, Err e) => (mk_world s1 (w_metrics w), Raised e)
  | (s1, Ok _) =>
      let '(w2, out) := exec body (mk_world s1 (w_metrics w)) in
      (mk_world (w_cfg w) (w_metrics w2),
       match out with Normal => if rb then Raised RuntimeError else Normal | r => r end)
  end.
Proof.
  cbn [Config.exec_op]. destruct (set_config kvs (w_cfg w)) as [s1 [u|e]]; [|reflexivity].
  match goal with |- (let '(_, _) := ?R _ _ in _) = _ => set (run := R) end.
  assert (E : forall l w0, run l w0 = exec l w0).
  { induction l as [|o t IH]; intros w0; [reflexivity|]. cbn [Config.exec]. unfold run at 1. fold run.
    destruct (exec_op o w0) as [w' [|e]]; [apply IH | reflexivity]. }
  rewrite E. reflexivity.
Qed.

(* 1. a set_config call that raises changes nothing *)
Lemma set_config_atomic_lemma kvs s e : snd (set_config kvs s) = Err e -> fst (set_config kvs s) = s.
Proof. unfold Config.set_config. destruct (validate (given kvs)); cbn; [discriminate | reflexivity]. Qed.

(* 2. leaving a context - normally, by an exception in the body, or because entering failed - restores the state *)
Lemma context_restores_lemma kvs body rb w : w_cfg (fst (exec_op (With kvs body rb) w)) = w_cfg w.
Proof.
  rewrite exec_op_with. destruct (set_config kvs (w_cfg w)) as [s1 [u|e]] eqn:E.
  - destruct (exec body _) as [w2 out]. reflexivity.
  - cbn. change s1 with (fst (s1, @Err unit e)). rewrite <- E. apply (set_config_atomic_lemma kvs (w_cfg w) e).
    rewrite E. reflexivity.
Qed.

(* 3. get_config() hands out a copy *)
Lemma get_config_copy_lemma k v w : exec_op (GetConfigMutate k v) w = (w, Normal).
Proof. reflexivity. Qed.

(* 4. construction: explicit arguments win, otherwise the value in force at construction *)
Lemma resolve_explicit k v t s r : resolve ((k, Some v) :: t) s = Ok r -> exists r', r = (k, Some v) :: r'.
Proof.
  cbn. destruct (auto_check _ _); [|discriminate]. destruct (resolve t s); cbn; [|discriminate].
  intros H. injection H as <-. eexists; reflexivity.
Qed.
Lemma resolve_default k t s r : resolve ((k, None) :: t) s = Ok r -> exists r', r = (k, lookup s k) :: r'.
Proof. cbn. destruct (resolve t s); cbn; [|discriminate]. intros H. injection H as <-. eexists; reflexivity. Qed.

(* nested induction principle for op *)
Section OpInd.
Variable P : op -> Prop.
Hypothesis Hset : forall kvs, P (SetConfig kvs).
Hypothesis Hget : forall k v, P (GetConfigMutate k v).
Hypothesis Hcon : forall ps, P (Construct ps).
Hypothesis Hwith : forall kvs body rb, Forall P body -> P (With kvs body rb).
Fixpoint op_nested_ind (o : op) : P o :=
  match o with
  | SetConfig kvs => Hset kvs
  | GetConfigMutate k v => Hget k v
  | Construct ps => Hcon ps
  | With kvs body rb =>
      Hwith kvs body rb ((fix go (l : list op) : Forall P l :=
                            match l with [] => Forall_nil P | x :: t => Forall_cons x (op_nested_ind x) (go t) end) body)
  end.
End OpInd.

(* later operations never alter the record of an already constructed metric *)
Definition keeps_metrics (o : op) : Prop :=
  forall w, exists ext, w_metrics (fst (exec_op o w)) = w_metrics w ++ ext.
Lemma exec_keeps_metrics l : Forall keeps_metrics l ->
  forall w, exists ext, w_metrics (fst (exec l w)) = w_metrics w ++ ext.
Proof.
  induction 1 as [|o t Ho _ IH]; intros w; cbn [Config.exec].
  - exists []. rewrite app_nil_r. reflexivity.
  - destruct (Ho w) as [e1 He1]. destruct (exec_op o w) as [w' [|e]] eqn:E; cbn [fst] in *.
    + destruct (IH w') as [e2 He2]. exists (e1 ++ e2). rewrite He2, He1, app_assoc. reflexivity.
    + exists e1. exact He1.
Qed.
Lemma op_keeps_metrics o : keeps_metrics o.
Proof.
  induction o using op_nested_ind; intros w.
  - cbn. destruct (set_config kvs (w_cfg w)) as [s' [u|e]]; exists []; cbn; rewrite app_nil_r; reflexivity.
  - exists []. cbn. rewrite app_nil_r. reflexivity.
  - cbn. destruct (resolve ps (w_cfg w)); [eexists; reflexivity | exists []; cbn; rewrite app_nil_r; reflexivity].
  - rewrite exec_op_with. destruct (set_config kvs (w_cfg w)) as [s1 [u|e]].
    + destruct (exec_keeps_metrics body H (mk_world s1 (w_metrics w))) as [ext Hext].
      destruct (exec body _) as [w2 out]. cbn in *. exists ext. exact Hext.
    + exists []. cbn. rewrite app_nil_r. reflexivity.
Qed.
Lemma construction_captured_lemma l w : exists ext, w_metrics (fst (exec l w)) = w_metrics w ++ ext.
Proof. apply exec_keeps_metrics. apply Forall_forall. intros o _. apply op_keeps_metrics. Qed.

(* 5. no reachable configuration holds a standard option that fails its own check *)
Lemma lookup_set1 s k v k' : lookup (set1 s k v) k' = if String.eqb k' k then Some v else lookup s k'.
Proof.
  induction s as [|[k0 v0] t IH]; cbn.
  - destruct (String.eqb k' k); reflexivity.
  - destruct (String.eqb k k0) eqn:E; cbn.
    + apply String.eqb_eq in E. subst k0. destruct (String.eqb k' k); reflexivity.
    + destruct (String.eqb k' k0) eqn:E2.
      * apply String.eqb_eq in E2. subst k0. rewrite String.eqb_sym, E. reflexivity.
      * exact IH.
Qed.
Lemma validate_ok kvs : validate kvs = Ok tt -> forall k v, In (k, v) kvs -> is_ok (auto_check (val pool v) k) = true.
Proof.
  induction kvs as [|[k0 v0] t IH]; intros Hv k v Hin; [destruct Hin|].
  cbn in Hv. destruct (auto_check (val pool v0) k0) eqn:E; [|discriminate].
  destruct Hin as [Heq|Hin]; [injection Heq as <- <-; rewrite E; reflexivity | apply IH; assumption].
Qed.
Lemma update_ok kvs : (forall k v, In (k, v) kvs -> is_ok (auto_check (val pool v) k) = true) ->
  forall s, cfg_ok s -> cfg_ok (update s kvs).
Proof.
  induction kvs as [|[k0 v0] t IH]; intros Hk s Hs; [exact Hs|].
  cbn [update fold_left fst snd]. apply IH; [intros k v Hin; apply Hk; right; exact Hin|].
  intros k v Hl. rewrite lookup_set1 in Hl. destruct (String.eqb k k0) eqn:E.
  - apply String.eqb_eq in E. subst k0. injection Hl as <-. apply Hk. left. reflexivity.
  - apply Hs. exact Hl.
Qed.
Lemma set_config_ok kvs s : cfg_ok s -> cfg_ok (fst (set_config kvs s)).
Proof.
  intros Hs. unfold Config.set_config. destruct (validate (given kvs)) as [[]|e] eqn:E; cbn; [|exact Hs].
  apply update_ok; [apply validate_ok; exact E | exact Hs].
Qed.
Lemma exec_op_ok o w : cfg_ok (w_cfg w) -> cfg_ok (w_cfg (fst (exec_op o w))).
Proof.
  intros Hw. destruct o.
  - cbn. pose proof (set_config_ok kvs (w_cfg w) Hw) as H.
    destruct (set_config kvs (w_cfg w)) as [s' [u|e]]; exact H.
  - exact Hw.
  - cbn. destruct (resolve params (w_cfg w)); exact Hw.
  - rewrite context_restores_lemma. exact Hw.
Qed.
Lemma exec_ok l : forall w, cfg_ok (w_cfg w) -> cfg_ok (w_cfg (fst (exec l w))).
Proof.
  induction l as [|o t IH]; intros w Hw; [exact Hw|]. cbn [Config.exec].
  pose proof (exec_op_ok o w Hw) as H1. destruct (exec_op o w) as [w' [|e]]; cbn [fst] in *; [apply IH; exact H1 | exact H1].
Qed.
End Proofs.
