(* C07 - internal coherence of every Mean / RatioOfMeans result. Lemmas about genR/Mean.rom_analyze_stats. *)
From Coq Require Import Reals String List Lra.
From TT Require Import lib.PreludeR lib.Stats lib.Distr lib.ExtR genR.Aggr genR.Mean proofs.Mean_core.
Local Open Scope R_scope.

Section Coherence.
Variable fam : dist_family R.
Hypothesis HF : fam_laws fam.
Variables (cm cv cn tm tv tn : R).
Hypothesis Hcn : 1 < cn.
Hypothesis Htn : 1 < tn.
Hypothesis Hcv : 0 <= cv.
Hypothesis Htv : 0 <= tv.
Hypothesis Hpos : 0 < cv + tv.

Definition stats_of (cfg : rom) : mean_result := rom_analyze_stats fam cfg cm cv cn tm tv tn.

Let S (cfg : rom) := se_of (cfg_equal_var cfg) cv cn tv tn.
Let D (cfg : rom) := null_of fam (cfg_equal_var cfg) (cfg_use_t cfg) cv cn tv tn.

Lemma S_pos cfg : 0 < S cfg.
Proof. apply se_of_pos; assumption. Qed.
Lemma D_laws cfg : dist_laws (D cfg).
Proof. apply (null_of_laws fam _ _ cv cn tv tn HF); assumption. Qed.
Lemma D_sym cfg : symmetric (D cfg).
Proof. apply (null_of_laws fam _ _ cv cn tv tn HF); assumption. Qed.

Lemma alt_cases cfg : cfg_alternative cfg = Greater \/ cfg_alternative cfg = Less \/ cfg_alternative cfg = TwoSided.
Proof. destruct (cfg_alternative cfg); auto. Qed.

Ltac by_alt cfg :=
  let Ha := fresh "Ha" in
  destruct (alt_cases cfg) as [Ha|[Ha|Ha]]; unfold stats_of;
  [rewrite (analyze_stats_greater fam cfg cm cv cn tm tv tn Ha)
  |rewrite (analyze_stats_less fam cfg cm cv cn tm tv tn Ha)
  |rewrite (analyze_stats_two_sided fam cfg cm cv cn tm tv tn Ha)]; cbn [mr_control mr_treatment mr_effect_size
    mr_effect_size_ci_lower mr_effect_size_ci_upper mr_rel_effect_size mr_rel_effect_size_ci_lower
    mr_rel_effect_size_ci_upper mr_pvalue mr_statistic].

(* 1. field identities *)
Lemma fields_lemma cfg :
  mr_control (stats_of cfg) = cm /\ mr_treatment (stats_of cfg) = tm /\
  mr_effect_size (stats_of cfg) = mr_treatment (stats_of cfg) - mr_control (stats_of cfg) /\
  mr_rel_effect_size (stats_of cfg) = mr_treatment (stats_of cfg) / mr_control (stats_of cfg) - 1.
Proof. by_alt cfg; repeat split; reflexivity. Qed.

(* 2. p-value in [0,1] *)
Lemma pvalue_range_lemma cfg : 0 <= mr_pvalue (stats_of cfg) <= 1.
Proof.
  pose proof (D_laws cfg) as HL. pose proof (D_sym cfg) as HS.
  by_alt cfg; fold (S cfg) (D cfg).
  - rewrite (L_sf _ HL). pose proof (L_range _ HL ((tm - cm) / S cfg)). lra.
  - pose proof (L_range _ HL ((tm - cm) / S cfg)). lra.
  - pose proof (sf_abs_le_half _ HL HS ((tm - cm) / S cfg)) as H1.
    rewrite (L_sf _ HL) in *. pose proof (L_range _ HL (Rabs ((tm - cm) / S cfg))). lra.
Qed.

(* 3. the documented side is unbounded *)
Lemma unbounded_lemma cfg :
  (cfg_alternative cfg = Greater ->
     mr_effect_size_ci_upper (stats_of cfg) = PInf /\ mr_rel_effect_size_ci_upper (stats_of cfg) = PInf) /\
  (cfg_alternative cfg = Less ->
     mr_effect_size_ci_lower (stats_of cfg) = NInf /\ mr_rel_effect_size_ci_lower (stats_of cfg) = NInf).
Proof. by_alt cfg; split; intros Hx; try (rewrite Hx in Ha; discriminate); split; reflexivity. Qed.

(* 4. the absolute interval contains the point estimate *)
Lemma contains_lemma cfg : 0 < cfg_confidence_level cfg < 1 ->
  (cfg_alternative cfg = TwoSided \/ 1 / 2 <= cfg_confidence_level cfg) ->
  ext_le (mr_effect_size_ci_lower (stats_of cfg)) (Fin (mr_effect_size (stats_of cfg))) /\
  ext_le (Fin (mr_effect_size (stats_of cfg))) (mr_effect_size_ci_upper (stats_of cfg)).
Proof.
  intros Hcl Hside. pose proof (D_laws cfg) as HL. pose proof (D_sym cfg) as HS. pose proof (S_pos cfg) as HSp.
  by_alt cfg; fold (S cfg) (D cfg); cbn [ext_le].
  - destruct Hside as [Hx|Hh]; [rewrite Hx in Ha; discriminate|].
    split; [|exact I]. rewrite (isf_neg_ppf _ HL HS _ Hcl).
    pose proof (ppf_nonneg _ HL HS (cfg_confidence_level cfg) (conj Hh (proj2 Hcl))) as Hp.
    assert (0 <= S cfg * ppf (D cfg) (cfg_confidence_level cfg)) by (apply Rmult_le_pos; lra). lra.
  - destruct Hside as [Hx|Hh]; [rewrite Hx in Ha; discriminate|].
    split; [exact I|].
    pose proof (ppf_nonneg _ HL HS (cfg_confidence_level cfg) (conj Hh (proj2 Hcl))) as Hp.
    assert (0 <= S cfg * ppf (D cfg) (cfg_confidence_level cfg)) by (apply Rmult_le_pos; lra). lra.
  - assert (Hq : 1 / 2 <= (1 + cfg_confidence_level cfg) / 2 < 1) by lra.
    pose proof (ppf_nonneg _ HL HS _ Hq) as Hp.
    assert (0 <= S cfg * ppf (D cfg) ((1 + cfg_confidence_level cfg) / 2)) by (apply Rmult_le_pos; lra).
    split; lra.
Qed.

(* 5. duality between p-value and interval *)
Lemma div_lt_iff a b c : 0 < b -> (c < a / b <-> b * c < a).
Proof.
  intros Hb. split; intros H.
  - apply Rmult_lt_reg_r with (/ b); [apply Rinv_0_lt_compat; exact Hb|].
    replace (b * c * / b) with c by (field; lra). exact H.
  - apply Rmult_lt_reg_r with b; [exact Hb|].
    replace (a / b * b) with a by (field; lra). lra.
Qed.
Lemma div_gt_iff a b c : 0 < b -> (a / b < c <-> a < b * c).
Proof.
  intros Hb. split; intros H.
  - apply Rmult_lt_reg_r with (/ b); [apply Rinv_0_lt_compat; exact Hb|].
    replace (b * c * / b) with c by (field; lra). exact H.
  - apply Rmult_lt_reg_r with b; [exact Hb|].
    replace (a / b * b) with a by (field; lra). lra.
Qed.

Lemma duality_lemma cfg : 0 < cfg_confidence_level cfg < 1 ->
  (mr_pvalue (stats_of cfg) < 1 - cfg_confidence_level cfg
   <-> excludes_zero (mr_effect_size_ci_lower (stats_of cfg)) (mr_effect_size_ci_upper (stats_of cfg))).
Proof.
  intros Hcl. pose proof (D_laws cfg) as HL. pose proof (D_sym cfg) as HS. pose proof (S_pos cfg) as HSp.
  set (cl := cfg_confidence_level cfg) in *.
  by_alt cfg; fold (S cfg) (D cfg) cl; unfold excludes_zero; cbn [ext_lt].
  - rewrite (isf_neg_ppf _ HL HS _ Hcl), (L_sf _ HL).
    pose proof (ppf_lt _ HL cl ((tm - cm) / S cfg) Hcl) as H1.
    pose proof (div_lt_iff (tm - cm) (S cfg) (ppf (D cfg) cl) HSp) as H2.
    split.
    + intros H. left. assert (cl < cdf (D cfg) ((tm - cm) / S cfg)) by lra. apply H1, H2 in H0. lra.
    + intros [H|[]]. assert (S cfg * ppf (D cfg) cl < tm - cm) by lra. apply H2, H1 in H0. lra.
  - pose proof (ppf_gt _ HL cl ((tm - cm) / S cfg) (conj (proj1 (conj (proj1 Hcl) (proj2 Hcl))) (proj2 Hcl))) as H1.
    assert (Hcl' : 0 < 1 - cl < 1) by lra.
    pose proof (ppf_gt _ HL (1 - cl) ((tm - cm) / S cfg) Hcl') as H3.
    rewrite (ppf_sym _ HL HS cl Hcl) in H3.
    pose proof (div_gt_iff (tm - cm) (S cfg) (- ppf (D cfg) cl) HSp) as H2.
    split.
    + intros H. right. apply H3, H2 in H. lra.
    + intros [[]|H]. apply H3, H2. lra.
  - set (q := (1 + cl) / 2). assert (Hq : 0 < q < 1) by (unfold q; lra).
    assert (Hq2 : 1 / 2 <= q < 1) by (unfold q; lra).
    pose proof (ppf_nonneg _ HL HS q Hq2) as Hp.
    set (t := (tm - cm) / S cfg). set (z := ppf (D cfg) q) in *.
    rewrite (L_sf _ HL).
    pose proof (ppf_lt _ HL q (Rabs t) Hq) as H1. fold z in H1.
    assert (Hiff : 2 * (1 - cdf (D cfg) (Rabs t)) < 1 - cl <-> z < Rabs t).
    { split; intros H; [apply H1; unfold q; lra | apply H1 in H; unfold q in H; lra]. }
    rewrite Hiff.
    pose proof (div_lt_iff (tm - cm) (S cfg) z HSp) as H2. fold t in H2.
    pose proof (div_gt_iff (tm - cm) (S cfg) (- z) HSp) as H3. fold t in H3.
    split.
    + intros H. unfold Rabs in H. destruct (Rcase_abs t) as [Hn|Hn].
      * right. assert (t < - z) by lra. apply H3 in H0. lra.
      * left. apply H2 in H. lra.
    + intros [H|H].
      * assert (S cfg * z < tm - cm) by lra. apply H2 in H0.
        unfold Rabs. destruct (Rcase_abs t); lra.
      * assert (tm - cm < S cfg * - z) by lra. apply H3 in H0.
        unfold Rabs. destruct (Rcase_abs t); lra.
Qed.

(* 6. one-sided p-values are complementary; two-sided is twice the smaller *)
Lemma with_alt_stats cfg a :
  cfg_alternative (rom_with_alternative cfg a) = a /\
  cfg_equal_var (rom_with_alternative cfg a) = cfg_equal_var cfg /\
  cfg_use_t (rom_with_alternative cfg a) = cfg_use_t cfg /\
  cfg_confidence_level (rom_with_alternative cfg a) = cfg_confidence_level cfg.
Proof. repeat split. Qed.

Lemma one_sided_sum_lemma cfg :
  mr_pvalue (stats_of (rom_with_alternative cfg Greater)) + mr_pvalue (stats_of (rom_with_alternative cfg Less)) = 1.
Proof.
  unfold stats_of.
  rewrite (analyze_stats_greater fam (rom_with_alternative cfg Greater) cm cv cn tm tv tn eq_refl), (analyze_stats_less fam (rom_with_alternative cfg Less) cm cv cn tm tv tn eq_refl).
  cbn [mr_pvalue rom_with_alternative cfg_equal_var cfg_use_t]. fold (S cfg) (D cfg).
  rewrite (L_sf _ (D_laws cfg)). lra.
Qed.

Lemma two_sided_lemma cfg :
  mr_pvalue (stats_of (rom_with_alternative cfg TwoSided))
  = 2 * Rmin (mr_pvalue (stats_of (rom_with_alternative cfg Greater)))
             (mr_pvalue (stats_of (rom_with_alternative cfg Less))).
Proof.
  unfold stats_of.
  rewrite (analyze_stats_greater fam (rom_with_alternative cfg Greater) cm cv cn tm tv tn eq_refl), (analyze_stats_less fam (rom_with_alternative cfg Less) cm cv cn tm tv tn eq_refl),
    (analyze_stats_two_sided fam (rom_with_alternative cfg TwoSided) cm cv cn tm tv tn eq_refl).
  cbn [mr_pvalue rom_with_alternative cfg_equal_var cfg_use_t]. fold (S cfg) (D cfg).
  pose proof (D_laws cfg) as HL. pose proof (D_sym cfg) as HS.
  set (t := (tm - cm) / S cfg). f_equal.
  rewrite !(L_sf _ HL).
  pose proof (cdf_zero _ HS) as H0.
  unfold Rabs. destruct (Rcase_abs t) as [Hn|Hn].
  - pose proof (L_mono _ HL t 0 Hn). rewrite (HS t).
    unfold Rmin. destruct (Rle_dec (1 - cdf (D cfg) t) (cdf (D cfg) t)); lra.
  - pose proof (cdf_le _ HL 0 t (Rge_le _ _ Hn)).
    unfold Rmin. destruct (Rle_dec (1 - cdf (D cfg) t) (cdf (D cfg) t)); lra.
Qed.

(* 7. nesting of intervals in the confidence level *)
Lemma nesting_lemma cfg c1 c2 : 0 < c1 < 1 -> 0 < c2 < 1 -> c1 <= c2 ->
  let r1 := stats_of (rom_with_confidence_level cfg c1) in
  let r2 := stats_of (rom_with_confidence_level cfg c2) in
  ext_le (mr_effect_size_ci_lower r2) (mr_effect_size_ci_lower r1) /\
  ext_le (mr_effect_size_ci_upper r1) (mr_effect_size_ci_upper r2).
Proof.
  intros H1 H2 H12. pose proof (D_laws cfg) as HL. pose proof (D_sym cfg) as HS. pose proof (S_pos cfg) as HSp.
  cbv zeta. unfold stats_of.
  destruct (alt_cases cfg) as [Ha|[Ha|Ha]].
  - rewrite !(analyze_stats_greater fam _ cm cv cn tm tv tn) by (cbn; exact Ha).
    cbn [mr_effect_size_ci_lower mr_effect_size_ci_upper rom_with_confidence_level cfg_equal_var cfg_use_t cfg_confidence_level ext_le].
    fold (S cfg) (D cfg). split; [|exact I].
    rewrite !(isf_neg_ppf _ HL HS) by assumption.
    pose proof (ppf_mono _ HL c1 c2 H1 H2 H12).
    assert (S cfg * ppf (D cfg) c1 <= S cfg * ppf (D cfg) c2) by (apply Rmult_le_compat_l; lra). lra.
  - rewrite !(analyze_stats_less fam _ cm cv cn tm tv tn) by (cbn; exact Ha).
    cbn [mr_effect_size_ci_lower mr_effect_size_ci_upper rom_with_confidence_level cfg_equal_var cfg_use_t cfg_confidence_level ext_le].
    fold (S cfg) (D cfg). split; [exact I|].
    pose proof (ppf_mono _ HL c1 c2 H1 H2 H12).
    assert (S cfg * ppf (D cfg) c1 <= S cfg * ppf (D cfg) c2) by (apply Rmult_le_compat_l; lra). lra.
  - rewrite !(analyze_stats_two_sided fam _ cm cv cn tm tv tn) by (cbn; exact Ha).
    cbn [mr_effect_size_ci_lower mr_effect_size_ci_upper rom_with_confidence_level cfg_equal_var cfg_use_t cfg_confidence_level ext_le].
    fold (S cfg) (D cfg).
    assert (Hq1 : 0 < (1 + c1) / 2 < 1) by lra. assert (Hq2 : 0 < (1 + c2) / 2 < 1) by lra.
    pose proof (ppf_mono _ HL _ _ Hq1 Hq2 ltac:(lra)).
    assert (S cfg * ppf (D cfg) ((1 + c1) / 2) <= S cfg * ppf (D cfg) ((1 + c2) / 2)) by (apply Rmult_le_compat_l; lra).
    split; lra.
Qed.
End Coherence.

Lemma exp_ge_1 x : 0 <= x -> 1 <= exp x.
Proof.
  intros [H|H]; [left; rewrite <- exp_0 at 1; apply exp_increasing; exact H | subst; rewrite exp_0; lra].
Qed.
Lemma exp_le_1 x : x <= 0 -> exp x <= 1.
Proof.
  intros [H|H]; [left; rewrite <- exp_0; apply exp_increasing; exact H | subst; rewrite exp_0; lra].
Qed.

(* relative interval: for means of equal sign it contains the relative effect *)
Section Relative.
Variable fam : dist_family R.
Hypothesis HF : fam_laws fam.
Variables (cm cv cn tm tv tn : R).
Hypothesis Hcn : 1 < cn.
Hypothesis Htn : 1 < tn.
Hypothesis Hcv : 0 <= cv.
Hypothesis Htv : 0 <= tv.
Hypothesis Hpos : 0 < cv + tv.
Hypothesis Hsign : 0 < cm * tm.

Lemma scaled_pos : 0 <= cv / cm / cm /\ 0 <= tv / tm / tm /\ 0 < cv / cm / cm + tv / tm / tm.
Proof.
  assert (Hcm : cm <> 0) by (intros E; rewrite E in Hsign; lra).
  assert (Htm : tm <> 0) by (intros E; rewrite E in Hsign; lra).
  assert (H1 : 0 < / (cm * cm)) by (apply Rinv_0_lt_compat; nra).
  assert (H2 : 0 < / (tm * tm)) by (apply Rinv_0_lt_compat; nra).
  replace (cv / cm / cm) with (cv * / (cm * cm)) by (field; exact Hcm).
  replace (tv / tm / tm) with (tv * / (tm * tm)) by (field; exact Htm).
  repeat split; try (apply Rmult_le_pos; lra).
  destruct Hcv as [Hc|Hc].
  - assert (0 < cv * / (cm * cm)) by (apply Rmult_lt_0_compat; lra).
    assert (0 <= tv * / (tm * tm)) by (apply Rmult_le_pos; lra). lra.
  - assert (0 < tv * / (tm * tm)) by (apply Rmult_lt_0_compat; lra).
    rewrite <- Hc, Rmult_0_l. lra.
Qed.

Lemma rel_contains_lemma cfg : 0 < cfg_confidence_level cfg < 1 ->
  (cfg_alternative cfg = TwoSided \/ 1 / 2 <= cfg_confidence_level cfg) ->
  let r := rom_analyze_stats fam cfg cm cv cn tm tv tn in
  ext_le (mr_rel_effect_size_ci_lower r) (Fin (mr_rel_effect_size r)) /\
  ext_le (Fin (mr_rel_effect_size r)) (mr_rel_effect_size_ci_upper r).
Proof.
  intros Hcl Hside. cbv zeta.
  destruct scaled_pos as (Hs1 & Hs2 & Hs3).
  set (ls := se_of (cfg_equal_var cfg) (cv / cm / cm) cn (tv / tm / tm) tn).
  set (ld := null_of fam (cfg_equal_var cfg) (cfg_use_t cfg) (cv / cm / cm) cn (tv / tm / tm) tn).
  assert (Hls : 0 < ls) by (apply se_of_pos; assumption).
  destruct (null_of_laws fam (cfg_equal_var cfg) (cfg_use_t cfg) _ cn _ tn HF Hcn Htn Hs1 Hs2 Hs3) as [HL HS].
  fold ld in HL, HS.
  assert (Hratio : 0 < tm / cm).
  { assert (cm <> 0) by (intros E; rewrite E in Hsign; lra).
    replace (tm / cm) with (cm * tm * / (cm * cm)) by (field; assumption).
    apply Rmult_lt_0_compat; [exact Hsign | apply Rinv_0_lt_compat; nra]. }
  destruct (cfg_alternative cfg) eqn:Ha.
  - rewrite (analyze_stats_two_sided fam cfg cm cv cn tm tv tn Ha).
    cbn [mr_rel_effect_size mr_rel_effect_size_ci_lower mr_rel_effect_size_ci_upper ext_le]. fold ls ld.
    assert (Hq : 1 / 2 <= (1 + cfg_confidence_level cfg) / 2 < 1) by lra.
    pose proof (ppf_nonneg _ HL HS _ Hq) as Hp.
    set (e := exp (ls * ppf ld ((1 + cfg_confidence_level cfg) / 2))).
    assert (He : 1 <= e) by (unfold e; apply exp_ge_1, Rmult_le_pos; lra).
    assert (Hinv : 0 < / e <= 1).
    { split; [apply Rinv_0_lt_compat; lra|]. rewrite <- Rinv_1. apply Rinv_le_contravar; lra. }
    split.
    + unfold Rdiv at 1. assert (tm / cm * / e <= tm / cm * 1) by (apply Rmult_le_compat_l; lra). lra.
    + assert (tm / cm * 1 <= tm / cm * e) by (apply Rmult_le_compat_l; lra). lra.
  - destruct Hside as [Hx|Hh]; [discriminate|].
    rewrite (analyze_stats_greater fam cfg cm cv cn tm tv tn Ha).
    cbn [mr_rel_effect_size mr_rel_effect_size_ci_lower mr_rel_effect_size_ci_upper ext_le]. fold ls ld.
    split; [|exact I].
    rewrite (isf_neg_ppf _ HL HS _ Hcl).
    pose proof (ppf_nonneg _ HL HS _ (conj Hh (proj2 Hcl))) as Hp.
    assert (He : exp (ls * - ppf ld (cfg_confidence_level cfg)) <= 1).
    { apply exp_le_1.
      replace (ls * - ppf ld (cfg_confidence_level cfg)) with (- (ls * ppf ld (cfg_confidence_level cfg))) by ring.
      pose proof (Rmult_le_pos ls _ (Rlt_le _ _ Hls) Hp). lra. }
    assert (tm / cm * exp (ls * - ppf ld (cfg_confidence_level cfg)) <= tm / cm * 1) by (apply Rmult_le_compat_l; lra).
    lra.
  - destruct Hside as [Hx|Hh]; [discriminate|].
    rewrite (analyze_stats_less fam cfg cm cv cn tm tv tn Ha).
    cbn [mr_rel_effect_size mr_rel_effect_size_ci_lower mr_rel_effect_size_ci_upper ext_le]. fold ls ld.
    split; [exact I|].
    pose proof (ppf_nonneg _ HL HS _ (conj Hh (proj2 Hcl))) as Hp.
    assert (He : 1 <= exp (ls * ppf ld (cfg_confidence_level cfg))).
    { apply exp_ge_1, Rmult_le_pos; lra. }
    assert (tm / cm * 1 <= tm / cm * exp (ls * ppf ld (cfg_confidence_level cfg))) by (apply Rmult_le_compat_l; lra).
    lra.
Qed.
End Relative.
