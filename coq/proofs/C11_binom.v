(* C11 - the exact two-sided binomial test (what scipy.stats.binomtest computes, without its relative tie tolerance):
   the sum of the probabilities of all outcomes that are no more likely than the observed one.  Swapping the roles of
   the two variants (k -> n - k, p -> 1 - p) leaves it unchanged.  Hand model; tied to scipy by the exact-rational
   oracle of tools/props/C11.py. *)
From Coq Require Import Reals List Lra Lia Permutation.
Import ListNotations.
Local Open Scope R_scope.

Definition pmf (n : nat) (p : R) (i : nat) : R := C n i * p ^ i * (1 - p) ^ (n - i).

Fixpoint nsum (f : nat -> R) (l : list nat) : R := match l with [] => 0 | i :: t => f i + nsum f t end.
Definition outcomes (n : nat) : list nat := seq 0 (S n).
Definition no_more_likely (n : nat) (p : R) (k i : nat) : R := if Rle_dec (pmf n p i) (pmf n p k) then pmf n p i else 0.
Definition binom_two_sided (n k : nat) (p : R) : R := nsum (no_more_likely n p k) (outcomes n).

Lemma C_sym n i : (i <= n)%nat -> C n (n - i) = C n i.
Proof.
  intros H. unfold C. replace (n - (n - i))%nat with i by lia. f_equal. ring.
Qed.
Lemma pmf_swap n p i : (i <= n)%nat -> pmf n (1 - p) (n - i) = pmf n p i.
Proof.
  intros H. unfold pmf. rewrite (C_sym n i H). replace (n - (n - i))%nat with i by lia.
  replace (1 - (1 - p)) with p by ring. ring.
Qed.

Lemma nsum_perm f l l' : Permutation l l' -> nsum f l = nsum f l'.
Proof. induction 1; cbn; lra. Qed.
Lemma nsum_map f (h : nat -> nat) l : nsum f (map h l) = nsum (fun i => f (h i)) l.
Proof. induction l as [|i t IH]; cbn; [reflexivity | rewrite IH; reflexivity]. Qed.
Lemma nsum_ext_in f g l : (forall i, In i l -> f i = g i) -> nsum f l = nsum g l.
Proof.
  induction l as [|i t IH]; intros H; cbn; [reflexivity|].
  rewrite (H i (or_introl eq_refl)), IH; [reflexivity|]. intros j Hj. apply H. right. exact Hj.
Qed.

Lemma NoDup_map_inj_in {X Y} (h : X -> Y) (l : list X) :
  (forall x y, In x l -> In y l -> h x = h y -> x = y) -> NoDup l -> NoDup (map h l).
Proof.
  intros Hinj Hnd. induction Hnd as [|x l Hx Hnd IH]; cbn; constructor.
  - intros Hin. apply in_map_iff in Hin. destruct Hin as [y [E Hy]].
    assert (y = x) by (apply Hinj; [right; exact Hy | left; reflexivity | exact E]). subst. contradiction.
  - apply IH. intros a b Ha Hb. apply Hinj; right; assumption.
Qed.

(* i -> n - i permutes the outcomes 0..n *)
Lemma outcomes_flip n : Permutation (map (fun i => (n - i)%nat) (outcomes n)) (outcomes n).
Proof.
  unfold outcomes. apply NoDup_Permutation_bis.
  - apply NoDup_map_inj_in; [|apply seq_NoDup].
    intros x y Hx Hy E. apply in_seq in Hx, Hy. lia.
  - rewrite map_length. lia.
  - intros x Hx. apply in_map_iff in Hx. destruct Hx as [i [<- Hi]]. apply in_seq in Hi. apply in_seq. lia.
Qed.

Theorem binom_two_sided_swap n k p : (k <= n)%nat -> binom_two_sided n (n - k) (1 - p) = binom_two_sided n k p.
Proof.
  intros Hk. unfold binom_two_sided.
  rewrite <- (nsum_perm _ _ _ (outcomes_flip n)), nsum_map.
  apply nsum_ext_in. intros i Hi. unfold outcomes in Hi. apply in_seq in Hi.
  unfold no_more_likely. rewrite (pmf_swap n p i) by lia. rewrite (pmf_swap n p k Hk). reflexivity.
Qed.

(* it is a probability: between the probability of the observed outcome and 1 *)
Lemma pmf_nonneg n p i : 0 <= p <= 1 -> 0 <= pmf n p i.
Proof.
  intros Hp. unfold pmf. apply Rmult_le_pos; [apply Rmult_le_pos|]; [|apply pow_le; lra | apply pow_le; lra].
  unfold C. apply Rmult_le_pos; [apply pos_INR|]. left. apply Rinv_0_lt_compat.
  apply Rmult_lt_0_compat; apply INR_fact_lt_0.
Qed.
Lemma nsum_le f g l : (forall i, In i l -> f i <= g i) -> nsum f l <= nsum g l.
Proof.
  induction l as [|i t IH]; intros H; cbn; [lra|].
  pose proof (H i (or_introl eq_refl)). assert (nsum f t <= nsum g t) by (apply IH; intros j Hj; apply H; right; exact Hj). lra.
Qed.
Lemma nsum_sum_f_R0 f n : nsum f (seq 0 (S n)) = sum_f_R0 f n.
Proof.
  assert (G : forall m s, nsum f (seq s (S m)) = sum_f_R0 (fun i => f (s + i)%nat) m).
  { induction m as [|m IH]; intros s.
    - cbn. rewrite Nat.add_0_r. ring.
    - replace (seq s (S (S m))) with (seq s (S m) ++ [(s + S m)%nat]) by (rewrite <- seq_S; reflexivity).
      assert (A : forall l l', nsum f (l ++ l') = nsum f l + nsum f l') by (induction l; intros; cbn; [ring | rewrite IHl; ring]).
      rewrite A, IH. cbn [sum_f_R0 nsum]. ring. }
  rewrite G. apply sum_eq. intros i _. reflexivity.
Qed.
Lemma pmf_total n p : nsum (pmf n p) (outcomes n) = 1.
Proof.
  unfold outcomes. rewrite nsum_sum_f_R0. unfold pmf.
  transitivity ((p + (1 - p)) ^ n).
  - rewrite binomial. apply sum_eq. intros i _. reflexivity.
  - replace (p + (1 - p)) with 1 by ring. apply pow1.
Qed.
Theorem binom_two_sided_range n k p : 0 <= p <= 1 -> (k <= n)%nat -> pmf n p k <= binom_two_sided n k p <= 1.
Proof.
  intros Hp Hk. unfold binom_two_sided. split.
  - assert (Hin : In k (outcomes n)) by (apply in_seq; lia).
    assert (G : forall l, In k l -> (forall i, In i l -> 0 <= no_more_likely n p k i) -> no_more_likely n p k k <= nsum (no_more_likely n p k) l).
    { induction l as [|i t IH]; intros H H0; [destruct H|]. cbn.
      assert (0 <= nsum (no_more_likely n p k) t).
      { clear IH H. induction t as [|j t IHt]; cbn; [lra|].
        pose proof (H0 j (or_intror (or_introl eq_refl))).
        assert (0 <= nsum (no_more_likely n p k) t) by (apply IHt; intros x [->|Hx]; apply H0; [left | right; right]; auto). lra. }
      destruct H as [->|H]; [lra|].
      pose proof (H0 i (or_introl eq_refl)). assert (no_more_likely n p k k <= nsum (no_more_likely n p k) t) by (apply IH; [exact H | intros x Hx; apply H0; right; exact Hx]). lra. }
    replace (pmf n p k) with (no_more_likely n p k k) by (unfold no_more_likely; destruct (Rle_dec (pmf n p k) (pmf n p k)); [reflexivity | lra]).
    apply G; [exact Hin|]. intros i _. unfold no_more_likely. destruct (Rle_dec _ _); [apply pmf_nonneg; exact Hp | lra].
  - rewrite <- (pmf_total n p). apply nsum_le. intros i _. unfold no_more_likely.
    destruct (Rle_dec _ _); [lra | apply pmf_nonneg; exact Hp].
Qed.
