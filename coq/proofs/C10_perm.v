(* C10 - the outcome does not depend on the order of the hypotheses: adjusted p-values (and, through the
   rejected <-> adjusted-p lemmas, the rejection flags) of a hypothesis depend only on its own p-value and on the
   multiset of all p-values - ties included.  About genR/Multiplicity.v through proofs/C10_multiplicity.v. *)
From Coq Require Import Reals List Lra Lia Permutation Sorted.
From TT Require Import lib.PreludeR lib.Loop genR.Multiplicity proofs.C10_loop proofs.C10_multiplicity.
Import ListNotations.
Local Open Scope R_scope.

(* ---------- sorted lists of reals are determined by their multiset ---------- *)
Definition desc_v (x y : R) : Prop := y <= x.
Definition asc_v (x y : R) : Prop := x <= y.

Lemma sorted_perm_eq (rel : R -> R -> Prop) (Hanti : forall x y, rel x y -> rel y x -> x = y) l l' :
  StronglySorted rel l -> StronglySorted rel l' -> Permutation l l' -> l = l'.
Proof.
  intros Hs. revert l'. induction Hs as [|a l Hs IH Ha]; intros l' Hs' Hp.
  - apply Permutation_nil in Hp. subst. reflexivity.
  - destruct l' as [|a' l'']; [apply Permutation_sym, Permutation_nil in Hp; discriminate|].
    inversion Hs' as [|? ? Hs'' Ha']; subst.
    assert (E : a = a').
    { assert (Hin : In a (a' :: l'')) by (apply (Permutation_in _ Hp); left; reflexivity).
      assert (Hin' : In a' (a :: l)) by (apply (Permutation_in _ (Permutation_sym Hp)); left; reflexivity).
      destruct Hin as [E|Hin]; [symmetry; exact E|]. destruct Hin' as [E|Hin']; [exact E|].
      rewrite Forall_forall in Ha, Ha'. apply Hanti; [apply Ha; exact Hin' | apply Ha'; exact Hin]. }
    subst a'. f_equal. apply IH; [exact Hs'' | apply (Permutation_cons_inv Hp)].
Qed.

Lemma sorted_map_snd (rel : R -> R -> Prop) (l : list (nat * R)) :
  StronglySorted (fun x y => rel (snd x) (snd y)) l -> StronglySorted rel (map snd l).
Proof.
  induction 1 as [|a l Hs IH Ha]; cbn; constructor; [exact IH|].
  rewrite Forall_forall in *. intros y Hy. apply in_map_iff in Hy. destruct Hy as [x [<- Hx]]. apply Ha. exact Hx.
Qed.

Lemma sorted_nth_rel (rel : R -> R -> Prop) (Hrefl : forall x, rel x x) l s s' x y :
  StronglySorted rel l -> (s <= s')%nat -> nth_error l s = Some x -> nth_error l s' = Some y -> rel x y.
Proof.
  intros Hs. revert s s'. induction Hs as [|a l Hs IH Ha]; intros s s' Hle H1 H2; [destruct s; discriminate|].
  destruct s as [|s].
  - cbn in H1. injection H1 as <-. destruct s' as [|s']; [cbn in H2; injection H2 as <-; apply Hrefl|].
    cbn in H2. rewrite Forall_forall in Ha. apply Ha. eapply nth_error_In. exact H2.
  - destruct s' as [|s']; [lia|]. cbn in H1, H2. eapply IH; [|exact H1 | exact H2]. lia.
Qed.

(* the value lists of the two processing orders are functions of the multiset of p-values *)
Lemma desc_values_perm ps : Permutation (map snd (sorted_desc ps)) ps.
Proof.
  unfold sorted_desc. rewrite <- (indexed_snd R ps) at 2. apply Permutation_map. apply stable_sort_perm.
Qed.
Lemma asc_values_perm ps : Permutation (map snd (sorted_asc ps)) ps.
Proof.
  unfold sorted_asc. rewrite <- (indexed_snd R ps) at 2. apply Permutation_map. apply stable_sort_perm.
Qed.
Lemma desc_values_unique ps ps' : Permutation ps ps' -> map snd (sorted_desc ps) = map snd (sorted_desc ps').
Proof.
  intros Hp. apply (sorted_perm_eq desc_v); [unfold desc_v; intros; lra | | |].
  - apply (sorted_map_snd desc_v). apply sorted_desc_sorted.
  - apply (sorted_map_snd desc_v). apply sorted_desc_sorted.
  - rewrite desc_values_perm, Hp. symmetry. apply desc_values_perm.
Qed.
Lemma asc_values_unique ps ps' : Permutation ps ps' -> map snd (sorted_asc ps) = map snd (sorted_asc ps').
Proof.
  intros Hp. apply (sorted_perm_eq asc_v); [unfold asc_v; intros; lra | | |].
  - apply (sorted_map_snd asc_v). apply sorted_asc_sorted.
  - apply (sorted_map_snd asc_v). apply sorted_asc_sorted.
  - rewrite asc_values_perm, Hp. symmetry. apply asc_values_perm.
Qed.

(* ---------- generic: a running fold over a sorted list gives tied entries the same value ---------- *)
Section Running.
Variable A : nat -> R -> R.               (* per-rank correction: Aup i p / Adn k p *)
Variable op : R -> R -> R.                (* Rmin / Rmax *)
Variable absorbed : R -> R -> Prop.       (* absorbed acc x: folding x into acc changes nothing *)
Hypothesis op_absorb : forall acc x, absorbed acc x -> op acc x = acc.
Hypothesis absorbed_self : forall acc x, absorbed (op acc x) x.
Hypothesis absorbed_trans : forall acc x y, absorbed acc x -> absorbed x y -> absorbed acc y.
(* only used through: absorbed (op acc x) x and monotonicity of A in the rank for a fixed p *)

Fixpoint vals (i : nat) (vs : list R) : list R := match vs with [] => [] | p :: t => A i p :: vals (S i) t end.
Definition run (acc : R) (i : nat) (vs : list R) (t : nat) : R := fold_left op (vals i (firstn (S t) vs)) acc.

Lemma vals_app i xs ys : vals i (xs ++ ys) = vals i xs ++ vals (i + length xs) ys.
Proof.
  revert i. induction xs as [|x xs IH]; intros i; cbn [app vals length]; [rewrite Nat.add_0_r; reflexivity|].
  rewrite IH. replace (i + S (length xs))%nat with (S i + length xs)%nat by lia. reflexivity.
Qed.
Lemma firstn_S_nth (vs : list R) t p : nth_error vs t = Some p -> firstn (S t) vs = firstn t vs ++ [p].
Proof.
  revert t. induction vs as [|v vs IH]; intros t H; [destruct t; discriminate|].
  destruct t as [|t]; cbn in H; [injection H as ->; reflexivity|].
  change (firstn (S (S t)) (v :: vs)) with (v :: firstn (S t) vs). rewrite (IH t H). reflexivity.
Qed.
Lemma run_step acc i vs t p : nth_error vs (S t) = Some p -> run acc i vs (S t) = op (run acc i vs t) (A (i + S t) p).
Proof.
  intros H. unfold run. rewrite (firstn_S_nth vs (S t) p H), vals_app, fold_left_app.
  assert (Hl : length (firstn (S t) vs) = S t).
  { apply firstn_length_le. apply Nat.lt_le_incl. apply nth_error_Some. rewrite H. discriminate. }
  rewrite Hl. reflexivity.
Qed.
Lemma run_absorbs_own acc i vs t p : nth_error vs t = Some p -> absorbed (run acc i vs t) (A (i + t) p).
Proof.
  destruct t as [|t]; intros H.
  - unfold run. destruct vs as [|v vs]; [discriminate|]. cbn in H. injection H as ->. cbn. rewrite Nat.add_0_r. apply absorbed_self.
  - rewrite (run_step acc i vs t p H). apply absorbed_self.
Qed.

(* all entries between two positions holding the same value hold that value; A is monotone in the rank in the
   direction that makes later tied entries absorbed *)
Lemma run_ties acc i vs t d p :
  (forall s q, (t <= s <= t + d)%nat -> nth_error vs s = Some q -> q = p) ->
  (forall s s', (t <= s <= s')%nat -> (s' <= t + d)%nat -> absorbed (A (i + s) p) (A (i + s') p)) ->
  nth_error vs t = Some p -> (t + d < length vs)%nat ->
  run acc i vs (t + d) = run acc i vs t.
Proof.
  intros Hall Hmono Ht. induction d as [|d IH]; intros Hlen; [rewrite Nat.add_0_r; reflexivity|].
  replace (t + S d)%nat with (S (t + d)) by lia.
  destruct (nth_error vs (S (t + d))) as [q|] eqn:Eq; [|apply nth_error_None in Eq; lia].
  assert (q = p) by (apply (Hall (S (t + d)) q); [lia | exact Eq]). subst q.
  rewrite (run_step acc i vs (t + d) p Eq).
  assert (IH' : run acc i vs (t + d) = run acc i vs t).
  { apply IH; [intros s q Hs; apply Hall; lia | intros s s' Hs Hs'; apply Hmono; lia | lia]. }
  rewrite IH'. apply op_absorb.
  eapply absorbed_trans; [apply (run_absorbs_own acc i vs t p Ht)|]. apply Hmono; lia.
Qed.
End Running.

(* ---------- step-up (Benjamini-Hochberg / -Yekutieli, Hochberg) ---------- *)
Section UpPerm.
Variable adjust : R -> R -> R * R.
Variable n : nat.
Notation m := (INR n).
(* for a fixed p-value the per-rank adjusted value does not decrease along the processing order *)
Hypothesis Amono : forall i j p, (i <= j < n)%nat -> 0 <= p -> Aup adjust m i p <= Aup adjust m j p.

Lemma avals_vals i l : avals adjust m i l = vals (Aup adjust m) i (map snd l).
Proof. revert i. induction l as [|[idx p] t IH]; intros i; cbn; [reflexivity | rewrite IH; reflexivity]. Qed.

Lemma up_spec_nth pm am i l t idx o :
  nth_error (up_spec adjust m pm am i l) t = Some (idx, o) -> exists p, nth_error l t = Some (idx, p).
Proof.
  revert pm am i t. induction l as [|[idx0 p0] tl IH]; intros pm am i t H; [destruct t; discriminate|].
  destruct t as [|t]; cbn in H.
  - injection H as <- _. exists p0. reflexivity.
  - cbn. eapply IH. exact H.
Qed.

Lemma up_padj_run pm am l t idx pa aa rj :
  nth_error (up_spec adjust m pm am 0 l) t = Some (idx, (pa, aa, rj)) ->
  pa = run (Aup adjust m) Rmin pm 0 (map snd l) t.
Proof.
  intros H. rewrite (up_padj adjust m _ _ _ _ _ _ _ _ _ H). unfold run, rmin_list.
  rewrite avals_vals, firstn_map. reflexivity.
Qed.

(* two positions of the descending value list holding the same p-value get the same adjusted p-value *)
Lemma up_tied_positions pm vs t t' p : StronglySorted desc_v vs -> length vs = n -> 0 <= p ->
  nth_error vs t = Some p -> nth_error vs t' = Some p -> (t <= t')%nat ->
  run (Aup adjust m) Rmin pm 0 vs t' = run (Aup adjust m) Rmin pm 0 vs t.
Proof.
  intros Hs Hlen Hp Ht Ht' Hle. replace t' with (t + (t' - t))%nat by lia.
  apply (run_ties (Aup adjust m) Rmin (fun acc x => acc <= x)) with (p := p).
  - intros acc x H. apply Rmin_left. exact H.
  - intros acc x. apply Rmin_r.
  - intros acc x y H1 H2. lra.
  - intros s q Hs' Hq.
    assert (H1 : desc_v p q) by (apply (sorted_nth_rel desc_v (fun x => Rle_refl x) vs t s p q Hs); [lia | exact Ht | exact Hq]).
    assert (H2 : desc_v q p).
    { apply (sorted_nth_rel desc_v (fun x => Rle_refl x) vs s t' q p Hs); [lia | exact Hq | exact Ht']. }
    unfold desc_v in *. lra.
  - intros s s' Hs1 Hs2. cbn. apply Amono; [|exact Hp].
    assert (t' < n)%nat by (rewrite <- Hlen; apply nth_error_Some; rewrite Ht'; discriminate). lia.
  - exact Ht.
  - replace (t + (t' - t))%nat with t' by lia. apply nth_error_Some. rewrite Ht'. discriminate.
Qed.

Theorem stepup_padj_perm_invariant ps ps' j j' p : length ps = n -> Permutation ps ps' -> 0 <= p ->
  nth_error ps j = Some p -> nth_error ps' j' = Some p ->
  fst (fst (nth j (hochberg_stepup adjust ps) dflt)) = fst (fst (nth j' (hochberg_stepup adjust ps') dflt)).
Proof.
  intros Hn Hperm Hp Hj Hj'.
  assert (Hn' : length ps' = n) by (rewrite <- (Permutation_length Hperm); exact Hn).
  assert (Hlj : (j < length ps)%nat) by (apply nth_error_Some; rewrite Hj; discriminate).
  assert (Hlj' : (j' < length ps')%nat) by (apply nth_error_Some; rewrite Hj'; discriminate).
  destruct (stepup_at adjust ps j Hlj) as [t Ht]. destruct (stepup_at adjust ps' j' Hlj') as [t' Ht'].
  rewrite Hn in Ht. rewrite Hn' in Ht'.
  destruct (nth j (hochberg_stepup adjust ps) dflt) as [[pa aa] rj].
  destruct (nth j' (hochberg_stepup adjust ps') dflt) as [[pa' aa'] rj']. cbn [fst].
  rewrite (up_padj_run _ _ _ _ _ _ _ _ Ht), (up_padj_run _ _ _ _ _ _ _ _ Ht').
  rewrite <- (desc_values_unique ps ps' Hperm).
  set (vs := map snd (sorted_desc ps)).
  assert (Hvs : StronglySorted desc_v vs) by (apply (sorted_map_snd desc_v); apply sorted_desc_sorted).
  assert (Hlen : length vs = n) by (unfold vs; rewrite map_length, sorted_desc_length; exact Hn).
  assert (Hv : nth_error vs t = Some p).
  { destruct (up_spec_nth _ _ _ _ _ _ _ Ht) as [q Hq]. unfold vs. rewrite nth_error_map, Hq. cbn.
    apply nth_error_In, sorted_desc_in in Hq. congruence. }
  assert (Hv' : nth_error vs t' = Some p).
  { destruct (up_spec_nth _ _ _ _ _ _ _ Ht') as [q Hq]. unfold vs. rewrite (desc_values_unique ps ps' Hperm), nth_error_map, Hq. cbn.
    apply nth_error_In, sorted_desc_in in Hq. congruence. }
  destruct (Nat.le_ge_cases t t') as [Hle|Hle].
  - symmetry. apply (up_tied_positions 1 vs t t' p); assumption.
  - apply (up_tied_positions 1 vs t' t p); assumption.
Qed.
End UpPerm.

(* ---------- step-down (Holm) ---------- *)
Section DownPerm.
Variable adjust : R -> R -> R * R.
Variable n : nat.
(* ranks run over 1..n; for a fixed p-value the per-rank adjusted value does not increase along the processing order *)
Hypothesis Amono : forall i j p, (1 <= i <= j)%nat -> (j <= n)%nat -> 0 <= p -> Adn adjust j p <= Adn adjust i p.

Lemma dvals_vals k l : dvals adjust k l = vals (Adn adjust) k (map snd l).
Proof. revert k. induction l as [|[idx p] t IH]; intros k; cbn; [reflexivity | rewrite IH; reflexivity]. Qed.

Lemma dn_spec_nth pn ax k l t idx o :
  nth_error (dn_spec adjust pn ax k l) t = Some (idx, o) -> exists p, nth_error l t = Some (idx, p).
Proof.
  revert pn ax k t. induction l as [|[idx0 p0] tl IH]; intros pn ax k t H; [destruct t; discriminate|].
  destruct t as [|t]; cbn in H.
  - injection H as <- _. exists p0. reflexivity.
  - cbn. eapply IH. exact H.
Qed.

Lemma dn_padj_run pn ax l t idx pa aa rj :
  nth_error (dn_spec adjust pn ax 1 l) t = Some (idx, (pa, aa, rj)) ->
  pa = run (Adn adjust) Rmax pn 1 (map snd l) t.
Proof.
  intros H. rewrite (dn_padj adjust _ _ _ _ _ _ _ _ _ H). unfold run, rmax_list.
  rewrite dvals_vals, firstn_map. reflexivity.
Qed.

Lemma dn_tied_positions pn vs t t' p : StronglySorted asc_v vs -> length vs = n -> 0 <= p ->
  nth_error vs t = Some p -> nth_error vs t' = Some p -> (t <= t')%nat ->
  run (Adn adjust) Rmax pn 1 vs t' = run (Adn adjust) Rmax pn 1 vs t.
Proof.
  intros Hs Hlen Hp Ht Ht' Hle. replace t' with (t + (t' - t))%nat by lia.
  apply (run_ties (Adn adjust) Rmax (fun acc x => x <= acc)) with (p := p).
  - intros acc x H. apply Rmax_left. exact H.
  - intros acc x. apply Rmax_r.
  - intros acc x y H1 H2. lra.
  - intros s q Hs' Hq.
    assert (H1 : asc_v p q) by (apply (sorted_nth_rel asc_v (fun x => Rle_refl x) vs t s p q Hs); [lia | exact Ht | exact Hq]).
    assert (H2 : asc_v q p).
    { apply (sorted_nth_rel asc_v (fun x => Rle_refl x) vs s t' q p Hs); [lia | exact Hq | exact Ht']. }
    unfold asc_v in *. lra.
  - intros s s' Hs1 Hs2. cbn. apply Amono; [lia | | exact Hp].
    assert (t' < n)%nat by (rewrite <- Hlen; apply nth_error_Some; rewrite Ht'; discriminate). lia.
  - exact Ht.
  - replace (t + (t' - t))%nat with t' by lia. apply nth_error_Some. rewrite Ht'. discriminate.
Qed.

Theorem stepdown_padj_perm_invariant ps ps' j j' p : length ps = n -> Permutation ps ps' -> 0 <= p ->
  nth_error ps j = Some p -> nth_error ps' j' = Some p ->
  fst (fst (nth j (holm_stepdown adjust ps) dflt)) = fst (fst (nth j' (holm_stepdown adjust ps') dflt)).
Proof.
  intros Hn Hperm Hp Hj Hj'.
  assert (Hlj : (j < length ps)%nat) by (apply nth_error_Some; rewrite Hj; discriminate).
  assert (Hlj' : (j' < length ps')%nat) by (apply nth_error_Some; rewrite Hj'; discriminate).
  destruct (stepdown_at adjust ps j Hlj) as [t Ht]. destruct (stepdown_at adjust ps' j' Hlj') as [t' Ht'].
  destruct (nth j (holm_stepdown adjust ps) dflt) as [[pa aa] rj].
  destruct (nth j' (holm_stepdown adjust ps') dflt) as [[pa' aa'] rj']. cbn [fst].
  rewrite (dn_padj_run _ _ _ _ _ _ _ _ Ht), (dn_padj_run _ _ _ _ _ _ _ _ Ht').
  rewrite <- (asc_values_unique ps ps' Hperm).
  set (vs := map snd (sorted_asc ps)).
  assert (Hvs : StronglySorted asc_v vs) by (apply (sorted_map_snd asc_v); apply sorted_asc_sorted).
  assert (Hlen : length vs = n) by (unfold vs; rewrite map_length, sorted_asc_length; exact Hn).
  assert (Hv : nth_error vs t = Some p).
  { destruct (dn_spec_nth _ _ _ _ _ _ _ Ht) as [q Hq]. unfold vs. rewrite nth_error_map, Hq. cbn.
    apply nth_error_In, sorted_asc_in in Hq. congruence. }
  assert (Hv' : nth_error vs t' = Some p).
  { destruct (dn_spec_nth _ _ _ _ _ _ _ Ht') as [q Hq]. unfold vs. rewrite (asc_values_unique ps ps' Hperm), nth_error_map, Hq. cbn.
    apply nth_error_In, sorted_asc_in in Hq. congruence. }
  destruct (Nat.le_ge_cases t t') as [Hle|Hle].
  - symmetry. apply (dn_tied_positions 0 vs t t' p); assumption.
  - apply (dn_tied_positions 0 vs t' t p); assumption.
Qed.
End DownPerm.

(* ---------- the hypotheses hold for the corrections of the library ---------- *)
Lemma Rmin_mono_l a b c : a <= b -> Rmin a c <= Rmin b c.
Proof. intros H. unfold Rmin. destruct (Rle_dec a c), (Rle_dec b c); lra. Qed.

Lemma bh_Amono alpha madj n : 0 < madj ->
  forall i j p, (i <= j < n)%nat -> 0 <= p ->
  Aup (benjamini_adjust (mk_benjamini alpha madj)) (INR n) i p <= Aup (benjamini_adjust (mk_benjamini alpha madj)) (INR n) j p.
Proof.
  intros Hm i j p Hij Hp. unfold Aup. rewrite !bh_closed_form. cbn [fst]. apply Rmin_mono_l.
  apply Rmult_le_compat_l; [exact Hp|].
  assert (Hi : 0 < INR n - INR i) by (rewrite <- minus_INR by lia; apply lt_0_INR; lia).
  assert (Hj : 0 < INR n - INR j) by (rewrite <- minus_INR by lia; apply lt_0_INR; lia).
  assert (Hle : INR n - INR j <= INR n - INR i) by (assert (INR i <= INR j) by (apply le_INR; lia); lra).
  unfold Rdiv. apply Rmult_le_compat_l; [lra|]. apply Rinv_le_contravar; assumption.
Qed.

Lemma hochberg_bonferroni_Amono alpha n :
  forall i j p, (i <= j < n)%nat -> 0 <= p ->
  Aup (bonferroni_adjust (mk_bonferroni alpha (INR n))) (INR n) i p <= Aup (bonferroni_adjust (mk_bonferroni alpha (INR n))) (INR n) j p.
Proof.
  intros i j p Hij Hp. unfold Aup. rewrite !bonf_closed_form. cbn [fst]. apply Rmin_mono_l.
  apply Rmult_le_compat_l; [exact Hp|]. assert (INR i <= INR j) by (apply le_INR; lia). lra.
Qed.

Lemma holm_bonferroni_Amono alpha n :
  forall i j p, (1 <= i <= j)%nat -> (j <= n)%nat -> 0 <= p ->
  Adn (bonferroni_adjust (mk_bonferroni alpha (INR n))) j p <= Adn (bonferroni_adjust (mk_bonferroni alpha (INR n))) i p.
Proof.
  intros i j p Hij Hj Hp. unfold Adn. rewrite !bonf_closed_form. cbn [fst]. apply Rmin_mono_l.
  apply Rmult_le_compat_l; [exact Hp|]. assert (INR i <= INR j) by (apply le_INR; lia). lra.
Qed.

Lemma bool_eq_iff (a b : bool) (P Q : Prop) : (a = true <-> P) -> (b = true <-> Q) -> (P <-> Q) -> a = b.
Proof. intros Ha Hb HPQ. destruct a, b; try reflexivity; exfalso; [assert (false = true) by tauto | assert (false = true) by tauto]; discriminate. Qed.

(* adjusted p-value and rejection flag of a hypothesis do not depend on the order of the family (ties included) *)
Theorem bh_order_independent alpha madj ps ps' j j' p : 0 < alpha < 1 -> 0 < madj -> Permutation ps ps' -> 0 <= p ->
  nth_error ps j = Some p -> nth_error ps' j' = Some p ->
  let o := nth j (hochberg_stepup (benjamini_adjust (mk_benjamini alpha madj)) ps) dflt in
  let o' := nth j' (hochberg_stepup (benjamini_adjust (mk_benjamini alpha madj)) ps') dflt in
  fst (fst o) = fst (fst o') /\ snd o = snd o'.
Proof.
  intros Ha Hm Hperm Hp Hj Hj' o o'.
  assert (E : fst (fst o) = fst (fst o')).
  { apply (stepup_padj_perm_invariant _ (length ps) (bh_Amono alpha madj (length ps) Hm) ps ps' j j' p); auto. }
  split; [exact E|].
  assert (Hlj : (j < length ps)%nat) by (apply nth_error_Some; rewrite Hj; discriminate).
  assert (Hlj' : (j' < length ps')%nat) by (apply nth_error_Some; rewrite Hj'; discriminate).
  apply (bool_eq_iff _ _ _ _ (bh_rejected_iff_padj_input alpha madj ps j Ha Hm Hlj) (bh_rejected_iff_padj_input alpha madj ps' j' Ha Hm Hlj')).
  fold o o'. rewrite E. tauto.
Qed.

Theorem hochberg_bonferroni_order_independent alpha ps ps' j j' p : 0 < alpha < 1 -> Permutation ps ps' -> 0 <= p ->
  nth_error ps j = Some p -> nth_error ps' j' = Some p ->
  let o := nth j (hochberg_stepup (bonferroni_adjust (mk_bonferroni alpha (INR (length ps)))) ps) dflt in
  let o' := nth j' (hochberg_stepup (bonferroni_adjust (mk_bonferroni alpha (INR (length ps')))) ps') dflt in
  fst (fst o) = fst (fst o') /\ snd o = snd o'.
Proof.
  intros Ha Hperm Hp Hj Hj'. rewrite <- (Permutation_length Hperm). intros o o'.
  assert (E : fst (fst o) = fst (fst o')).
  { apply (stepup_padj_perm_invariant _ (length ps) (hochberg_bonferroni_Amono alpha (length ps)) ps ps' j j' p); auto. }
  split; [exact E|].
  assert (Hlj : (j < length ps)%nat) by (apply nth_error_Some; rewrite Hj; discriminate).
  assert (Hlj' : (j' < length ps')%nat) by (apply nth_error_Some; rewrite Hj'; discriminate).
  pose proof (hochberg_bonferroni_rejected_iff_padj_input alpha ps j Ha Hlj) as H1.
  pose proof (hochberg_bonferroni_rejected_iff_padj_input alpha ps' j' Ha Hlj') as H2.
  rewrite <- (Permutation_length Hperm) in H2.
  apply (bool_eq_iff _ _ _ _ H1 H2). fold o o'. rewrite E. tauto.
Qed.

Theorem holm_bonferroni_order_independent alpha ps ps' j j' p : 0 < alpha < 1 -> Permutation ps ps' -> 0 <= p ->
  nth_error ps j = Some p -> nth_error ps' j' = Some p ->
  let o := nth j (holm_stepdown (bonferroni_adjust (mk_bonferroni alpha (INR (length ps)))) ps) dflt in
  let o' := nth j' (holm_stepdown (bonferroni_adjust (mk_bonferroni alpha (INR (length ps')))) ps') dflt in
  fst (fst o) = fst (fst o') /\ snd o = snd o'.
Proof.
  intros Ha Hperm Hp Hj Hj'. rewrite <- (Permutation_length Hperm). intros o o'.
  assert (E : fst (fst o) = fst (fst o')).
  { apply (stepdown_padj_perm_invariant _ (length ps) (holm_bonferroni_Amono alpha (length ps)) ps ps' j j' p); auto. }
  split; [exact E|].
  assert (Hlj : (j < length ps)%nat) by (apply nth_error_Some; rewrite Hj; discriminate).
  assert (Hlj' : (j' < length ps')%nat) by (apply nth_error_Some; rewrite Hj'; discriminate).
  pose proof (holm_bonferroni_rejected_iff_padj_input alpha ps j Ha Hlj) as H1.
  pose proof (holm_bonferroni_rejected_iff_padj_input alpha ps' j' Ha Hlj') as H2.
  rewrite <- (Permutation_length Hperm) in H2.
  apply (bool_eq_iff _ _ _ _ H1 H2). fold o o'. rewrite E. tauto.
Qed.

(* ---------- Sidak ---------- *)
Lemma hochberg_sidak_Amono alpha n : 0 < alpha < 1 ->
  forall i j p, (i <= j < n)%nat -> 0 <= p ->
  Aup (sidak_adjust (mk_sidak alpha (INR n))) (INR n) i p <= Aup (sidak_adjust (mk_sidak alpha (INR n))) (INR n) j p.
Proof.
  intros Ha i j p Hij Hp. unfold Aup. apply (sidak_A_mono alpha Ha).
  - assert (0 <= INR j) by apply pos_INR. lra.
  - assert (INR i <= INR j) by (apply le_INR; lia). lra.
  - exact Hp.
Qed.
Lemma holm_sidak_Amono alpha n : 0 < alpha < 1 ->
  forall i j p, (1 <= i <= j)%nat -> (j <= n)%nat -> 0 <= p ->
  Adn (sidak_adjust (mk_sidak alpha (INR n))) j p <= Adn (sidak_adjust (mk_sidak alpha (INR n))) i p.
Proof.
  intros Ha i j p Hij Hj Hp. unfold Adn. apply (sidak_A_mono alpha Ha).
  - assert (INR i <= INR n) by (apply le_INR; lia). lra.
  - apply le_INR. lia.
  - exact Hp.
Qed.

Theorem hochberg_sidak_order_independent alpha ps ps' j j' p : 0 < alpha < 1 -> Permutation ps ps' -> Forall unit_p ps ->
  nth_error ps j = Some p -> nth_error ps' j' = Some p ->
  let o := nth j (hochberg_stepup (sidak_adjust (mk_sidak alpha (INR (length ps)))) ps) dflt in
  let o' := nth j' (hochberg_stepup (sidak_adjust (mk_sidak alpha (INR (length ps')))) ps') dflt in
  fst (fst o) = fst (fst o') /\ snd o = snd o'.
Proof.
  intros Ha Hperm Hu Hj Hj'. rewrite <- (Permutation_length Hperm). intros o o'.
  assert (Hp : 0 <= p) by (rewrite Forall_forall in Hu; apply (Hu p); eapply nth_error_In; exact Hj).
  assert (Hu' : Forall unit_p ps') by (rewrite Forall_forall in *; intros x Hx; apply Hu; apply (Permutation_in _ (Permutation_sym Hperm)); exact Hx).
  assert (E : fst (fst o) = fst (fst o')).
  { apply (stepup_padj_perm_invariant _ (length ps) (hochberg_sidak_Amono alpha (length ps) Ha) ps ps' j j' p); auto. }
  split; [exact E|].
  assert (Hlj : (j < length ps)%nat) by (apply nth_error_Some; rewrite Hj; discriminate).
  assert (Hlj' : (j' < length ps')%nat) by (apply nth_error_Some; rewrite Hj'; discriminate).
  pose proof (hochberg_sidak_rejected_iff_padj_input alpha ps j Ha Hu Hlj) as H1.
  pose proof (hochberg_sidak_rejected_iff_padj_input alpha ps' j' Ha Hu' Hlj') as H2.
  rewrite <- (Permutation_length Hperm) in H2.
  apply (bool_eq_iff _ _ _ _ H1 H2). fold o o'. rewrite E. tauto.
Qed.
Theorem holm_sidak_order_independent alpha ps ps' j j' p : 0 < alpha < 1 -> Permutation ps ps' -> Forall unit_p ps ->
  nth_error ps j = Some p -> nth_error ps' j' = Some p ->
  let o := nth j (holm_stepdown (sidak_adjust (mk_sidak alpha (INR (length ps)))) ps) dflt in
  let o' := nth j' (holm_stepdown (sidak_adjust (mk_sidak alpha (INR (length ps')))) ps') dflt in
  fst (fst o) = fst (fst o') /\ snd o = snd o'.
Proof.
  intros Ha Hperm Hu Hj Hj'. rewrite <- (Permutation_length Hperm). intros o o'.
  assert (Hp : 0 <= p) by (rewrite Forall_forall in Hu; apply (Hu p); eapply nth_error_In; exact Hj).
  assert (Hu' : Forall unit_p ps') by (rewrite Forall_forall in *; intros x Hx; apply Hu; apply (Permutation_in _ (Permutation_sym Hperm)); exact Hx).
  assert (E : fst (fst o) = fst (fst o')).
  { apply (stepdown_padj_perm_invariant _ (length ps) (holm_sidak_Amono alpha (length ps) Ha) ps ps' j j' p); auto. }
  split; [exact E|].
  assert (Hlj : (j < length ps)%nat) by (apply nth_error_Some; rewrite Hj; discriminate).
  assert (Hlj' : (j' < length ps')%nat) by (apply nth_error_Some; rewrite Hj'; discriminate).
  pose proof (holm_sidak_rejected_iff_padj_input alpha ps j Ha Hu Hlj) as H1.
  pose proof (holm_sidak_rejected_iff_padj_input alpha ps' j' Ha Hu' Hlj') as H2.
  rewrite <- (Permutation_length Hperm) in H2.
  apply (bool_eq_iff _ _ _ _ H1 H2). fold o o'. rewrite E. tauto.
Qed.
