(* C06 - CUPED/CUPAC is regression adjustment with the pooled coefficient. About genR/Mean.v. *)
From Coq Require Import Reals String List Lra.
From TT Require Import lib.PreludeR lib.Stats lib.Distr genR.Aggr genR.Mean
  proofs.C14_pooling proofs.Mean_core proofs.Mean_aggr.
Import ListNotations.
Local Open Scope R_scope.

(* pooled regression coefficient of the (linearised) metric on the (linearised) covariate *)
Definition theta_of (cfg : rom) (p : list row) : R :=
  if Req_EM_T (svar (linX cfg p) p) 0 then 0 else scov (linY cfg p) (linX cfg p) p / svar (linX cfg p) p.
(* pooled covariate level used for centring *)
Definition xbar_of (cfg : rom) (p : list row) : R :=
  smean (ocol (cfg_numer_covariate cfg)) p / smean (ocol (cfg_denom_covariate cfg)) p.
(* adjusted observations of one variant *)
Definition adj (cfg : rom) (p l : list row) : row -> R :=
  fun r => linY cfg l r - theta_of cfg p * (linX cfg l r - xbar_of cfg p).

Record dens_ok (cfg : rom) (l : list row) : Prop := {
  d_len : (2 <= length l)%nat;
  d_y : smean (ocol (cfg_denom cfg)) l <> 0;
  d_x : smean (ocol (cfg_denom_covariate cfg)) l <> 0 }.

Lemma app_len2 (lc lt : list row) : (2 <= length lc)%nat -> (2 <= length (lc ++ lt))%nat.
Proof. intros H. rewrite app_length. apply (Nat.le_trans _ _ _ H), Nat.le_add_r. Qed.

Lemma covariate_coef_repr cfg p : dens_ok cfg p -> rom_covariate_coef cfg (aggr_of p) = theta_of cfg p.
Proof.
  intros [Hl Hy Hx]. unfold rom_covariate_coef, theta_of.
  rewrite (covariate_var_repr cfg p Hl Hx), (covariate_cov_repr cfg p Hl Hy Hx). nR.
  destruct (Req_EM_T (svar (linX cfg p) p) 0) as [E|E].
  - (* the zero test, whichever way round the source writes it *)
    repeat match goal with |- context [Req_EM_T ?a ?b] => destruct (Req_EM_T a b); try congruence end; reflexivity.
  - repeat match goal with |- context [Req_EM_T ?a ?b] => destruct (Req_EM_T a b); try congruence end; reflexivity.
Qed.

Lemma lin_const_one_aux f l r : cnt l <> 0 -> lin f (fun _ => 1) l r = f r.
Proof. intros Hn. unfold lin. rewrite smean_const by exact Hn. field. Qed.

Lemma svar_shift f k l : cnt l <> 0 -> cnt l - 1 <> 0 -> svar (fun r => f r + k) l = svar f l.
Proof.
  intros H0 H1. unfold svar.
  rewrite (scov_ext (fun r => f r + k) (fun r => k + 1 * f r + 0 * f r)
                    (fun r => f r + k) (fun r => k + 1 * f r + 0 * f r) l) by (intros r; ring).
  rewrite scov_affine by assumption. ring.
Qed.

Section Regression.
Variable fam : dist_family R.
Variable cfg : rom.
Variables lc lt : list row.
Hypothesis Hc : dens_ok cfg lc.
Hypothesis Ht : dens_ok cfg lt.
Hypothesis Hp : dens_ok cfg (lc ++ lt).

Lemma cuped_regression_lemma :
  rom_analyze_aggregates fam cfg (aggr_of lc) (aggr_of lt)
  = rom_analyze_stats fam cfg
      (smean (adj cfg (lc ++ lt) lc) lc) (svar (adj cfg (lc ++ lt) lc) lc) (cnt lc)
      (smean (adj cfg (lc ++ lt) lt) lt) (svar (adj cfg (lc ++ lt) lt) lt) (cnt lt).
Proof.
  destruct Hc as [Hlc Hyc Hxc], Ht as [Hlt Hyt Hxt].
  pose proof (cnt_ge2 lc Hlc). pose proof (cnt_ge2 lt Hlt).
  unfold rom_analyze_aggregates, agg_with_zero_div, agg_wrap.
  rewrite (agg_add_aggr_of lc lt Hlc Hlt), (covariate_coef_repr cfg _ Hp).
  assert (Hxb : agg_mean (aggr_of (lc ++ lt)) (cfg_numer_covariate cfg)
                / agg_mean (aggr_of (lc ++ lt)) (cfg_denom_covariate cfg) = xbar_of cfg (lc ++ lt)).
  { pose proof (cnt_ge2 _ (d_len _ _ Hp)). unfold xbar_of. rewrite !agg_mean_aggr_of by lra. reflexivity. }
  nR. rewrite Hxb.
  rewrite (metric_mean_repr cfg lc Hlc Hyc Hxc), (metric_mean_repr cfg lt Hlt Hyt Hxt).
  rewrite (metric_var_repr cfg lc Hlc Hyc Hxc), (metric_var_repr cfg lt Hlt Hyt Hxt).
  rewrite !agg_count_aggr_of.
  set (th := theta_of cfg (lc ++ lt)). set (xb := xbar_of cfg (lc ++ lt)).
  assert (Hv : forall l, 2 <= cnt l ->
     svar (fun r => linY cfg l r - th * linX cfg l r) l = svar (adj cfg (lc ++ lt) l) l).
  { intros l Hl. rewrite <- (svar_shift _ (th * xb) l) by lra.
    unfold svar. apply scov_ext; intros r; unfold adj; fold th xb; ring. }
  rewrite (Hv lc), (Hv lt) by assumption. reflexivity.
Qed.

(* the count-weighted average of the adjusted means is the unadjusted pooled mean (metric without denominators) *)
Lemma cuped_mean_preserved_lemma :
  cfg_denom cfg = None -> cfg_denom_covariate cfg = None ->
  (cnt lc * smean (adj cfg (lc ++ lt) lc) lc + cnt lt * smean (adj cfg (lc ++ lt) lt) lt) / (cnt lc + cnt lt)
  = smean (col (cfg_numer cfg)) (lc ++ lt).
Proof.
  intros Hd Hdx. destruct Hc as [Hlc _ _], Ht as [Hlt _ _].
  pose proof (cnt_ge2 lc Hlc). pose proof (cnt_ge2 lt Hlt).
  set (th := theta_of cfg (lc ++ lt)).
  assert (HA : forall l, 2 <= cnt l -> smean (adj cfg (lc ++ lt) l) l
             = smean (col (cfg_numer cfg)) l - th * (smean (ocol (cfg_numer_covariate cfg)) l - xbar_of cfg (lc ++ lt))).
  { intros l Hl. unfold adj. fold th.
    rewrite (smean_ext _ (fun r => th * xbar_of cfg (lc ++ lt) + 1 * col (cfg_numer cfg) r
                                   + (- th) * ocol (cfg_numer_covariate cfg) r) l).
    - rewrite smean_affine by lra. ring.
    - intros r. unfold linY, linX. rewrite Hd, Hdx. cbn [ocol]. rewrite !lin_const_one_aux by lra. ring. }
  rewrite (HA lc), (HA lt) by assumption.
  unfold xbar_of. rewrite Hdx. cbn [ocol]. rewrite (smean_const 1 (lc ++ lt)) by (rewrite cnt_app; lra).
  unfold smean. rewrite !rsum_app, !cnt_app. field. lra.
Qed.
End Regression.

(* _analyze_stats reads only the four test options of the configuration *)
Lemma analyze_stats_cfg fam c1 c2 cm cv cn tm tv tn :
  cfg_alternative c1 = cfg_alternative c2 -> cfg_confidence_level c1 = cfg_confidence_level c2 ->
  cfg_equal_var c1 = cfg_equal_var c2 -> cfg_use_t c1 = cfg_use_t c2 ->
  rom_analyze_stats fam c1 cm cv cn tm tv tn = rom_analyze_stats fam c2 cm cv cn tm tv tn.
Proof.
  intros Ha Hl He Hu. unfold rom_analyze_stats, rom_scale_and_distr. rewrite Ha, Hl, He, Hu. reflexivity.
Qed.

(* a covariate with zero (linearised, pooled) variance leaves the unadjusted result *)
Lemma cuped_zero_variance_lemma fam cfg lc lt :
  dens_ok cfg lc -> dens_ok cfg lt -> dens_ok cfg (lc ++ lt) ->
  svar (linX cfg (lc ++ lt)) (lc ++ lt) = 0 ->
  rom_analyze_aggregates fam cfg (aggr_of lc) (aggr_of lt)
  = rom_analyze_stats fam cfg (smean (linY cfg lc) lc) (svar (linY cfg lc) lc) (cnt lc)
                              (smean (linY cfg lt) lt) (svar (linY cfg lt) lt) (cnt lt).
Proof.
  intros Hc Ht Hp H0. rewrite (cuped_regression_lemma fam cfg lc lt Hc Ht Hp).
  assert (Hth : theta_of cfg (lc ++ lt) = 0).
  { unfold theta_of. destruct (Req_EM_T _ 0); [reflexivity | contradiction]. }
  assert (HA : forall l r, adj cfg (lc ++ lt) l r = linY cfg l r) by (intros l r; unfold adj; rewrite Hth; ring).
  unfold svar.
  rewrite (smean_ext _ _ lc (HA lc)), (smean_ext _ _ lt (HA lt)),
          (scov_ext _ _ _ _ lc (HA lc) (HA lc)), (scov_ext _ _ _ _ lt (HA lt) (HA lt)).
  reflexivity.
Qed.

(* replacing the covariate by an affine image (a <> 0) of itself changes nothing *)
Section Affine.
Variable fam : dist_family R.
Variables cfg cfg' : rom.
Variables lc lt : list row.
Variables a b : R.
Hypothesis Ha : a <> 0.
Hypothesis Hnum : cfg_numer cfg' = cfg_numer cfg.
Hypothesis Hden : cfg_denom cfg' = cfg_denom cfg.
Hypothesis Halt : cfg_alternative cfg' = cfg_alternative cfg.
Hypothesis Hcl : cfg_confidence_level cfg' = cfg_confidence_level cfg.
Hypothesis Hev : cfg_equal_var cfg' = cfg_equal_var cfg.
Hypothesis Hut : cfg_use_t cfg' = cfg_use_t cfg.
Hypothesis Hc : dens_ok cfg lc.   Hypothesis Hc' : dens_ok cfg' lc.
Hypothesis Ht : dens_ok cfg lt.   Hypothesis Ht' : dens_ok cfg' lt.
Hypothesis Hp : dens_ok cfg (lc ++ lt).   Hypothesis Hp' : dens_ok cfg' (lc ++ lt).
Hypothesis HXc : forall r, In r lc -> linX cfg' lc r = a * linX cfg lc r + b.
Hypothesis HXt : forall r, In r lt -> linX cfg' lt r = a * linX cfg lt r + b.
Hypothesis HXp : forall r, In r (lc ++ lt) -> linX cfg' (lc ++ lt) r = a * linX cfg (lc ++ lt) r + b.
Hypothesis Hxbar : xbar_of cfg' (lc ++ lt) = a * xbar_of cfg (lc ++ lt) + b.

Lemma linY_same l r : linY cfg' l r = linY cfg l r.
Proof. unfold linY. rewrite Hnum, Hden. reflexivity. Qed.

Local Notation p := (lc ++ lt).
Lemma theta_affine : theta_of cfg' (lc ++ lt) = theta_of cfg (lc ++ lt) / a.
Proof.
  pose proof (cnt_ge2 p (d_len _ _ Hp)) as Hn.
  assert (HV : svar (linX cfg' p) p = a * a * svar (linX cfg p) p).
  { unfold svar. rewrite (scov_ext_in _ (fun r => b + a * linX cfg p r + 0 * linX cfg p r)
                                     _ (fun r => b + a * linX cfg p r + 0 * linX cfg p r) p)
      by (intros r Hr; rewrite (HXp r Hr); ring).
    rewrite scov_affine by lra. ring. }
  assert (HC : scov (linY cfg' p) (linX cfg' p) p = a * scov (linY cfg p) (linX cfg p) p).
  { rewrite (scov_ext_in _ (fun r => 0 + 1 * linY cfg p r + 0 * linY cfg p r)
                         _ (fun r => b + a * linX cfg p r + 0 * linX cfg p r) p)
      by (intros r Hr; rewrite ?linY_same, ?(HXp r Hr); ring).
    rewrite scov_affine by lra. ring. }
  unfold theta_of. rewrite HV, HC.
  destruct (Req_EM_T (svar (linX cfg p) p) 0) as [E|E].
  - rewrite E, Rmult_0_r. destruct (Req_EM_T 0 0) as [_|N]; [unfold Rdiv; ring | contradiction].
  - destruct (Req_EM_T (a * a * svar (linX cfg p) p) 0) as [E'|_].
    + exfalso. apply E. apply Rmult_integral in E'. destruct E' as [E'|E']; [|exact E'].
      apply Rmult_integral in E'. destruct E'; contradiction.
    + field. split; assumption.
Qed.

Lemma adj_same_c r : In r lc -> adj cfg' (lc ++ lt) lc r = adj cfg (lc ++ lt) lc r.
Proof. intros Hr. unfold adj. rewrite theta_affine, Hxbar, linY_same, (HXc r Hr). field. exact Ha. Qed.
Lemma adj_same_t r : In r lt -> adj cfg' (lc ++ lt) lt r = adj cfg (lc ++ lt) lt r.
Proof. intros Hr. unfold adj. rewrite theta_affine, Hxbar, linY_same, (HXt r Hr). field. exact Ha. Qed.

Lemma covariate_affine_invariant_lemma :
  rom_analyze_aggregates fam cfg' (aggr_of lc) (aggr_of lt) = rom_analyze_aggregates fam cfg (aggr_of lc) (aggr_of lt).
Proof.
  rewrite (cuped_regression_lemma fam cfg' lc lt Hc' Ht' Hp'), (cuped_regression_lemma fam cfg lc lt Hc Ht Hp).
  unfold svar.
  rewrite (smean_ext_in _ _ lc adj_same_c), (smean_ext_in _ _ lt adj_same_t),
          (scov_ext_in _ _ _ _ lc adj_same_c adj_same_c), (scov_ext_in _ _ _ _ lt adj_same_t adj_same_t).
  apply analyze_stats_cfg; assumption.
Qed.
End Affine.

(* ---------- instances ---------- *)
Lemma dens_ok_no_denoms cfg l : cfg_denom cfg = None -> cfg_denom_covariate cfg = None ->
  (2 <= length l)%nat -> dens_ok cfg l.
Proof.
  intros H1 H2 Hl. pose proof (cnt_ge2 l Hl). constructor; [exact Hl | |];
    rewrite ?H1, ?H2; cbn [ocol]; rewrite smean_const; lra.
Qed.

(* Mean(value, covariate): the adjusted observation is  Y - theta * (X - mean_pooled X) *)
Lemma mean_adj_shape cfg v c p l r :
  cfg_numer cfg = v -> cfg_denom cfg = None -> cfg_numer_covariate cfg = Some c -> cfg_denom_covariate cfg = None ->
  cnt l <> 0 -> cnt p <> 0 ->
  adj cfg p l r = r v - theta_of cfg p * (r c - smean (col c) p).
Proof.
  intros Hv Hd Hc Hdc Hl Hp. unfold adj, xbar_of, linY, linX. rewrite Hv, Hd, Hc, Hdc. cbn [ocol].
  rewrite !lin_const_one_aux by exact Hl. rewrite (smean_const 1 p) by exact Hp. unfold col. field.
Qed.
Lemma mean_theta_shape cfg v c p :
  cfg_numer cfg = v -> cfg_denom cfg = None -> cfg_numer_covariate cfg = Some c -> cfg_denom_covariate cfg = None ->
  cnt p <> 0 ->
  theta_of cfg p = if Req_EM_T (svar (col c) p) 0 then 0 else scov (col v) (col c) p / svar (col c) p.
Proof.
  intros Hv Hd Hc Hdc Hp. unfold theta_of, linY, linX. rewrite Hv, Hd, Hc, Hdc. cbn [ocol].
  assert (E1 : forall r, lin (col v) (fun _ => 1) p r = col v r) by (intros r; apply lin_const_one_aux; exact Hp).
  assert (E2 : forall r, lin (col c) (fun _ => 1) p r = col c r) by (intros r; apply lin_const_one_aux; exact Hp).
  unfold svar. rewrite (scov_ext _ _ _ _ p E2 E2), (scov_ext _ _ _ _ p E1 E2). reflexivity.
Qed.

Lemma mean_affine_invariant_lemma fam v c c' alt cl ev ut alpha ratio power (lc lt : list row) a b :
  a <> 0 -> (2 <= length lc)%nat -> (2 <= length lt)%nat ->
  (forall r, In r (lc ++ lt) -> r c' = a * r c + b) ->
  rom_analyze_aggregates fam (mean_cfg v (Some c') alt cl ev ut alpha ratio power) (aggr_of lc) (aggr_of lt)
  = rom_analyze_aggregates fam (mean_cfg v (Some c) alt cl ev ut alpha ratio power) (aggr_of lc) (aggr_of lt).
Proof.
  intros Ha Hlc Hlt Hrel.
  pose proof (cnt_ge2 lc Hlc). pose proof (cnt_ge2 lt Hlt).
  pose proof (app_len2 lc lt Hlc) as Hlp. pose proof (cnt_ge2 _ Hlp).
  set (cfg := mean_cfg v (Some c) alt cl ev ut alpha ratio power).
  set (cfg' := mean_cfg v (Some c') alt cl ev ut alpha ratio power).
  assert (HX : forall l, cnt l <> 0 -> (forall r, In r l -> In r (lc ++ lt)) ->
               forall r, In r l -> linX cfg' l r = a * linX cfg l r + b).
  { intros l Hl Hsub r Hr. unfold linX. cbn [cfg cfg' mean_cfg cfg_numer_covariate cfg_denom_covariate ocol].
    rewrite !lin_const_one_aux by exact Hl. unfold col. apply Hrel, Hsub, Hr. }
  apply (covariate_affine_invariant_lemma fam cfg cfg' lc lt a b Ha); try reflexivity;
    try (apply dens_ok_no_denoms; [reflexivity | reflexivity | assumption]).
  - apply HX; [lra | intros r Hr; apply in_or_app; left; exact Hr].
  - apply HX; [lra | intros r Hr; apply in_or_app; right; exact Hr].
  - apply HX; [lra | auto].
  - subst cfg cfg'. unfold xbar_of, mean_cfg. cbn [cfg_numer_covariate cfg_denom_covariate ocol].
    rewrite (smean_const 1 (lc ++ lt)) by lra.
    rewrite (smean_ext_in (col c') (fun r => b + a * col c r + 0 * col c r) (lc ++ lt))
      by (intros r Hr; unfold col; rewrite (Hrel r Hr); ring).
    rewrite smean_affine by lra. field.
Qed.

(* rescaling a covariate column (numerator or denominator of the covariate ratio) changes nothing *)
Lemma lin_scale_numer f f' g k l : (forall r, In r l -> f' r = k * f r) ->
  forall r, In r l -> lin f' g l r = k * lin f g l r + 0.
Proof.
  intros Hf r Hr. unfold lin.
  assert (Hm : smean f' l = k * smean f l).
  { unfold smean. rewrite (rsum_ext_in f' (fun r => k * f r) l Hf), rsum_scal. unfold Rdiv. ring. }
  rewrite Hm, (Hf r Hr). unfold Rdiv. ring.
Qed.
Lemma lin_scale_denom f g g' k l : k <> 0 -> smean g l <> 0 -> (forall r, In r l -> g' r = k * g r) ->
  forall r, In r l -> lin f g' l r = / k * lin f g l r + 0.
Proof.
  intros Hk Hg Hg' r Hr. unfold lin.
  assert (Hm : smean g' l = k * smean g l).
  { unfold smean. rewrite (rsum_ext_in g' (fun r => k * g r) l Hg'), rsum_scal. unfold Rdiv. ring. }
  rewrite Hm, (Hg' r Hr). field. split; assumption.
Qed.
