(* C19 - parameters are accepted exactly in their documented domain. About genP/Utils.v (regenerated from utils.py). *)
From Coq Require Import ZArith QArith String List Bool Lia.
From TT Require Import lib.PyVal genP.Utils model.C19_spec.
Import ListNotations.
Local Open Scope bool_scope.

(* meaning of the float order used above *)
Lemma flt_fin x y : flt (FFin x) (FFin y) = true <-> (x < y)%Q.
Proof. cbn. rewrite Qlt_alt. destruct (x ?= y)%Q; split; congruence. Qed.
Lemma flt_nan_l f : flt FNaN f = false. Proof. reflexivity. Qed.
Lemma flt_nan_r f : flt f FNaN = false. Proof. destruct f; reflexivity. Qed.

Lemma inject_lt0 z : (match (inject_Z 0 ?= inject_Z z)%Q with Lt => true | _ => false end) = (0 <? z)%Z.
Proof.
  unfold Qcompare, inject_Z. cbn [Qnum Qden]. rewrite !Z.mul_1_r. unfold Z.ltb. destruct (0 ?= z)%Z; reflexivity.
Qed.
Lemma inject_lt1 z : (match (inject_Z 1 ?= inject_Z z)%Q with Lt => true | _ => false end) = (1 <? z)%Z.
Proof.
  unfold Qcompare, inject_Z. cbn [Qnum Qden]. rewrite !Z.mul_1_r. unfold Z.ltb. destruct (1 ?= z)%Z; reflexivity.
Qed.

Ltac fin_cases :=
  repeat match goal with
  | |- context [Qcompare ?a ?b] => destruct (Qcompare a b) eqn:?
  | |- context [Qeq_bool ?a ?b] => destruct (Qeq_bool a b) eqn:?
  end; cbn; try reflexivity; try discriminate.

Lemma ac_open01 name v : name = "alpha"%string \/ name = "power"%string \/ name = "confidence_level"%string ->
  is_ok (auto_check v name) = in_domain name v.
Proof.
  intros [H|[H|H]]; subst name; destruct v as [| b | z | f | s | l |]; try reflexivity;
    destruct f as [| | | q]; try reflexivity; cbv - [Qcompare Qeq_bool]; fin_cases.
Qed.
Lemma ac_bool name v : name = "correction"%string \/ name = "equal_var"%string \/ name = "use_t"%string ->
  is_ok (auto_check v name) = in_domain name v.
Proof. intros [H|[H|H]]; subst name; destruct v; reflexivity. Qed.
Lemma ac_alternative v : is_ok (auto_check v "alternative") = in_domain "alternative" v.
Proof.
  destruct v as [| b | z | f | s | l |]; try reflexivity. cbn.
  destruct (String.eqb s "two-sided"), (String.eqb s "greater"), (String.eqb s "less"); reflexivity.
Qed.
Lemma ac_n_resamples v : is_ok (auto_check v "n_resamples") = in_domain "n_resamples" v.
Proof.
  destruct v as [| b | z | f | s | l |]; try reflexivity.
  - destruct b; reflexivity.
  - cbv - [Qcompare Qeq_bool inject_Z Z.ltb]. rewrite <- inject_lt0. fin_cases.
Qed.
Lemma ac_ratio v : is_ok (auto_check v "ratio") = in_domain "ratio" v.
Proof.
  destruct v as [| b | z | f | s | l |]; try reflexivity.
  - destruct b; reflexivity.
  - cbv - [Qcompare Qeq_bool inject_Z Z.ltb]. rewrite <- inject_lt0. fin_cases.
  - destruct f as [| | | q]; try reflexivity. cbv - [Qcompare Qeq_bool]. fin_cases.
Qed.

(* n_obs: the per-element check over a sequence *)
Definition elem_check (x : pyval) : result pyval :=
  check_scalar x (Some [TInt]) None (Some (VInt 1)) None None None None.
Lemma elem_check_ok x : is_ok (elem_check x) = int_gt 1 x.
Proof.
  destruct x as [| b | z | f | s | l |]; try reflexivity.
  - destruct b; reflexivity.
  - cbv - [Qcompare Qeq_bool inject_Z Z.ltb]. rewrite <- inject_lt1. fin_cases.
Qed.
Lemma check_all_ok l : is_ok (check_all elem_check l) = forallb (int_gt 1) l.
Proof.
  induction l as [|x t IH]; [reflexivity|]. cbn [check_all forallb].
  rewrite <- elem_check_ok, <- IH. destruct (elem_check x); reflexivity.
Qed.
Lemma check_all_chars c s : is_ok (check_all elem_check (chars (String c s))) = false.
Proof. reflexivity. Qed.

Lemma ac_n_obs v : v <> VStr "" -> is_ok (auto_check v "n_obs") = in_domain "n_obs" v.
Proof.
  intros Hne. destruct v as [| b | z | f | s | l |]; try reflexivity.
  - destruct b; reflexivity.
  - cbv - [Qcompare Qeq_bool inject_Z Z.ltb]. rewrite <- inject_lt1. fin_cases.
  - destruct s as [|c s]; [contradiction Hne; reflexivity|]. reflexivity.
  - change (is_ok (auto_check (VSeq l) "n_obs")) with
      (is_ok (bind (check_all elem_check l) (fun _ => Ok (VSeq l)))).
    change (in_domain "n_obs" (VSeq l)) with (forallb (int_gt 1) l).
    rewrite <- check_all_ok. destruct (check_all elem_check l); reflexivity.
Qed.

Lemma auto_check_returns_value v name r : auto_check v name = Ok r -> r = v.
Proof.
  unfold auto_check.
  repeat match goal with
  | |- context [String.eqb name ?s] => destruct (String.eqb name s)
  end;
  repeat match goal with
  | |- context [isinstance v ?t] => destruct (isinstance v t)
  end;
  repeat match goal with
  | |- context [bind ?x _] => destruct x; cbn [bind]
  end; intros H; try discriminate; injection H as <-; reflexivity.
Qed.

Lemma auto_check_iff_lemma name v : In name auto_check_names -> ~ (name = "n_obs"%string /\ v = VStr "") ->
  is_ok (auto_check v name) = in_domain name v.
Proof.
  intros Hin Hex. cbn in Hin.
  repeat destruct Hin as [Hin|Hin]; try contradiction; subst name.
  - apply ac_alternative.
  - apply ac_open01; auto.
  - apply ac_bool; auto.
  - apply ac_bool; auto.
  - apply ac_n_obs. intros E. apply Hex. split; [reflexivity | exact E].
  - apply ac_n_resamples.
  - apply ac_open01; auto.
  - apply ac_ratio.
  - apply ac_bool; auto.
  - apply ac_open01; auto.
Qed.

Lemma other_names_unrestricted name v : ~ In name auto_check_names -> auto_check v name = Ok v.
Proof.
  intros Hn. cbn in Hn. unfold auto_check.
  repeat match goal with
  | |- context [String.eqb name ?s] =>
      let E := fresh in destruct (String.eqb name s) eqn:E;
      [apply String.eqb_eq in E; exfalso; apply Hn; rewrite E; cbn; tauto|]
  end. reflexivity.
Qed.
