(* C02 - the result of evaluating a query plan does not depend on the order of the rows: corollary of the C01
   denotation theorem and of the permutation invariance of the exact statistics. *)
From Coq Require Import Reals String List Bool Lra Permutation.
From TT Require Import lib.Plan lib.PlanSem lib.Stats model.ReadPlan proofs.C01_plans proofs.C01_denote.
Import ListNotations.
Local Open Scope R_scope.

Lemma filter_perm {X} (p : X -> bool) l l' : Permutation l l' -> Permutation (filter p l) (filter p l').
Proof.
  induction 1 as [|x l l' _ IH|x y l|l l' l'' _ IH1 _ IH2]; cbn.
  - constructor.
  - destruct (p x); [constructor|]; exact IH.
  - destruct (p x), (p y); try apply Permutation_refl; apply perm_swap.
  - eapply Permutation_trans; eassumption.
Qed.

(* the rows of a group in a permuted table are a permutation of the rows of that group *)
Lemma part_perm g rep rep' tbl tbl' : Permutation tbl tbl' -> same_group g rep rep' = true ->
  Permutation (part g rep tbl) (part g rep' tbl').
Proof.
  intros Hp Hs. unfold part.
  rewrite (filter_ext (same_group g rep') (same_group g rep) (same_group_trans_eq g rep rep' Hs)).
  apply filter_perm. exact Hp.
Qed.

Section PlanPerm.
Variables (q : request) (g : option string) (tbl tbl' : table).
Hypothesis Hperm : Permutation tbl tbl'.

(* two result rows that are exact for the same group of the two tables carry the same statistics *)
Lemma exact_rows_agree wc rep rep' o o' : same_group g rep rep' = true ->
  exact_for_gen q g tbl wc rep o -> exact_for_gen q g tbl' wc rep' o' ->
  (wc = true -> o a_count = o' a_count) /\
  (forall c, In c (r_mean q) -> o (a_mean c) = o' (a_mean c)) /\
  (forall c, In c (r_var q) -> o (a_var c) = o' (a_var c)) /\
  (forall p, In p (r_cov q) -> o (a_cov p) = o' (a_cov p)).
Proof.
  intros Hs (H1 & H2 & H3 & H4 & _) (H1' & H2' & H3' & H4' & _).
  pose proof (part_perm g rep rep' tbl tbl' Hperm Hs) as Hp.
  repeat split.
  - intros Hw. rewrite (H1 Hw), (H1' Hw). apply cnt_perm. exact Hp.
  - intros c Hc. rewrite (H2 c Hc), (H2' c Hc). apply smean_perm. exact Hp.
  - intros c Hc. rewrite (H3 c Hc), (H3' c Hc). apply scov_perm. exact Hp.
  - intros p Hc. rewrite (H4 p Hc), (H4' p Hc). apply scov_perm. exact Hp.
Qed.
End PlanPerm.
