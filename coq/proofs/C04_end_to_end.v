(* From the table to the analysis: the result rows of a builder's query plan (C01 denotation), read back by
   _get_aggregates, give Mean / RatioOfMeans the same analysis as the exact statistics of the variants' rows - to which
   the textbook theorems of C04 / C05 / C06 apply. *)
From Coq Require Import Reals String List Bool Lra.
From TT Require Import lib.PreludeR lib.Stats lib.Plan lib.PlanSem model.ReadPlan genR.Aggr genR.Mean
  proofs.C14_pooling proofs.C12_agree proofs.C01_plans proofs.C01_denote.
Import ListNotations.
Local Open Scope R_scope.

(* aggr._get_aggregates: an Aggregates object reads the named output columns of its variant's result row *)
Definition row_aggr (o : row) : aggregates R :=
  mk_aggregates (Some (o a_count)) (fun c => o (a_mean c)) (fun c => o (a_var c)) (fun p => o (a_cov p)).

Section EndToEnd.
Variable fam : dist_family R.
Variable cfg : rom.
Variable q : request.
Variable g : option string.
Variable tbl : table.
(* the request covers the metric's columns (RatioOfMeans.aggr_cols: means and variances of all its columns, covariances of
   all pairs in sorted order; other metrics of the experiment may add more) *)
Hypothesis Hmean : forall c, In c (cfg_cols cfg) -> In c (r_mean q).
Hypothesis Hvar : forall c, In c (cfg_cols cfg) -> In c (r_var q).
Hypothesis Hcov : forall c d, In c (cfg_cols cfg) -> In d (cfg_cols cfg) -> c <> d -> In (sorted_tuple c d) (r_cov q).

Lemma exact_row_agrees rep o : exact_for_gen q g tbl true rep o ->
  agree (cfg_cols cfg) (row_aggr o) (aggr_of (part g rep tbl)).
Proof.
  intros (Hc & Hm & Hv & Hcv & _). unfold agree, row_aggr, aggr_of. cbn [count_ mean_ var_ cov_]. repeat split.
  - rewrite (Hc eq_refl). reflexivity.
  - apply Hm. apply Hmean. assumption.
  - apply Hv. apply Hvar. assumption.
  - intros c d Hc' Hd' Hne. apply Hcv. apply Hcov; assumption.
Qed.

Theorem analysis_of_plan_rows_is_analysis_of_exact_statistics repc rept oc ot : NoDup (cfg_cols cfg) ->
  exact_for_gen q g tbl true repc oc -> exact_for_gen q g tbl true rept ot ->
  rom_analyze_aggregates fam cfg (row_aggr oc) (row_aggr ot)
  = rom_analyze_aggregates fam cfg (aggr_of (part g repc tbl)) (aggr_of (part g rept tbl)).
Proof.
  intros Hnd Hc Ht. apply analysis_reads_only_declared; [exact Hnd | apply exact_row_agrees; exact Hc | apply exact_row_agrees; exact Ht].
Qed.
End EndToEnd.
