(* C10 - step-up / step-down procedures regenerated from multiplicity.py (genR/Multiplicity.v), in processing order. *)
From Coq Require Import Reals List Arith Bool Lra Lia Sorted.
From TT Require Import lib.RTac lib.PreludeR lib.Loop genR.Multiplicity.
Import ListNotations.
Local Open Scope R_scope.

Ltac nR := cbv [nlit nraise neqb nleb nltb nmin nmax nofnat] in *.

Lemma nleb_true a b : nleb a b = true <-> a <= b.
Proof. unfold nleb. destruct (Rle_dec a b); split; intros; try reflexivity; try assumption; try discriminate; contradiction. Qed.
Lemma nleb_false a b : nleb a b = false <-> b < a.
Proof. unfold nleb. destruct (Rle_dec a b); split; intros; try reflexivity; try discriminate; lra. Qed.
Lemma nltb_true a b : nltb a b = true <-> a < b.
Proof. unfold nltb. destruct (Rlt_dec a b); split; intros; try reflexivity; try assumption; try discriminate; contradiction. Qed.
Lemma neqb_true a b : neqb a b = true <-> a = b.
Proof. unfold neqb. destruct (Req_EM_T a b); split; intros; try reflexivity; try assumption; try discriminate; contradiction. Qed.

(* ================= step-up (Hochberg / Benjamini) ================= *)
Section StepUp.
Variable adjust : R -> R -> R * R.
Variable m : R.
Notation body := (hochberg_stepup_body adjust m).
Definition Aup (i : nat) (p : R) : R := fst (adjust p (m - INR i)).   (* adjusted p-value before the running minimum *)
Definition Tup (i : nat) (p : R) : R := snd (adjust p (m - INR i)).   (* threshold before the running maximum *)
Definition am_next (am : R) (i : nat) (p : R) : R :=
  if neqb am 0 && nleb p (Tup i p) then Tup i p else am.

Lemma body_spec pm am i p :
  body (pm, am) (INR i) p =
  ((Rmin (Aup i p) pm, am_next am i p),
   (Rmin (Aup i p) pm, Rmax (Tup i p) (am_next am i p), nleb p (Rmax (Tup i p) (am_next am i p)))).
Proof.
  unfold hochberg_stepup_body, am_next. unfold Aup, Tup. cbv zeta. canon_to (m - INR i).
  destruct (adjust p (m - INR i)) as [a t]. nR. cbv [nmin nmax]. cbn [fst snd].
  destruct ((if Req_EM_T am 0 then true else false) && (if Rle_dec p t then true else false)); first [reflexivity | (cbv beta iota zeta; rq)].
Qed.

(* outputs of the loop over a list in processing order *)
Fixpoint up_spec (pm am : R) (i : nat) (l : list (nat * R)) : list (nat * (R * R * bool)) :=
  match l with
  | [] => []
  | (idx, p) :: t =>
      let v := Rmin (Aup i p) pm in let am' := am_next am i p in
      (idx, (v, Rmax (Tup i p) am', nleb p (Rmax (Tup i p) am'))) :: up_spec v am' (S i) t
  end.
Lemma run_loop_up pm am i l : run_loop nofnat body (pm, am) i l = up_spec pm am i l.
Proof.
  revert pm am i. induction l as [|[idx p] t IH]; intros pm am i; [reflexivity|].
  cbn [run_loop up_spec]. unfold nofnat. rewrite body_spec. rewrite IH. reflexivity.
Qed.

(* 1. the flag is exactly  pvalue <= alpha_adj *)
Lemma up_flag pm am i l idx pa aa rj :
  In (idx, (pa, aa, rj)) (up_spec pm am i l) -> exists p, In (idx, p) l /\ rj = nleb p aa.
Proof.
  revert pm am i. induction l as [|[idx0 p0] t IH]; intros pm am i H; [destruct H|].
  cbn [up_spec] in H. destruct H as [H|H].
  - injection H as <- <- <- <-. exists p0. split; [left; reflexivity | reflexivity].
  - destruct (IH _ _ _ H) as [p [Hin Hr]]. exists p. split; [right; exact Hin | exact Hr].
Qed.

(* 2. adjusted p-values: running minimum, starting from pm (= 1) *)
Fixpoint avals (i : nat) (l : list (nat * R)) : list R :=
  match l with [] => [] | (_, p) :: t => Aup i p :: avals (S i) t end.
Definition rmin_list (pm : R) (xs : list R) : R := fold_left Rmin xs pm.

Lemma rmin_list_le pm xs : rmin_list pm xs <= pm.
Proof.
  revert pm. induction xs as [|x t IH]; intros pm; cbn; [lra|].
  eapply Rle_trans; [apply IH | apply Rmin_l].
Qed.
Lemma rmin_list_lower b pm xs : b <= pm -> Forall (fun x => b <= x) xs -> b <= rmin_list pm xs.
Proof.
  revert pm. induction xs as [|x t IH]; intros pm Hpm Hx; cbn; [exact Hpm|].
  inversion Hx; subst. apply IH; [apply Rmin_glb; assumption | assumption].
Qed.
Lemma rmin_list_le_iff a pm xs : rmin_list pm xs <= a <-> pm <= a \/ Exists (fun x => x <= a) xs.
Proof.
  revert pm. induction xs as [|x t IH]; intros pm.
  - cbn. split; [auto | intros [H|H]; [exact H | inversion H]].
  - change (rmin_list pm (x :: t)) with (rmin_list (Rmin pm x) t). rewrite IH. unfold Rmin. destruct (Rle_dec pm x); split.
    + intros [H|H]; [left; exact H | right; right; exact H].
    + intros [H|H]; [left; exact H | inversion H; subst; [left; lra | right; assumption]].
    + intros [H|H]; [right; left; lra | right; right; exact H].
    + intros [H|H]; [left; lra | inversion H; subst; [left; assumption | right; assumption]].
Qed.

Lemma up_padj pm am i l t idx pa aa rj :
  nth_error (up_spec pm am i l) t = Some (idx, (pa, aa, rj)) ->
  pa = rmin_list pm (avals i (firstn (S t) l)).
Proof.
  revert pm am i t. induction l as [|[idx0 p0] tl IH]; intros pm am i t H; [destruct t; discriminate|].
  cbn [up_spec] in H. destruct t as [|t]; cbn [nth_error] in H.
  - injection H as <- <- <- <-. destruct tl; cbn; apply Rmin_comm.
  - rewrite (IH _ _ _ _ H). cbn [firstn avals rmin_list fold_left]. rewrite Rmin_comm. reflexivity.
Qed.

(* adjusted p-values never increase along the processing order, so they preserve the order of the raw ones *)
Lemma up_padj_monotone pm am i l t idx pa aa rj t' idx' pa' aa' rj' :
  nth_error (up_spec pm am i l) t = Some (idx, (pa, aa, rj)) ->
  nth_error (up_spec pm am i l) t' = Some (idx', (pa', aa', rj')) ->
  (t <= t')%nat -> pa' <= pa.
Proof.
  revert pm am i t t'. induction l as [|[idx0 p0] tl IH]; intros pm am i t t' H H' Hle; [destruct t; discriminate|].
  destruct t as [|t].
  - cbn in H. injection H as <- <- <- <-.
    rewrite (up_padj _ _ _ _ _ _ _ _ _ H'). cbn [firstn avals rmin_list fold_left].
    rewrite Rmin_comm. apply rmin_list_le.
  - destruct t' as [|t']; [lia|]. cbn [up_spec nth_error] in H, H'. eapply IH; [exact H | exact H' | lia].
Qed.

(* 3. rejection: once a hypothesis meets its threshold, it and all later (smaller) ones are rejected *)
Fixpoint anyhit (i : nat) (l : list (nat * R)) : bool :=
  match l with [] => false | (_, p) :: t => nleb p (Tup i p) || anyhit (S i) t end.
Definition desc (x y : nat * R) : Prop := snd y <= snd x.

Lemma up_rej_set pm am i l : 0 < am -> Forall (fun x => snd x <= am) l ->
  forall t idx pa aa rj, nth_error (up_spec pm am i l) t = Some (idx, (pa, aa, rj)) -> rj = true.
Proof.
  revert pm i. induction l as [|[idx0 p0] tl IH]; intros pm i Ham Hall t idx pa aa rj H; [destruct t; discriminate|].
  inversion Hall as [|? ? Hp0 Htl]; subst. cbn [snd] in Hp0.
  assert (Hn : am_next am i p0 = am).
  { unfold am_next. replace (neqb am 0) with false; [reflexivity|]. symmetry.
    destruct (neqb am 0) eqn:E; [apply neqb_true in E; lra | reflexivity]. }
  cbn [up_spec] in H. rewrite Hn in H. destruct t as [|t]; cbn [nth_error] in H.
  - injection H as <- <- <- <-. apply nleb_true. eapply Rle_trans; [exact Hp0 | apply Rmax_r].
  - eapply IH; eassumption.
Qed.

Lemma up_rejection pm i l : (forall j p, (i <= j < i + length l)%nat -> 0 < Tup j p) -> StronglySorted desc l ->
  forall t idx pa aa rj, nth_error (up_spec pm 0 i l) t = Some (idx, (pa, aa, rj)) ->
  rj = anyhit i (firstn (S t) l).
Proof.
  revert pm i. induction l as [|[idx0 p0] tl IH]; intros pm i HT Hs t idx pa aa rj H; [destruct t; discriminate|].
  inversion Hs as [|? ? Hs' Hall]; subst.
  assert (HT0 : forall p, 0 < Tup i p) by (intros p; apply HT; cbn [length]; lia).
  assert (HT' : forall j p, (S i <= j < S i + length tl)%nat -> 0 < Tup j p) by (intros j p Hj; apply HT; cbn [length]; lia).
  cbn [up_spec] in H. unfold am_next in H.
  replace (neqb 0 0) with true in H by (symmetry; apply neqb_true; reflexivity). cbn [andb] in H.
  destruct (nleb p0 (Tup i p0)) eqn:E.
  - (* threshold met at the head *)
    cbn [firstn anyhit]. rewrite E. cbn [orb].
    destruct t as [|t]; cbn [nth_error] in H.
    + injection H as <- <- <- <-. apply nleb_true. apply nleb_true in E. eapply Rle_trans; [exact E | apply Rmax_l].
    + eapply (up_rej_set _ (Tup i p0)); [apply HT0 | | exact H].
      rewrite Forall_forall in *. intros x Hx. specialize (Hall x Hx). unfold desc in Hall. cbn [snd] in Hall.
      apply nleb_true in E. lra.
  - cbn [firstn anyhit]. rewrite E. cbn [orb].
    destruct t as [|t]; cbn [nth_error] in H.
    + injection H as <- <- <- <-. destruct tl; cbn [firstn anyhit]; apply nleb_false in E; apply nleb_false;
        rewrite Rmax_left by (pose proof (HT0 p0); lra); exact E.
    + apply (IH _ _ HT' Hs' _ _ _ _ _ H).
Qed.

(* 4. rejected  <->  adjusted p-value <= alpha, when `adjust` is consistent and alpha < 1 *)
Lemma Forall_firstn_gen {X} (Q : X -> Prop) n (l : list X) : Forall Q l -> Forall Q (firstn n l).
Proof. revert n. induction l as [|x t IH]; intros n H; destruct n; cbn; try constructor; inversion H; subst; auto. Qed.

(* P: what is known about the p-values of the family (e.g. that they lie in [0, 1]) *)
Lemma up_rejected_iff_padj (P : R -> Prop) alpha i l : alpha < 1 -> (forall j p, (i <= j < i + length l)%nat -> 0 < Tup j p) ->
  (forall j p, (i <= j < i + length l)%nat -> P p -> (Aup j p <= alpha <-> p <= Tup j p)) ->
  Forall (fun x => P (snd x)) l -> StronglySorted desc l ->
  forall t idx pa aa rj, nth_error (up_spec 1 0 i l) t = Some (idx, (pa, aa, rj)) ->
  (rj = true <-> pa <= alpha).
Proof.
  intros Ha HT Hc HP Hs t idx pa aa rj H.
  rewrite (up_rejection 1 i l HT Hs _ _ _ _ _ H), (up_padj _ _ _ _ _ _ _ _ _ H).
  rewrite rmin_list_le_iff.
  assert (G : forall k j, (i <= j)%nat -> (j + length k <= i + length l)%nat -> Forall (fun x => P (snd x)) k ->
              (anyhit j k = true <-> Exists (fun x => x <= alpha) (avals j k))).
  { induction k as [|[ix p] k IHk]; intros j Hj1 Hj2 HPk; cbn [anyhit avals].
    - split; [discriminate | intros E; inversion E].
    - cbn [length] in Hj2. inversion HPk as [|? ? HPp HPk']; subst. cbn [snd] in HPp.
      rewrite orb_true_iff, IHk, nleb_true, <- (Hc j p) by (try lia; assumption). split.
      + intros [E|E]; [left; exact E | right; exact E].
      + intros E. inversion E; subst; [left; assumption | right; assumption]. }
  rewrite G; [|lia|rewrite firstn_length; lia|apply Forall_firstn_gen; exact HP].
  split; [intros E; right; exact E | intros [E|E]; [lra | exact E]].
Qed.
End StepUp.

(* ================= step-down (Holm) ================= *)
Section StepDown.
Variable adjust : R -> R -> R * R.
Notation body := (holm_stepdown_body adjust).
Definition Adn (k : nat) (p : R) : R := fst (adjust p (INR k)).
Definition Tdn (k : nat) (p : R) : R := snd (adjust p (INR k)).
Definition ax_next (ax : R) (k : nat) (p : R) : R :=
  if neqb ax 1 && nltb (Tdn k p) p then Tdn k p else ax.

Lemma dn_body_spec pn ax k p :
  body (pn, ax) (INR k) p =
  ((Rmax (Adn k p) pn, ax_next ax k p),
   (Rmax (Adn k p) pn, Rmin (Tdn k p) (ax_next ax k p), nleb p (Rmin (Tdn k p) (ax_next ax k p)))).
Proof.
  unfold holm_stepdown_body, ax_next. unfold Adn, Tdn. cbv zeta. destruct (adjust p (INR k)) as [a t]. nR. cbv [nmin nmax]. cbn [fst snd].
  destruct ((if Req_EM_T ax 1 then true else false) && (if Rlt_dec t p then true else false)); first [reflexivity | (cbv beta iota zeta; rq)].
Qed.

Fixpoint dn_spec (pn ax : R) (k : nat) (l : list (nat * R)) : list (nat * (R * R * bool)) :=
  match l with
  | [] => []
  | (idx, p) :: t =>
      let v := Rmax (Adn k p) pn in let ax' := ax_next ax k p in
      (idx, (v, Rmin (Tdn k p) ax', nleb p (Rmin (Tdn k p) ax'))) :: dn_spec v ax' (S k) t
  end.
Lemma run_loop_dn pn ax k l : run_loop nofnat body (pn, ax) k l = dn_spec pn ax k l.
Proof.
  revert pn ax k. induction l as [|[idx p] t IH]; intros pn ax k; [reflexivity|].
  cbn [run_loop dn_spec]. unfold nofnat. rewrite dn_body_spec. rewrite IH. reflexivity.
Qed.

Lemma dn_flag pn ax k l idx pa aa rj :
  In (idx, (pa, aa, rj)) (dn_spec pn ax k l) -> exists p, In (idx, p) l /\ rj = nleb p aa.
Proof.
  revert pn ax k. induction l as [|[idx0 p0] t IH]; intros pn ax k H; [destruct H|].
  cbn [dn_spec] in H. destruct H as [H|H].
  - injection H as <- <- <- <-. exists p0. split; [left; reflexivity | reflexivity].
  - destruct (IH _ _ _ H) as [p [Hin Hr]]. exists p. split; [right; exact Hin | exact Hr].
Qed.

Fixpoint dvals (k : nat) (l : list (nat * R)) : list R :=
  match l with [] => [] | (_, p) :: t => Adn k p :: dvals (S k) t end.
Definition rmax_list (pn : R) (xs : list R) : R := fold_left Rmax xs pn.
Lemma rmax_list_ge pn xs : pn <= rmax_list pn xs.
Proof.
  revert pn. induction xs as [|x t IH]; intros pn; cbn; [lra|].
  eapply Rle_trans; [apply Rmax_l | apply IH].
Qed.
Lemma rmax_list_le_iff a pn xs : rmax_list pn xs <= a <-> pn <= a /\ Forall (fun x => x <= a) xs.
Proof.
  revert pn. induction xs as [|x t IH]; intros pn.
  - cbn. split; [intros H; split; [exact H | constructor] | intros [H _]; exact H].
  - change (rmax_list pn (x :: t)) with (rmax_list (Rmax pn x) t). rewrite IH. split.
    + intros [H1 H2]. pose proof (Rmax_l pn x). pose proof (Rmax_r pn x).
      split; [lra | constructor; [lra | exact H2]].
    + intros [H1 H2]. inversion H2; subst. split; [apply Rmax_lub; assumption | assumption].
Qed.

Lemma dn_padj pn ax k l t idx pa aa rj :
  nth_error (dn_spec pn ax k l) t = Some (idx, (pa, aa, rj)) ->
  pa = rmax_list pn (dvals k (firstn (S t) l)).
Proof.
  revert pn ax k t. induction l as [|[idx0 p0] tl IH]; intros pn ax k t H; [destruct t; discriminate|].
  cbn [dn_spec] in H. destruct t as [|t]; cbn [nth_error] in H.
  - injection H as <- <- <- <-. destruct tl; cbn; apply Rmax_comm.
  - rewrite (IH _ _ _ _ H). cbn [firstn dvals rmax_list fold_left]. rewrite Rmax_comm. reflexivity.
Qed.
Lemma dn_padj_monotone pn ax k l t idx pa aa rj t' idx' pa' aa' rj' :
  nth_error (dn_spec pn ax k l) t = Some (idx, (pa, aa, rj)) ->
  nth_error (dn_spec pn ax k l) t' = Some (idx', (pa', aa', rj')) ->
  (t <= t')%nat -> pa <= pa'.
Proof.
  revert pn ax k t t'. induction l as [|[idx0 p0] tl IH]; intros pn ax k t t' H H' Hle; [destruct t; discriminate|].
  destruct t as [|t].
  - cbn in H. injection H as <- <- <- <-.
    rewrite (dn_padj _ _ _ _ _ _ _ _ _ H'). cbn [firstn dvals rmax_list fold_left].
    rewrite Rmax_comm. apply rmax_list_ge.
  - destruct t' as [|t']; [lia|]. cbn [dn_spec nth_error] in H, H'. eapply IH; [exact H | exact H' | lia].
Qed.

(* rejection: a hypothesis is rejected iff it and all smaller ones meet their thresholds *)
Fixpoint allhit (k : nat) (l : list (nat * R)) : bool :=
  match l with [] => true | (_, p) :: t => nleb p (Tdn k p) && allhit (S k) t end.
Definition asc (x y : nat * R) : Prop := snd x <= snd y.

Lemma dn_rej_set pn ax k l : ax < 1 -> Forall (fun x => ax < snd x) l ->
  forall t idx pa aa rj, nth_error (dn_spec pn ax k l) t = Some (idx, (pa, aa, rj)) -> rj = false.
Proof.
  revert pn k. induction l as [|[idx0 p0] tl IH]; intros pn k Hax Hall t idx pa aa rj H; [destruct t; discriminate|].
  inversion Hall as [|? ? Hp0 Htl]; subst. cbn [snd] in Hp0.
  assert (Hn : ax_next ax k p0 = ax).
  { unfold ax_next. replace (neqb ax 1) with false; [reflexivity|]. symmetry.
    destruct (neqb ax 1) eqn:E; [apply neqb_true in E; lra | reflexivity]. }
  cbn [dn_spec] in H. rewrite Hn in H. destruct t as [|t]; cbn [nth_error] in H.
  - injection H as <- <- <- <-. apply nleb_false. eapply Rle_lt_trans; [apply Rmin_r | exact Hp0].
  - eapply IH; eassumption.
Qed.

Lemma dn_rejection pn k l : (forall j p, (k <= j < k + length l)%nat -> Tdn j p < 1) -> StronglySorted asc l ->
  forall t idx pa aa rj, nth_error (dn_spec pn 1 k l) t = Some (idx, (pa, aa, rj)) ->
  rj = allhit k (firstn (S t) l).
Proof.
  revert pn k. induction l as [|[idx0 p0] tl IH]; intros pn k HT Hs t idx pa aa rj H; [destruct t; discriminate|].
  inversion Hs as [|? ? Hs' Hall]; subst.
  assert (HT0 : forall p, Tdn k p < 1) by (intros p; apply HT; cbn [length]; lia).
  assert (HT' : forall j p, (S k <= j < S k + length tl)%nat -> Tdn j p < 1) by (intros j p Hj; apply HT; cbn [length]; lia).
  cbn [dn_spec] in H. unfold ax_next in H.
  replace (neqb 1 1) with true in H by (symmetry; apply neqb_true; reflexivity). cbn [andb] in H.
  destruct (nltb (Tdn k p0) p0) eqn:E.
  - (* first failure at the head *)
    assert (E' : nleb p0 (Tdn k p0) = false) by (apply nleb_false; apply nltb_true in E; exact E).
    cbn [firstn allhit]. rewrite E'. cbn [andb].
    destruct t as [|t]; cbn [nth_error] in H.
    + injection H as <- <- <- <-. apply nleb_false. apply nltb_true in E.
      eapply Rle_lt_trans; [apply Rmin_l | exact E].
    + eapply (dn_rej_set _ (Tdn k p0)); [apply HT0 | | exact H].
      rewrite Forall_forall in *. intros x Hx. specialize (Hall x Hx). unfold asc in Hall. cbn [snd] in Hall.
      apply nltb_true in E. lra.
  - assert (E' : nleb p0 (Tdn k p0) = true).
    { apply nleb_true. destruct (Rle_dec p0 (Tdn k p0)) as [Hle|Hn]; [exact Hle|].
      exfalso. assert (Tdn k p0 < p0) by lra. apply nltb_true in H0. congruence. }
    cbn [firstn allhit]. rewrite E'. cbn [andb].
    destruct t as [|t]; cbn [nth_error] in H.
    + injection H as <- <- <- <-. destruct tl; cbn [firstn allhit]; apply nleb_true; apply nleb_true in E';
        rewrite Rmin_left by (pose proof (HT0 p0); lra); exact E'.
    + apply (IH _ _ HT' Hs' _ _ _ _ _ H).
Qed.

Lemma dn_rejected_iff_padj (P : R -> Prop) alpha k l : 0 <= alpha -> (forall j p, (k <= j < k + length l)%nat -> Tdn j p < 1) ->
  (forall j p, (k <= j < k + length l)%nat -> P p -> (Adn j p <= alpha <-> p <= Tdn j p)) ->
  Forall (fun x => P (snd x)) l -> StronglySorted asc l ->
  forall t idx pa aa rj, nth_error (dn_spec 0 1 k l) t = Some (idx, (pa, aa, rj)) ->
  (rj = true <-> pa <= alpha).
Proof.
  intros Ha HT Hc HP Hs t idx pa aa rj H.
  rewrite (dn_rejection 0 k l HT Hs _ _ _ _ _ H), (dn_padj _ _ _ _ _ _ _ _ _ H).
  rewrite rmax_list_le_iff.
  assert (G : forall q j, (k <= j)%nat -> (j + length q <= k + length l)%nat -> Forall (fun x => P (snd x)) q ->
              (allhit j q = true <-> Forall (fun x => x <= alpha) (dvals j q))).
  { induction q as [|[ix p] q IHq]; intros j Hj1 Hj2 HPq; cbn [allhit dvals].
    - split; [constructor | reflexivity].
    - cbn [length] in Hj2. inversion HPq as [|? ? HPp HPq']; subst. cbn [snd] in HPp.
      rewrite andb_true_iff, IHq, nleb_true, <- (Hc j p) by (try lia; assumption). split.
      + intros [E1 E2]. constructor; assumption.
      + intros E. inversion E; subst. split; assumption. }
  rewrite G; [|lia|rewrite firstn_length; lia|apply Forall_firstn_gen; exact HP].
  split; [intros E; split; [exact Ha | exact E] | intros [_ E]; exact E].
Qed.
End StepDown.

(* ================= the corrections ================= *)
Section Corrections.
Variables (alpha madj : R).
Hypothesis Ha : 0 < alpha < 1.

(* Benjamini-Hochberg / -Yekutieli: k = m - j is the rank (1 = smallest p-value) *)
Lemma bh_closed_form p k : 
  benjamini_adjust (mk_benjamini alpha madj) p k = (Rmin (p * (madj / k)) 1, alpha / (madj / k)).
Proof. first [reflexivity | unfold benjamini_adjust, bonferroni_adjust, sidak_adjust; cbn; nR; cbv [nmin nmax]; cbv zeta; rq]. Qed.
Lemma bh_threshold_pos p k : 0 < madj -> 0 < k -> 0 < snd (benjamini_adjust (mk_benjamini alpha madj) p k).
Proof.
  intros Hm Hk. rewrite bh_closed_form; cbn [fst snd]. apply Rmult_lt_0_compat; [lra|]. apply Rinv_0_lt_compat.
  apply Rmult_lt_0_compat; [lra | apply Rinv_0_lt_compat; lra].
Qed.
Lemma bh_consistent p k : 0 < madj -> 0 < k ->
  (fst (benjamini_adjust (mk_benjamini alpha madj) p k) <= alpha <-> p <= snd (benjamini_adjust (mk_benjamini alpha madj) p k)).
Proof.
  intros Hm Hk. rewrite bh_closed_form; cbn [fst snd].
  assert (Hc : 0 < madj / k) by (apply Rmult_lt_0_compat; [lra | apply Rinv_0_lt_compat; lra]).
  assert (Hi : 0 < / (madj / k)) by (apply Rinv_0_lt_compat; exact Hc).
  split.
  - intros H. assert (H1 : p * (madj / k) <= alpha).
    { unfold Rmin in H. destruct (Rle_dec (p * (madj / k)) 1); lra. }
    apply Rmult_le_reg_r with (madj / k); [exact Hc|].
    replace (alpha / (madj / k) * (madj / k)) with alpha by (field; split; lra). exact H1.
  - intros H. eapply Rle_trans; [apply Rmin_l|].
    assert (H0 : p * (madj / k) <= alpha / (madj / k) * (madj / k)) by (apply Rmult_le_compat_r; lra).
    replace (alpha / (madj / k) * (madj / k)) with alpha in H0 by (field; split; lra). exact H0.
Qed.
Lemma bh_range p k : 0 <= p <= 1 -> 0 < k <= madj -> p <= fst (benjamini_adjust (mk_benjamini alpha madj) p k) <= 1.
Proof.
  intros Hp Hk. rewrite bh_closed_form; cbn [fst snd]. split; [|apply Rmin_r].
  apply Rmin_glb; [|lra].
  assert (1 <= madj / k).
  { apply Rmult_le_reg_r with k; [lra|]. replace (madj / k * k) with madj by (field; lra). lra. }
  replace p with (p * 1) at 1 by ring. apply Rmult_le_compat_l; lra.
Qed.

(* Bonferroni: coef = m - k + 1 *)
Lemma bonf_closed_form m p k :
  bonferroni_adjust (mk_bonferroni alpha m) p k = (Rmin (p * (m - k + 1)) 1, alpha / (m - k + 1)).
Proof. first [reflexivity | unfold benjamini_adjust, bonferroni_adjust, sidak_adjust; cbn; nR; cbv [nmin nmax]; cbv zeta; rq]. Qed.
Lemma bonf_consistent m p k : 0 < m - k + 1 ->
  (fst (bonferroni_adjust (mk_bonferroni alpha m) p k) <= alpha <-> p <= snd (bonferroni_adjust (mk_bonferroni alpha m) p k)).
Proof.
  intros Hc. rewrite bonf_closed_form; cbn [fst snd]. set (c := m - k + 1) in *.
  split.
  - intros H. assert (H1 : p * c <= alpha) by (unfold Rmin in H; destruct (Rle_dec (p * c) 1); lra).
    apply Rmult_le_reg_r with c; [exact Hc|]. replace (alpha / c * c) with alpha by (field; lra). exact H1.
  - intros H. eapply Rle_trans; [apply Rmin_l|].
    assert (H0 : p * c <= alpha / c * c) by (apply Rmult_le_compat_r; lra).
    replace (alpha / c * c) with alpha in H0 by (field; lra). exact H0.
Qed.
Lemma bonf_threshold m p k : 1 <= m - k + 1 -> 0 < snd (bonferroni_adjust (mk_bonferroni alpha m) p k) < 1.
Proof.
  intros Hc. rewrite bonf_closed_form; cbn [fst snd]. set (c := m - k + 1) in *.
  assert (0 < / c) by (apply Rinv_0_lt_compat; lra).
  split; [apply Rmult_lt_0_compat; lra|].
  apply Rmult_lt_reg_r with c; [lra|]. replace (alpha / c * c) with alpha by (field; lra). lra.
Qed.

(* Sidak: coef = m - k + 1;  1 - (1 - p)^coef  and  1 - (1 - alpha)^(1/coef) *)
Lemma sidak_closed_form m p k :
  sidak_adjust (mk_sidak alpha m) p k = (1 - nrpow (1 - p) (m - k + 1), 1 - nrpow (1 - alpha) (1 / (m - k + 1))).
Proof. first [reflexivity | unfold benjamini_adjust, bonferroni_adjust, sidak_adjust; cbn; nR; cbv [nmin nmax]; cbv zeta; rq]. Qed.
Lemma Rpower_unit x y : 0 < x < 1 -> 0 < y -> 0 < Rpower x y < 1.
Proof.
  intros Hx Hy. unfold Rpower. split; [apply exp_pos|]. rewrite <- exp_0. apply exp_increasing.
  assert (ln x < 0) by (rewrite <- ln_1; apply ln_increasing; lra). nra.
Qed.
Lemma Rpower_inv_exp x c : 0 < x -> c <> 0 -> Rpower (Rpower x c) (1 / c) = x.
Proof. intros Hx Hc. rewrite Rpower_mult. replace (c * (1 / c)) with 1 by (field; exact Hc). apply Rpower_1. exact Hx. Qed.
Lemma Rpower_exp_inv x c : 0 < x -> c <> 0 -> Rpower (Rpower x (1 / c)) c = x.
Proof. intros Hx Hc. rewrite Rpower_mult. replace (1 / c * c) with 1 by (field; exact Hc). apply Rpower_1. exact Hx. Qed.

Lemma sidak_threshold m p k : 1 <= m - k + 1 -> 0 < snd (sidak_adjust (mk_sidak alpha m) p k) < 1.
Proof.
  intros Hc. rewrite sidak_closed_form. cbn [snd]. set (c := m - k + 1) in *.
  unfold nrpow. destruct (Req_EM_T (1 - alpha) 0) as [E|_]; [lra|].
  assert (0 < 1 / c) by (apply Rdiv_lt_0_compat; lra).
  pose proof (Rpower_unit (1 - alpha) (1 / c) ltac:(lra) H). lra.
Qed.
Lemma sidak_consistent m p k : 1 <= m - k + 1 -> 0 <= p <= 1 ->
  (fst (sidak_adjust (mk_sidak alpha m) p k) <= alpha <-> p <= snd (sidak_adjust (mk_sidak alpha m) p k)).
Proof.
  intros Hc Hp. pose proof (sidak_threshold m p k Hc) as HT. rewrite sidak_closed_form in *. cbn [fst snd] in *.
  set (c := m - k + 1) in *. assert (Hc0 : c <> 0) by lra. assert (Hic : 0 < 1 / c) by (apply Rdiv_lt_0_compat; lra).
  unfold nrpow in *. destruct (Req_EM_T (1 - alpha) 0) as [E|_]; [lra|].
  destruct (Req_EM_T (1 - p) 0) as [E|E].
  - (* p = 1 *) destruct (Req_EM_T c 0); [contradiction|]. split; intros H; lra.
  - assert (Hx : 0 < 1 - p) by lra. assert (Hxa : 0 < 1 - alpha) by lra. split; intros H.
    + assert (H1 : 1 - alpha <= Rpower (1 - p) c) by lra.
      pose proof (Rle_Rpower_l (1 - alpha) (Rpower (1 - p) c) (1 / c) ltac:(lra) ltac:(lra)) as H2.
      rewrite (Rpower_inv_exp (1 - p) c Hx Hc0) in H2. lra.
    + assert (H1 : Rpower (1 - alpha) (1 / c) <= 1 - p) by lra.
      assert (Hpos : 0 < Rpower (1 - alpha) (1 / c)) by (unfold Rpower; apply exp_pos).
      pose proof (Rle_Rpower_l (Rpower (1 - alpha) (1 / c)) (1 - p) c ltac:(lra) ltac:(lra)) as H2.
      rewrite (Rpower_exp_inv (1 - alpha) c Hxa Hc0) in H2. lra.
Qed.
(* for a fixed p-value the Sidak-adjusted value grows with the coefficient *)
Lemma sidak_A_mono m p k k' : 1 <= m - k' + 1 -> k' <= k -> 0 <= p ->
  fst (sidak_adjust (mk_sidak alpha m) p k) <= fst (sidak_adjust (mk_sidak alpha m) p k').
Proof.
  intros Hc Hk Hp. rewrite !sidak_closed_form. cbn [fst]. unfold nrpow.
  destruct (Req_EM_T (1 - p) 0) as [E|E].
  - destruct (Req_EM_T (m - k + 1) 0), (Req_EM_T (m - k' + 1) 0); lra.
  - unfold Rpower. assert (Hl : ln (1 - p) <= 0).
    { destruct (Rlt_dec 0 (1 - p)) as [Hx|Hx].
      - destruct (Req_dec (1 - p) 1) as [E1|E1]; [rewrite E1, ln_1; lra|].
        left. rewrite <- ln_1. apply ln_increasing; lra.
      - unfold ln. destruct (Rlt_dec 0 (1 - p)); [contradiction | lra]. }
    assert ((m - k' + 1) * ln (1 - p) <= (m - k + 1) * ln (1 - p)) by nra.
    destruct H as [H|H]; [apply exp_increasing in H; lra | rewrite H; lra].
Qed.
End Corrections.

(* ================= back to input order ================= *)
From Coq Require Import Permutation.
From TT Require Import proofs.C10_loop.

Definition geb (a b : R) : bool := nleb b a.
Lemma geb_total a b : geb a b = true \/ geb b a = true.
Proof. unfold geb. destruct (Rle_dec a b); [right | left]; apply nleb_true; lra. Qed.
Lemma geb_trans a b c : geb a b = true -> geb b c = true -> geb a c = true.
Proof. unfold geb. rewrite !nleb_true. lra. Qed.
Lemma nleb_total a b : nleb a b = true \/ nleb b a = true.
Proof. destruct (Rle_dec a b); [left | right]; apply nleb_true; lra. Qed.
Lemma nleb_trans a b c : nleb a b = true -> nleb b c = true -> nleb a c = true.
Proof. rewrite !nleb_true. lra. Qed.

Definition sorted_desc (ps : list R) : list (nat * R) := stable_sort geb (indexed ps).
Definition sorted_asc (ps : list R) : list (nat * R) := stable_sort nleb (indexed ps).

Lemma sorted_desc_sorted ps : StronglySorted desc (sorted_desc ps).
Proof.
  pose proof (stable_sort_sorted R geb geb_total geb_trans (indexed ps)) as H.
  eapply StronglySorted_ind with (P := fun l => StronglySorted desc l); [constructor | | exact H].
  intros a l Hl IH Hall. constructor; [exact IH|].
  rewrite Forall_forall in *. intros x Hx. specialize (Hall x Hx). unfold key_le, geb in Hall. apply nleb_true in Hall. exact Hall.
Qed.
Lemma sorted_asc_sorted ps : StronglySorted asc (sorted_asc ps).
Proof.
  pose proof (stable_sort_sorted R nleb nleb_total nleb_trans (indexed ps)) as H.
  eapply StronglySorted_ind with (P := fun l => StronglySorted asc l); [constructor | | exact H].
  intros a l Hl IH Hall. constructor; [exact IH|].
  rewrite Forall_forall in *. intros x Hx. specialize (Hall x Hx). unfold key_le in Hall. apply nleb_true in Hall. exact Hall.
Qed.
Lemma sorted_desc_length ps : length (sorted_desc ps) = length ps.
Proof.
  unfold sorted_desc. rewrite (Permutation_length (stable_sort_perm R geb (indexed ps))).
  unfold indexed. rewrite combine_length, seq_length. apply Nat.min_id.
Qed.
Lemma sorted_asc_length ps : length (sorted_asc ps) = length ps.
Proof.
  unfold sorted_asc. rewrite (Permutation_length (stable_sort_perm R nleb (indexed ps))).
  unfold indexed. rewrite combine_length, seq_length. apply Nat.min_id.
Qed.
Lemma sorted_desc_in ps j p : In (j, p) (sorted_desc ps) -> nth_error ps j = Some p.
Proof. intros H. apply indexed_in. apply (Permutation_in _ (stable_sort_perm R geb (indexed ps))). exact H. Qed.
Lemma sorted_asc_in ps j p : In (j, p) (sorted_asc ps) -> nth_error ps j = Some p.
Proof. intros H. apply indexed_in. apply (Permutation_in _ (stable_sort_perm R nleb (indexed ps))). exact H. Qed.

Definition dflt : R * R * bool := (nlit 0, nlit 0, false).

(* the generated hochberg_stepup, at input position j, is an element of up_spec over the descending sort *)
Lemma stepup_at adjust ps j : (j < length ps)%nat ->
  exists t, nth_error (up_spec adjust (INR (length ps)) 1 0 0 (sorted_desc ps)) t
            = Some (j, nth j (hochberg_stepup adjust ps) dflt).
Proof.
  intros Hj. unfold hochberg_stepup.
  pose proof (run_sorted_spec R (R * R) (R * R * bool) (fun a b => nleb b a) nofnat 0
                (hochberg_stepup_body adjust (nofnat (length ps))) (nlit 1, nlit 0) dflt ps j Hj) as H.
  unfold nofnat in H at 2. change (nlit 1) with 1 in H. change (nlit 0) with 0 in H at 1.
  rewrite run_loop_up in H. apply In_nth_error in H. exact H.
Qed.
Lemma stepdown_at adjust ps j : (j < length ps)%nat ->
  exists t, nth_error (dn_spec adjust 0 1 1 (sorted_asc ps)) t = Some (j, nth j (holm_stepdown adjust ps) dflt).
Proof.
  intros Hj. unfold holm_stepdown.
  pose proof (run_sorted_spec R (R * R) (R * R * bool) nleb nofnat 1
                (holm_stepdown_body adjust) (nlit 0, nlit 1) dflt ps j Hj) as H.
  change (nlit 1) with 1 in H. change (nlit 0) with 0 in H at 1.
  rewrite run_loop_dn in H. apply In_nth_error in H. exact H.
Qed.

(* flag = (pvalue <= alpha_adj), for every procedure and correction, in input order *)
Lemma stepup_flag_input adjust ps j : (j < length ps)%nat ->
  let o := nth j (hochberg_stepup adjust ps) dflt in snd o = nleb (nth j ps 0) (snd (fst o)).
Proof.
  intros Hj o. destruct (stepup_at adjust ps j Hj) as [t Ht]. fold o in Ht.
  destruct o as [[pa aa] rj]. apply nth_error_In in Ht. apply up_flag in Ht.
  destruct Ht as [p [Hin Hr]]. apply sorted_desc_in in Hin. cbn [fst snd].
  rewrite (nth_error_nth _ _ 0 Hin). exact Hr.
Qed.
Lemma stepdown_flag_input adjust ps j : (j < length ps)%nat ->
  let o := nth j (holm_stepdown adjust ps) dflt in snd o = nleb (nth j ps 0) (snd (fst o)).
Proof.
  intros Hj o. destruct (stepdown_at adjust ps j Hj) as [t Ht]. fold o in Ht.
  destruct o as [[pa aa] rj]. apply nth_error_In in Ht. apply dn_flag in Ht.
  destruct Ht as [p [Hin Hr]]. apply sorted_asc_in in Hin. cbn [fst snd].
  rewrite (nth_error_nth _ _ 0 Hin). exact Hr.
Qed.

(* Benjamini-Hochberg / Yekutieli: rejected <-> adjusted p-value <= alpha *)
Lemma bh_rejected_iff_padj_input alpha madj ps j : 0 < alpha < 1 -> 0 < madj -> (j < length ps)%nat ->
  let o := nth j (hochberg_stepup (benjamini_adjust (mk_benjamini alpha madj)) ps) dflt in
  snd o = true <-> fst (fst o) <= alpha.
Proof.
  intros Ha Hm Hj o. set (adj := benjamini_adjust (mk_benjamini alpha madj)) in *.
  destruct (stepup_at adj ps j Hj) as [t Ht]. fold o in Ht. destruct o as [[pa aa] rj].
  cbn [fst snd].
  assert (Hk : forall j', (0 <= j' < 0 + length (sorted_desc ps))%nat -> 0 < INR (length ps) - INR j').
  { intros j' Hj'. rewrite sorted_desc_length in Hj'. rewrite <- minus_INR by lia. apply lt_0_INR. lia. }
  eapply (up_rejected_iff_padj adj (INR (length ps)) (fun _ => True) alpha 0 (sorted_desc ps));
    [lra | | | apply Forall_forall; intros; exact I | apply sorted_desc_sorted | exact Ht].
  - intros j' p Hj'. apply bh_threshold_pos; [lra | exact Hm | apply Hk; exact Hj'].
  - intros j' p Hj' _. apply bh_consistent; [exact Ha | exact Hm | apply Hk; exact Hj'].
Qed.

(* Hochberg with Bonferroni: coef = m - (m - j) + 1 = j + 1 *)
Lemma hochberg_bonferroni_rejected_iff_padj_input alpha ps j : 0 < alpha < 1 -> (j < length ps)%nat ->
  let o := nth j (hochberg_stepup (bonferroni_adjust (mk_bonferroni alpha (INR (length ps)))) ps) dflt in
  snd o = true <-> fst (fst o) <= alpha.
Proof.
  intros Ha Hj o. set (adj := bonferroni_adjust (mk_bonferroni alpha (INR (length ps)))) in *.
  destruct (stepup_at adj ps j Hj) as [t Ht]. fold o in Ht. destruct o as [[pa aa] rj].
  cbn [fst snd].
  assert (Hc : forall j' : nat, 1 <= INR (length ps) - (INR (length ps) - INR j') + 1).
  { intros j'. pose proof (pos_INR j'). lra. }
  eapply (up_rejected_iff_padj adj (INR (length ps)) (fun _ => True) alpha 0 (sorted_desc ps));
    [lra | | | apply Forall_forall; intros; exact I | apply sorted_desc_sorted | exact Ht].
  - intros j' p _. apply (bonf_threshold alpha Ha). apply Hc.
  - intros j' p _ _. apply (bonf_consistent alpha Ha). pose proof (Hc j'). lra.
Qed.

(* Holm with Bonferroni: coef = m - k + 1 >= 1 for k = 1..m *)
Lemma holm_bonferroni_rejected_iff_padj_input alpha ps j : 0 < alpha < 1 -> (j < length ps)%nat ->
  let o := nth j (holm_stepdown (bonferroni_adjust (mk_bonferroni alpha (INR (length ps)))) ps) dflt in
  snd o = true <-> fst (fst o) <= alpha.
Proof.
  intros Ha Hj o. set (adj := bonferroni_adjust (mk_bonferroni alpha (INR (length ps)))) in *.
  destruct (stepdown_at adj ps j Hj) as [t Ht]. fold o in Ht. destruct o as [[pa aa] rj].
  cbn [fst snd].
  assert (Hc : forall j', (1 <= j' < 1 + length (sorted_asc ps))%nat -> 1 <= INR (length ps) - INR j' + 1).
  { intros j' Hj'. rewrite sorted_asc_length in Hj'. rewrite <- minus_INR by lia.
    assert (0 <= INR (length ps - j')) by apply pos_INR. lra. }
  eapply (dn_rejected_iff_padj adj (fun _ => True) alpha 1 (sorted_asc ps));
    [lra | | | apply Forall_forall; intros; exact I | apply sorted_asc_sorted | exact Ht].
  - intros j' p Hj'. apply (bonf_threshold alpha Ha). apply Hc. exact Hj'.
  - intros j' p Hj' _. apply (bonf_consistent alpha Ha). pose proof (Hc j' Hj'). lra.
Qed.

(* Sidak: the equivalence needs the p-values to be probabilities *)
Definition unit_p (p : R) : Prop := 0 <= p <= 1.
Lemma sorted_desc_unit ps : Forall unit_p ps -> Forall (fun x => unit_p (snd x)) (sorted_desc ps).
Proof.
  intros H. apply Forall_forall. intros [j p] Hin. cbn [snd]. apply sorted_desc_in in Hin.
  rewrite Forall_forall in H. apply H. eapply nth_error_In. exact Hin.
Qed.
Lemma sorted_asc_unit ps : Forall unit_p ps -> Forall (fun x => unit_p (snd x)) (sorted_asc ps).
Proof.
  intros H. apply Forall_forall. intros [j p] Hin. cbn [snd]. apply sorted_asc_in in Hin.
  rewrite Forall_forall in H. apply H. eapply nth_error_In. exact Hin.
Qed.

Lemma hochberg_sidak_rejected_iff_padj_input alpha ps j : 0 < alpha < 1 -> Forall unit_p ps -> (j < length ps)%nat ->
  let o := nth j (hochberg_stepup (sidak_adjust (mk_sidak alpha (INR (length ps)))) ps) dflt in
  snd o = true <-> fst (fst o) <= alpha.
Proof.
  intros Ha Hu Hj o. set (adj := sidak_adjust (mk_sidak alpha (INR (length ps)))) in *.
  destruct (stepup_at adj ps j Hj) as [t Ht]. fold o in Ht. destruct o as [[pa aa] rj].
  cbn [fst snd].
  assert (Hc : forall j' : nat, 1 <= INR (length ps) - (INR (length ps) - INR j') + 1).
  { intros j'. pose proof (pos_INR j'). lra. }
  eapply (up_rejected_iff_padj adj (INR (length ps)) unit_p alpha 0 (sorted_desc ps));
    [lra | | | apply sorted_desc_unit; exact Hu | apply sorted_desc_sorted | exact Ht].
  - intros j' p _. apply (sidak_threshold alpha Ha). apply Hc.
  - intros j' p _ Hp. apply (sidak_consistent alpha Ha); [apply Hc | exact Hp].
Qed.
Lemma holm_sidak_rejected_iff_padj_input alpha ps j : 0 < alpha < 1 -> Forall unit_p ps -> (j < length ps)%nat ->
  let o := nth j (holm_stepdown (sidak_adjust (mk_sidak alpha (INR (length ps)))) ps) dflt in
  snd o = true <-> fst (fst o) <= alpha.
Proof.
  intros Ha Hu Hj o. set (adj := sidak_adjust (mk_sidak alpha (INR (length ps)))) in *.
  destruct (stepdown_at adj ps j Hj) as [t Ht]. fold o in Ht. destruct o as [[pa aa] rj].
  cbn [fst snd].
  assert (Hc : forall j', (1 <= j' < 1 + length (sorted_asc ps))%nat -> 1 <= INR (length ps) - INR j' + 1).
  { intros j' Hj'. rewrite sorted_asc_length in Hj'. rewrite <- minus_INR by lia.
    assert (0 <= INR (length ps - j')) by apply pos_INR. lra. }
  eapply (dn_rejected_iff_padj adj unit_p alpha 1 (sorted_asc ps));
    [lra | | | apply sorted_asc_unit; exact Hu | apply sorted_asc_sorted | exact Ht].
  - intros j' p Hj'. apply (sidak_threshold alpha Ha). apply Hc. exact Hj'.
  - intros j' p Hj' Hp. apply (sidak_consistent alpha Ha); [apply Hc; exact Hj' | exact Hp].
Qed.
