(* C16 - the fixed-point branch of format_num_model: the number of decimals is derived from floor(log10) of the value, the
   value is rounded, the number of decimals is derived AGAIN from the rounded value (it may have been carried into the
   next decade: 99.96 -> 100.0) and the rounded value is rendered with that many decimals.  Theorem: the second step
   never rounds again - the rendered number is exactly the half-even rounding m / 10^p of the first step, whose relative
   error is at most 1/2 * 10^(1-s). *)
From Coq Require Import ZArith String Ascii List Bool Lia.
From TT Require Import model.Render proofs.C16_render proofs.C16_digits proofs.C16_exp.
Import ListNotations.
Local Open Scope Z_scope.

Lemma ge_pow10_pred n d e : 0 < d -> 0 <= n -> ge_pow10 n d (e + 1) -> ge_pow10 n d e.
Proof.
  intros Hd Hn H. apply ge_pow10_succ in H. unfold ge_pow10.
  pose proof (pow10_pos (Z.max e 0) ltac:(lia)). pose proof (pow10_pos (Z.max (- e) 0) ltac:(lia)). nia.
Qed.
Lemma ge_pow10_antitone n d e k : 0 < d -> 0 <= n -> ge_pow10 n d (e + Z.of_nat k) -> ge_pow10 n d e.
Proof.
  intros Hd Hn. induction k as [|k IH]; intros H.
  - replace (e + Z.of_nat 0) with e in H by lia. exact H.
  - apply IH. apply ge_pow10_pred; [exact Hd | exact Hn|]. replace (e + Z.of_nat k + 1) with (e + Z.of_nat (S k)) by lia. exact H.
Qed.
Lemma ge_pow10_le n d e1 e2 : 0 < d -> 0 <= n -> e1 <= e2 -> ge_pow10 n d e2 -> ge_pow10 n d e1.
Proof.
  intros Hd Hn L H. apply (ge_pow10_antitone n d e1 (Z.to_nat (e2 - e1)) Hd Hn).
  replace (e1 + Z.of_nat (Z.to_nat (e2 - e1))) with e2 by lia. exact H.
Qed.
(* the decimal exponent is unique *)
Lemma floor_unique n d e1 e2 : 0 < d -> 0 <= n ->
  ge_pow10 n d e1 -> ~ ge_pow10 n d (e1 + 1) -> ge_pow10 n d e2 -> ~ ge_pow10 n d (e2 + 1) -> e1 = e2.
Proof.
  intros Hd Hn P1 N1 P2 N2. destruct (Z.lt_trichotomy e1 e2) as [L|[E|L]]; [|exact E|]; exfalso.
  - apply N1. apply (ge_pow10_le n d (e1 + 1) e2 Hd Hn); [lia | exact P2].
  - apply N2. apply (ge_pow10_le n d (e2 + 1) e1 Hd Hn); [lia | exact P1].
Qed.

(* with p decimals, p >= -e:  10^e <= a/d  iff  d * 10^(e+p) <= a * 10^p *)
Lemma ge_pow10_scaled a d e (p : nat) : 0 <= e + Z.of_nat p ->
  (ge_pow10 a d e <-> d * 10 ^ (e + Z.of_nat p) <= a * pow10 p).
Proof.
  intros H. unfold ge_pow10, pow10. destruct (Z_le_gt_dec 0 e) as [L|L].
  - replace (Z.max e 0) with e by lia. replace (Z.max (- e) 0) with 0 by lia. change (10 ^ 0) with 1.
    rewrite Z.pow_add_r by lia. pose proof (pow10_pos (Z.of_nat p) ltac:(lia)) as T.
    rewrite Z.mul_1_r. rewrite Z.mul_assoc. apply Z.mul_le_mono_pos_r. exact T.
  - replace (Z.max e 0) with 0 by lia. replace (Z.max (- e) 0) with (- e) by lia. change (10 ^ 0) with 1.
    assert (Ep : 10 ^ Z.of_nat p = 10 ^ (e + Z.of_nat p) * 10 ^ (- e)).
    { rewrite <- Z.pow_add_r by lia. f_equal. lia. }
    rewrite Ep.
    pose proof (pow10_pos (e + Z.of_nat p) ltac:(lia)) as T1. pose proof (pow10_pos (- e) ltac:(lia)) as T2.
    rewrite Z.mul_1_r. rewrite (Z.mul_comm (10 ^ (e + Z.of_nat p)) (10 ^ (- e))). rewrite Z.mul_assoc.
    apply Z.mul_le_mono_pos_r. exact T1.
Qed.
(* for a fraction m / 10^p *)
Lemma ge_pow10_of_decimal m (p : nat) e : 0 <= e + Z.of_nat p -> (ge_pow10 m (pow10 p) e <-> 10 ^ (e + Z.of_nat p) <= m).
Proof.
  intros H. rewrite (ge_pow10_scaled m (pow10 p) e p H). unfold pow10. pose proof (pow10_pos (Z.of_nat p) ltac:(lia)).
  rewrite (Z.mul_comm (10 ^ Z.of_nat p)). split; intros; nia.
Qed.

Lemma rhe_exact k b : 0 < b -> round_half_even (k * b) b = k.
Proof.
  intros Hb. unfold round_half_even. rewrite Z.div_mul by lia. rewrite Z.mod_mul by lia.
  change (2 * 0) with 0. destruct b as [|b|b]; try lia. reflexivity.
Qed.

Section Fixed.
  Variables (a d : Z) (s : nat).
  Hypothesis Ha : 0 < a.
  Hypothesis Hd : 0 < d.
  Hypothesis Hs : (1 <= s)%nat.
  Hypothesis Hlo : ge_pow10 a d (- 401).
  Hypothesis Hhi : ~ ge_pow10 a d 399.

  Let e := floor_log10 a d.
  Let p := Z.to_nat (Z.max 0 (Z.of_nat s - 1 - e)).
  Let m := round_half_even (a * pow10 p) d.
  Let e' := floor_log10 m (pow10 p).
  Let p' := Z.to_nat (Z.max 0 (Z.of_nat s - 1 - e')).
  Let m' := round_half_even (m * pow10 p') (pow10 p).     (* what fixed_abs m (pow10 p) p' renders *)

  Lemma e_spec : ge_pow10 a d e /\ ~ ge_pow10 a d (e + 1) /\ - 401 <= e < 399.
  Proof.
    assert (H400 : ~ ge_pow10 a d 400).
    { intros C. apply Hhi. apply (ge_pow10_le a d 399 400 Hd ltac:(lia) ltac:(lia) C). }
    destruct (floor_log10_spec a d Hd Hlo H400) as [G NG]. fold e in G, NG. split; [exact G|]. split; [exact NG|]. split.
    - destruct (Z_le_gt_dec (- 401) e) as [L|L]; [exact L|]. exfalso. apply NG.
      apply (ge_pow10_le a d (e + 1) (- 401) Hd ltac:(lia) ltac:(lia) Hlo).
    - destruct (Z_lt_ge_dec e 399) as [L|L]; [exact L|]. exfalso. apply Hhi.
      apply (ge_pow10_le a d 399 e Hd ltac:(lia) ltac:(lia) G).
  Qed.

  Lemma ep_nonneg : 0 <= e + Z.of_nat p.
  Proof. unfold p. lia. Qed.

  (* 10^(e+p) <= m <= 10^(e+p+1) *)
  Lemma m_bounds : 10 ^ (e + Z.of_nat p) <= m <= 10 ^ (e + Z.of_nat p + 1).
  Proof.
    destruct e_spec as (G & NG & _). pose proof ep_nonneg as Hep.
    apply (ge_pow10_scaled a d e p Hep) in G.
    assert (NG' : a * pow10 p < d * 10 ^ (e + 1 + Z.of_nat p)).
    { apply Z.lt_nge. intros C. apply NG. apply (ge_pow10_scaled a d (e + 1) p); [lia | exact C]. }
    split.
    - apply rhe_lower; [exact Hd | lia].
    - apply rhe_upper; [exact Hd|]. replace (e + Z.of_nat p + 1) with (e + 1 + Z.of_nat p) by lia. lia.
  Qed.

  Lemma e'_cases : (e' = e /\ m < 10 ^ (e + Z.of_nat p + 1)) \/ (e' = e + 1 /\ m = 10 ^ (e + Z.of_nat p + 1)).
  Proof.
    destruct e_spec as (_ & _ & Hr). pose proof ep_nonneg as Hep. destruct m_bounds as [L U].
    assert (Tp : 0 < pow10 p) by (unfold pow10; apply pow10_pos; lia).
    assert (Mpos : 0 < m) by (pose proof (pow10_pos (e + Z.of_nat p) Hep); lia).
    assert (G0 : ge_pow10 m (pow10 p) e) by (apply ge_pow10_of_decimal; [exact Hep | exact L]).
    assert (Glo : ge_pow10 m (pow10 p) (- 401)) by (apply (ge_pow10_le m (pow10 p) (- 401) e Tp ltac:(lia) ltac:(lia) G0)).
    assert (Nhi : ~ ge_pow10 m (pow10 p) 400).
    { intros C. apply ge_pow10_of_decimal in C; [|lia].
      assert (10 ^ (e + Z.of_nat p + 1) < 10 ^ (400 + Z.of_nat p)) by (apply Z.pow_lt_mono_r; lia). lia. }
    destruct (floor_log10_spec m (pow10 p) Tp Glo Nhi) as [G' NG']. fold e' in G', NG'.
    destruct (Z_lt_ge_dec m (10 ^ (e + Z.of_nat p + 1))) as [C|C].
    - left. split; [|exact C]. apply (floor_unique m (pow10 p) e' e Tp ltac:(lia) G' NG' G0).
      intros Q. apply ge_pow10_of_decimal in Q; [|lia]. replace (e + 1 + Z.of_nat p) with (e + Z.of_nat p + 1) in Q by lia. lia.
    - right. assert (E : m = 10 ^ (e + Z.of_nat p + 1)) by lia. split; [|exact E].
      apply (floor_unique m (pow10 p) e' (e + 1) Tp ltac:(lia) G' NG').
      + apply ge_pow10_of_decimal; [lia|]. replace (e + 1 + Z.of_nat p) with (e + Z.of_nat p + 1) by lia. lia.
      + intros Q. apply ge_pow10_of_decimal in Q; [|lia].
        assert (10 ^ (e + Z.of_nat p + 1) < 10 ^ (e + 1 + 1 + Z.of_nat p)) by (apply Z.pow_lt_mono_r; lia). lia.
  Qed.

  (* no second rounding: the rendered number m' / 10^p' IS m / 10^p *)
  Theorem rendered_is_first_rounding : m' * pow10 p = m * pow10 p' /\ 0 < m.
  Proof.
    pose proof ep_nonneg as Hep. destruct m_bounds as [L U].
    assert (Tp : 0 < pow10 p) by (unfold pow10; apply pow10_pos; lia).
    assert (Mpos : 0 < m) by (pose proof (pow10_pos (e + Z.of_nat p) Hep); lia).
    split; [|exact Mpos]. destruct e'_cases as [[E _]|[E M]].
    - assert (P : p' = p) by (unfold p', p; rewrite E; reflexivity).
      unfold m'. rewrite P. rewrite rhe_exact by exact Tp. reflexivity.
    - destruct (Z_le_gt_dec (Z.of_nat s - 1 - e) 0) as [C|C].
      + (* no decimals before and after *)
        assert (P0 : p = 0%nat) by (unfold p; lia). assert (P0' : p' = 0%nat) by (unfold p'; lia).
        unfold m'. rewrite P0'. rewrite P0 in *. change (pow10 0) with 1 in *.
        rewrite rhe_exact by lia. lia.
      + (* one decimal less; m = 10^(e+p+1) is divisible by 10 *)
        assert (Pp : Z.of_nat p = Z.of_nat s - 1 - e) by (unfold p; lia).
        assert (Pp' : Z.of_nat p' = Z.of_nat p - 1) by (unfold p'; lia).
        unfold m'. unfold pow10 in *. rewrite Pp'.
        assert (Q : m * 10 ^ (Z.of_nat p - 1) = 10 ^ (e + Z.of_nat p) * 10 ^ Z.of_nat p).
        { rewrite M. rewrite <- !Z.pow_add_r by lia. f_equal. lia. }
        rewrite Q. rewrite rhe_exact by exact Tp. reflexivity.
  Qed.

  (* relative error of the rendered number: |m/10^p - a/d| <= 1/2 * 10^(1-s) * (a/d) *)
  Theorem rendered_relative_error : 2 * Z.abs (m * d - a * pow10 p) * 10 ^ Z.of_nat (s - 1) <= a * pow10 p.
  Proof.
    destruct e_spec as (G & _ & _). pose proof ep_nonneg as Hep.
    apply (significant_digits_error a d s p Hd ltac:(lia)).
    apply (ge_pow10_scaled a d e p Hep) in G.
    assert (Z.of_nat (s - 1) <= e + Z.of_nat p) by (unfold p; lia).
    assert (10 ^ Z.of_nat (s - 1) <= 10 ^ (e + Z.of_nat p)) by (apply Z.pow_le_mono_r; lia).
    nia.
  Qed.
End Fixed.
