(* C09 - solving for effect size / sample size. About genR/Mean.v: find_boundary, rom_solve_power_from_stats. *)
From Coq Require Import Reals String List Lra Lia.
From TT Require Import lib.RTac lib.PreludeR lib.Distr genR.Aggr genR.Mean proofs.Mean_core.
Local Open Scope R_scope.

Lemma nltb_true' a b : nltb a b = true <-> a < b.
Proof. unfold nltb. destruct (Rlt_dec a b); split; intros; try reflexivity; try assumption; try discriminate; contradiction. Qed.
Lemma nltb_false' a b : nltb a b = false <-> b <= a.
Proof. unfold nltb. destruct (Rlt_dec a b); split; intros; try reflexivity; try discriminate; lra. Qed.

(* ---------- _find_boundary ---------- *)
Lemma find_boundary_from_some fn mult left b b' :
  find_boundary_from fn mult left b = Some b' ->
  fn b' <= 0 /\ exists j, (j < left \/ left = 0)%nat /\ b' = b * mult ^ j /\ forall i, (i < j)%nat -> 0 < fn (b * mult ^ i).
Proof.
  revert b. induction left as [|left IH]; intros b H.
  - cbn in H. destruct (nltb (nlit 0) (fn b)) eqn:E; [discriminate|]. injection H as <-.
    apply nltb_false' in E. cbv [nlit] in E. split; [exact E|]. exists 0%nat. repeat split; [right; reflexivity | cbn; ring | intros i Hi; lia].
  - cbn [find_boundary_from] in H. destruct (nltb (nlit 0) (fn b)) eqn:E.
    + destruct left as [|left']; [discriminate|].
      destruct (IH _ H) as [H1 [j [Hj [Hb Hall]]]]. split; [exact H1|].
      exists (S j). repeat split.
      * left. destruct Hj as [Hj|Hj]; [lia | discriminate].
      * rewrite Hb. cbn. cbv [nlit]. ring.
      * intros i Hi. destruct i as [|i].
        -- cbn. rewrite Rmult_1_r. apply nltb_true' in E. cbv [nlit] in E. exact E.
        -- replace (b * mult ^ S i) with (b * mult * mult ^ i) by (cbn; ring). apply Hall. lia.
    + injection H as <-. apply nltb_false' in E. cbv [nlit] in E. split; [exact E|].
      exists 0%nat. repeat split; [left; lia | cbn; ring | intros i Hi; lia].
Qed.

(* RuntimeError exactly when the function stays positive at init * mult^i for every i < MAX_ITER *)
Lemma find_boundary_from_none fn mult left b : (1 <= left)%nat ->
  find_boundary_from fn mult left b = None -> forall i, (i < left)%nat -> 0 < fn (b * mult ^ i).
Proof.
  revert b. induction left as [|left IH]; intros b Hl H i Hi; [lia|].
  cbn [find_boundary_from] in H. destruct (nltb (nlit 0) (fn b)) eqn:E; [|discriminate].
  apply nltb_true' in E. cbv [nlit] in E.
  destruct i as [|i]; [cbn; rewrite Rmult_1_r; exact E|].
  destruct left as [|left']; [lia|].
  replace (b * mult ^ S i) with (b * mult * mult ^ i) by (cbn; ring).
  apply (IH (b * mult)); [lia | exact H | lia].
Qed.

Lemma find_boundary_value fn init mult b : find_boundary_opt fn init mult = Some b -> find_boundary fn init mult = b.
Proof. unfold find_boundary. intros ->. reflexivity. Qed.

(* ---------- the three modes of _solve_power_from_stats ---------- *)
Section Modes.
Variable fam : dist_family R.
Variable solver : (R -> R) -> R -> R -> R.
Variables (cfg : rom) (v : R).
Notation power := (rom_power_from_stats fam cfg v).

Lemma solve_mode_power n e :
  rom_solve_power_from_stats fam solver cfg v (Some n) (Some e) None = power n e.
Proof. reflexivity. Qed.

Definition sign_of : R := if alternative_eqb (cfg_alternative cfg) Less then - (1) else 1.
Lemma solve_mode_effect n p :
  rom_solve_power_from_stats fam solver cfg v (Some n) None (Some p) =
  let fn := fun x => p - power n x in
  let other := find_boundary fn (sign_of * 10 * sqrt (v / n)) 10 in
  solver fn (Rmin 0 other) (Rmax 0 other).
Proof. unfold rom_solve_power_from_stats, sign_of. cbv [nlit nsqrt nmin nmax]. first [reflexivity | (cbv zeta; rq)]. Qed.

Definition n_lower : R := 3 / 2 * Rmax (1 + cfg_ratio cfg) (1 + 1 / cfg_ratio cfg).
Lemma solve_mode_n_obs e p :
  rom_solve_power_from_stats fam solver cfg v None (Some e) (Some p) =
  let fn := fun x => p - power x e in
  solver fn n_lower (find_boundary fn (n_lower * 10 / 3) 10).
Proof. unfold rom_solve_power_from_stats, n_lower. cbv [nlit nsqrt nmin nmax]. first [reflexivity | (cbv zeta; rq)]. Qed.

(* the lower end of the n_obs bracket leaves each group more than one observation, for EVERY ratio > 0 *)
Lemma n_lower_groups : 0 < cfg_ratio cfg ->
  1 < n_lower / (1 + cfg_ratio cfg) /\ 1 < n_lower * cfg_ratio cfg / (1 + cfg_ratio cfg).
Proof.
  intros Hr. unfold n_lower. set (r := cfg_ratio cfg) in *.
  assert (H1 : 1 + r <= Rmax (1 + r) (1 + 1 / r)) by apply Rmax_l.
  assert (H2 : 1 + 1 / r <= Rmax (1 + r) (1 + 1 / r)) by apply Rmax_r.
  set (M := Rmax (1 + r) (1 + 1 / r)) in *.
  assert (Hi : 0 < / (1 + r)) by (apply Rinv_0_lt_compat; lra).
  split.
  - apply Rmult_lt_reg_r with (1 + r); [lra|]. replace (3 / 2 * M / (1 + r) * (1 + r)) with (3 / 2 * M) by (field; lra). lra.
  - apply Rmult_lt_reg_r with (1 + r); [lra|].
    replace (3 / 2 * M * r / (1 + r) * (1 + r)) with (3 / 2 * (M * r)) by (field; lra).
    assert (1 + r <= M * r).
    { replace (1 + r) with ((1 + 1 / r) * r) by (field; lra). apply Rmult_le_compat_r; lra. }
    lra.
Qed.

(* brentq contract: a root inside a bracket whose ends have function values of opposite sign *)
Definition solver_ok : Prop :=
  forall fn lo hi, lo <= hi -> fn lo * fn hi <= 0 -> lo <= solver fn lo hi <= hi /\ fn (solver fn lo hi) = 0.

(* solving for the effect size: the returned effect reproduces the target power and has the sign of the alternative *)
Lemma solved_effect_reproduces_power n p other : solver_ok ->
  find_boundary_opt (fun x => p - power n x) (sign_of * 10 * sqrt (v / n)) 10 = Some other ->
  power n 0 <= p ->
  let x := rom_solve_power_from_stats fam solver cfg v (Some n) None (Some p) in
  power n x = p /\ Rmin 0 other <= x <= Rmax 0 other.
Proof.
  intros Hs Hb H0. cbv zeta. rewrite solve_mode_effect. cbv zeta.
  rewrite (find_boundary_value _ _ _ _ Hb).
  apply find_boundary_from_some in Hb. destruct Hb as [Hle _]. cbv beta in Hle.
  set (fn := fun x => p - power n x) in *.
  assert (Hle' : fn other <= 0) by exact Hle.
  assert (Hbr : fn (Rmin 0 other) * fn (Rmax 0 other) <= 0).
  { assert (H00 : 0 <= fn 0) by (unfold fn; lra).
    unfold Rmin, Rmax. destruct (Rle_dec 0 other).
    - replace (fn 0 * fn other) with (- (fn 0 * - fn other)) by ring.
      assert (0 <= fn 0 * - fn other) by (apply Rmult_le_pos; lra). lra.
    - replace (fn other * fn 0) with (- (fn 0 * - fn other)) by ring.
      assert (0 <= fn 0 * - fn other) by (apply Rmult_le_pos; lra). lra. }
  destruct (Hs fn (Rmin 0 other) (Rmax 0 other)) as [Hin Hroot]; [|exact Hbr|].
  - eapply Rle_trans; [apply Rmin_l | apply Rmax_l].
  - split; [unfold fn at 1 in Hroot; lra | exact Hin].
Qed.

(* the sign of a solved effect follows the alternative: non-positive for 'less', non-negative otherwise *)
Lemma solved_effect_sign n p other : solver_ok ->
  find_boundary_opt (fun x => p - power n x) (sign_of * 10 * sqrt (v / n)) 10 = Some other ->
  power n 0 <= p ->
  let x := rom_solve_power_from_stats fam solver cfg v (Some n) None (Some p) in
  if alternative_eqb (cfg_alternative cfg) Less then x <= 0 else 0 <= x.
Proof.
  intros Hs Hb H0. pose proof (solved_effect_reproduces_power n p other Hs Hb H0) as [_ Hin]. cbv zeta in *.
  apply find_boundary_from_some in Hb. destruct Hb as [_ [j [_ [Ho _]]]].
  assert (Hpow : 0 < 10 ^ j) by (apply pow_lt; lra).
  pose proof (sqrt_pos (v / n)) as Hsq.
  unfold sign_of in *. destruct (alternative_eqb (cfg_alternative cfg) Less).
  - assert (other <= 0) by (rewrite Ho; nra). rewrite Rmax_left in Hin by lra. lra.
  - assert (0 <= other) by (rewrite Ho; nra). rewrite Rmin_left in Hin by lra. lra.
Qed.

(* solving for the number of observations *)
Lemma solved_n_obs_reproduces_power e p hi : solver_ok ->
  find_boundary_opt (fun x => p - power x e) (n_lower * 10 / 3) 10 = Some hi ->
  power n_lower e <= p -> n_lower <= hi ->
  let x := rom_solve_power_from_stats fam solver cfg v None (Some e) (Some p) in
  power x e = p /\ n_lower <= x <= hi.
Proof.
  intros Hs Hb H0 Hlh. cbv zeta. rewrite solve_mode_n_obs. cbv zeta.
  rewrite (find_boundary_value _ _ _ _ Hb).
  apply find_boundary_from_some in Hb. destruct Hb as [Hle _]. cbv beta in Hle.
  set (fn := fun x => p - power x e) in *.
  assert (Hle' : fn hi <= 0) by exact Hle.
  assert (Hbr : fn n_lower * fn hi <= 0).
  { assert (H00 : 0 <= fn n_lower) by (unfold fn; lra).
    replace (fn n_lower * fn hi) with (- (fn n_lower * - fn hi)) by ring.
    assert (0 <= fn n_lower * - fn hi) by (apply Rmult_le_pos; lra). lra. }
  destruct (Hs fn n_lower hi Hlh Hbr) as [Hin Hroot].
  split; [unfold fn at 1 in Hroot; lra | exact Hin].
Qed.

(* with power strictly increasing in n, the ceiling of the root is the smallest sample size reaching the target *)
Lemma n_obs_is_minimal e p x : (forall a b, a < b -> power a e < power b e) -> power x e = p ->
  forall y, (x <= y <-> p <= power y e).
Proof.
  intros Hm Hx y. split; intros H.
  - destruct H as [H|H]; [rewrite <- Hx; left; apply Hm; exact H | subst; lra].
  - destruct (Rle_lt_dec x y) as [Hle|Hlt]; [exact Hle|]. pose proof (Hm y x Hlt). lra.
Qed.
End Modes.
