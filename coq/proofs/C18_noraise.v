(* C18 - degenerate data gives NaN / inf results, never an exception.
   About genX/Aggr.v and genX/Mean.v: the SAME generated text as genR / genQ, read in the exception semantics of
   lib/PreludeX.v. *)
From Coq Require Import QArith String List Bool.
From TT Require Import lib.PreludeX genX.Aggr genX.Mean.
Local Open Scope num_scope.

(* W: a utils.Float / utils.Int.  WFl: a utils.Float.  PI: a plain int.  PL: plain.  NR: evaluation did not raise. *)
Definition W (x : xv) : Prop := match x with Wrapped _ _ => True | _ => False end.
Definition WFl (x : xv) : Prop := match x with Wrapped false _ => True | _ => False end.
Definition PI (x : xv) : Prop := match x with Plain true _ => True | _ => False end.
Definition PL (x : xv) : Prop := match x with Plain _ _ => True | _ => False end.
Definition NR (x : xv) : Prop := match x with Raise _ => False | _ => True end.

Ltac kinds := repeat match goal with x : xv |- _ => destruct x as [[|] ?|[|] ?|?] end; simpl; try tauto.

Lemma W_NR x : W x -> NR x. Proof. kinds. Qed.
Lemma WFl_W x : WFl x -> W x. Proof. kinds. Qed.
Lemma PL_NR x : PL x -> NR x. Proof. kinds. Qed.
Lemma PI_NR x : PI x -> NR x. Proof. kinds. Qed.
Lemma NR_lit z : NR (nlit z). Proof. exact I. Qed.
Lemma PI_lit z : PI (nlit z). Proof. exact I. Qed.

(* ---------- the documented rule of utils.div ---------- *)
Lemma udiv_zero_rule a : udiv a (FFin 0) = if fltb (FFin 0) a then FPInf else FNaN.
Proof. reflexivity. Qed.
Lemma udiv_nonzero a b : fis_zero b = false -> udiv a b = fdiv a b.
Proof. intros H. unfold udiv. rewrite H. reflexivity. Qed.
(* x / 0 when the division dispatches to utils.div: +inf for x > 0, NaN otherwise (x = 0, x < 0, x = NaN, x = -inf), never an exception *)
Lemma wrapped_div_zero i j a z : fis_zero z = true ->
  Wrapped i a / Plain j z = Wrapped false (if fltb (FFin 0) a then FPInf else FNaN) /\
  Wrapped i a / Wrapped j z = Wrapped false (if fltb (FFin 0) a then FPInf else FNaN) /\
  Plain j a / Wrapped false z = Wrapped false (if fltb (FFin 0) a then FPInf else FNaN) /\
  Plain true a / Wrapped j z = Wrapped false (if fltb (FFin 0) a then FPInf else FNaN).
Proof. intros H. unfold xdiv, udiv. rewrite H. destruct j; repeat split. Qed.
(* an ordinary division by zero is what raises - and so does float / Int, which float.__truediv__ computes *)
Lemma plain_div_zero i j a z : fis_zero z = true ->
  Plain i a / Plain j z = Raise ZeroDivisionError /\ Plain false a / Wrapped true z = Raise ZeroDivisionError.
Proof. intros H. unfold xdiv. rewrite H. destruct i; split; reflexivity. Qed.

(* ---------- closure lemmas ---------- *)
(* left operand wrapped: always dispatches to _NumericBase *)
Lemma W_add_l a b : W a -> NR b -> W (a + b). Proof. kinds. Qed.
Lemma W_sub_l a b : W a -> NR b -> W (a - b). Proof. kinds. Qed.
Lemma W_mul_l a b : W a -> NR b -> W (a * b). Proof. kinds. Qed.
Lemma WFl_div_l a b : W a -> NR b -> WFl (a / b). Proof. kinds. Qed.
(* right operand a Float: reflected method first *)
Lemma WFl_add_r a b : NR a -> WFl b -> WFl (a + b). Proof. kinds. Qed.
Lemma WFl_sub_r a b : NR a -> WFl b -> WFl (a - b). Proof. kinds. Qed.
Lemma WFl_mul_r a b : NR a -> WFl b -> WFl (a * b). Proof. kinds. Qed.
Lemma WFl_div_r a b : NR a -> WFl b -> WFl (a / b). Proof. kinds. Qed.
(* left a plain int, right wrapped (Int or Float) *)
Lemma W_add_pi a b : PI a -> W b -> W (a + b). Proof. kinds. Qed.
Lemma W_sub_pi a b : PI a -> W b -> W (a - b). Proof. kinds. Qed.
Lemma W_mul_pi a b : PI a -> W b -> W (a * b). Proof. kinds. Qed.
Lemma WFl_div_pi a b : PI a -> W b -> WFl (a / b). Proof. kinds. Qed.
(* float-typed results stay float-typed on the left *)
Lemma WFl_add_l a b : WFl a -> NR b -> WFl (a + b). Proof. kinds. Qed.
Lemma WFl_sub_l a b : WFl a -> NR b -> WFl (a - b). Proof. kinds. Qed.
Lemma WFl_mul_l a b : WFl a -> NR b -> WFl (a * b). Proof. kinds. Qed.
(* plain ints *)
Lemma PI_add a b : PI a -> PI b -> PI (a + b). Proof. kinds. Qed.
Lemma PI_sub a b : PI a -> PI b -> PI (a - b). Proof. kinds. Qed.
Lemma PI_mul a b : PI a -> PI b -> PI (a * b). Proof. kinds. Qed.
(* + - * never raise (float op Int is an ordinary float operation) *)
Lemma NR_add a b : NR a -> NR b -> NR (a + b). Proof. kinds. Qed.
Lemma NR_sub a b : NR a -> NR b -> NR (a - b). Proof. kinds. Qed.
Lemma NR_mul a b : NR a -> NR b -> NR (a * b). Proof. kinds. Qed.
Lemma NR_max a b : NR a -> NR b -> NR (nmax a b).
Proof. destruct a as [i x|i x|e], b as [j y|j y|e']; simpl; try tauto; intros _ _; unfold nmax; simpl; destruct (fltb _ _); exact I. Qed.
Lemma NR_min a b : NR a -> NR b -> NR (nmin a b).
Proof. destruct a as [i x|i x|e], b as [j y|j y|e']; simpl; try tauto; intros _ _; unfold nmin; simpl; destruct (fltb _ _); exact I. Qed.
Lemma W_neg a : W a -> W (- a). Proof. kinds. Qed.
Lemma NR_neg a : NR a -> NR (- a). Proof. kinds. Qed.
Lemma W_abs a : W a -> W (nabs a). Proof. kinds. Qed.
Lemma NR_abs a : NR a -> NR (nabs a). Proof. kinds. Qed.
(* no lemma for npow: a float power raises OverflowError on overflow (lib/PreludeX.pow_guard) *)
Lemma NR_exp_sat a : NR a -> PL (nexp_sat a).
Proof.
  destruct a as [i v|i v|e]; simpl; try tauto; intros _; destruct v; simpl; try exact I;
  match goal with |- context [(?x ?= ?y)%Q] => destruct (x ?= y)%Q end; exact I.
Qed.
Lemma NR_div_one a : NR a -> NR (a / nlit 1). Proof. kinds. Qed.
Lemma W_wrap a : NR a -> W (nwrap a). Proof. kinds. Qed.

(* the clamped square root never raises: max(x, 0) is x (when not below zero, or NaN) or 0 *)
Lemma NR_sqrt_clamped a : NR a -> PL (nsqrt (nmax a (nlit 0))).
Proof.
  assert (H : forall v i j, PL (nsqrt (if fltb v (FFin 0) then Plain true (FFin 0) else Plain i v)) /\
                            PL (nsqrt (if fltb v (FFin 0) then Plain true (FFin 0) else Wrapped j v))).
  { intros [q| | |] i j; simpl; try (split; exact I).
    destruct (q ?= 0)%Q eqn:E; simpl; rewrite ?E; split; exact I. }
  destruct a as [i v|i v|e]; simpl; try tauto; intros _; unfold nmax, nlit; simpl first_raise; cbv iota; simpl val;
    change (inject_Z 0) with 0%Q; apply (H v i i).
Qed.
(* without the clamp a slightly negative variance raises *)
Lemma sqrt_negative_raises i q : (q < 0)%Q -> nsqrt (Wrapped i (FFin q)) = Raise ValueError.
Proof. intros H. unfold nsqrt, fltb. rewrite (proj1 (Qlt_alt q 0) H). reflexivity. Qed.
(* and math.exp overflows where _exp saturates *)
Lemma exp_overflow_raises i q : (709 < q)%Q ->
  nexp (Plain i (FFin q)) = Raise OverflowError /\ nexp_sat (Plain i (FFin q)) = Plain false FPInf.
Proof. intros H. unfold nexp, nexp_sat, fltb. rewrite (proj1 (Qlt_alt 709 q) H). split; reflexivity. Qed.

(* ---------- tactics: the kind of an arithmetic expression, derived bottom-up from its leaves ---------- *)
Ltac nr := first [ assumption | exact I | apply W_NR; assumption | apply W_NR, WFl_W; assumption | apply PI_NR; assumption
                 | apply PL_NR; assumption ].
Ltac ww := first [ assumption | apply WFl_W; assumption ].
Ltac known e :=
  match goal with
  | H : WFl e |- _ => idtac | H : W e |- _ => idtac | H : PI e |- _ => idtac | H : PL e |- _ => idtac | H : NR e |- _ => idtac
  end.
Ltac derive e :=
  first [ known e |
  lazymatch e with
  | nlit ?z => pose proof (PI_lit z)
  | xadd ?a ?b => derive a; derive b;
      first [ pose proof (WFl_add_l a b ltac:(assumption) ltac:(nr)) | pose proof (WFl_add_r a b ltac:(nr) ltac:(assumption))
            | pose proof (W_add_l a b ltac:(ww) ltac:(nr)) | pose proof (W_add_pi a b ltac:(assumption) ltac:(ww))
            | pose proof (PI_add a b ltac:(assumption) ltac:(assumption)) | pose proof (NR_add a b ltac:(nr) ltac:(nr)) | idtac ]
  | xsub ?a ?b => derive a; derive b;
      first [ pose proof (WFl_sub_l a b ltac:(assumption) ltac:(nr)) | pose proof (WFl_sub_r a b ltac:(nr) ltac:(assumption))
            | pose proof (W_sub_l a b ltac:(ww) ltac:(nr)) | pose proof (W_sub_pi a b ltac:(assumption) ltac:(ww))
            | pose proof (PI_sub a b ltac:(assumption) ltac:(assumption)) | pose proof (NR_sub a b ltac:(nr) ltac:(nr)) | idtac ]
  | xmul ?a ?b => derive a; derive b;
      first [ pose proof (WFl_mul_l a b ltac:(assumption) ltac:(nr)) | pose proof (WFl_mul_r a b ltac:(nr) ltac:(assumption))
            | pose proof (W_mul_l a b ltac:(ww) ltac:(nr)) | pose proof (W_mul_pi a b ltac:(assumption) ltac:(ww))
            | pose proof (PI_mul a b ltac:(assumption) ltac:(assumption)) | pose proof (NR_mul a b ltac:(nr) ltac:(nr)) | idtac ]
  | xdiv ?a ?b => derive a; derive b;
      first [ pose proof (WFl_div_l a b ltac:(ww) ltac:(nr)) | pose proof (WFl_div_r a b ltac:(nr) ltac:(assumption))
            | pose proof (WFl_div_pi a b ltac:(assumption) ltac:(ww))
            | lazymatch b with nlit 1 => pose proof (NR_div_one a ltac:(nr)) end | idtac ]
  | xneg ?a => derive a; first [ pose proof (W_neg a ltac:(ww)) | pose proof (NR_neg a ltac:(nr)) | idtac ]
  | nabs ?a => derive a; first [ pose proof (W_abs a ltac:(ww)) | pose proof (NR_abs a ltac:(nr)) | idtac ]
  | nsqrt (nmax ?a (nlit 0)) => derive a; first [ pose proof (NR_sqrt_clamped a ltac:(nr)) | idtac ]
  | nexp_sat ?a => derive a; first [ pose proof (NR_exp_sat a ltac:(nr)) | idtac ]
  | nmax ?a ?b => derive a; derive b; first [ pose proof (NR_max a b ltac:(nr) ltac:(nr)) | idtac ]
  | nmin ?a ?b => derive a; derive b; first [ pose proof (NR_min a b ltac:(nr) ltac:(nr)) | idtac ]
  | _ => idtac
  end ].
Ltac xwf := lazymatch goal with |- WFl ?e => derive e; assumption end.
Ltac xw := lazymatch goal with |- W ?e => derive e; ww end.
Ltac xn := lazymatch goal with |- NR ?e => derive e; nr end.

(* ---------- aggregates ---------- *)
(* every statistic is a Float / Int: what with_zero_div establishes *)
Definition WA (a : aggregates xv) : Prop :=
  (exists c, count_ a = Some c /\ W c) /\ (forall k, W (mean_ a k)) /\ (forall k, W (var_ a k)) /\ (forall k, W (cov_ a k)).
(* input statistics that are numbers (ints or floats, finite or special), count present *)
Definition NRA (a : aggregates xv) : Prop :=
  (exists c, count_ a = Some c /\ NR c) /\ (forall k, NR (mean_ a k)) /\ (forall k, NR (var_ a k)) /\ (forall k, NR (cov_ a k)).

Lemma with_zero_div_WA a : NRA a -> WA (agg_with_zero_div a).
Proof.
  intros ((c & Hc & Hn) & Hm & Hv & Hcv). unfold agg_with_zero_div, agg_wrap, WA. simpl.
  split; [exists (nwrap c); rewrite Hc; split; [reflexivity | apply W_wrap; exact Hn]|].
  repeat split; intros k; apply W_wrap; auto.
Qed.

Section Aggr.
Variable a : aggregates xv.
Hypothesis HA : WA a.
Lemma count_W : W (agg_count a).
Proof. destruct HA as ((c & Hc & Hw) & _). unfold agg_count. rewrite Hc. exact Hw. Qed.
Lemma mean_some_W k : W (agg_mean a (Some k)). Proof. apply HA. Qed.
Lemma var_some_W k : W (agg_var a (Some k)). Proof. apply HA. Qed.
Lemma cov_some_W k1 k2 : W (agg_cov a (Some k1) (Some k2)). Proof. apply HA. Qed.
(* a named column gives a Float / Int; None gives the int literal 1 (mean) or 0 (var, cov) *)
Lemma mean_kind o : W (agg_mean a o) \/ PI (agg_mean a o). Proof. destruct o; [left; apply mean_some_W | right; exact I]. Qed.
Lemma var_kind o : W (agg_var a o) \/ PI (agg_var a o). Proof. destruct o; [left; apply var_some_W | right; exact I]. Qed.
Lemma cov_kind o1 o2 : W (agg_cov a o1 o2) \/ PI (agg_cov a o1 o2).
Proof. destruct o1, o2; try (right; exact I). left. apply cov_some_W. Qed.
Lemma mean_NR o : NR (agg_mean a o). Proof. destruct (mean_kind o); [apply W_NR | apply PI_NR]; assumption. Qed.
Lemma var_NR o : NR (agg_var a o). Proof. destruct (var_kind o); [apply W_NR | apply PI_NR]; assumption. Qed.
Lemma cov_NR o1 o2 : NR (agg_cov a o1 o2). Proof. destruct (cov_kind o1 o2); [apply W_NR | apply PI_NR]; assumption. Qed.

(* mean(n) / mean(d): a Float unless both are None (then the plain float 1 / 1) *)
Lemma ratio_mean_kind n d : WFl (agg_mean a n / agg_mean a d) \/ (n = None /\ d = None).
Proof.
  destruct n as [n|]; [left; pose proof (mean_some_W n); pose proof (mean_NR d); xwf|].
  destruct d as [d|]; [left; pose proof (mean_some_W d); apply WFl_div_pi; [exact I | assumption] | right; split; reflexivity].
Qed.
Lemma ratio_mean_NR n d : NR (agg_mean a n / agg_mean a d).
Proof. destruct (ratio_mean_kind n d) as [H | [-> ->]]; [apply W_NR, WFl_W, H | exact I]. Qed.
Lemma ratio_mean_W k d : WFl (agg_mean a (Some k) / agg_mean a d).
Proof. destruct (ratio_mean_kind (Some k) d) as [H | [E _]]; [exact H | discriminate]. Qed.

Ltac leaves :=
  cbn [agg_mean agg_var agg_cov];
  repeat match goal with
  | |- context [mean_ a ?k] => lazymatch goal with H : W (mean_ a k) |- _ => fail | _ => pose proof (mean_some_W k : W (mean_ a k)) end
  | |- context [var_ a ?k] => lazymatch goal with H : W (var_ a k) |- _ => fail | _ => pose proof (var_some_W k : W (var_ a k)) end
  | |- context [cov_ a (sorted_tuple ?k1 ?k2)] =>
      lazymatch goal with H : W (cov_ a (sorted_tuple k1 k2)) |- _ => fail
      | _ => pose proof (cov_some_W k1 k2 : W (cov_ a (sorted_tuple k1 k2))) end
  end.

(* ratio_var never raises; for a named numerator it is a Float *)
Lemma ratio_var_some_W k d : WFl (agg_ratio_var a (Some k) d).
Proof. unfold agg_ratio_var. cbv zeta. destruct d as [d|]; leaves; xwf. Qed.
Lemma ratio_var_NR n d : NR (agg_ratio_var a n d).
Proof.
  destruct n as [k|]; [apply W_NR, WFl_W, ratio_var_some_W|].
  destruct d as [d|]; [|exact I].
  unfold agg_ratio_var. cbv zeta. leaves. xn.
Qed.

(* ratio_cov with a named left numerator (the only way mean.py calls it): a Float *)
Lemma ratio_cov_some_W k ld rn rd : WFl (agg_ratio_cov a (Some k) ld rn rd).
Proof. unfold agg_ratio_cov. cbv zeta. destruct ld as [ld|], rn as [rn|], rd as [rd|]; leaves; xwf. Qed.
End Aggr.

(* the sum of two wrapped aggregates is wrapped *)
Lemma agg_add_WA a b : WA a -> WA b -> WA (agg_add a b).
Proof.
  intros Ha Hb. pose proof (count_W a Ha) as Hca. pose proof (count_W b Hb) as Hcb.
  destruct Ha as ((ca & Hca' & Hwa) & Hma & Hva & Hcva). destruct Hb as ((cb & Hcb' & Hwb) & Hmb & Hvb & Hcvb).
  assert (Ha : WA a) by (repeat split; eauto). assert (Hb : WA b) by (repeat split; eauto).
  unfold agg_add, WA. simpl. rewrite Hca'. split; [|split; [|split]].
  - eexists. split; [reflexivity|]. xw.
  - intros k. unfold add_mean. cbv zeta. pose proof (mean_some_W a Ha k). pose proof (mean_some_W b Hb k). xw.
  - intros k. unfold add_var. cbv zeta.
    pose proof (mean_some_W a Ha k). pose proof (mean_some_W b Hb k). pose proof (var_some_W a Ha k). pose proof (var_some_W b Hb k). xw.
  - intros [k1 k2]. unfold add_cov. cbv zeta. simpl fst. simpl snd.
    pose proof (mean_some_W a Ha k1). pose proof (mean_some_W b Hb k1). pose proof (mean_some_W a Ha k2). pose proof (mean_some_W b Hb k2).
    pose proof (cov_some_W a Ha k1 k2). pose proof (cov_some_W b Hb k1 k2). xw.
Qed.

(* ---------- mean.py ---------- *)
(* scipy.stats frozen distributions: methods return plain floats (NaN for invalid parameters / arguments), never raise *)
Definition dist_total (d : dist xv) : Prop :=
  forall x, NR x -> PL (cdf d x) /\ PL (sf d x) /\ PL (ppf d x) /\ PL (isf d x).
Definition fam_total (fam : dist_family xv) : Prop :=
  (forall p, NR p -> dist_total (t_ fam p)) /\ (forall p, NR p -> dist_total (norm_ fam p)) /\
  (forall p q, NR p -> NR q -> dist_total (nct_ fam p q)).

Section MeanX.
Variable fam : dist_family xv.
Variable solver : (xv -> xv) -> xv -> xv -> xv.
Hypothesis HF : fam_total fam.
Variable cfg : rom.
Hypothesis Hcl : NR (cfg_confidence_level cfg).

Lemma covariate_coef_NR a : WA a -> NR (rom_covariate_coef cfg a).
Proof.
  intros HA. unfold rom_covariate_coef. cbv zeta.
  pose proof (ratio_var_NR a HA (cfg_numer_covariate cfg) (cfg_denom_covariate cfg)) as Hv.
  pose proof (ratio_cov_some_W a HA (cfg_numer cfg) (cfg_denom cfg) (cfg_numer_covariate cfg) (cfg_denom_covariate cfg)) as Hc.
  unfold rom_covariate_cov.
  set (v := agg_ratio_var a (cfg_numer_covariate cfg) (cfg_denom_covariate cfg)) in *.
  set (c := agg_ratio_cov a (Some (cfg_numer cfg)) (cfg_denom cfg) (cfg_numer_covariate cfg) (cfg_denom_covariate cfg)) in *.
  match goal with |- context [neqb ?x ?y] => destruct (neqb x y) end; [exact I|].
  (* the division c / v: c is a Float (its formula contains mean(numer) / mean(denom)), so utils.div applies *)
  apply W_NR, WFl_W, WFl_div_l; [apply WFl_W; exact Hc | exact Hv].
Qed.

Lemma metric_mean_W a coef cmean : WA a -> NR coef -> NR cmean -> W (rom_metric_mean cfg a coef cmean).
Proof.
  intros HA Hc Hm. unfold rom_metric_mean. cbv zeta.
  pose proof (ratio_mean_W a HA (cfg_numer cfg) (cfg_denom cfg)) as H1.
  pose proof (ratio_mean_NR a HA (cfg_numer_covariate cfg) (cfg_denom_covariate cfg)) as H2.
  xw.
Qed.

Lemma metric_var_W a coef : WA a -> NR coef -> W (rom_metric_var cfg a coef).
Proof.
  intros HA Hc. unfold rom_metric_var, rom_covariate_cov. cbv zeta.
  pose proof (ratio_var_some_W a HA (cfg_numer cfg) (cfg_denom cfg)).
  pose proof (ratio_var_NR a HA (cfg_numer_covariate cfg) (cfg_denom_covariate cfg)).
  pose proof (WFl_W _ (ratio_cov_some_W a HA (cfg_numer cfg) (cfg_denom cfg) (cfg_numer_covariate cfg) (cfg_denom_covariate cfg))).
  xw.
Qed.

(* _scale_and_distr on variances that merely did not raise (any sign, inf, NaN) and Float counts *)
Lemma scale_and_distr_NR cv cn tv tn : W cv -> W cn -> W tv -> W tn ->
  let '(s, d, _) := rom_scale_and_distr fam cfg cv cn tv tn None in PL s /\ dist_total d.
Proof.
  intros Hcv Hcn Htv Htn. destruct HF as (Ht & Hnorm & _). unfold rom_scale_and_distr.
  destruct (cfg_equal_var cfg), (cfg_use_t cfg); cbv zeta; (split; [apply NR_sqrt_clamped; xn|]).
  - apply Ht. xn.
  - apply Hnorm. exact I.
  - apply Ht. xn.
  - apply Hnorm. exact I.
Qed.

Definition ext_NR (e : ext xv) : Prop := match e with Fin x => NR x | _ => True end.
Definition result_NR (r : mean_result) : Prop :=
  NR (mr_control r) /\ NR (mr_treatment r) /\ NR (mr_effect_size r) /\ ext_NR (mr_effect_size_ci_lower r) /\
  ext_NR (mr_effect_size_ci_upper r) /\ NR (mr_rel_effect_size r) /\ ext_NR (mr_rel_effect_size_ci_lower r) /\
  ext_NR (mr_rel_effect_size_ci_upper r) /\ NR (mr_pvalue r) /\ NR (mr_statistic r).

Ltac projs := cbn [mr_control mr_treatment mr_effect_size mr_effect_size_ci_lower mr_effect_size_ci_upper mr_rel_effect_size
                     mr_rel_effect_size_ci_lower mr_rel_effect_size_ci_upper mr_pvalue mr_statistic].

Lemma analyze_stats_NR cm cv cn tm tv tn : W cm -> W cv -> W cn -> W tm -> W tv -> W tn ->
  result_NR (rom_analyze_stats fam cfg cm cv cn tm tv tn).
Proof.
  intros Hcm Hcv Hcn Htm Htv Htn. unfold rom_analyze_stats.
  pose proof (scale_and_distr_NR cv cn tv tn Hcv Hcn Htv Htn) as H1.
  (* the log-scale call: variances divided by the squared means, in whatever spelling the source uses *)
  match goal with |- context [rom_scale_and_distr fam cfg ?lcv cn ?ltv tn None] =>
    lazymatch lcv with cv => fail | _ => idtac end;
    assert (Hlcv : W lcv) by xw; assert (Hltv : W ltv) by xw;
    pose proof (scale_and_distr_NR lcv cn ltv tn Hlcv Hcn Hltv Htn) as H2;
    destruct (rom_scale_and_distr fam cfg cv cn tv tn None) as [[s d] o1];
    destruct (rom_scale_and_distr fam cfg lcv cn ltv tn None) as [[ls ld] o2]
  end.
  destruct H1 as [Hs Hd], H2 as [Hls Hld]. apply PL_NR in Hs. apply PL_NR in Hls. cbv zeta.
  assert (Hstat : W ((tm - cm) / s)) by xw.
  assert (Heff : W (tm - cm)) by xw. assert (Hratio : W (tm / cm)) by xw.
  (* the branch tests, whichever way round the source writes the comparison *)
  match goal with |- context [if alternative_eqb ?x ?y then _ else _] => destruct (alternative_eqb x y) end.
  - destruct (Hd (cfg_confidence_level cfg) Hcl) as (_ & _ & _ & Hi). destruct (Hld (cfg_confidence_level cfg) Hcl) as (_ & _ & _ & Hli).
    destruct (Hd ((tm - cm) / s) (W_NR _ Hstat)) as (_ & Hsf & _). apply PL_NR in Hi, Hli, Hsf.
    unfold result_NR, ext_NR, esub. projs. repeat split; xn.
  - match goal with |- context [if alternative_eqb ?x ?y then _ else _] => destruct (alternative_eqb x y) end.
    + destruct (Hd (cfg_confidence_level cfg) Hcl) as (_ & _ & Hp & _). destruct (Hld (cfg_confidence_level cfg) Hcl) as (_ & _ & Hlp & _).
      destruct (Hd ((tm - cm) / s) (W_NR _ Hstat)) as (Hcdf & _). apply PL_NR in Hp, Hlp, Hcdf.
      unfold result_NR, ext_NR, esub. projs. repeat split; xn.
    + (* the two-sided quantile level, in whatever form the source writes it: a closed expression in confidence_level *)
      match goal with |- context [ppf d ?q] =>
        assert (Hq2 : NR q) by (destruct (cfg_confidence_level cfg) as [[|] ?|[|] ?|?]; simpl in *; tauto) end.
      destruct (Hd _ Hq2) as (_ & _ & Hp & _). destruct (Hld _ Hq2) as (_ & _ & Hlp & _).
      destruct (Hd (nabs ((tm - cm) / s)) (NR_abs _ (W_NR _ Hstat))) as (_ & Hsf & _). apply PL_NR in Hp, Hlp, Hsf.
      unfold result_NR, ext_NR, esub. projs. repeat split; xn.
Qed.

(* the whole aggregated analysis: any statistics that are numbers (finite of any sign and size, inf, NaN), counts present *)
Theorem analyze_aggregates_NR control treatment : NRA control -> NRA treatment ->
  result_NR (rom_analyze_aggregates fam cfg control treatment).
Proof.
  intros Hc Ht. unfold rom_analyze_aggregates. cbv zeta.
  pose proof (with_zero_div_WA control Hc) as Hwc. pose proof (with_zero_div_WA treatment Ht) as Hwt.
  set (c := agg_with_zero_div control) in *. set (t := agg_with_zero_div treatment) in *.
  pose proof (agg_add_WA c t Hwc Hwt) as Htot.
  pose proof (covariate_coef_NR _ Htot) as Hcoef.
  pose proof (ratio_mean_NR _ Htot (cfg_numer_covariate cfg) (cfg_denom_covariate cfg)) as Hcm.
  apply analyze_stats_NR.
  - apply metric_mean_W; assumption.
  - apply metric_var_W; assumption.
  - apply count_W; assumption.
  - apply metric_mean_W; assumption.
  - apply metric_var_W; assumption.
  - apply count_W; assumption.
Qed.
End MeanX.

(* ---------- non-vacuity: a total stand-in family, and degenerate aggregates that exercise the x / 0 rule ---------- *)
Definition pl_const (v : fl) : xv -> xv := fun x => match x with Raise e => Raise e | _ => Plain false v end.
Definition const_dist (v : fl) : dist xv := mk_dist (pl_const v) (pl_const v) (pl_const v) (pl_const v).
Definition const_family : dist_family xv :=
  mk_family (fun _ => const_dist (FFin 1)) (fun _ => const_dist (FFin 1)) (fun _ _ => const_dist (FFin 1)).
Lemma const_family_total : fam_total const_family.
Proof.
  assert (H : forall v, dist_total (const_dist v)).
  { intros v x Hx. destruct x as [[|] ?|[|] ?|?]; simpl in *; tauto. }
  split; [|split]; intros; apply H.
Qed.

(* ---------- fields that stay well defined keep their values ---------- *)
Definition feq (a b : fl) : Prop :=
  match a, b with FFin x, FFin y => (x == y)%Q | FPInf, FPInf | FNInf, FNInf | FNaN, FNaN => True | _, _ => False end.
Definition xeq (a b : xv) : Prop :=
  match a, b with Plain i x, Plain j y | Wrapped i x, Wrapped j y => i = j /\ feq x y | _, _ => False end.

Section Fields.
Variable fam : dist_family xv.
Variable cfg : rom.

(* the point estimates are read off the statistics before anything degenerate can interfere:
   control / treatment are the two metric means, effect_size their difference, rel_effect_size their utils.div ratio - 1 *)
Lemma analyze_stats_point_fields cm cv cn tm tv tn :
  let r := rom_analyze_stats fam cfg cm cv cn tm tv tn in
  mr_control r = cm /\ mr_treatment r = tm /\ mr_effect_size r = tm - cm /\ mr_rel_effect_size r = tm / cm - nlit 1.
Proof.
  cbv zeta. unfold rom_analyze_stats.
  repeat match goal with |- context [rom_scale_and_distr fam cfg ?a ?b ?c ?d None] =>
           destruct (rom_scale_and_distr fam cfg a b c d None) as [[? ?] ?] end.
  repeat match goal with |- context [if alternative_eqb ?x ?y then _ else _] => destruct (alternative_eqb x y) end; repeat split.
Qed.

Hypothesis Hnc : cfg_numer_covariate cfg = None.
Hypothesis Hdc : cfg_denom_covariate cfg = None.

Lemma no_covariate_coef a : rom_covariate_coef cfg a = nlit 0.
Proof. unfold rom_covariate_coef. rewrite Hnc, Hdc. reflexivity. Qed.

Lemma fsub_zero x : feq (fsub x (FFin 0)) x.
Proof.
  destruct x as [q| | |]; try exact I. unfold fsub, fneg, fadd, feq. rewrite !Qred_correct. ring.
Qed.

(* without covariates the metric mean of a variant is exactly mean(numer) / mean(denom) under utils.div
   (covariate_coef = 0 and covariate_mean = 1 / 1 are what analyze_aggregates passes in that case) *)
Lemma no_covariate_metric_mean a : WA a ->
  xeq (rom_metric_mean cfg a (nlit 0) (nlit 1 / nlit 1)) (agg_mean a (Some (cfg_numer cfg)) / agg_mean a (cfg_denom cfg)).
Proof.
  intros HA. unfold rom_metric_mean. rewrite Hnc, Hdc. cbv zeta.
  pose proof (ratio_mean_W a HA (cfg_numer cfg) (cfg_denom cfg)) as Hw.
  set (v := agg_mean a (Some (cfg_numer cfg)) / agg_mean a (cfg_denom cfg)) in *.
  replace (nlit 0 * (agg_mean a None / agg_mean a None - nlit 1 / nlit 1)) with (Plain false (FFin 0)) by (vm_compute; reflexivity).
  destruct v as [i x|[|] x|e]; simpl in Hw; try tauto.
  change (Wrapped false x - Plain false (FFin 0)) with (Wrapped false (fsub x (FFin 0))). split; [reflexivity | apply fsub_zero].
Qed.

Lemma no_covariate_analysis control treatment : NRA control -> NRA treatment ->
  let c := agg_with_zero_div control in let t := agg_with_zero_div treatment in
  let r := rom_analyze_aggregates fam cfg control treatment in
  xeq (mr_control r) (agg_mean c (Some (cfg_numer cfg)) / agg_mean c (cfg_denom cfg)) /\
  xeq (mr_treatment r) (agg_mean t (Some (cfg_numer cfg)) / agg_mean t (cfg_denom cfg)) /\
  mr_effect_size r = mr_treatment r - mr_control r /\
  mr_rel_effect_size r = mr_treatment r / mr_control r - nlit 1.
Proof.
  intros Hc Ht. cbv zeta. unfold rom_analyze_aggregates. cbv zeta.
  pose proof (with_zero_div_WA control Hc) as Hwc. pose proof (with_zero_div_WA treatment Ht) as Hwt.
  set (c := agg_with_zero_div control) in *. set (t := agg_with_zero_div treatment) in *.
  rewrite no_covariate_coef.
  match goal with |- context [rom_analyze_stats fam cfg ?cm ?cv ?cn ?tm ?tv ?tn] =>
    destruct (analyze_stats_point_fields cm cv cn tm tv tn) as (E1 & E2 & E3 & E4) end.
  rewrite E1, E2, E3, E4. rewrite Hnc, Hdc.
  change (agg_mean (agg_add c t) None / agg_mean (agg_add c t) None) with (nlit 1 / nlit 1).
  split; [apply no_covariate_metric_mean; exact Hwc|]. split; [apply no_covariate_metric_mean; exact Hwt|].
  split; reflexivity.
Qed.
End Fields.
