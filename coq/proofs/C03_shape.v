(* C03 - the general shape of the fetch trace of Experiment.analyze, for ANY mixture of metrics (aggregated, row-level,
   metrics that read the data themselves): at most one aggregate query and at most one row-level fetch, issued first; the
   variants are read separately only when neither exists; every further access to the data is made by a metric that is
   not served by the two shared reads, once per compared pair. *)
From Coq Require Import ZArith String List Bool Lia.
From TT Require Import genP.ExperimentPairs model.Experiment.
Import ListNotations.
Local Open Scope bool_scope.

Definition is_shared_read (f : fetch) : bool := match f with FAggr _ _ | FGran _ _ => true | _ => false end.
(* metric number i reads the data itself: its class is not served by the shared reads *)
Definition self_served (ms : list metric) (m : metric) : Prop :=
  m = MPlain \/ (exists s, m = MAggr s /\ has_aggr ms = false) \/ (exists c, m = MGran c /\ has_gran ms = false).

Lemma metric_fetches_shape ms i m pair f : In f (metric_fetches ms i m pair) -> f = FPlain i pair /\ self_served ms m.
Proof.
  unfold self_served. destruct m as [s|c|]; cbn [metric_fetches].
  - destruct (has_aggr ms) eqn:E; [intros []|]. intros [<-|[]]. split; [reflexivity|]. right. left. exists s. auto.
  - destruct (has_gran ms) eqn:E; [intros []|]. intros [<-|[]]. split; [reflexivity|]. right. right. exists c. auto.
  - intros [<-|[]]. split; [reflexivity|]. left. reflexivity.
Qed.
Lemma metrics_fetches_shape ms pair f : forall l i, In f (metrics_fetches ms i l pair) ->
  exists j m, f = FPlain j pair /\ i <= j /\ nth_error l (j - i) = Some m /\ self_served ms m.
Proof.
  induction l as [|m t IH]; intros i H; [destruct H|]. cbn [metrics_fetches] in H. apply in_app_or in H. destruct H as [H|H].
  - destruct (metric_fetches_shape ms i m pair f H) as [E Sv]. exists i, m. rewrite Nat.sub_diag. repeat split; auto.
  - destruct (IH (S i) H) as [j [m' [E [L [N Sv]]]]]. exists j, m'. repeat split; [exact E | lia | | exact Sv].
    replace (j - i) with (S (j - S i)) by lia. exact N.
Qed.

Theorem analyze_trace_shape ms variant control av variants tr :
  analyze_trace ms variant control av variants = Some tr ->
  exists calls,
    tr = read_data ms variant ++ (if has_aggr ms || has_gran ms then [] else [FVariants variant]) ++ calls /\
    (forall f, In f calls -> exists j m pair, f = FPlain j pair /\ nth_error ms j = Some m /\ self_served ms m /\
                                              In pair (variant_pairs control variants)) /\
    length (filter is_shared_read tr) <= 2 /\
    (forall f, In f (read_data ms variant) -> is_shared_read f = true).
Proof.
  unfold analyze_trace.
  set (pairs := if av then variant_pairs control variants else firstn 1 (variant_pairs control variants)).
  destruct (guard_raises _ _); [discriminate|]. intros H. injection H as <-.
  exists (flat_map (metrics_fetches ms 0 ms) pairs).
  assert (Hcalls : forall f, In f (flat_map (metrics_fetches ms 0 ms) pairs) ->
            exists j m pair, f = FPlain j pair /\ nth_error ms j = Some m /\ self_served ms m /\ In pair (variant_pairs control variants)).
  { intros f Hf. apply in_flat_map in Hf. destruct Hf as [pair [Hp Hf]].
    destruct (metrics_fetches_shape ms pair f ms 0 Hf) as [j [m [E [_ [N Sv]]]]]. rewrite Nat.sub_0_r in N.
    exists j, m, pair. repeat split; auto. unfold pairs in Hp. destruct av; [exact Hp|].
    apply (firstn_subset 1 _ pair) in Hp || (revert Hp; generalize (variant_pairs control variants); intros l; destruct l; cbn; tauto). }
  split; [rewrite <- app_assoc; reflexivity|]. split; [exact Hcalls|]. split.
  - rewrite !filter_app.
    assert (Z1 : filter is_shared_read (if has_aggr ms || has_gran ms then [] else [FVariants variant]) = [])
      by (destruct (has_aggr ms || has_gran ms); reflexivity).
    assert (Z2 : filter is_shared_read (flat_map (metrics_fetches ms 0 ms) pairs) = []).
    { destruct (filter is_shared_read (flat_map (metrics_fetches ms 0 ms) pairs)) as [|f t] eqn:E; [reflexivity|].
      assert (Hin : In f (filter is_shared_read (flat_map (metrics_fetches ms 0 ms) pairs))) by (rewrite E; left; reflexivity).
      apply filter_In in Hin. destruct Hin as [Hin Hs]. destruct (Hcalls f Hin) as [j [m [pair [-> _]]]]. discriminate Hs. }
    rewrite Z1, Z2, !app_nil_r. unfold read_data.
    destruct (has_aggr ms), (has_gran ms); cbn; lia.
  - unfold read_data. intros f Hf. apply in_app_or in Hf.
    destruct (has_aggr ms), (has_gran ms); cbn in Hf; destruct Hf as [Hf|Hf]; try destruct Hf as [<-|[]]; try destruct Hf; reflexivity.
Qed.
