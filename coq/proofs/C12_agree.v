(* C12 - the analysis of a RatioOfMeans/Mean metric reads only the statistics it declared, so its result does not
   depend on what else the merged aggregate query computed.  About genR/Mean.v / genR/Aggr.v. *)
From Coq Require Import Reals String List Lra.
From TT Require Import lib.PreludeR lib.Distr genR.Aggr genR.Mean proofs.C14_pooling.
Import ListNotations.
Local Open Scope R_scope.

Definition olist (o : option string) : list string := match o with Some c => [c] | None => [] end.
(* the columns a metric declares (RatioOfMeans.aggr_cols: count, means, variances, all covariances of these) *)
Definition cfg_cols (cfg : rom) : list string :=
  cfg_numer cfg :: olist (cfg_denom cfg) ++ olist (cfg_numer_covariate cfg) ++ olist (cfg_denom_covariate cfg).
Definition oin (o : option string) (cols : list string) : Prop := match o with None => True | Some c => In c cols end.

(* two aggregates agree on what a metric with these columns requests: the count, the mean and variance of each column, and
   the covariance of every pair of DIFFERENT columns (aggr_cols requests cov for col0 < col1 only) *)
Definition agree (cols : list string) (a a' : aggregates R) : Prop :=
  count_ a = count_ a' /\
  (forall c, In c cols -> mean_ a c = mean_ a' c /\ var_ a c = var_ a' c) /\
  (forall c d, In c cols -> In d cols -> c <> d -> cov_ a (sorted_tuple c d) = cov_ a' (sorted_tuple c d)).
Definition odiff (o1 o2 : option string) : Prop := match o1, o2 with Some c, Some d => c <> d | _, _ => True end.

Section Agree.
Variable cols : list string.
Variables a a' : aggregates R.
Hypothesis H : agree cols a a'.

Lemma ag_count : agg_count a = agg_count a'.
Proof. unfold agg_count. destruct H as [-> _]. reflexivity. Qed.
Lemma ag_mean o : oin o cols -> agg_mean a o = agg_mean a' o.
Proof. destruct o as [c|]; cbn; [|reflexivity]. intros Hc. apply H. exact Hc. Qed.
Lemma ag_var o : oin o cols -> agg_var a o = agg_var a' o.
Proof. destruct o as [c|]; cbn; [|reflexivity]. intros Hc. apply H. exact Hc. Qed.
Lemma ag_cov o1 o2 : oin o1 cols -> oin o2 cols -> odiff o1 o2 -> agg_cov a o1 o2 = agg_cov a' o1 o2.
Proof. destruct o1 as [c|], o2 as [d|]; cbn; try reflexivity. intros Hc Hd Hne. apply H; assumption. Qed.
Lemma ag_ratio_var o1 o2 : oin o1 cols -> oin o2 cols -> odiff o1 o2 -> agg_ratio_var a o1 o2 = agg_ratio_var a' o1 o2.
Proof. intros H1 H2 D. unfold agg_ratio_var. rewrite !(ag_mean _ H1), !(ag_mean _ H2), (ag_var _ H1), (ag_var _ H2), (ag_cov _ _ H1 H2 D). reflexivity. Qed.
Lemma ag_ratio_cov o1 o2 o3 o4 : oin o1 cols -> oin o2 cols -> oin o3 cols -> oin o4 cols ->
  odiff o1 o3 -> odiff o1 o4 -> odiff o2 o3 -> odiff o2 o4 ->
  agg_ratio_cov a o1 o2 o3 o4 = agg_ratio_cov a' o1 o2 o3 o4.
Proof.
  intros H1 H2 H3 H4 D13 D14 D23 D24. unfold agg_ratio_cov.
  rewrite !(ag_mean _ H1), !(ag_mean _ H2), !(ag_mean _ H3), !(ag_mean _ H4),
    (ag_cov _ _ H1 H3 D13), (ag_cov _ _ H1 H4 D14), (ag_cov _ _ H2 H3 D23), (ag_cov _ _ H2 H4 D24). reflexivity.
Qed.
End Agree.

Lemma agree_add cols a a' b b' : agree cols a a' -> agree cols b b' -> agree cols (agg_add a b) (agg_add a' b').
Proof.
  intros Ha Hb. pose proof (ag_count cols a a' Ha) as Ca. pose proof (ag_count cols b b' Hb) as Cb.
  split; [|split].
  - cbn. destruct Ha as [Ea _]. rewrite Ea, Ca, Cb. reflexivity.
  - intros c Hc. cbn. unfold add_mean, add_var.
    rewrite Ca, Cb, (ag_mean cols a a' Ha (Some c) Hc), (ag_mean cols b b' Hb (Some c) Hc),
      (ag_var cols a a' Ha (Some c) Hc), (ag_var cols b b' Hb (Some c) Hc). split; reflexivity.
  - intros c d Hc Hd Hne. cbn. unfold add_cov.
    assert (Hf : In (fst (sorted_tuple c d)) cols /\ In (snd (sorted_tuple c d)) cols /\ fst (sorted_tuple c d) <> snd (sorted_tuple c d)).
    { destruct (sorted_tuple_cases c d) as [E|E]; rewrite E; cbn; auto. }
    destruct Hf as (Hf & Hs & Hd').
    rewrite Ca, Cb, !(ag_mean cols a a' Ha (Some _) Hf), !(ag_mean cols b b' Hb (Some _) Hf),
      !(ag_mean cols a a' Ha (Some _) Hs), !(ag_mean cols b b' Hb (Some _) Hs),
      (ag_cov cols a a' Ha (Some _) (Some _) Hf Hs Hd'), (ag_cov cols b b' Hb (Some _) (Some _) Hf Hs Hd'). reflexivity.
Qed.

Lemma cfg_cols_in cfg :
  oin (Some (cfg_numer cfg)) (cfg_cols cfg) /\ oin (cfg_denom cfg) (cfg_cols cfg) /\
  oin (cfg_numer_covariate cfg) (cfg_cols cfg) /\ oin (cfg_denom_covariate cfg) (cfg_cols cfg).
Proof.
  unfold cfg_cols. destruct (cfg_denom cfg), (cfg_numer_covariate cfg), (cfg_denom_covariate cfg); cbn; tauto.
Qed.

(* the metric's columns are pairwise different (with a repeated column the code itself raises KeyError: DESIGN.md 7.2) *)
Lemma cfg_cols_distinct cfg : NoDup (cfg_cols cfg) ->
  odiff (Some (cfg_numer cfg)) (cfg_denom cfg) /\ odiff (cfg_numer_covariate cfg) (cfg_denom_covariate cfg) /\
  odiff (Some (cfg_numer cfg)) (cfg_numer_covariate cfg) /\ odiff (Some (cfg_numer cfg)) (cfg_denom_covariate cfg) /\
  odiff (cfg_denom cfg) (cfg_numer_covariate cfg) /\ odiff (cfg_denom cfg) (cfg_denom_covariate cfg).
Proof.
  unfold cfg_cols. destruct (cfg_denom cfg) as [d|], (cfg_numer_covariate cfg) as [nc|], (cfg_denom_covariate cfg) as [dc|];
    cbn; intros H; repeat split; try exact I; intros E; subst;
    repeat match goal with H : NoDup (_ :: _) |- _ => inversion H; clear H; subst end; cbn in *; tauto.
Qed.

Theorem analysis_reads_only_declared fam cfg c c' t t' : NoDup (cfg_cols cfg) ->
  agree (cfg_cols cfg) c c' -> agree (cfg_cols cfg) t t' ->
  rom_analyze_aggregates fam cfg c t = rom_analyze_aggregates fam cfg c' t'.
Proof.
  intros Hnd Hc Ht. pose proof (agree_add _ _ _ _ _ Hc Ht) as Htot.
  destruct (cfg_cols_distinct cfg Hnd) as (D12 & D34 & D13 & D14 & D23 & D24).
  destruct (cfg_cols_in cfg) as (I1 & I2 & I3 & I4).
  unfold rom_analyze_aggregates, agg_with_zero_div, agg_wrap, rom_covariate_coef, rom_covariate_cov, rom_metric_mean, rom_metric_var,
    rom_covariate_cov.
  rewrite (ag_ratio_var _ _ _ Htot _ _ I3 I4 D34), (ag_ratio_cov _ _ _ Htot _ _ _ _ I1 I2 I3 I4 D13 D14 D23 D24),
    (ag_mean _ _ _ Htot _ I3), (ag_mean _ _ _ Htot _ I4).
  rewrite !(ag_mean _ _ _ Hc _ I1), !(ag_mean _ _ _ Hc _ I2), !(ag_mean _ _ _ Hc _ I3), !(ag_mean _ _ _ Hc _ I4),
    !(ag_mean _ _ _ Ht _ I1), !(ag_mean _ _ _ Ht _ I2), !(ag_mean _ _ _ Ht _ I3), !(ag_mean _ _ _ Ht _ I4).
  rewrite !(ag_ratio_var _ _ _ Hc _ _ I1 I2 D12), !(ag_ratio_var _ _ _ Hc _ _ I3 I4 D34), !(ag_ratio_cov _ _ _ Hc _ _ _ _ I1 I2 I3 I4 D13 D14 D23 D24),
    !(ag_ratio_var _ _ _ Ht _ _ I1 I2 D12), !(ag_ratio_var _ _ _ Ht _ _ I3 I4 D34), !(ag_ratio_cov _ _ _ Ht _ _ _ _ I1 I2 I3 I4 D13 D14 D23 D24).
  rewrite (ag_count _ _ _ Hc), (ag_count _ _ _ Ht). reflexivity.
Qed.
