(* C01 - the DENOTATION of the query plans: evaluating model/ReadPlan.plan_of_spec (lib/PlanSem.v) on any table gives,
   for every group, the exact count, means, unbiased variances and covariances of the group's rows. *)
From Coq Require Import Reals String List Bool Lra Lia.
From TT Require Import lib.Plan lib.PlanSem lib.Stats model.ReadPlan proofs.C01_plans.
Import ListNotations.
Local Open Scope R_scope.

Definition colf (c : string) : row -> R := fun r => r c.

(* ---------- names: the generated aliases are pairwise distinguishable by their prefixes ---------- *)
Lemma eqb_demean c c' : String.eqb (a_demean c) (a_demean c') = String.eqb c c'. Proof. reflexivity. Qed.
Lemma eqb_var c c' : String.eqb (a_var c) (a_var c') = String.eqb c c'. Proof. reflexivity. Qed.
Lemma eqb_mean c c' : String.eqb (a_mean c) (a_mean c') = String.eqb c c'. Proof. reflexivity. Qed.
Lemma eqb_var_cov c p : String.eqb (a_var c) (a_cov p) = false. Proof. reflexivity. Qed.
Lemma eqb_cov_var c p : String.eqb (a_cov p) (a_var c) = false. Proof. reflexivity. Qed.
Lemma eqb_mean_var c c' : String.eqb (a_mean c) (a_var c') = false. Proof. reflexivity. Qed.
Lemma eqb_mean_cov c p : String.eqb (a_mean c) (a_cov p) = false. Proof. reflexivity. Qed.
Lemma eqb_var_mean c c' : String.eqb (a_var c) (a_mean c') = false. Proof. reflexivity. Qed.
Lemma eqb_cov_mean c p : String.eqb (a_cov p) (a_mean c) = false. Proof. reflexivity. Qed.
Lemma eqb_count_mean c : String.eqb a_count (a_mean c) = false. Proof. reflexivity. Qed.
Lemma eqb_count_var c : String.eqb a_count (a_var c) = false. Proof. reflexivity. Qed.
Lemma eqb_count_cov p : String.eqb a_count (a_cov p) = false. Proof. reflexivity. Qed.
Lemma eqb_mean_count c : String.eqb (a_mean c) a_count = false. Proof. reflexivity. Qed.
Lemma eqb_var_count c : String.eqb (a_var c) a_count = false. Proof. reflexivity. Qed.
Lemma eqb_cov_count p : String.eqb (a_cov p) a_count = false. Proof. reflexivity. Qed.
Lemma eqb_gmean c c' : String.eqb (a_gmean c) (a_gmean c') = String.eqb c c'. Proof. reflexivity. Qed.
Lemma eqb_demean_gmean c c' : String.eqb (a_demean c) (a_gmean c') = false. Proof. reflexivity. Qed.
Lemma eqb_gmean_demean c c' : String.eqb (a_gmean c) (a_demean c') = false. Proof. reflexivity. Qed.
Lemma eqb_demean_var c c' : String.eqb (a_demean c) (a_var c') = false. Proof. reflexivity. Qed.
Lemma eqb_demean_cov c p : String.eqb (a_demean c) (a_cov p) = false. Proof. reflexivity. Qed.

Section Denote.
Variable q : request.
Variable g : option string.
Variable tbl : table.

(* the columns of the data the request touches *)
Definition data_col (c : string) : Prop := In c (r_mean q) \/ In c (r_covar q) \/ g = Some c.
(* data columns are not named like generated aliases (tea-tasting's aliases start with an underscore) *)
Hypothesis fresh : forall c, data_col c ->
  (forall x, String.eqb c (a_demean x) = false) /\ (forall x, String.eqb c (a_var x) = false) /\
  (forall p, String.eqb c (a_cov p) = false) /\ (forall x, String.eqb c (a_mean x) = false) /\ String.eqb c a_count = false /\
  (forall x, String.eqb c (a_gmean x) = false).
(* distinct covariance requests get distinct output names (see the known finding C01-alias-collision) *)
Hypothesis cov_alias_inj : forall p p', In p (r_cov q) -> In p' (r_cov q) -> a_cov p = a_cov p' -> p = p'.
(* r_covar is the union of the var columns and of both columns of every cov pair *)
Hypothesis var_in_covar : forall c, In c (r_var q) -> In c (r_covar q).
Hypothesis cov_in_covar : forall p, In p (r_cov q) -> In (fst p) (r_covar q) /\ In (snd p) (r_covar q).

(* ---------- stage 1: demeaned columns ---------- *)
(* ungrouped: one step  _demean__c := c - mean(c);  grouped: the group means are joined back as columns _group_mean__c
   first, then  _demean__c := c - _group_mean__c *)
Definition d1 : list (string * expr) := map (fun c => (a_demean c, Sub (Col c) (MeanOver (Col c) g))) (r_covar q).
Definition d0 : list (string * expr) := map (fun c => (a_gmean c, MeanOver (Col c) g)) (r_covar q).
Definition d1g : list (string * expr) := map (fun c => (a_demean c, Sub (Col c) (Col (a_gmean c)))) (r_covar q).
Definition h0 : row -> row := wc_row d0 tbl.
Definition tbl0 : table := map h0 tbl.
Definition h1 : row -> row :=
  match g with Some _ => fun r => wc_row d1g tbl0 (h0 r) | None => wc_row d1 tbl end.

Lemma h0_data c r : data_col c -> h0 r c = r c.
Proof.
  intros Hc. unfold h0, wc_row, d0. rewrite lookup_map_miss; [reflexivity|].
  intros x _. apply (fresh c Hc).
Qed.
Lemma h0_gmean c r : In c (r_covar q) -> h0 r (a_gmean c) = smean (colf c) (part g r tbl).
Proof.
  intros Hc. unfold h0, wc_row, d0.
  rewrite (lookup_map_hit a_gmean (fun c => MeanOver (Col c) g) (r_covar q) c Hc); [reflexivity|].
  intros x _ E. assert (x = c); [|subst; reflexivity].
  apply String.eqb_eq. rewrite <- eqb_gmean. apply String.eqb_eq. exact E.
Qed.
Lemma h1_data c r : data_col c -> h1 r c = r c.
Proof.
  intros Hc. unfold h1. destruct g as [gc|] eqn:Eg.
  - unfold wc_row, d1g. rewrite lookup_map_miss by (intros x _; apply (proj1 (fresh c Hc))). apply h0_data. exact Hc.
  - unfold wc_row, d1. rewrite lookup_map_miss; [reflexivity|]. intros x _. apply (proj1 (fresh c Hc)).
Qed.
Lemma h1_demean c r : In c (r_covar q) -> h1 r (a_demean c) = r c - smean (colf c) (part g r tbl).
Proof.
  intros Hc. assert (Hd : data_col c) by (right; left; exact Hc). unfold h1. destruct g as [gc|] eqn:Eg.
  - unfold wc_row, d1g.
    rewrite (lookup_map_hit a_demean (fun c => Sub (Col c) (Col (a_gmean c))) (r_covar q) c Hc).
    + cbn [ev]. rewrite (h0_data c r Hd). rewrite <- Eg. rewrite (h0_gmean c r Hc). reflexivity.
    + intros x _ E. assert (x = c); [|subst; reflexivity].
      apply String.eqb_eq. rewrite <- eqb_demean. apply String.eqb_eq. exact E.
  - unfold wc_row, d1.
    rewrite (lookup_map_hit a_demean (fun c => Sub (Col c) (MeanOver (Col c) g)) (r_covar q) c Hc).
    + rewrite Eg. reflexivity.
    + intros x _ E. assert (x = c); [|subst; reflexivity].
      apply String.eqb_eq. rewrite <- eqb_demean. apply String.eqb_eq. exact E.
Qed.
Lemma keeps_of_data h : (forall c r, data_col c -> h r c = r c) -> keeps g h.
Proof.
  intros H r r'. destruct g as [c|] eqn:Eg; [|reflexivity]. cbn.
  rewrite !(H c) by (right; right; exact Eg). reflexivity.
Qed.
Lemma keeps_h1 : keeps g h1.
Proof. apply keeps_of_data. intros c r Hc. apply h1_data. exact Hc. Qed.

(* ---------- stage 2: products of demeaned columns ---------- *)
Definition d2 : list (string * expr) :=
  map (fun c => (a_var c, Mul (demeaned c) (demeaned c))) (r_var q)
  ++ map (fun p => (a_cov p, Mul (demeaned (fst p)) (demeaned (snd p)))) (r_cov q).
Definition tbl1 : table := map h1 tbl.
Definition h2 : row -> row := wc_row d2 tbl1.

Lemma h2_other n r : (forall x, String.eqb n (a_var x) = false) -> (forall p, String.eqb n (a_cov p) = false) -> h2 r n = r n.
Proof.
  intros Hv Hc. unfold h2, wc_row, d2. rewrite lookup_app, !lookup_map_miss; [reflexivity | intros; apply Hc | intros; apply Hv].
Qed.
Lemma h2_data c r : data_col c -> h2 r c = r c.
Proof. intros Hc. destruct (fresh c Hc) as (_ & Hv & Hcv & _). apply h2_other; assumption. Qed.
Lemma h2_var c r : In c (r_var q) -> h2 r (a_var c) = r (a_demean c) * r (a_demean c).
Proof.
  intros Hc. unfold h2, wc_row, d2. rewrite lookup_app.
  rewrite (lookup_map_hit a_var (fun c => Mul (demeaned c) (demeaned c)) (r_var q) c Hc); [reflexivity|].
  intros x _ E. assert (x = c); [|subst; reflexivity].
  apply String.eqb_eq. rewrite <- eqb_var. apply String.eqb_eq. exact E.
Qed.
Lemma h2_cov p r : In p (r_cov q) -> h2 r (a_cov p) = r (a_demean (fst p)) * r (a_demean (snd p)).
Proof.
  intros Hp. unfold h2, wc_row, d2. rewrite lookup_app, lookup_map_miss by (intros; apply eqb_cov_var).
  rewrite (lookup_map_hit a_cov (fun p => Mul (demeaned (fst p)) (demeaned (snd p))) (r_cov q) p Hp); [reflexivity|].
  intros x Hx E. rewrite (cov_alias_inj x p Hx Hp E). reflexivity.
Qed.
Lemma keeps_h2 : keeps g h2.
Proof. apply keeps_of_data. intros c r Hc. apply h2_data. exact Hc. Qed.

(* the row of the twice-extended table, in terms of the original row r0 of group l *)
Definition h12 (r : row) : row := h2 (h1 r).
Lemma keeps_h12 : keeps g h12.
Proof. intros r r'. unfold h12. rewrite keeps_h2, keeps_h1. reflexivity. Qed.

Section Group.
Variable rep : row.
Hypothesis Hrep : In rep tbl.
Let l := part g rep tbl.

Lemma h12_data c r : data_col c -> h12 r c = r c.
Proof. intros Hc. unfold h12. rewrite h2_data, h1_data by exact Hc. reflexivity. Qed.
Lemma h12_var c r : In c (r_var q) -> In r l -> h12 r (a_var c) = demean (colf c) l r * demean (colf c) l r.
Proof.
  intros Hc Hr. unfold h12. rewrite (h2_var c _ Hc), (h1_demean c r (var_in_covar c Hc)).
  unfold l in *. rewrite (part_of_member g rep tbl r Hr). reflexivity.
Qed.
Lemma h12_cov p r : In p (r_cov q) -> In r l ->
  h12 r (a_cov p) = demean (colf (fst p)) l r * demean (colf (snd p)) l r.
Proof.
  intros Hp Hr. destruct (cov_in_covar p Hp) as [H1 H2]. unfold h12.
  rewrite (h2_cov p _ Hp), (h1_demean _ r H1), (h1_demean _ r H2).
  unfold l in *. rewrite (part_of_member g rep tbl r Hr). reflexivity.
Qed.

(* the group of the representative in the extended table is the image of the original group *)
Lemma group_image : part g (h12 rep) (map h12 tbl) = map h12 l.
Proof. apply part_map. exact keeps_h12. Qed.
End Group.

(* ---------- stage 3 + 4 for the narwhals plan ---------- *)
Definition has_covar : bool := negb (Nat.eqb (length (r_covar q)) 0).
Definition d3 : list (string * expr) :=
  (if r_has_count q || has_covar then [(a_count, AggLen)] else [])
  ++ map (fun c => (a_mean c, AggMean (Col c))) (r_mean q)
  ++ map (fun c => (a_var c, AggMean (Col (a_var c)))) (r_var q)
  ++ map (fun p => (a_cov p, AggMean (Col (a_cov p)))) (r_cov q).
Definition unbias (e : expr) : expr := Div e (Sub (Lit 1) (Div (Lit 1) (Col a_count))).
Definition d4 : list (string * expr) :=
  map (fun c => (a_var c, unbias (Col (a_var c)))) (r_var q) ++ map (fun p => (a_cov p, unbias (Col (a_cov p)))) (r_cov q).

Definition demean_steps : list step :=
  match g with Some _ => [WithColumns d0; WithColumns d1g] | None => [WithColumns d1] end.
Lemma nw_plan_unfold :
  nw_plan q g = (if has_covar then demean_steps ++ [WithColumns d2] else []) ++ [Aggregate g d3]
                ++ (if has_covar then [WithColumns d4] else []).
Proof. unfold nw_plan, demean_steps, d0, d1g, d1. destruct g; reflexivity. Qed.
Lemma run_plan_app p1 p2 t : run_plan (p1 ++ p2) t = run_plan p2 (run_plan p1 t).
Proof. unfold run_plan. apply fold_left_app. Qed.
(* the table after the demeaning step(s) *)
Lemma demeaning_steps : run_plan demean_steps tbl = tbl1.
Proof.
  unfold demean_steps, tbl1, h1. destruct g; cbn [run_plan fold_left run_step]; [|reflexivity].
  unfold with_columns. fold h0. fold tbl0. unfold tbl0 at 2. rewrite map_map. reflexivity.
Qed.

Lemma lookup_count_head rest : lookup a_count ((if r_has_count q || has_covar then [(a_count, AggLen)] else []) ++ rest)
  = if r_has_count q || has_covar then Some AggLen else lookup a_count rest.
Proof. destruct (r_has_count q || has_covar); reflexivity. Qed.
Lemma lookup_skip_count n rest : String.eqb n a_count = false ->
  lookup n ((if r_has_count q || has_covar then [(a_count, AggLen)] else []) ++ rest) = lookup n rest.
Proof. intros H. destruct (r_has_count q || has_covar); cbn; [rewrite H|]; reflexivity. Qed.

Lemma d3_count : r_has_count q || has_covar = true -> lookup a_count d3 = Some AggLen.
Proof. intros H. unfold d3. rewrite lookup_count_head, H. reflexivity. Qed.
Lemma d3_mean c : In c (r_mean q) -> lookup (a_mean c) d3 = Some (AggMean (Col c)).
Proof.
  intros Hc. unfold d3. rewrite lookup_skip_count by apply eqb_mean_count. rewrite lookup_app.
  rewrite (lookup_map_hit a_mean (fun c => AggMean (Col c)) (r_mean q) c Hc); [reflexivity|].
  intros x _ E. assert (x = c); [|subst; reflexivity].
  apply String.eqb_eq. rewrite <- eqb_mean. apply String.eqb_eq. exact E.
Qed.
Lemma d3_var c : In c (r_var q) -> lookup (a_var c) d3 = Some (AggMean (Col (a_var c))).
Proof.
  intros Hc. unfold d3. rewrite lookup_skip_count by apply eqb_var_count.
  rewrite lookup_app, lookup_map_miss by (intros; apply eqb_var_mean). rewrite lookup_app.
  rewrite (lookup_map_hit a_var (fun c => AggMean (Col (a_var c))) (r_var q) c Hc); [reflexivity|].
  intros x _ E. rewrite E. reflexivity.
Qed.
Lemma d3_cov p : In p (r_cov q) -> lookup (a_cov p) d3 = Some (AggMean (Col (a_cov p))).
Proof.
  intros Hp. unfold d3. rewrite lookup_skip_count by apply eqb_cov_count.
  rewrite lookup_app, lookup_map_miss by (intros; apply eqb_cov_mean).
  rewrite lookup_app, lookup_map_miss by (intros; apply eqb_cov_var).
  rewrite (lookup_map_hit a_cov (fun p => AggMean (Col (a_cov p))) (r_cov q) p Hp); [reflexivity|].
  intros x _ E. rewrite E. reflexivity.
Qed.
Lemma d3_data c : data_col c -> lookup c d3 = None.
Proof.
  intros Hc. destruct (fresh c Hc) as (_ & Hv & Hcv & Hm & Hn & _). unfold d3.
  rewrite lookup_skip_count by exact Hn.
  rewrite lookup_app, lookup_map_miss by (intros; apply Hm).
  rewrite lookup_app, lookup_map_miss by (intros; apply Hv).
  apply lookup_map_miss. intros; apply Hcv.
Qed.

Lemma d4_var c : In c (r_var q) -> lookup (a_var c) d4 = Some (unbias (Col (a_var c))).
Proof.
  intros Hc. unfold d4. rewrite lookup_app.
  rewrite (lookup_map_hit a_var (fun c => unbias (Col (a_var c))) (r_var q) c Hc); [reflexivity|].
  intros x _ E. rewrite E. reflexivity.
Qed.
Lemma d4_cov p : In p (r_cov q) -> lookup (a_cov p) d4 = Some (unbias (Col (a_cov p))).
Proof.
  intros Hp. unfold d4. rewrite lookup_app, lookup_map_miss by (intros; apply eqb_cov_var).
  rewrite (lookup_map_hit a_cov (fun p => unbias (Col (a_cov p))) (r_cov q) p Hp); [reflexivity|].
  intros x _ E. rewrite E. reflexivity.
Qed.
Lemma d4_other n : (forall x, String.eqb n (a_var x) = false) -> (forall p, String.eqb n (a_cov p) = false) -> lookup n d4 = None.
Proof. intros Hv Hc. unfold d4. rewrite lookup_app, !lookup_map_miss; [reflexivity | intros; apply Hc | intros; apply Hv]. Qed.

(* the statistics a result row must carry for the group of `rep` *)
Definition exact_for_gen (with_count : bool) (rep o : row) : Prop :=
  let l := part g rep tbl in
  (with_count = true -> o a_count = cnt l) /\
  (forall c, In c (r_mean q) -> o (a_mean c) = smean (colf c) l) /\
  (forall c, In c (r_var q) -> o (a_var c) = svar (colf c) l) /\
  (forall p, In p (r_cov q) -> o (a_cov p) = scov (colf (fst p)) (colf (snd p)) l) /\
  (forall c, g = Some c -> o c = rep c).
Definition exact_for := exact_for_gen (r_has_count q || has_covar).

(* narwhals, with variance / covariance columns *)
Lemma nw_denotes_covar : has_covar = true ->
  exists F, run_plan (nw_plan q g) tbl = map F (reps g tbl) /\
            forall rep, In rep (reps g tbl) -> (2 <= length (part g rep tbl))%nat -> exact_for rep (F rep).
Proof.
  intros Hc. rewrite nw_plan_unfold, Hc. rewrite !run_plan_app, demeaning_steps. cbn [run_plan fold_left run_step].
  change (with_columns d2 tbl1) with (map h2 tbl1).
  unfold tbl1. rewrite map_map. change (map (fun x => h2 (h1 x)) tbl) with (map h12 tbl).
  unfold aggregate. rewrite (reps_map g h12 tbl keeps_h12), map_map.
  set (tbl2 := map h12 tbl). assert (Etbl2 : tbl2 = map h12 tbl) by reflexivity.
  set (o3 := fun rep => agg_row g d3 tbl2 (h12 rep)).
  set (out3 := map o3 (reps g tbl)).
  unfold with_columns. unfold out3 at 2. rewrite map_map.
  exists (fun rep => wc_row d4 out3 (o3 rep)). split; [reflexivity|].
  intros rep Hrep Hlen. pose proof (reps_in g tbl rep Hrep) as Hin.
  set (l := part g rep tbl) in *.
  assert (Hgrp : part g (h12 rep) tbl2 = map h12 l) by (rewrite Etbl2; apply group_image).
  (* stage 3 values *)
  assert (H3count : o3 rep a_count = cnt l).
  { unfold o3, agg_row. rewrite d3_count by (rewrite Hc; apply orb_true_r). cbn [av]. rewrite Hgrp, cnt_map. reflexivity. }
  assert (H3mean : forall c, In c (r_mean q) -> o3 rep (a_mean c) = smean (colf c) l).
  { intros c Hcm. unfold o3, agg_row. rewrite (d3_mean c Hcm). cbn [av ev]. rewrite Hgrp, smean_map.
    apply smean_ext. intros r. apply h12_data. left. exact Hcm. }
  assert (H3var : forall c, In c (r_var q) -> o3 rep (a_var c) = smean (fun r => demean (colf c) l r * demean (colf c) l r) l).
  { intros c Hcv. unfold o3, agg_row. rewrite (d3_var c Hcv). cbn [av ev]. rewrite Hgrp, smean_map.
    apply smean_ext_in. intros r Hr. apply (h12_var rep c r Hcv Hr). }
  assert (H3cov : forall p, In p (r_cov q) ->
            o3 rep (a_cov p) = smean (fun r => demean (colf (fst p)) l r * demean (colf (snd p)) l r) l).
  { intros p Hp. unfold o3, agg_row. rewrite (d3_cov p Hp). cbn [av ev]. rewrite Hgrp, smean_map.
    apply smean_ext_in. intros r Hr. apply (h12_cov rep p r Hp Hr). }
  unfold exact_for, exact_for_gen. fold l. repeat split.
  - intros _. unfold wc_row. rewrite d4_other by (intros; first [apply eqb_count_var | apply eqb_count_cov]). exact H3count.
  - intros c Hcm. unfold wc_row. rewrite d4_other by (intros; first [apply eqb_mean_var | apply eqb_mean_cov]). apply H3mean. exact Hcm.
  - intros c Hcv. unfold wc_row. rewrite (d4_var c Hcv). unfold unbias. cbn [ev]. rewrite (H3var c Hcv), H3count.
    apply narwhals_var_identity. exact Hlen.
  - intros p Hp. unfold wc_row. rewrite (d4_cov p Hp). unfold unbias. cbn [ev]. rewrite (H3cov p Hp), H3count.
    apply narwhals_cov_identity. exact Hlen.
  - intros c Eg. assert (Hd : data_col c) by (right; right; exact Eg).
    destruct (fresh c Hd) as (_ & Hv & Hcv & _).
    unfold wc_row. rewrite (d4_other c Hv Hcv). unfold o3, agg_row. rewrite (d3_data c Hd). apply h12_data. exact Hd.
Qed.

(* narwhals, count and means only: a single aggregation *)
Lemma nw_denotes_plain : has_covar = false ->
  exists F, run_plan (nw_plan q g) tbl = map F (reps g tbl) /\
            forall rep, In rep (reps g tbl) -> exact_for rep (F rep).
Proof.
  intros Hc. rewrite nw_plan_unfold, Hc. cbn [app run_plan fold_left run_step]. unfold aggregate.
  exists (agg_row g d3 tbl). split; [reflexivity|].
  assert (Hnil : r_covar q = []).
  { unfold has_covar in Hc. destruct (r_covar q); [reflexivity | discriminate]. }
  intros rep Hrep. unfold exact_for, exact_for_gen. repeat split.
  - intros H. unfold agg_row. rewrite (d3_count H). reflexivity.
  - intros c Hcm. unfold agg_row. rewrite (d3_mean c Hcm). reflexivity.
  - intros c Hcv. apply var_in_covar in Hcv. rewrite Hnil in Hcv. destruct Hcv.
  - intros p Hp. apply cov_in_covar in Hp. rewrite Hnil in Hp. destruct Hp as [[] _].
  - intros c Eg. unfold agg_row. rewrite d3_data by (right; right; exact Eg). reflexivity.
Qed.

(* ---------- ibis, backend with var / cov operators: one aggregation with sample var / cov ---------- *)
Lemma ibis_native_denotes :
  exists F, run_plan (ibis_native_plan q g) tbl = map F (reps g tbl) /\
            forall rep, In rep (reps g tbl) -> exact_for_gen (r_has_count q) rep (F rep).
Proof.
  unfold ibis_native_plan. cbn [run_plan fold_left run_step]. unfold aggregate.
  set (dn := (if r_has_count q then [(a_count, AggLen)] else [])
             ++ map (fun c => (a_mean c, AggMean (Cast (Col c)))) (r_mean q)
             ++ map (fun c => (a_var c, AggVar true (Cast (Col c)))) (r_var q)
             ++ map (fun p => (a_cov p, AggCov true (Cast (Col (fst p))) (Cast (Col (snd p))))) (r_cov q)).
  exists (agg_row g dn tbl). split; [reflexivity|].
  assert (Hskip : forall n rest, String.eqb n a_count = false ->
            lookup n ((if r_has_count q then [(a_count, AggLen)] else []) ++ rest) = lookup n rest).
  { intros n rest H. destruct (r_has_count q); cbn; [rewrite H|]; reflexivity. }
  intros rep Hrep. unfold exact_for_gen. repeat split.
  - intros H. unfold agg_row, dn. rewrite H. reflexivity.
  - intros c Hcm. unfold agg_row, dn. rewrite Hskip by apply eqb_mean_count. rewrite lookup_app.
    rewrite (lookup_map_hit a_mean (fun c => AggMean (Cast (Col c))) (r_mean q) c Hcm); [reflexivity|].
    intros x _ E. assert (x = c); [|subst; reflexivity]. apply String.eqb_eq. rewrite <- eqb_mean. apply String.eqb_eq. exact E.
  - intros c Hcv. unfold agg_row, dn. rewrite Hskip by apply eqb_var_count.
    rewrite lookup_app, lookup_map_miss by (intros; apply eqb_var_mean). rewrite lookup_app.
    rewrite (lookup_map_hit a_var (fun c => AggVar true (Cast (Col c))) (r_var q) c Hcv); [reflexivity|].
    intros x _ E. assert (x = c); [|subst; reflexivity]. apply String.eqb_eq. rewrite <- eqb_var. apply String.eqb_eq. exact E.
  - intros p Hp. unfold agg_row, dn. rewrite Hskip by apply eqb_cov_count.
    rewrite lookup_app, lookup_map_miss by (intros; apply eqb_cov_mean).
    rewrite lookup_app, lookup_map_miss by (intros; apply eqb_cov_var).
    rewrite (lookup_map_hit a_cov (fun p => AggCov true (Cast (Col (fst p))) (Cast (Col (snd p)))) (r_cov q) p Hp); [reflexivity|].
    intros x Hx E. rewrite (cov_alias_inj x p Hx Hp E). reflexivity.
  - intros c Eg. assert (Hd : data_col c) by (right; right; exact Eg).
    destruct (fresh c Hd) as (_ & Hv & Hcv & Hm & Hn & _). unfold agg_row, dn.
    rewrite Hskip by exact Hn. rewrite lookup_app, lookup_map_miss by (intros; apply Hm).
    rewrite lookup_app, lookup_map_miss by (intros; apply Hv). rewrite lookup_map_miss by (intros; apply Hcv). reflexivity.
Qed.

(* ---------- ibis, SQL demeaning fallback ---------- *)
Definition d1f : list (string * expr) := map (fun c => (a_demean c, Sub (Col c) (MeanOver (Cast (Col c)) g))) (r_covar q).
Definition h1f : row -> row := wc_row d1f tbl.
Lemma h1f_data c r : data_col c -> h1f r c = r c.
Proof.
  intros Hc. unfold h1f, wc_row, d1f. rewrite lookup_map_miss; [reflexivity|]. intros x _. apply (proj1 (fresh c Hc)).
Qed.
Lemma h1f_demean c r : In c (r_covar q) -> h1f r (a_demean c) = r c - smean (colf c) (part g r tbl).
Proof.
  intros Hc. unfold h1f, wc_row, d1f.
  rewrite (lookup_map_hit a_demean (fun c => Sub (Col c) (MeanOver (Cast (Col c)) g)) (r_covar q) c Hc).
  - reflexivity.
  - intros x _ E. assert (x = c); [|subst; reflexivity].
    apply String.eqb_eq. rewrite <- eqb_demean. apply String.eqb_eq. exact E.
Qed.
Lemma keeps_h1f : keeps g h1f.
Proof. apply keeps_of_data. intros c r Hc. apply h1f_data. exact Hc. Qed.

Definition ssf (a b : string) : expr := Div (AggSum (Mul (demeaned a) (demeaned b))) (Sub AggLen (Lit 1)).
Definition d3f : list (string * expr) :=
  (if r_has_count q then [(a_count, AggLen)] else [])
  ++ map (fun c => (a_mean c, AggMean (Cast (Col c)))) (r_mean q)
  ++ map (fun c => (a_var c, ssf c c)) (r_var q)
  ++ map (fun p => (a_cov p, ssf (fst p) (snd p))) (r_cov q).

Lemma ibis_fallback_unfold :
  ibis_fallback_plan q g = (if has_covar then [WithColumns d1f] else []) ++ [Aggregate g d3f].
Proof. reflexivity. Qed.

Lemma d3f_skip n rest : String.eqb n a_count = false ->
  lookup n ((if r_has_count q then [(a_count, AggLen)] else []) ++ rest) = lookup n rest.
Proof. intros H. destruct (r_has_count q); cbn; [rewrite H|]; reflexivity. Qed.
Lemma d3f_count : r_has_count q = true -> lookup a_count d3f = Some AggLen.
Proof. intros H. unfold d3f. rewrite H. reflexivity. Qed.
Lemma d3f_mean c : In c (r_mean q) -> lookup (a_mean c) d3f = Some (AggMean (Cast (Col c))).
Proof.
  intros Hc. unfold d3f. rewrite d3f_skip by apply eqb_mean_count. rewrite lookup_app.
  rewrite (lookup_map_hit a_mean (fun c => AggMean (Cast (Col c))) (r_mean q) c Hc); [reflexivity|].
  intros x _ E. assert (x = c); [|subst; reflexivity]. apply String.eqb_eq. rewrite <- eqb_mean. apply String.eqb_eq. exact E.
Qed.
Lemma d3f_var c : In c (r_var q) -> lookup (a_var c) d3f = Some (ssf c c).
Proof.
  intros Hc. unfold d3f. rewrite d3f_skip by apply eqb_var_count.
  rewrite lookup_app, lookup_map_miss by (intros; apply eqb_var_mean). rewrite lookup_app.
  rewrite (lookup_map_hit a_var (fun c => ssf c c) (r_var q) c Hc); [reflexivity|].
  intros x _ E. assert (x = c); [|subst; reflexivity]. apply String.eqb_eq. rewrite <- eqb_var. apply String.eqb_eq. exact E.
Qed.
Lemma d3f_cov p : In p (r_cov q) -> lookup (a_cov p) d3f = Some (ssf (fst p) (snd p)).
Proof.
  intros Hp. unfold d3f. rewrite d3f_skip by apply eqb_cov_count.
  rewrite lookup_app, lookup_map_miss by (intros; apply eqb_cov_mean).
  rewrite lookup_app, lookup_map_miss by (intros; apply eqb_cov_var).
  rewrite (lookup_map_hit a_cov (fun p => ssf (fst p) (snd p)) (r_cov q) p Hp); [reflexivity|].
  intros x Hx E. rewrite (cov_alias_inj x p Hx Hp E). reflexivity.
Qed.
Lemma d3f_data c : data_col c -> lookup c d3f = None.
Proof.
  intros Hc. destruct (fresh c Hc) as (_ & Hv & Hcv & Hm & Hn & _). unfold d3f.
  rewrite d3f_skip by exact Hn.
  rewrite lookup_app, lookup_map_miss by (intros; apply Hm).
  rewrite lookup_app, lookup_map_miss by (intros; apply Hv).
  apply lookup_map_miss. intros; apply Hcv.
Qed.

Lemma ibis_fallback_denotes :
  exists F, run_plan (ibis_fallback_plan q g) tbl = map F (reps g tbl) /\
            forall rep, In rep (reps g tbl) -> exact_for_gen (r_has_count q) rep (F rep).
Proof.
  rewrite ibis_fallback_unfold. destruct has_covar eqn:Hc.
  - cbn [app run_plan fold_left run_step]. change (with_columns d1f tbl) with (map h1f tbl).
    unfold aggregate. rewrite (reps_map g h1f tbl keeps_h1f), map_map.
    set (tbl1f := map h1f tbl).
    exists (fun rep => agg_row g d3f tbl1f (h1f rep)). split; [reflexivity|].
    intros rep Hrep. set (l := part g rep tbl).
    assert (Hgrp : part g (h1f rep) tbl1f = map h1f l) by (apply part_map; exact keeps_h1f).
    assert (Hdm : forall c r, In c (r_covar q) -> In r l -> h1f r (a_demean c) = demean (colf c) l r).
    { intros c r Hcc Hr. rewrite (h1f_demean c r Hcc). unfold l in *. rewrite (part_of_member g rep tbl r Hr). reflexivity. }
    unfold exact_for_gen. fold l. repeat split.
    + intros H. unfold agg_row. rewrite (d3f_count H). cbn [av]. rewrite Hgrp, cnt_map. reflexivity.
    + intros c Hcm. unfold agg_row. rewrite (d3f_mean c Hcm). cbn [av]. rewrite Hgrp, smean_map.
      apply smean_ext. intros r. cbn [ev]. apply h1f_data. left. exact Hcm.
    + intros c Hcv. unfold agg_row. rewrite (d3f_var c Hcv). unfold ssf, demeaned. cbn [av ev]. rewrite Hgrp, rsum_map, cnt_map.
      unfold svar, scov. f_equal.
      apply rsum_ext_in. intros r Hr. rewrite (Hdm c r (var_in_covar c Hcv) Hr). reflexivity.
    + intros p Hp. destruct (cov_in_covar p Hp) as [H1 H2].
      unfold agg_row. rewrite (d3f_cov p Hp). unfold ssf, demeaned. cbn [av ev]. rewrite Hgrp, rsum_map, cnt_map.
      unfold scov. f_equal.
      apply rsum_ext_in. intros r Hr. rewrite (Hdm _ r H1 Hr), (Hdm _ r H2 Hr). reflexivity.
    + intros c Eg. assert (Hd : data_col c) by (right; right; exact Eg).
      unfold agg_row. rewrite (d3f_data c Hd). apply h1f_data. exact Hd.
  - cbn [app run_plan fold_left run_step]. unfold aggregate.
    exists (agg_row g d3f tbl). split; [reflexivity|].
    assert (Hnil : r_covar q = []).
    { unfold has_covar in Hc. destruct (r_covar q); [reflexivity | discriminate]. }
    intros rep Hrep. unfold exact_for_gen. repeat split.
    + intros H. unfold agg_row. rewrite (d3f_count H). reflexivity.
    + intros c Hcm. unfold agg_row. rewrite (d3f_mean c Hcm). reflexivity.
    + intros c Hcv. apply var_in_covar in Hcv. rewrite Hnil in Hcv. destruct Hcv.
    + intros p Hp. apply cov_in_covar in Hp. rewrite Hnil in Hp. destruct Hp as [[] _].
    + intros c Eg. unfold agg_row. rewrite d3f_data by (right; right; exact Eg). reflexivity.
Qed.
End Denote.
