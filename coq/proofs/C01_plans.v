(* C01 - the arithmetic behind the three query plans of aggr.py (model/ReadPlan.v, tied to the real builders by plan
   capture): each plan's var / cov output is the unbiased sample (co)variance of the group's rows. *)
From Coq Require Import Reals String List Lra.
From TT Require Import lib.Stats.
Import ListNotations.
Local Open Scope R_scope.

(* the demeaned column of a group: x - mean(x).over(group) *)
Definition demean (f : row -> R) (l : list row) : row -> R := fun r => f r - smean f l.

(* narwhals plan: mean over the group of demean(a)*demean(b), then divided by (1 - 1/_count) *)
Lemma narwhals_cov_identity f g l : (2 <= length l)%nat ->
  smean (fun r => demean f l r * demean g l r) l / (1 - 1 / cnt l) = scov f g l.
Proof.
  intros Hl. pose proof (cnt_ge2 l Hl) as Hn. unfold scov, smean at 1, demean. field. lra.
Qed.
Lemma narwhals_var_identity f l : (2 <= length l)%nat ->
  smean (fun r => demean f l r * demean f l r) l / (1 - 1 / cnt l) = svar f l.
Proof. apply narwhals_cov_identity. Qed.

(* ibis fallback plan: sum over the group of demean(a)*demean(b), divided by (count - 1) *)
Lemma fallback_cov_identity f g l :
  rsum (fun r => demean f l r * demean g l r) l / (cnt l - 1) = scov f g l.
Proof. reflexivity. Qed.

(* dropping the n/(n-1) factor, or using the population variance, would be wrong whenever the variance is non-zero *)
Lemma population_variance_differs f l : (2 <= length l)%nat -> svar f l <> 0 ->
  smean (fun r => demean f l r * demean f l r) l <> svar f l.
Proof.
  intros Hl Hv H. pose proof (cnt_ge2 l Hl) as Hn.
  pose proof (narwhals_var_identity f l Hl) as Hid.
  set (m := smean (fun r => demean f l r * demean f l r) l) in *.
  assert (Hm : m <> 0) by (rewrite H; exact Hv).
  assert (H2 : m = m * (1 - 1 / cnt l)).
  { rewrite <- Hid in H. rewrite H at 2. field. split; lra. }
  assert (H3 : m * (1 / cnt l) = 0) by lra.
  apply Rmult_integral in H3. destruct H3 as [H3|H3]; [contradiction|].
  assert (0 < 1 / cnt l) by (apply Rmult_lt_0_compat; [lra | apply Rinv_0_lt_compat; lra]). lra.
Qed.

(* two-pass shape: the demeaned columns (the only quantities that are squared / multiplied) do not depend on a common
   offset of the data, and their magnitude is that of the deviations, not of the values *)
Lemma demean_offset_free f K l : cnt l <> 0 -> forall r, demean (fun r' => f r' + K) l r = demean f l r.
Proof.
  intros Hn r. unfold demean.
  rewrite (smean_ext (fun r' => f r' + K) (fun r' => K + 1 * f r' + 0 * f r') l) by (intros; ring).
  rewrite smean_affine by exact Hn. ring.
Qed.
Lemma cov_offset_free f g K L l : cnt l <> 0 -> cnt l - 1 <> 0 ->
  scov (fun r => f r + K) (fun r => g r + L) l = scov f g l.
Proof.
  intros H0 H1.
  rewrite (scov_ext (fun r => f r + K) (fun r => K + 1 * f r + 0 * f r) (fun r => g r + L) (fun r => L + 1 * g r + 0 * g r) l)
    by (intros; ring).
  rewrite scov_affine by assumption. ring.
Qed.

(* group-wise statistics do not depend on the rows of other groups: the partition used by `over(group)` / GROUP BY *)
Definition rows_of (key : row -> bool) (tbl : list row) : list row := filter key tbl.
Lemma rows_of_app key t1 t2 : rows_of key (t1 ++ t2) = rows_of key t1 ++ rows_of key t2.
Proof. apply filter_app. Qed.
Lemma other_groups_irrelevant key tbl extra : (forall r, In r extra -> key r = false) ->
  rows_of key (tbl ++ extra) = rows_of key tbl.
Proof.
  intros H. rewrite rows_of_app. replace (rows_of key extra) with (@nil row); [apply app_nil_r|].
  symmetry. unfold rows_of. induction extra as [|r t IH]; [reflexivity|]. cbn.
  rewrite (H r (or_introl eq_refl)). apply IH. intros r' Hr'. apply H. right. exact Hr'.
Qed.
