(* C02 - invariance of the exact aggregates under row order and under changes of columns a metric does not use *)
From Coq Require Import Reals String List Lra Permutation.
From TT Require Import lib.Stats.
Import ListNotations.
Local Open Scope R_scope.

Lemma rsum_map (f : row -> R) (h : row -> row) l : rsum f (map h l) = rsum (fun r => f (h r)) l.
Proof. induction l as [|r t IH]; cbn; [reflexivity | rewrite IH; reflexivity]. Qed.
Lemma cnt_map (h : row -> row) l : cnt (map h l) = cnt l.
Proof. unfold cnt. rewrite map_length. reflexivity. Qed.
Lemma smean_map f h l : smean f (map h l) = smean (fun r => f (h r)) l.
Proof. unfold smean. rewrite rsum_map, cnt_map. reflexivity. Qed.
Lemma scov_map f g h l : scov f g (map h l) = scov (fun r => f (h r)) (fun r => g (h r)) l.
Proof. unfold scov. rewrite !smean_map, rsum_map, cnt_map. reflexivity. Qed.

(* h may drop, add or change any column outside `cols` *)
Lemma stats_ignore_other_columns (cols : list string) (h : row -> row) l a b :
  In a cols -> In b cols -> (forall r c, In c cols -> h r c = r c) ->
  cnt (map h l) = cnt l /\ smean (col a) (map h l) = smean (col a) l /\
  scov (col a) (col b) (map h l) = scov (col a) (col b) l.
Proof.
  intros Ha Hb Hh. split; [apply cnt_map|]. split.
  - rewrite smean_map. apply smean_ext. intros r. unfold col. apply Hh. exact Ha.
  - rewrite scov_map. apply scov_ext; intros r; unfold col; apply Hh; assumption.
Qed.
