(* C16 - the exponent layout of model/Render.v (exp_abs): the decimal exponent found by the fuelled search is
   floor(log10(n/d)); the mantissa is normalised (one non-zero leading digit) also when rounding carries into the next
   decade; its text and the exponent field denote exactly the pair (m, e) whose value m/10^p * 10^e is the half-even
   rounding of n/d to p+1 significant digits. *)
From Coq Require Import ZArith String Ascii List Bool Lia.
From TT Require Import model.Render proofs.C16_render proofs.C16_digits.
Import ListNotations.
Local Open Scope Z_scope.

(* n/d >= 10^e, in integers *)
Definition ge_pow10 (n d e : Z) : Prop := d * 10 ^ Z.max e 0 <= n * 10 ^ Z.max (- e) 0.

Lemma pow10_pos k : 0 <= k -> 0 < 10 ^ k.
Proof. intros H. apply Z.pow_pos_nonneg; lia. Qed.

Lemma ge_pow10_succ n d e : ge_pow10 n d (e + 1) <-> 10 * d * 10 ^ Z.max e 0 <= n * 10 ^ Z.max (- e) 0.
Proof.
  unfold ge_pow10. destruct (Z_le_gt_dec 0 e) as [H|H].
  - replace (Z.max (e + 1) 0) with (e + 1) by lia. replace (Z.max e 0) with e by lia.
    replace (Z.max (- (e + 1)) 0) with 0 by lia. replace (Z.max (- e) 0) with 0 by lia.
    rewrite Z.pow_add_r by lia. change (10 ^ 1) with 10. lia.
  - replace (Z.max (e + 1) 0) with 0 by lia. replace (Z.max e 0) with 0 by lia.
    replace (Z.max (- (e + 1)) 0) with (- e - 1) by lia. replace (Z.max (- e) 0) with ((- e - 1) + 1) by lia.
    rewrite Z.pow_add_r by lia. change (10 ^ 1) with 10. change (10 ^ 0) with 1.
    pose proof (pow10_pos (- e - 1) ltac:(lia)). lia.
Qed.

Lemma log10_up_spec n d : forall fuel e, ge_pow10 n d e -> ~ ge_pow10 n d (e + Z.of_nat fuel) ->
  ge_pow10 n d (log10_up fuel n d e) /\ ~ ge_pow10 n d (log10_up fuel n d e + 1).
Proof.
  induction fuel as [|f IH]; intros e He Hb.
  - exfalso. apply Hb. replace (e + Z.of_nat 0) with e by lia. exact He.
  - cbn [log10_up]. destruct (Z.leb_spec (10 * d * 10 ^ Z.max e 0) (n * 10 ^ Z.max (- e) 0)) as [L|L].
    + apply IH; [apply ge_pow10_succ; exact L|]. replace (e + 1 + Z.of_nat f) with (e + Z.of_nat (S f)) by lia. exact Hb.
    + split; [exact He|]. intros C. apply ge_pow10_succ in C. lia.
Qed.

Lemma log10_down_spec n d : forall fuel e, ~ ge_pow10 n d (e + 1) -> ge_pow10 n d (e - Z.of_nat fuel) ->
  ge_pow10 n d (log10_down fuel n d e) /\ ~ ge_pow10 n d (log10_down fuel n d e + 1).
Proof.
  induction fuel as [|f IH]; intros e He Hb.
  - cbn [log10_down]. replace (e - Z.of_nat 0) with e in Hb by lia. split; assumption.
  - cbn [log10_down]. destruct (Z.leb_spec (d * 10 ^ Z.max e 0) (n * 10 ^ Z.max (- e) 0)) as [L|L].
    + split; [exact L | exact He].
    + apply IH.
      * replace (e - 1 + 1) with e by lia. unfold ge_pow10. lia.
      * replace (e - 1 - Z.of_nat f) with (e - Z.of_nat (S f)) by lia. exact Hb.
Qed.

(* floor_log10 is the decimal exponent: 10^e <= n/d < 10^(e+1), for every ratio between 10^-401 and 10^400
   (binary64 values lie between 4.9e-324 and 1.8e308) *)
Theorem floor_log10_spec n d : 0 < d -> ge_pow10 n d (- 401) -> ~ ge_pow10 n d 400 ->
  ge_pow10 n d (floor_log10 n d) /\ ~ ge_pow10 n d (floor_log10 n d + 1).
Proof.
  intros Hd Hlo Hhi. unfold floor_log10. destruct (Z.leb_spec d n) as [L|L].
  - apply log10_up_spec.
    + unfold ge_pow10. cbn. lia.
    + exact Hhi.
  - apply log10_down_spec.
    + unfold ge_pow10. cbn. lia.
    + exact Hlo.
Qed.

(* the scaled fraction used by exp_abs: (n * 10^max(-e,0)) / (d * 10^max(e,0)) = (n/d) / 10^e *)
Definition scale_n (n e : Z) : Z := n * 10 ^ Z.max (- e) 0.
Definition scale_d (d e : Z) : Z := d * 10 ^ Z.max e 0.

Lemma scale_succ n d e : scale_n n (e + 1) * (10 * scale_d d e) = scale_n n e * scale_d d (e + 1).
Proof.
  unfold scale_n, scale_d. destruct (Z_le_gt_dec 0 e) as [H|H].
  - replace (Z.max (e + 1) 0) with (e + 1) by lia. replace (Z.max e 0) with e by lia.
    replace (Z.max (- (e + 1)) 0) with 0 by lia. replace (Z.max (- e) 0) with 0 by lia.
    rewrite Z.pow_add_r by lia. change (10 ^ 1) with 10. ring.
  - replace (Z.max (e + 1) 0) with 0 by lia. replace (Z.max e 0) with 0 by lia.
    replace (Z.max (- (e + 1)) 0) with (- e - 1) by lia. replace (Z.max (- e) 0) with ((- e - 1) + 1) by lia.
    rewrite Z.pow_add_r by lia. change (10 ^ 1) with 10. ring.
Qed.
Lemma scale_d_pos d e : 0 < d -> 0 < scale_d d e.
Proof. intros H. unfold scale_d. pose proof (pow10_pos (Z.max e 0) ltac:(lia)). nia. Qed.

(* rounding a fraction in [lo, hi] gives an integer in [lo, hi] *)
Lemma rhe_lower a b lo : 0 < b -> lo * b <= a -> lo <= round_half_even a b.
Proof.
  intros Hb H. pose proof (round_half_even_error a b Hb) as E. set (m := round_half_even a b) in *.
  destruct (Z_lt_ge_dec m lo) as [C|C]; [|lia]. exfalso.
  assert (m + 1 <= lo) by lia. assert ((m + 1) * b <= lo * b) by nia. lia.
Qed.
Lemma rhe_upper a b hi : 0 < b -> a <= hi * b -> round_half_even a b <= hi.
Proof.
  intros Hb H. pose proof (round_half_even_error a b Hb) as E. set (m := round_half_even a b) in *.
  destruct (Z_le_gt_dec m hi) as [C|C]; [lia|]. exfalso.
  assert (hi + 1 <= m) by lia. assert ((hi + 1) * b <= m * b) by nia. lia.
Qed.

(* the pair (mantissa numerator, exponent) that exp_abs renders *)
Definition exp_parts (n d : Z) (p : nat) : Z * Z :=
  let e0 := floor_log10 n d in
  let m0 := round_half_even (scale_n n e0 * pow10 p) (scale_d d e0) in
  let e := if 10 * pow10 p <=? m0 then e0 + 1 else e0 in
  let m := if 10 * pow10 p <=? m0 then round_half_even (scale_n n e * pow10 p) (scale_d d e) else m0 in
  (m, e).

(* normalised mantissa and correct rounding, also in the carry case 9.99.. -> 10.0 -> 1.00e+(e+1) *)
Theorem exp_parts_spec n d p : 0 < n -> 0 < d -> ge_pow10 n d (- 401) -> ~ ge_pow10 n d 400 ->
  let '(m, e) := exp_parts n d p in
  pow10 p <= m < 10 * pow10 p /\
  m = round_half_even (scale_n n e * pow10 p) (scale_d d e) /\
  2 * Z.abs (m * scale_d d e - scale_n n e * pow10 p) <= scale_d d e /\
  2 * Z.abs (m * scale_d d e - scale_n n e * pow10 p) <= scale_n n e /\
  (e = floor_log10 n d \/ (e = floor_log10 n d + 1 /\ m = pow10 p)).
Proof.
  intros Hn Hd Hlo Hhi. unfold exp_parts.
  destruct (floor_log10_spec n d Hd Hlo Hhi) as [G NG]. set (e0 := floor_log10 n d) in *.
  assert (T : 0 < pow10 p) by (unfold pow10; apply pow10_pos; lia).
  pose proof (scale_d_pos d e0 Hd) as D0. pose proof (scale_d_pos d (e0 + 1) Hd) as D1.
  set (A := scale_n n e0 * pow10 p). set (m0 := round_half_even A (scale_d d e0)).
  assert (GA : scale_d d e0 <= scale_n n e0) by exact G.
  assert (NGA : scale_n n e0 < 10 * scale_d d e0).
  { apply Z.lt_nge. intros C. apply NG. apply ge_pow10_succ. unfold scale_n, scale_d in C. lia. }
  assert (L0 : pow10 p <= m0) by (apply rhe_lower; [exact D0 | unfold A; nia]).
  assert (U0 : m0 <= 10 * pow10 p) by (apply rhe_upper; [exact D0 | unfold A; nia]).
  pose proof (round_half_even_error A (scale_d d e0) D0) as E0. fold m0 in E0.
  destruct (Z.leb_spec (10 * pow10 p) m0) as [C|C].
  - (* carry *)
    assert (M0 : m0 = 10 * pow10 p) by lia.
    set (B := scale_n n (e0 + 1) * pow10 p). set (m1 := round_half_even B (scale_d d (e0 + 1))).
    pose proof (round_half_even_error B (scale_d d (e0 + 1)) D1) as E1. fold m1 in E1.
    assert (X : B * (10 * scale_d d e0) = A * scale_d d (e0 + 1)).
    { unfold A, B. pose proof (scale_succ n d e0). nia. }
    (* A >= (10 T - 1/2) D0 and A < 10 T D0 *)
    assert (A1 : 2 * A >= (20 * pow10 p - 1) * scale_d d e0) by (rewrite M0 in E0; lia).
    assert (A2 : A < 10 * pow10 p * scale_d d e0) by (unfold A; nia).
    assert (U1 : m1 <= pow10 p).
    { apply rhe_upper; [exact D1|].
      assert (B * (10 * scale_d d e0) <= pow10 p * scale_d d (e0 + 1) * (10 * scale_d d e0)) by (rewrite X; nia).
      nia. }
    assert (L1 : pow10 p <= m1).
    { destruct (Z_lt_ge_dec m1 (pow10 p)) as [Q|Q]; [|lia]. exfalso.
      assert (Q' : m1 + 1 <= pow10 p) by lia.
      (* 2 (B - m1 D1) <= D1 ; multiply by 10 D0 : 2 (A D1 - 10 m1 D0 D1) <= 10 D0 D1 *)
      assert (S1 : 2 * (B - m1 * scale_d d (e0 + 1)) <= scale_d d (e0 + 1)) by lia.
      assert (S2 : 2 * (B * (10 * scale_d d e0) - m1 * scale_d d (e0 + 1) * (10 * scale_d d e0))
                   <= scale_d d (e0 + 1) * (10 * scale_d d e0)) by nia.
      rewrite X in S2.
      assert (S3 : 2 * (A - 10 * m1 * scale_d d e0) <= 10 * scale_d d e0) by nia.
      assert (S4 : 10 * m1 * scale_d d e0 <= 10 * (pow10 p - 1) * scale_d d e0) by nia.
      nia. }
    assert (M1 : m1 = pow10 p) by lia.
    assert (R1 : 2 * Z.abs (m1 * scale_d d (e0 + 1) - B) <= scale_n n (e0 + 1)).
    { rewrite M1.
      assert (Y1 : 20 * B >= (20 * pow10 p - 1) * scale_d d (e0 + 1)).
      { assert (2 * (B * (10 * scale_d d e0)) >= (20 * pow10 p - 1) * scale_d d e0 * scale_d d (e0 + 1)) by (rewrite X; nia).
        nia. }
      assert (Y2 : B <= pow10 p * scale_d d (e0 + 1)).
      { assert (B * (10 * scale_d d e0) <= pow10 p * scale_d d (e0 + 1) * (10 * scale_d d e0)) by (rewrite X; nia). nia. }
      assert (Y3 : 20 * scale_n n (e0 + 1) >= 19 * scale_d d (e0 + 1)) by (unfold B in Y1; nia).
      rewrite Z.abs_eq by lia. lia. }
    repeat split; lia.
  - repeat split; lia.
Qed.

(* the text: mantissa digits, ".", p fraction digits, "e", sign, at least two exponent digits *)
Definition exp_text (m e : Z) (p : nat) : string :=
  let ip := m / pow10 p in let fp := m mod pow10 p in
  let fs := digits fp in
  (digits ip ++ (match p with O => EmptyString | _ => String "." (pad_zeros (p - str_len fs) fs) end)
   ++ "e" ++ (if Z.ltb e 0 then "-" else "+") ++ (if Z.ltb (Z.abs e) 10 then "0" else "") ++ digits (Z.abs e))%string.

Lemma exp_abs_text n d p : exp_abs n d p = let '(m, e) := exp_parts n d p in exp_text m e p.
Proof. reflexivity. Qed.

(* the fields of the text denote m and e *)
Theorem exp_fields_denote m e p : pow10 p <= m < 10 * pow10 p -> (0 < p)%nat ->
  let ip := m / pow10 p in let fp := m mod pow10 p in
  let frac := pad_zeros (p - str_len (digits fp)) (digits fp) in
  1 <= ip <= 9 /\ digits ip = String (digit_char ip) EmptyString /\
  parse_nat frac = fp /\ str_len frac = p /\ ip * pow10 p + fp = m /\
  parse_nat (digits (Z.abs e)) = Z.abs e.
Proof.
  intros Hm Hp ip fp frac.
  assert (T : 0 < pow10 p) by (unfold pow10; apply pow10_pos; lia).
  assert (Hip : 1 <= ip <= 9).
  { unfold ip. split.
    - apply Z.div_le_lower_bound; lia.
    - assert (m / pow10 p < 10) by (apply Z.div_lt_upper_bound; lia). lia. }
  destruct (fixed_fields_denote m p ltac:(lia) Hp) as (_ & F2 & F3 & F4).
  destruct (digits_spec (Z.abs e) ltac:(lia)) as (_ & E2 & _).
  repeat split; try lia; try assumption.
  assert (C : ip = 1 \/ ip = 2 \/ ip = 3 \/ ip = 4 \/ ip = 5 \/ ip = 6 \/ ip = 7 \/ ip = 8 \/ ip = 9) by lia.
  repeat (destruct C as [-> | C]; [reflexivity|]). rewrite C. reflexivity.
Qed.
