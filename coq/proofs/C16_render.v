(* C16 - rendering. About model/Render.v. *)
From Coq Require Import ZArith String Ascii List Bool Lia.
From TT Require Import model.Render.
Import ListNotations.
Local Open Scope Z_scope.

(* ---------- exact rounding ---------- *)
Lemma round_half_even_error n d : 0 < d -> 2 * Z.abs (round_half_even n d * d - n) <= d.
Proof.
  intros Hd. unfold round_half_even.
  pose proof (Z.div_mod n d ltac:(lia)) as Hdm. pose proof (Z.mod_pos_bound n d Hd) as Hr.
  set (q := n / d) in *. set (r := n mod d) in *.
  assert (H1 : q * d - n = - r) by nia.
  assert (H2 : (q + 1) * d - n = d - r) by nia.
  destruct (Z.compare_spec (2 * r) d) as [E|E|E].
  - destruct (Z.even q); [rewrite H1 | rewrite H2]; lia.
  - rewrite H1. lia.
  - rewrite H2. lia.
Qed.

(* ties go to the even neighbour *)
Lemma round_half_even_tie n d : 0 < d -> 2 * (n mod d) = d -> Z.even (round_half_even n d) = true.
Proof.
  intros Hd Ht. unfold round_half_even. rewrite (proj2 (Z.compare_eq_iff _ _) Ht).
  destruct (Z.even (n / d)) eqn:E; [exact E|]. rewrite Z.even_add, E. reflexivity.
Qed.

(* rounding a/d to p decimals when s significant digits are requested and 10^e <= a/d with p = s-1-e:
   hypothesis  d * 10^(s-1) <= a * 10^p  is exactly  10^(s-1-p) <= a/d.
   conclusion  2 * |m*d - a*10^p| * 10^(s-1) <= a * 10^p  is exactly  |m/10^p - a/d| <= 1/2 * 10^(1-s) * (a/d). *)
Lemma significant_digits_error a d (s p : nat) : 0 < d -> 0 <= a ->
  d * 10 ^ Z.of_nat (s - 1) <= a * pow10 p ->
  let m := round_half_even (a * pow10 p) d in
  2 * Z.abs (m * d - a * pow10 p) * 10 ^ Z.of_nat (s - 1) <= a * pow10 p.
Proof.
  intros Hd Ha H m. pose proof (round_half_even_error (a * pow10 p) d Hd) as He. fold m in He.
  assert (0 < 10 ^ Z.of_nat (s - 1)) by (apply Z.pow_pos_nonneg; lia).
  nia.
Qed.

(* ---------- strings ---------- *)
Lemma str_len_app a b : str_len (a ++ b) = (str_len a + str_len b)%nat.
Proof. induction a as [|c t IH]; cbn; [reflexivity|]. destruct (is_continuation c); rewrite IH; reflexivity. Qed.

Lemma rjust_len w s : str_len (rjust w s) = Nat.max w (str_len s).
Proof.
  unfold rjust. remember (w - str_len s)%nat as k eqn:Hk.
  assert (G : forall k, str_len ((fix pad k := match k with O => s | S k' => String " " (pad k') end) k) = (k + str_len s)%nat).
  { induction k0 as [|k0 IH]; [reflexivity|]. cbn [str_len]. change (is_continuation " ") with false. cbn. rewrite IH. reflexivity. }
  rewrite G. lia.
Qed.
Lemma rjust_suffix w s : exists pad, rjust w s = (pad ++ s)%string /\ forallb (Ascii.eqb " ") (to_list pad) = true.
Proof.
  unfold rjust. induction (w - str_len s)%nat as [|k [pad [E F]]].
  - exists EmptyString. split; reflexivity.
  - exists (String " " pad). split; [cbn; rewrite E; reflexivity | cbn; exact F].
Qed.

(* every cell is right-justified to the width of its column, which is at least the length of every cell and of the header *)
Lemma col_width_ge_header h cells : (str_len h <= col_width h cells)%nat.
Proof.
  unfold col_width. generalize (str_len h) as w0.
  induction cells as [|c t IH]; intros w0; cbn; [lia|]. specialize (IH (Nat.max w0 (str_len c))). lia.
Qed.
Lemma col_width_ge_cell h cells c : In c cells -> (str_len c <= col_width h cells)%nat.
Proof.
  unfold col_width. generalize (str_len h) as w0. induction cells as [|x t IH]; intros w0 Hin; [destruct Hin|].
  cbn. destruct Hin as [->|Hin].
  - clear IH. revert w0. induction t as [|y t IH']; intros w0; cbn; [lia|].
    specialize (IH' (Nat.max w0 (str_len c))).
    assert (G : forall a b l, (a <= b)%nat -> (fold_left (fun w c0 => Nat.max w (str_len c0)) l a <= fold_left (fun w c0 => Nat.max w (str_len c0)) l b)%nat).
    { intros a b l. revert a b. induction l as [|z l IHl]; intros a b Hab; cbn; [exact Hab | apply IHl; lia]. }
    eapply Nat.le_trans; [exact IH'|]. apply G. lia.
  - apply IH. exact Hin.
Qed.
Lemma padded_cell_has_column_width h cells c : In c cells -> str_len (rjust (col_width h cells) c) = col_width h cells.
Proof. intros H. rewrite rjust_len. pose proof (col_width_ge_cell h cells c H). lia. Qed.

(* ---------- HTML escaping ---------- *)
Lemma escape_no_angle s : forallb (fun c => negb (Ascii.eqb c "<") && negb (Ascii.eqb c ">")) (to_list (escape_html s)) = true.
Proof.
  induction s as [|c t IH]; [reflexivity|]. cbn [escape_html].
  assert (A : forall a b, to_list (a ++ b) = (to_list a ++ to_list b)%list).
  { induction a as [|x a IHa]; intros b; cbn; [reflexivity | rewrite IHa; reflexivity]. }
  rewrite A, forallb_app, IH, andb_true_r.
  destruct (Ascii.eqb c "&") eqn:E1; [reflexivity|].
  destruct (Ascii.eqb c "<") eqn:E2; [reflexivity|].
  destruct (Ascii.eqb c ">") eqn:E3; [reflexivity|]. cbn. rewrite E2, E3. reflexivity.
Qed.

Fixpoint unescape_html (s : string) : string :=
  match s with
  | EmptyString => EmptyString
  | String "&" (String "a" (String "m" (String "p" (String ";" t)))) => String "&" (unescape_html t)
  | String "&" (String "l" (String "t" (String ";" t))) => String "<" (unescape_html t)
  | String "&" (String "g" (String "t" (String ";" t))) => String ">" (unescape_html t)
  | String c t => String c (unescape_html t)
  end.
Lemma unescape_escape s : unescape_html (escape_html s) = s.
Proof.
  induction s as [|c t IH]; [reflexivity|]. cbn [escape_html].
  destruct (Ascii.eqb c "&") eqn:E1; [apply Ascii.eqb_eq in E1; subst; cbn; rewrite IH; reflexivity|].
  destruct (Ascii.eqb c "<") eqn:E2; [apply Ascii.eqb_eq in E2; subst; cbn; rewrite IH; reflexivity|].
  destruct (Ascii.eqb c ">") eqn:E3; [apply Ascii.eqb_eq in E3; subst; cbn; rewrite IH; reflexivity|].
  cbn [append]. destruct c as [b0 b1 b2 b3 b4 b5 b6 b7].
  destruct b0, b1, b2, b3, b4, b5, b6, b7; try (cbn; rewrite IH; reflexivity); cbn in E1; discriminate.
Qed.
