(* C08 - reported power is the textbook power of the configured test. About genR/Mean.rom_power_from_stats. *)
From Coq Require Import Reals String List Lra.
From TT Require Import lib.RTac lib.PreludeR lib.Stats lib.Distr genR.Aggr genR.Mean proofs.C14_pooling proofs.Mean_core
  proofs.Mean_aggr proofs.C06_cuped.
Import ListNotations.
Local Open Scope R_scope.

Section Power.
Variable fam : dist_family R.
Variables (cfg : rom) (v n delta : R).
Let r := cfg_ratio cfg.
Let nc := n / (1 + r).            (* control observations *)
Let nt := n * r / (1 + r).        (* treatment observations *)
Let ev := cfg_equal_var cfg. Let ut := cfg_use_t cfg.
Let se := se_of ev v nc v nt.
Let df := df_of ev v nc v nt.
Let null := null_of fam ev ut v nc v nt.
Let alt := alt_of fam ut df (delta / se).
Let a := cfg_alpha cfg.

(* the generated function, spelled out: group sizes n/(1+r) and n r/(1+r); rejection probability under the alternative *)
Lemma power_textbook :
  rom_power_from_stats fam cfg v n delta =
  match cfg_alternative cfg with
  | Greater => sf alt (isf null a)
  | Less => cdf alt (ppf null a)
  | TwoSided => cdf alt (- isf null (a / 2)) + sf alt (isf null (a / 2))
  end.
Proof.
  unfold rom_power_from_stats. rewrite scale_and_distr_some. fold r. nR.
  destruct (cfg_alternative cfg); first [reflexivity | (cbv beta iota zeta; cbn [alternative_eqb oget_dist]; unfold alt, null, a, df, se, ev, ut, nt, nc; rq)].
Qed.
End Power.

Section PowerLaws.
Variable fam : dist_family R.
Hypothesis HF : fam_laws fam.
Variables (cfg : rom) (v n : R).
Hypothesis Hr : 0 < cfg_ratio cfg.
Hypothesis Hv : 0 < v.
Hypothesis Hnc : 1 < n / (1 + cfg_ratio cfg).
Hypothesis Hnt : 1 < n * cfg_ratio cfg / (1 + cfg_ratio cfg).
Hypothesis Ha : 0 < cfg_alpha cfg < 1.

Let nc := n / (1 + cfg_ratio cfg).
Let nt := n * cfg_ratio cfg / (1 + cfg_ratio cfg).
Let se := se_of (cfg_equal_var cfg) v nc v nt.
Let df := df_of (cfg_equal_var cfg) v nc v nt.
Let null := null_of fam (cfg_equal_var cfg) (cfg_use_t cfg) v nc v nt.

Lemma se_pos : 0 < se. Proof. apply se_of_pos; unfold nc, nt; try assumption; lra. Qed.
Lemma df_pos : 0 < df. Proof. apply df_of_pos; unfold nc, nt; try assumption; lra. Qed.
Lemma null_laws : dist_laws null /\ symmetric null.
Proof. apply (null_of_laws fam _ _ v nc v nt HF); unfold nc, nt; try assumption; lra. Qed.
Lemma alt_laws delta : dist_laws (alt_of fam (cfg_use_t cfg) df (delta / se)).
Proof. unfold alt_of. destruct (cfg_use_t cfg); [apply (F_nct fam HF), df_pos | apply (F_norm fam HF)]. Qed.

(* power lies in [0, 1] *)
Lemma power_range delta : 0 <= rom_power_from_stats fam cfg v n delta <= 1.
Proof.
  rewrite power_textbook. fold nc nt se df null.
  pose proof (alt_laws delta) as HA. destruct null_laws as [HN HS].
  set (alt := alt_of fam (cfg_use_t cfg) df (delta / se)) in *.
  destruct (cfg_alternative cfg).
  - (* two-sided *)
    assert (Hc : 0 <= isf null (cfg_alpha cfg / 2)).
    { rewrite (isf_neg_ppf _ HN HS) by lra. rewrite <- (ppf_sym _ HN HS) by lra.
      apply (ppf_nonneg _ HN HS). lra. }
    rewrite (L_sf _ HA).
    pose proof (L_range _ HA (- isf null (cfg_alpha cfg / 2))). pose proof (L_range _ HA (isf null (cfg_alpha cfg / 2))).
    assert (cdf alt (- isf null (cfg_alpha cfg / 2)) <= cdf alt (isf null (cfg_alpha cfg / 2))) by (apply (cdf_le _ HA); lra).
    lra.
  - rewrite (L_sf _ HA). pose proof (L_range _ HA (isf null (cfg_alpha cfg))). lra.
  - pose proof (L_range _ HA (ppf null (cfg_alpha cfg))). lra.
Qed.

(* the distribution under the alternative is stochastically increasing in the standardised effect *)
Lemma alt_mono d1 d2 x : d1 < d2 ->
  cdf (alt_of fam (cfg_use_t cfg) df (d2 / se)) x < cdf (alt_of fam (cfg_use_t cfg) df (d1 / se)) x.
Proof.
  intros Hd. pose proof se_pos as Hs.
  assert (Hq : d1 / se < d2 / se) by (apply Rmult_lt_compat_r; [apply Rinv_0_lt_compat; exact Hs | exact Hd]).
  unfold alt_of. destruct (cfg_use_t cfg).
  - apply (F_nct_mono fam HF); [apply df_pos | exact Hq].
  - rewrite (F_norm_shift fam HF (d2 / se)), (F_norm_shift fam HF (d1 / se)). apply (L_mono _ (F_norm fam HF 0)). lra.
Qed.

(* power never decreases when the effect grows in the direction of the alternative *)
Lemma power_mono_greater d1 d2 : cfg_alternative cfg = Greater -> d1 < d2 ->
  rom_power_from_stats fam cfg v n d1 < rom_power_from_stats fam cfg v n d2.
Proof.
  intros Halt Hd. rewrite !power_textbook, Halt. fold nc nt se df null.
  rewrite !(L_sf _ (alt_laws _)). pose proof (alt_mono d1 d2 (isf null (cfg_alpha cfg)) Hd). lra.
Qed.
Lemma power_mono_less d1 d2 : cfg_alternative cfg = Less -> d1 < d2 ->
  rom_power_from_stats fam cfg v n d2 < rom_power_from_stats fam cfg v n d1.
Proof.
  intros Halt Hd. rewrite !power_textbook, Halt. fold nc nt se df null.
  apply (alt_mono d1 d2 (ppf null (cfg_alpha cfg)) Hd).
Qed.

(* Z test: closed form through the standard normal *)
Lemma power_z_greater delta : cfg_use_t cfg = false -> cfg_alternative cfg = Greater ->
  rom_power_from_stats fam cfg v n delta = 1 - cdf (norm_ fam 0) (ppf (norm_ fam 0) (1 - cfg_alpha cfg) - delta / se).
Proof.
  intros Hut Halt. rewrite power_textbook, Halt. fold nc nt se df null.
  unfold alt_of, null, null_of. rewrite Hut.
  rewrite (L_sf _ (F_norm fam HF _)), (F_norm_shift fam HF (delta / se)), (L_isf _ (F_norm fam HF 0)) by exact Ha. reflexivity.
Qed.
End PowerLaws.

(* a covariate never raises the variance behind the test (so never lowers power): var(Y - theta X) <= var Y *)
Lemma adjusted_variance_formula yy c vx : vx <> 0 ->
  1 * 1 * yy + 1 * - (c / vx) * c + - (c / vx) * 1 * c + - (c / vx) * - (c / vx) * vx = yy - c * c / vx.
Proof. intros H. field. exact H. Qed.

Lemma covariate_never_raises_variance cfg l : dens_ok cfg l ->
  rom_metric_var cfg (aggr_of l) (theta_of cfg l) <= svar (linY cfg l) l.
Proof.
  intros [Hl Hy Hx]. pose proof (cnt_ge2 l Hl) as Hn.
  rewrite (metric_var_repr cfg l Hl Hy Hx).
  set (Y := linY cfg l). set (X := linX cfg l). unfold svar.
  rewrite (scov_ext (fun r => Y r - theta_of cfg l * X r) (fun r => 0 + 1 * Y r + (- theta_of cfg l) * X r)
                    (fun r => Y r - theta_of cfg l * X r) (fun r => 0 + 1 * Y r + (- theta_of cfg l) * X r) l)
    by (intros r; ring).
  rewrite scov_affine by lra. rewrite (scov_sym X Y).
  unfold theta_of. fold X Y. destruct (Req_EM_T (svar X l) 0) as [E|E].
  - right. ring.
  - assert (Hvx : 0 < svar X l).
    { assert (H0 : 0 <= svar X l) by (apply svar_nonneg; lra). destruct H0 as [H0|H0]; [exact H0 | congruence]. }
    unfold svar in *. rewrite adjusted_variance_formula by exact E.
    assert (H1 : 0 <= scov Y X l * scov Y X l) by apply Rle_0_sqr.
    assert (H2 : 0 <= scov Y X l * scov Y X l / scov X X l).
    { apply Rmult_le_pos; [exact H1 | apply Rlt_le, Rinv_0_lt_compat; exact Hvx]. }
    apply Rplus_le_reg_r with (scov Y X l * scov Y X l / scov X X l). ring_simplify.
    apply Rplus_le_reg_l with (- scov Y Y l). ring_simplify. exact H2.
Qed.

(* ---------- Z test: power never decreases when n grows (effect in the direction of the alternative) ---------- *)
Section PowerInN.
Variable fam : dist_family R.
Hypothesis HF : fam_laws fam.
Variables (cfg : rom) (v : R).
Hypothesis Hr : 0 < cfg_ratio cfg.
Hypothesis Hv : 0 < v.
Hypothesis Ha : 0 < cfg_alpha cfg < 1.
Hypothesis Hz : cfg_use_t cfg = false.
Notation r := (cfg_ratio cfg).

Definition se_n (n : R) : R := se_of (cfg_equal_var cfg) v (n / (1 + r)) v (n * r / (1 + r)).

(* the standard error as a function of the total sample size: sqrt(v (1+r)^2 / (n r)), pooled or not *)
Lemma se_n_closed n : 1 < n / (1 + r) -> 1 < n * r / (1 + r) -> se_n n = sqrt (v * ((1 + r) * (1 + r)) / (n * r)).
Proof.
  intros Hc Ht. unfold se_n. rewrite se_of_plain by lra. unfold se_plain, pooled_var.
  assert (Hn : 0 < n).
  { assert (0 < n / (1 + r)) by lra. assert (H1 : n = n / (1 + r) * (1 + r)) by (field; lra).
    rewrite H1. apply Rmult_lt_0_compat; lra. }
  destruct (cfg_equal_var cfg); f_equal; field; repeat split; try lra.
  assert (n / (1 + r) + n * r / (1 + r) = n) by (field; lra).
  intros E. assert (n * r + n - 2 * (1 + r) = (1 + r) * (n / (1 + r) + n * r / (1 + r) - 2)) by (field; lra). nra.
Qed.

Lemma se_n_decreasing n1 n2 : 1 < n1 / (1 + r) -> 1 < n1 * r / (1 + r) -> n1 < n2 -> se_n n2 < se_n n1.
Proof.
  intros Hc Ht Hlt.
  assert (Hn1 : 0 < n1).
  { assert (0 < n1 / (1 + r)) by lra. assert (H1 : n1 = n1 / (1 + r) * (1 + r)) by (field; lra).
    rewrite H1. apply Rmult_lt_0_compat; lra. }
  assert (Hinv : 0 < / (1 + r)) by (apply Rinv_0_lt_compat; lra).
  assert (Hc2 : 1 < n2 / (1 + r)).
  { assert (n1 / (1 + r) < n2 / (1 + r)) by (apply Rmult_lt_compat_r; assumption). lra. }
  assert (Ht2 : 1 < n2 * r / (1 + r)).
  { assert (n1 * r / (1 + r) < n2 * r / (1 + r)).
    { apply Rmult_lt_compat_r; [exact Hinv|]. apply Rmult_lt_compat_r; assumption. } lra. }
  rewrite !se_n_closed by assumption.
  assert (Hk : 0 < v * ((1 + r) * (1 + r))) by (apply Rmult_lt_0_compat; [exact Hv | apply Rmult_lt_0_compat; lra]).
  apply sqrt_lt_1_alt. split.
  - apply Rlt_le. apply Rdiv_lt_0_compat; [exact Hk | apply Rmult_lt_0_compat; lra].
  - unfold Rdiv. apply Rmult_lt_compat_l; [exact Hk|]. apply Rinv_lt_contravar.
    + apply Rmult_lt_0_compat; apply Rmult_lt_0_compat; lra.
    + apply Rmult_lt_compat_r; assumption.
Qed.

Lemma se_n_pos n : 1 < n / (1 + r) -> 1 < n * r / (1 + r) -> 0 < se_n n.
Proof. intros Hc Ht. unfold se_n. apply se_of_pos; lra. Qed.

Lemma power_z_mono_n_greater n1 n2 delta : cfg_alternative cfg = Greater -> 0 < delta ->
  1 < n1 / (1 + r) -> 1 < n1 * r / (1 + r) -> n1 < n2 ->
  rom_power_from_stats fam cfg v n1 delta < rom_power_from_stats fam cfg v n2 delta.
Proof.
  intros Halt Hd Hc Ht Hlt.
  assert (Hinv : 0 < / (1 + r)) by (apply Rinv_0_lt_compat; lra).
  assert (Hc2 : 1 < n2 / (1 + r)).
  { assert (n1 / (1 + r) < n2 / (1 + r)) by (apply Rmult_lt_compat_r; assumption). lra. }
  assert (Ht2 : 1 < n2 * r / (1 + r)).
  { assert (Hn1 : 0 < n1).
    { assert (0 < n1 / (1 + r)) by lra. assert (H1 : n1 = n1 / (1 + r) * (1 + r)) by (field; lra).
      rewrite H1. apply Rmult_lt_0_compat; lra. }
    assert (n1 * r / (1 + r) < n2 * r / (1 + r)).
    { apply Rmult_lt_compat_r; [exact Hinv|]. apply Rmult_lt_compat_r; assumption. } lra. }
  rewrite (power_z_greater fam HF cfg v n1 Ha delta Hz Halt).
  rewrite (power_z_greater fam HF cfg v n2 Ha delta Hz Halt).
  fold (se_n n1) (se_n n2).
  pose proof (se_n_decreasing n1 n2 Hc Ht Hlt) as Hse. pose proof (se_n_pos n2 Hc2 Ht2) as Hp2. pose proof (se_n_pos n1 Hc Ht) as Hp1.
  assert (Hq : delta / se_n n1 < delta / se_n n2).
  { unfold Rdiv. apply Rmult_lt_compat_l; [exact Hd|]. apply Rinv_lt_contravar; [apply Rmult_lt_0_compat; assumption | exact Hse]. }
  pose proof (L_mono _ (F_norm fam HF 0) (ppf (norm_ fam 0) (1 - cfg_alpha cfg) - delta / se_n n2)
                (ppf (norm_ fam 0) (1 - cfg_alpha cfg) - delta / se_n n1) ltac:(lra)). lra.
Qed.

Lemma power_z_mono_n_less n1 n2 delta : cfg_alternative cfg = Less -> delta < 0 ->
  1 < n1 / (1 + r) -> 1 < n1 * r / (1 + r) -> n1 < n2 ->
  rom_power_from_stats fam cfg v n1 delta < rom_power_from_stats fam cfg v n2 delta.
Proof.
  intros Halt Hd Hc Ht Hlt.
  assert (Hinv : 0 < / (1 + r)) by (apply Rinv_0_lt_compat; lra).
  assert (Hc2 : 1 < n2 / (1 + r)).
  { assert (n1 / (1 + r) < n2 / (1 + r)) by (apply Rmult_lt_compat_r; assumption). lra. }
  assert (Ht2 : 1 < n2 * r / (1 + r)).
  { assert (n1 * r / (1 + r) < n2 * r / (1 + r)).
    { apply Rmult_lt_compat_r; [exact Hinv|]. apply Rmult_lt_compat_r; assumption. } lra. }
  rewrite !power_textbook, Halt. unfold alt_of, null_of. rewrite Hz.
  fold (se_n n1) (se_n n2).
  rewrite (F_norm_shift fam HF (delta / se_n n1)), (F_norm_shift fam HF (delta / se_n n2)).
  pose proof (se_n_decreasing n1 n2 Hc Ht Hlt) as Hse. pose proof (se_n_pos n2 Hc2 Ht2) as Hp2. pose proof (se_n_pos n1 Hc Ht) as Hp1.
  assert (Hq : delta / se_n n2 < delta / se_n n1).
  { assert (- delta / se_n n1 < - delta / se_n n2).
    { unfold Rdiv. apply Rmult_lt_compat_l; [lra|]. apply Rinv_lt_contravar; [apply Rmult_lt_0_compat; assumption | exact Hse]. }
    unfold Rdiv in *. lra. }
  apply (L_mono _ (F_norm fam HF 0)). lra.
Qed.
End PowerInN.
