(* C17 - changing units or swapping variant roles changes results only as it must.
   Statements about the model regenerated from metrics/mean.py / aggr.py on the exact aggregates of the rows. *)
From Coq Require Import Reals String List Lra.
From TT Require Import lib.PreludeR lib.Stats lib.Distr lib.DistrWitness lib.ExtR genR.Aggr genR.Mean
  proofs.C14_pooling proofs.Mean_core proofs.Mean_aggr proofs.C06_cuped proofs.C17_units.
Import ListNotations.
Local Open Scope R_scope.

(* statistics level: means x k, variances x k^2  ==>  means, effect, absolute interval x k; the rest unchanged *)
Theorem C17_scale_statistics fam cfg cm cv cn tm tv tn k :
  0 < k -> 1 < cn -> 1 < tn -> cm <> 0 -> tm <> 0 -> 0 <= cv -> 0 <= tv -> 0 < cv + tv ->
  rom_analyze_stats fam cfg (k * cm) (k * k * cv) cn (k * tm) (k * k * tv) tn
  = scaled_result k (rom_analyze_stats fam cfg cm cv cn tm tv tn).
Proof. exact (analyze_stats_scale_lemma fam cfg cm cv cn tm tv tn k). Qed.

(* row level, any metric with or without covariates: if a change of the metric's columns multiplies the
   linearised metric by k > 0 in every sample (control, treatment, pooled), the result is scaled_result k *)
Theorem C17_scale_metric fam cfg cfg' lc lt k :
  0 < k ->
  cfg_numer_covariate cfg' = cfg_numer_covariate cfg -> cfg_denom_covariate cfg' = cfg_denom_covariate cfg ->
  cfg_alternative cfg' = cfg_alternative cfg -> cfg_confidence_level cfg' = cfg_confidence_level cfg ->
  cfg_equal_var cfg' = cfg_equal_var cfg -> cfg_use_t cfg' = cfg_use_t cfg ->
  dens_ok cfg lc -> dens_ok cfg' lc -> dens_ok cfg lt -> dens_ok cfg' lt ->
  dens_ok cfg (lc ++ lt) -> dens_ok cfg' (lc ++ lt) ->
  (forall r, In r lc -> linY cfg' lc r = k * linY cfg lc r) ->
  (forall r, In r lt -> linY cfg' lt r = k * linY cfg lt r) ->
  (forall r, In r (lc ++ lt) -> linY cfg' (lc ++ lt) r = k * linY cfg (lc ++ lt) r) ->
  smean (adj cfg (lc ++ lt) lc) lc <> 0 -> smean (adj cfg (lc ++ lt) lt) lt <> 0 ->
  0 < svar (adj cfg (lc ++ lt) lc) lc + svar (adj cfg (lc ++ lt) lt) lt ->
  rom_analyze_aggregates fam cfg' (aggr_of lc) (aggr_of lt)
  = scaled_result k (rom_analyze_aggregates fam cfg (aggr_of lc) (aggr_of lt)).
Proof. exact (scale_rows_lemma fam cfg cfg' lc lt k). Qed.

(* multiplying the metric's (numerator) column by k multiplies the linearised metric by k ... *)
Theorem C17_numerator_scaling_scales_linearisation f f' g k l :
  (forall r, In r l -> f' r = k * f r) -> forall r, In r l -> lin f' g l r = k * lin f g l r.
Proof. exact (lin_scale_numer0 f f' g k l). Qed.
(* ... and multiplying numerator and denominator by the same k changes nothing (k = 1 in C17_scale_metric) *)
Theorem C17_common_factor_cancels f f' g g' k l : k <> 0 -> smean g l <> 0 ->
  (forall r, In r l -> f' r = k * f r) -> (forall r, In r l -> g' r = k * g r) ->
  forall r, In r l -> lin f' g' l r = 1 * lin f g l r.
Proof. exact (lin_scale_both f f' g g' k l). Qed.

(* swapping control and treatment and mirroring a one-sided alternative *)
Theorem C17_swap_roles fam cfg lc lt : fam_laws fam ->
  dens_ok cfg lc -> dens_ok cfg lt -> dens_ok cfg (lc ++ lt) -> 0 < cfg_confidence_level cfg < 1 ->
  0 < svar (adj cfg (lc ++ lt) lc) lc + svar (adj cfg (lc ++ lt) lt) lt ->
  let r := rom_analyze_aggregates fam cfg (aggr_of lc) (aggr_of lt) in
  let r' := rom_analyze_aggregates fam (rom_with_alternative cfg (mirror (cfg_alternative cfg))) (aggr_of lt) (aggr_of lc) in
  mr_control r' = mr_treatment r /\ mr_treatment r' = mr_control r /\
  mr_effect_size r' = - mr_effect_size r /\ mr_statistic r' = - mr_statistic r /\
  mr_pvalue r' = mr_pvalue r /\
  mr_effect_size_ci_lower r' = eneg (mr_effect_size_ci_upper r) /\
  mr_effect_size_ci_upper r' = eneg (mr_effect_size_ci_lower r).
Proof. intros HF. exact (swap_rows_lemma fam HF cfg lc lt). Qed.

Example C17_nonvacuous :
  let r1 : row := fun c => if String.eqb c "x" then 1 else 2 in
  let r2 : row := fun c => if String.eqb c "x" then 3 else 5 in
  fam_laws logistic_family /\
  dens_ok (mean_cfg "x" (Some "c"%string) TwoSided (95 / 100) false true (5 / 100) 1 (8 / 10)) [r1; r2].
Proof.
  cbv zeta. split; [exact logistic_family_laws|].
  apply dens_ok_no_denoms; [reflexivity | reflexivity | apply le_n].
Qed.

Print Assumptions C17_scale_statistics.
Print Assumptions C17_scale_metric.
Print Assumptions C17_numerator_scaling_scales_linearisation.
Print Assumptions C17_common_factor_cancels.
Print Assumptions C17_swap_roles.
